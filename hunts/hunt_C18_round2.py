"""Hunt script for property C18 (wheel file names and platform names are parsed faithfully).

Run:  cd /tmp/wt/C18g && PYTHONPATH=/tmp/wt/C18g/src /venv/bin/python hunt_C18.py

Part 1 prints the NEW finding that lies inside the quantifier (file names packaging accepts).
Part 2 prints borderline findings (platform strings next to / outside the documented families).
Part 3 re-runs the random comparison against packaging that found nothing else.
"""

from __future__ import annotations

import random

from packaging.utils import InvalidWheelFilename as PkgInvalidWheelFilename
from packaging.utils import parse_wheel_filename

from dep_logic.tags import os as O
from dep_logic.tags.platform import Arch, Platform, PlatformError
from dep_logic.tags.tags import EnvSpec, InvalidWheelFilename, parse_wheel_tags


def call(f):
    try:
        return ("ok", f())
    except Exception as e:  # noqa: BLE001
        return ("raise", f"{type(e).__name__}: {e}")


print("=" * 78)
print("PART 1  N1: wheel_compatibility() crashes with a bare ValueError on wheel names")
print("        packaging accepts (python tag whose 'minor' part is a PEP 440 suffix)")
print("=" * 78)
env = EnvSpec.from_spec(">=3.8")
for fn in [
    "foo-1.0-py3a1-none-any.whl",
    "foo-1.0-py31post1-none-any.whl",
    "foo-1.0-py30rc1-none-any.whl",
    "foo-1.0-cp31a1-abi3-any.whl",
    "foo-1.0-cp30rc1-abi3-manylinux_2_17_x86_64.whl",
    "foo-1.0-1-py2.py3dev0-none-any.whl",
]:
    tags = sorted(str(t) for t in parse_wheel_filename(fn)[3])
    print(f"input            : {fn}")
    print(f"  packaging      : accepted, tags = {tags}")
    print(f"  parse_wheel_tags: {call(lambda: parse_wheel_tags(fn))}")
    print(f"  wheel_compatibility(>=3.8): {call(lambda: env.wheel_compatibility(fn))}")
    print(
        "  expected       : a verdict (None: no interpreter is called 3.a1) or at least a TagsError;"
        " sibling spellings such as py3_1 / cp31dev0 / cpx do return None"
    )
print()
print("mechanism: _evaluate_python builds f'>={major}.{minor}', which IS a valid specifier")
print("for minor='a1'/'1post1'/'0rc1', so InvalidSpecifier is not raised and int(minor) blows up.")

print()
print("=" * 78)
print("PART 2  borderline (not counted as in-quantifier violations)")
print("=" * 78)
for s, why in [
    ("manylinux_2_17_foo", "documented family, unknown arch: bare ValueError, not PlatformError"),
    ("macos_14_0_universal2", "documented family, unknown arch: bare ValueError, not PlatformError"),
    ("windows_foo", "documented family, unknown arch: bare ValueError, not PlatformError"),
    ("win32", "no underscore: 'not enough values to unpack' ValueError, not PlatformError"),
    ("illumos_5_11_x86_64", "TypeError (Illumos() needs two arguments) - already known"),
    ("openbsd_7_x86_64", "parses, but str() drops the release and does not parse back"),
    ("Linux_x86_64", "Generic('Linux'): str() lower-cases, round trip gives a different object"),
    ("manylinux_2_17_x86_64\n", "trailing newline accepted ('$' in the regex)"),
]:
    r = call(lambda: Platform.parse(s))
    line = f"Platform.parse({s!r}) -> {r}"
    if r[0] == "ok":
        p = r[1]
        rt = call(lambda: Platform.parse(str(p)))
        line += f"; str = {str(p)!r}; parse(str(p)) -> {rt}; equal = {rt[0] == 'ok' and rt[1] == p}"
    print(line)
    print(f"    note: {why}")

print()
print("=" * 78)
print("PART 3  random comparison with packaging (found nothing beyond N1)")
print("=" * 78)
rnd = random.Random(2024)
names = ["foo", "Foo_Bar", "a.b", "x_y.z", "zope.interface", "A", "a1", "ruamel.yaml.clib"]
versions = ["1.0", "1!2.0", "2.0.post1", "1.0a1", "1.0.dev3", "1.0+local.1", "2024.1.1", "0", "1.0rc1.post2.dev3", "1.0+ubuntu_1"]
builds = ["1", "2b", "0", "123abc", "1_x", "7.foo"]
pys = ["py2", "py3", "py30", "py36", "py310", "cp27", "cp36", "cp310", "cp313", "pp310", "pt39", "ip27", "CP39", "Py3",
       "graalpy311", "cp3", "py", "cp314", "PY2", "cp3_10", "pyé", "ǅ3"]
abis = ["none", "abi3", "cp36m", "cp310", "cp313t", "cp27mu", "pypy310_pp73", "ABI3", "None", "CP39", "graalpy311_native",
        "cp36dm", "abi4", "cp313td", "İ"]
plats = ["any", "win32", "win_amd64", "win_arm64", "linux_x86_64", "linux_armv7l", "manylinux1_x86_64", "manylinux2010_i686",
         "manylinux2014_aarch64", "manylinux_2_17_x86_64", "manylinux_2_28_aarch64", "musllinux_1_1_x86_64",
         "musllinux_1_2_aarch64", "macosx_10_9_x86_64", "macosx_11_0_arm64", "macosx_10_9_universal2", "macosx_10_6_intel",
         "macosx_10_6_universal", "ANY", "Win_AMD64", "MacOSX_10_9_X86_64", "freebsd_13_x86_64", "ios_13_0_arm64_iphoneos",
         "android_21_arm64_v8a"]
envs = [EnvSpec.from_spec(*a) for a in [
    (">=3.8",), (">=3.9", "linux", "cpython"), (">=3.7,<3.11", "windows", "cpython"), (">=3.10", "macos", "cpython"),
    (">=3.13", "macos", "cpython", True), (">=3.8", "alpine", "pypy"), ("==3.9.*", "macos_12_0_x86_64", "cpython"),
    (">=2.7", "manylinux_2_28_aarch64", None), (">=3.6", "windows_x86", "pyston"), (">=3.6", "macos_10_9_x86_64", "cpython")]]


def comp(pool):
    return ".".join(rnd.choice(pool) for _ in range(rnd.choice([1, 1, 1, 2, 2, 3, 4])))


def gen():
    parts = [rnd.choice(names), rnd.choice(versions)]
    if rnd.random() < 0.4:
        parts.append(rnd.choice(builds))
    parts += [comp(pys), comp(abis), comp(plats)]
    fn = "-".join(parts) + ".whl"
    r = rnd.random()
    if r < 0.03:
        fn = fn[:-4] + rnd.choice([".zip", ".WHL", ".whl ", ".tar.gz", "", ".Whl", ".whl.zip"])
    elif r < 0.06:
        fn = rnd.choice(["x-", "a-b-"]) + fn
    elif r < 0.09:
        fn = fn.split("-", rnd.choice([1, 2, 3]))[-1]
    return fn


N = 30000
viol = 0
for _ in range(N):
    fn = gen()
    try:
        tags = parse_wheel_filename(fn)[3]
    except PkgInvalidWheelFilename as e:
        if "extension must be" in str(e) or "wrong number of parts" in str(e):
            for f in (lambda: parse_wheel_tags(fn), lambda: envs[0].wheel_compatibility(fn)):
                try:
                    print("VIOLATION accepted", repr(fn), f())
                    viol += 1
                except InvalidWheelFilename:
                    pass
        continue
    p, a, pl = parse_wheel_tags(fn)
    got = {(x, y, z) for x in p for y in a for z in pl}
    exp = {(t.interpreter, t.abi, t.platform) for t in tags}
    if got != exp:
        print("VIOLATION tag sets", repr(fn), sorted(got ^ exp))
        viol += 1
        continue
    ip, ia, ipl = (sorted({getattr(t, k) for t in tags}) for k in ("interpreter", "abi", "platform"))
    for e in envs:
        r1, r2 = call(lambda: e.wheel_compatibility(fn)), call(lambda: e.compatibility(ip, ia, ipl))
        if r1 != r2 or r1[0] != "ok":
            print("VIOLATION compat", repr(fn), e, r1, r2)
            viol += 1
            break
print(f"wheel names compared with packaging: {N}, violations: {viol}")

canon = {"i386": "x86", "i686": "x86", "amd64": "x86_64", "arm64": "aarch64"}
arches = [a.value for a in Arch] + list(canon)
nums = [0, 1, 2, 3, 5, 9, 10, 11, 12, 14, 15, 16, 17, 20, 28, 34, 99, 100, 101, 255, 1000, 2**40]
cnt = pviol = 0
for fam, cls in [("manylinux", O.Manylinux), ("musllinux", O.Musllinux), ("macos", O.Macos)]:
    for X in nums:
        for Y in nums:
            for a in arches:
                for s in (f"{fam}_{X}_{Y}_{a}", f"{fam}_0{X}_00{Y}_{a}"):
                    cnt += 1
                    r = call(lambda: Platform.parse(s))
                    good = r[0] == "ok" and r[1] == Platform(cls(X, Y), Arch(canon.get(a, a)))
                    good = good and Platform.parse(str(r[1])) == r[1]
                    if not good:
                        print("VIOLATION platform", s, r)
                        pviol += 1
for alias, target in {"linux": "manylinux_2_17_x86_64", "windows": "windows_amd64", "macos": "macos_14_0_arm64",
                      "alpine": "musllinux_1_2_x86_64", "macos_arm64": "macos_14_0_arm64",
                      "macos_x86_64": "macos_14_0_x86_64"}.items():
    cnt += 1
    if Platform.parse(alias) != Platform.parse(target) or str(Platform.parse(alias)) != target:
        print("VIOLATION alias", alias)
        pviol += 1
for a in arches:
    cnt += 1
    p = Platform.parse("windows_" + a)
    if p != Platform(O.Windows(), Arch(canon.get(a, a))) or Platform.parse(str(p)) != p:
        print("VIOLATION windows", a)
        pviol += 1
print(f"platform strings checked: {cnt}, violations: {pviol}")
_ = PlatformError
