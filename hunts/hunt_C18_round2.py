"""Hunt for NEW pre-existing violations of C18 (wheel file names / platform names parsed faithfully).

Run:  cd /tmp/wt/C18j && PYTHONPATH=/tmp/wt/C18j/src /venv/bin/python hunt_C18.py [N]

Oracles: packaging.utils.parse_wheel_filename for wheel names; for platform names the documented
alias table, the X_Y numbers spelled in the name, and the round trip Platform.parse(str(p)) == p.
"""

from __future__ import annotations

import random
import sys

from packaging.utils import InvalidWheelFilename as PkgInvalid
from packaging.utils import parse_wheel_filename

from dep_logic.tags import EnvSpec, InvalidWheelFilename, Platform, PlatformError
from dep_logic.tags import os as dos  # noqa: F401  (dep_logic.tags.os)
from dep_logic.tags.platform import Arch
from dep_logic.tags.tags import parse_wheel_tags

N = int(sys.argv[1]) if len(sys.argv) > 1 else 60000
rnd = random.Random(18)
found: list[str] = []
cases = 0


def report(msg: str) -> None:
    if msg not in found:
        found.append(msg)
        print("VIOLATION:", msg)


# ---------------------------------------------------------------- wheel names
NAMES = ["foo", "Foo_Bar", "foo.bar", "a_b.c", "x", "zope.interface", "A", "a1_2", "foo_", "_foo", "whl", "foo.whl"]
VERSIONS = ["1", "1.0", "1.0.0", "2024.1.1", "1!2.0", "1.0a1", "1.0.post1", "1.0.dev0", "1.0+local.1", "1.0+ab_c",
            "0", "1_0", "1.0rc1", "v1.0", "1.0-1"]
BUILDS = ["1", "0", "123", "1abc", "1_x", "2.local", "1.0", "007", "1ABC", "3_", "9__9", "1.whl"]
PY = ["py3", "py2", "py2.py3", "cp310", "cp39.cp310.cp311.cp312", "pp310", "CP310", "Py3", "cp3", "py30", "cp313t",
      "pt39", "ip27", "jy27", "py3.PY3", "cp310.cp310", "py"]
ABI = ["none", "abi3", "cp310", "cp310m", "cp313t", "pypy310_pp73", "NONE", "ABI3", "cp39.abi3", "abi3.none",
       "pyston39_23", "cp310d", "none.none", "cp27mu"]
PLAT = ["any", "win32", "win_amd64", "win_arm64", "linux_x86_64", "linux_armv7l", "manylinux1_x86_64",
        "manylinux2010_i686", "manylinux2014_aarch64", "manylinux_2_17_x86_64.manylinux2014_x86_64",
        "manylinux_2_28_aarch64", "musllinux_1_1_x86_64", "musllinux_1_2_aarch64", "macosx_10_9_x86_64",
        "macosx_11_0_arm64", "macosx_10_9_universal2", "macosx_10_6_intel", "macosx_10_9_universal", "ANY",
        "Win_AMD64", "MacOSX_11_0_ARM64", "any.any", "linux_armv6l", "linux_ppc64le", "linux_s390x",
        "linux_riscv64", "linux_loongarch64", "manylinux_2_5_x86_64.manylinux1_x86_64.any", "whl", "l", "h.w"]
ENVS = [
    EnvSpec.from_spec(">=3.8"),
    EnvSpec.from_spec(">=3.8", "linux", "cpython"),
    EnvSpec.from_spec(">=3.10", "macos", "cpython"),
    EnvSpec.from_spec(">=3.9", "windows", "cpython"),
    EnvSpec.from_spec(">=3.9", "alpine", "pypy"),
    EnvSpec.from_spec(">=3.13", "manylinux_2_28_aarch64", "cpython", True),
    EnvSpec.from_spec(">=3.7", "manylinux_2_31_armv7l", "cpython"),
    EnvSpec.from_spec(">=3.7", "macos_12_3_x86_64"),
    EnvSpec.from_spec(">=3.7", "windows_x86", "pyston"),
]


def check_wheel(fn: str) -> None:
    global cases
    cases += 1
    try:
        _, _, _, tags = parse_wheel_filename(fn)
    except PkgInvalid:
        tags = None
    try:
        got = parse_wheel_tags(fn)
    except InvalidWheelFilename:
        got = None
    except Exception as e:  # wrong exception type
        report(f"parse_wheel_tags({fn!r}) raised {type(e).__name__}: {e}")
        return
    bad_shape = (not fn.endswith(".whl")) or fn[:-4].count("-") not in (4, 5)
    if bad_shape:
        if got is not None:
            report(f"{fn!r}: wrong extension / part count but parse_wheel_tags returned {got}")
        try:
            ENVS[0].wheel_compatibility(fn)
        except InvalidWheelFilename:
            pass
        except Exception as e:
            report(f"wheel_compatibility({fn!r}) raised {type(e).__name__} instead of InvalidWheelFilename")
        else:
            report(f"wheel_compatibility({fn!r}) did not raise")
        return
    if tags is None:
        return  # packaging rejects for other reasons (name, version, build tag): outside the quantifier
    if got is None:
        report(f"{fn!r}: packaging accepts, library raises InvalidWheelFilename")
        return
    exp = ({t.interpreter for t in tags}, {t.abi for t in tags}, {t.platform for t in tags})
    if tuple(set(x) for x in got) != exp:
        report(f"{fn!r}: library tags {got}, packaging {exp}")
    # cross product really is the full one
    if {(a, b, c) for a in got[0] for b in got[1] for c in got[2]} != {(t.interpreter, t.abi, t.platform) for t in tags}:
        report(f"{fn!r}: expanded tag triples differ from packaging's")
    for env in ENVS:
        try:
            a = env.wheel_compatibility(fn)
            b = env.compatibility(sorted(exp[0]), sorted(exp[1]), sorted(exp[2]))
        except Exception as e:
            report(f"{env}.wheel_compatibility({fn!r}) raised {type(e).__name__}: {e}")
            continue
        if a != b:
            report(f"{env}.wheel_compatibility({fn!r}) = {a}, compatibility(packaging tags) = {b}")


def rand_tagset(pool: list[str]) -> str:
    if rnd.random() < 0.25:
        alphabet = "abcdefghijklmnopqrstuvwxyzABCXYZ0123456789_"
        k = rnd.choice([1, 1, 2, 3, 4, 6])
        return ".".join("".join(rnd.choice(alphabet) for _ in range(rnd.randint(1, 8))) for _ in range(k))
    return ".".join(rnd.choice(pool) for _ in range(rnd.choice([1, 1, 1, 2, 3])))


def rand_wheel() -> str:
    parts = [rnd.choice(NAMES), rnd.choice(VERSIONS)]
    if rnd.random() < 0.4:
        parts.append(rnd.choice(BUILDS))
    parts += [rand_tagset(PY), rand_tagset(ABI), rand_tagset(PLAT)]
    r = rnd.random()
    if r < 0.08:  # wrong number of parts
        k = rnd.choice([0, 1, 2, 3, 4, 7, 8])
        parts = (parts * 2)[:k] if k else [""]
    ext = ".whl"
    if r > 0.9:
        ext = rnd.choice(["", ".zip", ".WHL", ".Whl", ".whl ", ".whl\n", ".whl.zip", ".wh", "whl", ".whll", ".tar.gz", ".whl.", ".whl/"])
    return "-".join(parts) + ext


for _ in range(N):
    check_wheel(rand_wheel())

# hand-picked corner cases
for fn in [
    ".whl", "", "----.whl", "-----.whl", "a-1-py3-none-any.whl", "a-1--none-any.whl", "a-1-py3..py2-none-any.whl",
    "a-1-1-py3-none-any.whl", "a-1-py3-none-any.whl.whl", "a.whl-1-py3.whl-none-any.whl", "a-1-1whl-py3-none-any.whl",
    "dir/with-dash/a-1-py3-none-any.whl", "a-1-py3-none-any.whl\n", " a-1-py3-none-any.whl", "a-1-py3-none-.whl",
    "a-1-cp31_0-none-any.whl", "a-1-cp3_10-cp3_10-any.whl", "a-1-py3,<4-none-any.whl", "a-1-py3 -none-any.whl",
    "a-1-py3*-none-any.whl", "a-1-py3!1-none-any.whl", "a-1-py3e5-none-any.whl", "a-1-cp3e1-abi3-any.whl",
    "a-1-py-none-any.whl", "a-1-p-none-any.whl", "a-1-cp-abi3-any.whl", "a-1-cp3-cp3-any.whl", "a-1-cp310-cp3100-any.whl",
    "a-1-cp310-cp310_-any.whl", "a-1-cp310-_-any.whl", "a-1-py3-pypy-any.whl", "a-1-pp310-pypy310_pp73-any.whl",
    "a-1-cp3 10-none-any.whl", "a-1-py3\t-none-any.whl", "a-1-py0-none-any.whl", "a-1-py00-none-any.whl",
    "a-1-py3.0-none-any.whl", "a-1-cp3==-none-any.whl", "a-1-py3||-none-any.whl", "a-1-cp3+1-none-any.whl",
]:
    check_wheel(fn)


# ---------------------------------------------------------------- platform names
ALIASES = {
    "linux": "manylinux_2_17_x86_64",
    "windows": "windows_amd64",
    "macos": "macos_14_0_arm64",
    "alpine": "musllinux_1_2_x86_64",
    "macos_arm64": "macos_14_0_arm64",
    "macos_x86_64": "macos_14_0_x86_64",
}
OSCLS = {"manylinux": dos.Manylinux, "musllinux": dos.Musllinux, "macos": dos.Macos}
ARCH = {"x86_64": Arch.X86_64, "aarch64": Arch.Aarch64, "arm64": Arch.Aarch64}


def check_platform(name: str, expect: Platform | None = None) -> Platform | None:
    global cases
    cases += 1
    try:
        p = Platform.parse(name)
    except Exception as e:
        report(f"Platform.parse({name!r}) raised {type(e).__name__}: {e}")
        return None
    if expect is not None and p != expect:
        report(f"Platform.parse({name!r}) = {p!r}, expected {expect!r}")
    try:
        q = Platform.parse(str(p))
    except Exception as e:
        report(f"Platform.parse(str(Platform.parse({name!r}))) = parse({str(p)!r}) raised {type(e).__name__}: {e}")
        return p
    if q != p or hash(q) != hash(p) or str(q) != str(p):
        report(f"round trip of {name!r}: {p!r} -> {str(p)!r} -> {q!r}")
    # from_spec / as_dict carry the same platform
    e = EnvSpec.from_spec(">=3.8", name)
    if e.platform != p or EnvSpec.from_spec(**e.as_dict()) != e:  # type: ignore[arg-type]
        report(f"EnvSpec.from_spec/as_dict round trip differs for platform {name!r}")
    return p


for alias, target in ALIASES.items():
    a = check_platform(alias)
    t = check_platform(target)
    if a != t:
        report(f"alias {alias!r} -> {a!r} but documented target {target!r} -> {t!r}")

nums = [0, 1, 2, 3, 4, 5, 9, 10, 11, 12, 14, 15, 16, 17, 26, 28, 39, 99, 100, 101, 999, 1000, 2010, 2014, 65535, 2**31, 2**64, 10**30]
for choice in Platform.choices():
    if "X_Y" not in choice:
        check_platform(choice)
        continue
    fam, _, arch = choice.partition("_X_Y_")
    for x in nums:
        for y in nums:
            for xs, ys in {(str(x), str(y)), ("0" + str(x), str(y)), (str(x), "00" + str(y))}:
                name = f"{fam}_{xs}_{ys}_{arch}"
                check_platform(name, Platform(OSCLS[fam](x, y), ARCH[arch]))

# objects built through the constructors: str() must parse back to an equal object
for oscls in (dos.Manylinux, dos.Musllinux, dos.Macos):
    for arch in Arch:
        for x, y in [(1, 2), (2, 17), (10, 9), (14, 0), (2, 0), (0, 0), (123, 456)]:
            p = Platform(oscls(x, y), arch)
            cases += 1
            try:
                if Platform.parse(str(p)) != p:
                    report(f"Platform.parse(str({p!r})) = {Platform.parse(str(p))!r}")
            except Exception as e:
                report(f"Platform.parse(str({p!r})) raised {type(e).__name__}: {e}")
for arch in Arch:
    p = Platform(dos.Windows(), arch)
    cases += 1
    try:
        if Platform.parse(str(p)) != p:
            report(f"Platform.parse(str({p!r})) = {Platform.parse(str(p))!r}")
    except Exception as e:
        report(f"Platform.parse(str({p!r})) raised {type(e).__name__}: {e}")

# Platform.current() / EnvSpec.current() round trip on this machine
cur = Platform.current()
cases += 1
if Platform.parse(str(cur)) != cur:
    report(f"Platform.current() = {cur!r} does not round trip through {str(cur)!r}")
ec = EnvSpec.current()
if EnvSpec.from_spec(**ec.as_dict()) != ec:  # type: ignore[arg-type]
    report(f"EnvSpec.current() does not round trip through as_dict(): {ec.as_dict()}")

# ---------------------------------------------------------------- observations outside the quantifier
print("\nObservations outside the property's quantifier (not counted as violations):")
for name in ["manylinux_2_17_mips", "macos_14_0_ppc", "windows_mips", "windows_", "manylinux_2_17_x86_64\n",
             "manylinux_２_１７_x86_64"]:
    try:
        print(f"  Platform.parse({name!r}) -> {Platform.parse(name)!r}")
    except Exception as e:
        print(f"  Platform.parse({name!r}) raised {type(e).__name__} (PlatformError? {isinstance(e, PlatformError)}): {e}")

# ---------------------------------------------------------------- Platform.current() with stubbed hosts
# Platform.current() is a constructor other than the parser; its result p must satisfy
# Platform.parse(str(p)) == p as well.  The host is simulated by stubbing sysconfig / packaging.
print("\nPlatform.current() on simulated hosts (stubs; candidate finding, environment dependent):")
import sysconfig  # noqa: E402

import packaging._manylinux as _ml  # noqa: E402
import packaging._musllinux as _mu  # noqa: E402

_saved = (sysconfig.get_platform, _ml._get_glibc_version, _mu._get_musl_version)
try:
    sysconfig.get_platform = lambda: "linux-x86_64"
    _mu._get_musl_version = lambda exe: None
    # packaging's own answer when neither glibc nor musl can be identified (bionic, static builds)
    _ml._get_glibc_version = lambda: (-1, -1)
    p = Platform.current()
    try:
        q = Platform.parse(str(p))
        print(f"  linux host without glibc/musl: current()={p!r}, str={str(p)!r}, parses back to {q!r}")
    except Exception as e:
        print(f"  linux host without glibc/musl: Platform.current() = {p!r}; str(p) = {str(p)!r}; "
              f"Platform.parse(str(p)) raised {type(e).__name__}: {e}   (expected: == p)")
finally:
    sysconfig.get_platform, _ml._get_glibc_version, _mu._get_musl_version = _saved

print(f"\n{cases} cases run, {len(found)} new violation(s) found")
