"""Hunt (round 3) for violations of C18 on the unmodified tree.

Run:  cd /tmp/wt/C18i && PYTHONPATH=/tmp/wt/C18i/src /venv/bin/python hunt_C18.py
"""

from __future__ import annotations

import itertools
import random
import sys
from unittest import mock

from packaging.utils import InvalidWheelFilename as PkgInvalid
from packaging.utils import parse_wheel_filename

from dep_logic.tags import EnvSpec, Platform, PlatformError, os
from dep_logic.tags.platform import Arch
from dep_logic.tags.tags import InvalidWheelFilename, parse_wheel_tags

findings: list[str] = []
cases = 0


def oracle_sets(fn: str):
    tags = parse_wheel_filename(fn)[3]
    return (
        {t.interpreter for t in tags},
        {t.abi for t in tags},
        {t.platform for t in tags},
    )


def lib_sets(fn: str):
    p, a, l = parse_wheel_tags(fn)
    return set(p), set(a), set(l)


def check_wheel(fn: str, note: str = "") -> bool:
    """True when the library agrees with packaging on an accepted name."""
    global cases
    cases += 1
    try:
        want = oracle_sets(fn)
    except PkgInvalid:
        return True  # outside the quantifier
    try:
        got = lib_sets(fn)
    except Exception as e:  # noqa: BLE001
        findings.append(f"{note}{fn!r}: packaging accepts {want}, library raises {e!r}")
        return False
    if got != want:
        findings.append(f"{note}{fn!r}: library sees {got}, packaging reports {want}")
        return False
    return True


# --------------------------------------------------------------------------
# 1. random fuzzer over the PEP 427 grammar (ASCII)
# --------------------------------------------------------------------------
rnd = random.Random(18)
NAME_AL = "abcxyzABZ019_."
PY = ["py2", "py3", "py27", "py310", "cp39", "cp313", "CP312", "pp310", "pt39", "ip27", "jy27", "graalpy311"]
ABI = ["none", "abi3", "cp39", "cp313t", "cp36m", "cp27mu", "pypy310_pp73", "graalpy240_311_native", "ABI3", "cp312d"]
PLAT = [
    "any", "win32", "win_amd64", "win_arm64", "linux_x86_64", "linux_armv7l", "linux_armv6l",
    "manylinux1_i686", "manylinux2010_x86_64", "manylinux2014_aarch64", "manylinux_2_17_x86_64",
    "manylinux_2_28_ppc64le", "manylinux_2_31_riscv64", "manylinux_2_36_loongarch64", "manylinux_2_17_s390x",
    "musllinux_1_1_x86_64", "musllinux_1_2_aarch64", "macosx_10_9_x86_64", "macosx_10_9_intel",
    "macosx_10_6_universal", "macosx_11_0_arm64", "macosx_10_9_universal2", "macosx_10_10_fat64",
    "macosx_10_4_fat32", "MacOSX_11_0_ARM64", "freebsd_14_0_release_amd64", "ios_13_0_arm64_iphoneos",
    "android_21_arm64_v8a", "emscripten_3_1_58_wasm32", "wasi_0_0_0_wasm32",
]


def rand_name():
    while True:
        s = "".join(rnd.choice(NAME_AL) for _ in range(rnd.randint(1, 8)))
        if "__" not in s:
            return s


def rand_version():
    v = ".".join(str(rnd.randint(0, 30)) for _ in range(rnd.randint(1, 4)))
    if rnd.random() < 0.2:
        v = f"{rnd.randint(1, 3)}!" + v
    if rnd.random() < 0.3:
        v += rnd.choice(["a1", "b2", "rc3", ".post4", ".dev5", "_post1", ".RC1", "+local.1", "+abc_1"])
    return v


def rand_tag(pool):
    if rnd.random() < 0.2:  # random ascii tag
        alpha = "abcdefghijklmnopqrstuvwxyz0123456789_ABCXYZ"
        base = [rnd.choice("abcpy") + "".join(rnd.choice(alpha) for _ in range(rnd.randint(0, 9)))]
    else:
        base = [rnd.choice(pool)]
    while rnd.random() < 0.35:
        base.append(rnd.choice(pool))
    return ".".join(base)


n_fuzz = 120_000
for _ in range(n_fuzz):
    parts = [rand_name(), rand_version()]
    if rnd.random() < 0.4:
        parts.append(str(rnd.randint(0, 999)) + rnd.choice(["", "", "b", "_x", ".1", "abc"]))
    parts += [rand_tag(PY), rand_tag(ABI), rand_tag(PLAT)]
    ext = ".whl"
    r = rnd.random()
    if r < 0.05:
        ext = rnd.choice([".zip", ".WHL", ".whl ", ".tar.gz", "", ".whl.txt", ".wh", "whl"])
    elif r < 0.10:
        if rnd.random() < 0.5 and len(parts) > 3:
            del parts[rnd.randrange(len(parts))]
            del parts[rnd.randrange(len(parts))]
        else:
            parts.insert(rnd.randrange(len(parts)), rnd.choice(["1", "x", "py3"]))
            parts.insert(rnd.randrange(len(parts)), rnd.choice(["1", "x", "py3"]))
    fn = "-".join(parts) + ext
    cases += 1
    try:
        want = oracle_sets(fn)
    except PkgInvalid:
        want = None
    try:
        got = lib_sets(fn)
    except InvalidWheelFilename:
        got = None
    except Exception as e:  # noqa: BLE001
        findings.append(f"fuzz {fn!r}: unexpected {e!r}")
        continue
    dashes = fn[:-4].count("-")
    bad_shape = not fn.endswith(".whl") or dashes not in (4, 5)
    if bad_shape and got is not None:
        findings.append(f"fuzz {fn!r}: wrong extension / part count but library returned {got}")
    if want is not None and got != want:
        findings.append(f"fuzz {fn!r}: library {got}, packaging {want}")
    # wheel_compatibility must see the same sets as compatibility() on packaging's sets
    if want is not None and got is not None and rnd.random() < 0.05:
        for env in (
            EnvSpec.from_spec(">=3.8", "linux", "cpython"),
            EnvSpec.from_spec(">=3.9", "macos_12_0_x86_64"),
            EnvSpec.from_spec("==3.13.*", "windows_arm64", "cpython", True),
            EnvSpec.from_spec(">=2.7", "musllinux_1_2_aarch64", "pypy"),
        ):
            try:
                a = env.wheel_compatibility(fn)
                b = env.compatibility(sorted(want[0]), sorted(want[1]), sorted(want[2]))
            except ValueError:
                continue  # known family 12 (py3a1-like tags) cannot occur here, but be safe
            if a != b:
                findings.append(f"fuzz {fn!r} env {env}: wheel_compatibility {a} != on packaging sets {b}")

# --------------------------------------------------------------------------
# 2. hand-built wheel names for branches no random generator reaches
# --------------------------------------------------------------------------
hand = [
    "a-0-py3-none-any.whl",
    "A.b_c-1!2.0.post1-0-py2.py3-none-any.whl",
    "foo-1.0-1-py3-none-any.whl",  # build tag that is also a legal implicit post release
    "foo-1.0-py3.py3-none.none-any.any.whl",  # duplicates
    "my.whl-1.0-py3-none-any.whl",  # '.whl' inside the project name
    "foo.whl.bar-1.0-7-cp39.cp310-abi3-manylinux_2_17_x86_64.manylinux2014_x86_64.whl",
    "foo-1.0-py3-none-any.whl.whl",  # '.whl' as a compressed platform member
    "foo-1.0-py3-none-macosx_10.9_x86_64.whl",  # legacy dotted macOS tag splits like packaging does
    "FOO-1.0-PY3-NONE-ANY.whl",
    "foo-1.0-py3-none-any.WHL",
    "foo-1.0-py3-none-any.whl\n",
    "foo-1.0-py3-none-any.whl/",
    "-1.0-py3-none-any.whl",
    "foo--py3-none-any.whl",
    "foo-1.0-py3-none-anİ.whl",  # dotted capital I lower-cases to two code points
    "foo-1.0-py3-ẞ-any.whl",  # capital sharp s
]
for fn in hand:
    check_wheel(fn, "hand ")

# context dependent lower-casing (Greek final sigma): lower() of the whole field vs of each member
for fn in [
    "foo-1.0-py3-AΣ.B-any.whl",
    "foo-1.0-AΣ.py3-none-any.whl",
    "foo-1.0-py3-none-AΣ.B.whl",
]:
    check_wheel(fn, "NEW (non-ASCII, cosmetic) ")

# --------------------------------------------------------------------------
# 3. platforms: choices(), aliases, round trip for every os x arch x version
# --------------------------------------------------------------------------
aliases = {
    "linux": "manylinux_2_17_x86_64",
    "windows": "windows_amd64",
    "macos": "macos_14_0_arm64",
    "alpine": "musllinux_1_2_x86_64",
    "macos_arm64": "macos_14_0_arm64",
    "macos_x86_64": "macos_14_0_x86_64",
}
for a, t in aliases.items():
    cases += 1
    if Platform.parse(a) != Platform.parse(t):
        findings.append(f"alias {a!r} -> {Platform.parse(a)} but documented target {t}")
versions = [(0, 0), (1, 0), (1, 1), (1, 2), (2, 5), (2, 17), (2, 28), (2, 36), (10, 9), (10, 16), (11, 0), (14, 0), (14, 2), (15, 5), (26, 0), (99, 99), (100, 1000)]
for choice in Platform.choices():
    for x, y in versions:
        name = choice.replace("X_Y", f"{x}_{y}")
        cases += 1
        try:
            p = Platform.parse(name)
        except Exception as e:  # noqa: BLE001
            findings.append(f"choices entry {name!r} does not parse: {e!r}")
            continue
        if Platform.parse(str(p)) != p or hash(Platform.parse(str(p))) != hash(p):
            findings.append(f"round trip fails for {name!r}: str -> {str(p)!r}")
        if "X_Y" in choice:
            if (p.os.major, p.os.minor) != (x, y) or not str(p.os).startswith(choice.split("_")[0]):
                findings.append(f"{name!r} parsed as {p!r}")
            want_arch = {"arm64": Arch.Aarch64, "aarch64": Arch.Aarch64, "x86_64": Arch.X86_64}[name.split("_", 3)[3]]
            if p.arch is not want_arch:
                findings.append(f"{name!r} parsed with arch {p.arch!r}")
        if "X_Y" not in choice:
            break
# constructed objects (not through the parser)
for os_cls, arch, (x, y) in itertools.product((os.Manylinux, os.Musllinux, os.Macos), Arch, versions):
    p = Platform(os_cls(x, y), arch)
    cases += 1
    try:
        q = Platform.parse(str(p))
    except Exception as e:  # noqa: BLE001
        findings.append(f"str({p!r}) = {str(p)!r} does not parse: {e!r}")
        continue
    if q != p or hash(q) != hash(p) or str(q) != str(p):
        findings.append(f"round trip {p!r} -> {str(p)!r} -> {q!r}")
for arch in Arch:
    p = Platform(os.Windows(), arch)
    cases += 1
    if Platform.parse(str(p)) != p:
        findings.append(f"round trip {p!r} -> {str(p)!r}")
# arch spellings
for name, want in {
    "macos_12_3_aarch64": "macos_12_3_arm64",
    "manylinux_2_28_arm64": "manylinux_2_28_aarch64",
    "manylinux_2_28_amd64": "manylinux_2_28_x86_64",
    "musllinux_1_1_i686": "musllinux_1_1_x86",
    "windows_i386": "windows_x86",
    "windows_aarch64": "windows_arm64",
    "windows_x86_64": "windows_amd64",
    "manylinux_02_017_x86_64": "manylinux_2_17_x86_64",
}.items():
    cases += 1
    p = Platform.parse(name)
    if str(p) != want or Platform.parse(str(p)) != p:
        findings.append(f"{name!r}: str {str(p)!r}, expected {want!r}")

# Platform.current() / EnvSpec.current() under several sysconfig platforms
for plat, machine in [
    ("linux-x86_64", None), ("linux-aarch64", None), ("linux-i686", None), ("linux-armv7l", None),
    ("linux-ppc64le", None), ("linux-riscv64", None), ("win-amd64", None), ("win32", None), ("win-arm64", None),
    ("macosx-11.0-arm64", ("14.4.1", ("", "", ""), "arm64")),
    ("macosx-10.9-universal2", ("13.6", ("", "", ""), "x86_64")),
    ("macosx-10.9-x86_64", ("10.15.7", ("", "", ""), "x86_64")),
]:
    cases += 1
    with mock.patch("sysconfig.get_platform", return_value=plat), mock.patch(
        "platform.mac_ver", return_value=machine
    ):
        try:
            p = Platform.current()
            if Platform.parse(str(p)) != p:
                findings.append(f"current() under {plat}: {p!r} does not round trip via {str(p)!r}")
        except Exception as e:  # noqa: BLE001
            findings.append(f"current() under {plat}: {e!r}")
e = EnvSpec.current()
cases += 1
if EnvSpec.from_spec(**e.as_dict()) != e:
    findings.append(f"EnvSpec.current() {e} does not round trip through as_dict()/from_spec()")

# --------------------------------------------------------------------------
# 4. observations on Platform.parse outside the documented families (not counted as
#    violations of the quantified statement, listed for the record)
# --------------------------------------------------------------------------
observations = []
for s in ["manylinux_2_17_x86_64\n", "manylinux_２_１７_x86_64", "macos_١٤_0_arm64"]:
    try:
        observations.append(f"Platform.parse({s!r}) is accepted -> {Platform.parse(s)} (regex '$' / Unicode \\d)")
    except Exception as ex:  # noqa: BLE001
        pass
for s in ["manylinux_2_17_sparc", "macos_14_0_1_arm64", "windows_", "windows_sparc", "macos"[:3]]:
    try:
        Platform.parse(s)
    except PlatformError:
        pass
    except Exception as ex:  # noqa: BLE001
        observations.append(f"Platform.parse({s!r}) raises {type(ex).__name__} rather than PlatformError: {ex}")

print(f"cases run: {cases}")
print(f"violations: {len(findings)}")
for f in findings:
    print("  VIOLATION", f)
print("observations (outside the documented families):")
for o in observations:
    print("  NOTE", o)
sys.exit(0)
