"""C06 hunt (round 3) on the UNMODIFIED tree.

Result: no new violation INSIDE the property's quantifier (specifiers reachable from the
parsers and the operators &, |, ~).  What is printed below are BORDERLINE observations,
each labelled with the reason it is borderline.  Run:
    cd /tmp/wt/C06i && PYTHONPATH=/tmp/wt/C06i/src /venv/bin/python hunt_C06.py
"""

from __future__ import annotations

from packaging.specifiers import SpecifierSet
from packaging.version import Version

from dep_logic.specifiers import (
    RangeSpecifier,
    UnionSpecifier,
    parse_version_specifier as P,
)


def pk_union(text: str, v: str) -> bool:
    """packaging's reading of a `||` text, pre-releases enabled."""
    if text == "<empty>":
        return False
    return any(SpecifierSet(p).contains(v, prereleases=True) for p in text.split("||"))


print("=" * 78)
print("B1 (borderline, neighbour of known families 6/10: only pre-releases differ)")
print("    a COMPUTED union `<X.0||>=(X+1).0` is shortened to `!=X.*`; packaging reads")
print("    that text as also admitting the pre-releases of (X+1).0")
for src in ["<1.0||>=2.0", "<3.8.0||>=3.9.0"]:
    s = ~~P(src)
    text = str(s)
    hi = str(s.ranges[1].min)
    for v in [f"{hi}.dev0", f"{hi}a1", f"{hi}rc1"]:
        print(
            f"    s=~~parse({src!r}) str(s)={text!r} v={v}: library s.contains={s.contains(v, True)}, "
            f"library parse(str(s)).contains={P(text).contains(v, True)}, "
            f"packaging on the pieces of {src!r}={pk_union(src, v)}, "
            f"packaging on the rendered text={pk_union(text, v)}"
        )
    print(f"    (parse(str(s)) == s is {P(text) == s}: the library's own round trip holds)")

print("=" * 78)
print("B2 (borderline, same neighbourhood): equal specifiers that answer contains() differently")
a, b = P("==1.*"), ~~P("==1.*")
print(f"    a=parse('==1.*') str={str(a)!r}; b=~~a str={str(b)!r}; a==b is {a == b}")
for v in ["1.0.dev0", "1.0a1"]:
    print(
        f"    v={v}: a.contains={a.contains(v, True)} b.contains={b.contains(v, True)} "
        f"packaging '==1.*'={SpecifierSet('==1.*').contains(v, prereleases=True)} "
        f"packaging '~=1.0'={SpecifierSet('~=1.0').contains(v, prereleases=True)}"
    )
print("    (each of a and b round-trips through its own text; the text changes across ~~)")

print("=" * 78)
print("B3 (outside the quantifier: objects built with the public constructors, not reachable")
print("    from the parsers/operators) - the constructors do not validate their bounds")
V = Version
for label, make in [
    ("RangeSpecifier(min=1.0, max=1.0, include_min=True)  [empty set]",
     lambda: RangeSpecifier(min=V("1.0"), max=V("1.0"), include_min=True)),
    ("RangeSpecifier(min=2.0, max=1.0, include_min=True)  [empty set]",
     lambda: RangeSpecifier(min=V("2.0"), max=V("1.0"), include_min=True)),
    ("UnionSpecifier((RangeSpecifier(min=1.0),))           [one range]",
     lambda: UnionSpecifier((RangeSpecifier(min=V("1.0")),))),
    ("UnionSpecifier((>=2.0, <1.0))                        [unsorted]",
     lambda: UnionSpecifier((RangeSpecifier(min=V("2.0"), include_min=True), RangeSpecifier(max=V("1.0"))))),
]:  # fmt: skip
    s = make()
    try:
        text = str(s)
        back = P(text)
        print(f"    {label}: str={text!r} parses to {back!r}; equal={back == s}")
    except Exception as e:  # noqa: BLE001
        print(f"    {label}: {type(e).__name__}: {e}")

print("=" * 78)
print(
    """Areas covered without finding a violation inside the quantifier (unmodified tree):
  * line-by-line reading of range.py (_simplified_form, __str__, __and__, __or__, __invert__,
    can_combine/is_adjacent_to/is_strictly_lower), union.py (_simplified_form both branches,
    __and__ product order, __or__ merge loop, __invert__), specifiers/__init__.py (wildcard
    bounds, ~= upper bound, epoch handling, `simplified` carry-over, `||`/<empty>), special.py
    (Any/Empty dunder methods, ==/hash across classes), arbitrary.py, utils.pad_zeros /
    first_different_index, and the users of the text form (MarkerExpression.from_specifier,
    EnvSpec.as_dict/from_spec).
  * ~40 hand-built shapes: epochs on one/both bounds, 1..6 release segments, trailing zeros,
    leading zeros, `v` prefix, upper case and alternative spellings (-1, _post_, alpha, c),
    implicit numbers (1.0a, 1.0.dev), dev/pre/post lower bounds under ~=, wildcards of depth 1-4
    with and without epoch, `!=0.*`, `~=0.0`, adjacent/overlapping `||` pieces, Any/Empty mixes.
  * random fuzzer 1 (parse + &,|,~ trees, structural round trip + hash): 190 000 trees;
    every failure was known family 3 (exclusive post-release upper bound rendered ~=).
  * random fuzzer 2 (exotic spellings, 2**70 segments, whitespace, 4-piece `||`, str stability):
    120 000 trees, 0 failures outside family 3.
  * semantic fuzzer (expression tree evaluated by packaging on final releases around every
    bound vs packaging's reading of str(result) vs the library's contains): 45 000 trees,
    2.4 million membership checks, 0 differences.
  * MarkerExpression.from_specifier(name, s).specifier == s and parse_marker(str(marker)) for
    python_version / python_full_version / platform_release: 75 000 simple specifiers, 0 differences."""
)
