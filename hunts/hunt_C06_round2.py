"""C06 hunt (run on the UNMODIFIED tree):
    cd /tmp/wt/C06g && PYTHONPATH=/tmp/wt/C06g/src /venv/bin/python hunt_C06.py [scale]

Searches for specifiers s reachable from parse_version_specifier and &, |, ~ with
  (a) str(s) raising, (b) parse(str(s)) raising or != s,
  (c) packaging's reading of str(s) (split on `||`) differing, on FINAL versions, from a
      direct evaluation of s's bounds with packaging.version ordering.
Known families are filtered: exclusive upper bound at a post-release (`<2.0.post1`
rendered `~=`/`!=X.*`), `===`, `+local`; (c) only probes final versions, so the
pre-release-gap family does not show.

Streams:
  1. random expression trees over canonical versions (epochs, trailing zeros, pre/post/dev)
  2. random expression trees over exotic PEP 440 spellings (v prefix, leading zeros,
     alpha/preview/rev/r/-N, separators, upper case, implicit numbers, 20-digit ints,
     blanks and tabs around operators and commas)
  3. ladder of 837 versions (31 releases x 9 suffixes x 3 epochs): a 25% sample of all
     pairs, 4 bound-flag combinations, intersection, union and both complements
  4. hand-built cases (wildcards of several depths, ~= with many segments, epoch-only
     differences, zero releases, `<1||>=1.0.0.1`-style padding, three-piece unions)
Prints every new violation, or the case counts if there is none.
"""

from __future__ import annotations

import random
import re
import sys

from packaging.specifiers import InvalidSpecifier as PI
from packaging.specifiers import SpecifierSet
from packaging.version import Version

from dep_logic.specifiers import parse_version_specifier as P

SCALE = float(sys.argv[1]) if len(sys.argv) > 1 else 1.0
found: list[str] = []
counts = {"random": 0, "exotic": 0, "ladder": 0, "hand": 0, "semantic-probes": 0, "known(3)": 0}


def ranges_of(s):
    return list(getattr(s, "ranges", [s])) if not (s.is_empty() or s.is_any()) else []


def known_family(s) -> bool:
    return any(
        r.max is not None and r.max.is_postrelease and not r.include_max
        for r in ranges_of(s)
    )


def direct(s, v: Version) -> bool:
    if s.is_empty():
        return False
    if s.is_any():
        return True
    for r in ranges_of(s):
        ok = True
        if r.min is not None:
            ok = ok and (v >= r.min if r.include_min else v > r.min)
        if r.max is not None:
            ok = ok and (v <= r.max if r.include_max else v < r.max)
        if ok:
            return True
    return False


def text_admits(text: str, v: Version) -> bool:
    if text == "<empty>":
        return False
    return any(SpecifierSet(p).contains(v, prereleases=True) for p in text.split("||"))


FINALS = [
    Version(e + r)
    for e in ["", "1!", "2!"]
    for r in "0 0.1 0.9 0.10 1 1.0.1 1.0.0.1 1.1 1.2 1.2.3 1.2.4 1.9 1.10 2 2.0.1 2.1 3 3.3.3 9 9.1.1 9.2 10 10.0.1".split()
]


def check(s, desc: str, stream: str, semantic: bool = True) -> None:
    counts[stream] += 1
    try:
        text = str(s)
    except Exception as e:  # noqa: BLE001
        found.append(f"[{stream}] {desc}: str() raised {type(e).__name__}: {e}")
        return
    try:
        back = P(text)
    except Exception as e:  # noqa: BLE001
        found.append(f"[{stream}] {desc}: {text!r} does not parse back: {type(e).__name__}: {e}")
        return
    if known_family(s):
        counts["known(3)"] += 1
        return
    if back != s:
        found.append(f"[{stream}] {desc}: {text!r} parses back to {back!r}, expected {s!r}")
        return
    if semantic:
        for v in FINALS:
            counts["semantic-probes"] += 1
            lib, pk = direct(s, v), text_admits(text, v)
            if lib != pk:
                found.append(
                    f"[{stream}] {desc}: bounds say {v} {'in' if lib else 'not in'} s, "
                    f"packaging reads {text!r} the other way"
                )
                break


# ---------------------------------------------------------------- stream 1
def stream_random(seed: int, n: int) -> None:
    rnd = random.Random(seed)

    def ver(suffix=True):
        k = rnd.choice([1, 2, 2, 3, 3, 4])
        s = ".".join(str(rnd.choice([0, 0, 1, 1, 2, 3, 9, 10])) for _ in range(k))
        if rnd.random() < 0.15:
            s = f"{rnd.choice([1, 2])}!" + s
        if suffix and rnd.random() < 0.3:
            s += rnd.choice(["a1", "b2", "rc1", ".post1", ".dev1", ".post0", ".dev0", "a0", ".post2.dev1", "rc1.post1"])
        return s

    def atom():
        op = rnd.choice(["<", "<=", ">", ">=", "==", "!=", "~=", "==*", "!=*"])
        if op.endswith("*"):
            return op[:2] + ver(False) + ".*"
        if op == "~=":
            while True:
                v = ver()
                if len(Version(v).release) >= 2:
                    return "~=" + v
        return op + ver()

    def gen(depth=0):
        r = rnd.random()
        if depth > 2 or r < 0.4:
            t = ",".join(atom() for _ in range(rnd.choice([1, 1, 2, 2, 3])))
            return P(t), t
        if r < 0.6:
            (a, ta), (b, tb) = gen(depth + 1), gen(depth + 1)
            return a & b, f"({ta}) & ({tb})"
        if r < 0.85:
            (a, ta), (b, tb) = gen(depth + 1), gen(depth + 1)
            return a | b, f"({ta}) | ({tb})"
        a, ta = gen(depth + 1)
        return ~a, f"~({ta})"

    for i in range(n):
        s, desc = gen()
        check(s, desc, "random", semantic=(i % 4 == 0))


# ---------------------------------------------------------------- stream 2
def stream_exotic(seed: int, n: int) -> None:
    rnd = random.Random(seed)

    def num():
        return rnd.choice(["0", "1", "2", "3", "10", "01", "00", "007", "20240101", "99999999999999999999"])

    def sep():
        return rnd.choice(["", ".", "-", "_"])

    def ver():
        s = rnd.choice(["v", "V"]) if rnd.random() < 0.15 else ""
        if rnd.random() < 0.2:
            s += num() + "!"
        s += ".".join(num() for _ in range(rnd.choice([1, 2, 2, 3, 3, 4, 5])))
        if rnd.random() < 0.3:
            s += sep() + rnd.choice(["a", "b", "c", "rc", "alpha", "beta", "pre", "preview", "A", "RC", "Alpha"])
            s += sep() * (rnd.random() < 0.3) + rnd.choice(["", "0", "1", "02"])
        if rnd.random() < 0.3:
            if rnd.random() < 0.3:
                s += "-" + num()
            else:
                s += sep() + rnd.choice(["post", "rev", "r", "POST", "Rev"])
                s += sep() * (rnd.random() < 0.3) + rnd.choice(["", "0", "1", "02"])
        if rnd.random() < 0.3:
            s += sep() + rnd.choice(["dev", "DEV", "Dev"]) + sep() * (rnd.random() < 0.3) + rnd.choice(["", "0", "1", "02"])
        return s

    def atom():
        op = rnd.choice(["<", "<=", ">", ">=", "==", "!=", "~=", "==*", "!=*"])
        ws = rnd.choice(["", " ", "  ", "\t"])
        if op.endswith("*"):
            m = re.match(r"^[vV]?(?:\d+!)?\d+(?:\.\d+)*", ver())
            return op[:2] + ws + m.group(0) + ".*"
        return op + ws + ver()

    def gen(depth=0):
        r = rnd.random()
        if depth > 2 or r < 0.4:
            while True:
                t = rnd.choice([",", " , ", ", "]).join(atom() for _ in range(rnd.choice([1, 1, 2, 2, 3])))
                try:
                    SpecifierSet(t)
                except PI:
                    continue
                return P(t), t
        if r < 0.6:
            (a, ta), (b, tb) = gen(depth + 1), gen(depth + 1)
            return a & b, f"({ta}) & ({tb})"
        if r < 0.85:
            (a, ta), (b, tb) = gen(depth + 1), gen(depth + 1)
            return a | b, f"({ta}) | ({tb})"
        a, ta = gen(depth + 1)
        return ~a, f"~({ta})"

    for _ in range(n):
        try:
            s, desc = gen()
        except Exception as e:  # noqa: BLE001  - wrong exception type while parsing/combining
            found.append(f"[exotic] building raised {type(e).__name__}: {e}")
            continue
        check(s, desc, "exotic", semantic=False)


# ---------------------------------------------------------------- stream 3
def stream_ladder(fraction: float) -> None:
    rels = "0 0.0 0.0.0 0.1 0.9 0.10 1 1.0 1.0.0 1.0.0.0 1.0.1 1.0.0.1 1.1 1.1.0 1.2 1.2.0 1.2.1.0 1.9 1.10 1.10.0 2 2.0 2.0.0 2.1 3 3.0.0 1.2.3 1.2.4 1.2.4.0 1.3 1.3.0".split()
    sufs = ["", "a1", "rc2", ".post1", ".dev3", ".post0", ".dev0", "a1.dev1", ".post1.dev1"]
    vers = [e + r + s for e in ["", "1!", "2!"] for r in rels for s in sufs]
    rnd = random.Random(5)
    for a in vers:
        for b in vers:
            if rnd.random() > fraction:
                continue
            for lo in (">=", ">"):
                for hi in ("<", "<="):
                    s = P(lo + a) & P(hi + b)
                    u = P(hi + a) | P(lo + b)
                    check(s, f"{lo}{a} & {hi}{b}", "ladder", False)
                    check(u, f"{hi}{a} | {lo}{b}", "ladder", False)
                    check(~s, f"~({lo}{a} & {hi}{b})", "ladder", False)
                    check(~u, f"~({hi}{a} | {lo}{b})", "ladder", False)


# ---------------------------------------------------------------- stream 4
def stream_hand() -> None:
    texts = [
        "!=1.0,!=1.0", "!=1.*,!=2.*", "==v1.*", "~=v1.2", "~=V01.02.RC1", " >= 1.0 , < 2 ",
        "!=1!0.*", "==0.*", "!=0.*", ">=0", "<=0", "<1||>=1.0.0.1", "<1.0||>=1.0.0.1.0",
        "<1!0||>=1!1", "<1!0||>=2!0", "<1!0.0||>=2!0.0", ">=5,<1!0", ">=5,<1!0.0", "<0.9.0||>=0.10",
        "<=1.0||>1.0.post0", ">=1.0,<1.0.1", "~=1.0.0.0.0", ">=1.0.0.0,<1.0.1",
        "==1.0.0.*,!=1.0.0.0", "<2||>=2.0.1", "<2.0.0||>=2.0.1.0", ">=1.2,<1.3.0", ">=1.2.0,<1.3",
        ">=1.2.0,<1!1.3", ">=1!1.2.0,<1!1.3", "~=1!2.3", "==1!2.*", ">=1.9.0,<1.10", ">=1.2.3.4,<1.2.4",
        "<1.2||>=1.2.1.0", "<1.2.0||>=1.3", "<1.2||>=1.3", "<1.2.0.0||>=1.3", "<1||>=2", "<1.0||>=2",
        ">=1.0.dev1,<2", ">=1.0.post1,<2", ">=1.0a1.post1.dev2,<2.0.0", "<1.0||>=2.0.post1",
        "<1.0||>=2.0a1", "<1.0||>=2.0.dev1", "<1.0rc1||>=2.0",
    ]
    extra = [P(">=5"), P("<5"), P("!=1.5"), P("==1!0.*"), P("~=0.5.0")]
    for t in texts:
        s = P(t)
        for x, d in [(s, t), (~s, f"~({t})"), (~~s, f"~~({t})")]:
            check(x, d, "hand")
            for e in extra:
                check(x | e, f"({d}) | {e}", "hand")
                check(x & e, f"({d}) & {e}", "hand")
                check(~(x & e) | e, f"~(({d}) & {e}) | {e}", "hand")


stream_hand()
for seed in range(4):
    stream_random(seed, int(25000 * SCALE))
for seed in range(2):
    stream_exotic(100 + seed, int(20000 * SCALE))
stream_ladder(0.02 * SCALE)

print("cases:", counts)
if found:
    print(f"{len(found)} NEW violations:")
    seen = set()
    for f in found:
        if f not in seen:
            seen.add(f)
            print("  " + f)
    sys.exit(1)
print("no new C06 violation found")
