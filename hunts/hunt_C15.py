"""Hunt for violations of C15 (marker results are in normal form) on the UNMODIFIED tree.

Run: cd /tmp/wt/C15f && PYTHONPATH=/tmp/wt/C15f/src /venv/bin/python hunt_C15.py [seed] [rounds]

Result of the hunt: NO violation of C15 inside its quantifier was found.  The script
re-runs a compact version of the search (hand-built corner cases, an exhaustive pair
sweep over exotic atoms, and a chained random walk over the public operations) and
prints every result that is not in normal form or renders `<empty>` / unparsable text.
At the end it prints ADJACENT observations: things that are not C15 violations as the
property is stated (or sit outside its quantifier) but were noticed on the way.
"""
import itertools
import random
import signal
import sys

from packaging.markers import Marker as PkgMarker

from dep_logic.markers import AnyMarker, EmptyMarker, MarkerUnion, MultiMarker, parse_marker
from dep_logic.markers.single import EqualityMarkerUnion, InequalityMultiMarker, MarkerExpression


def problems(m, path="root"):
    out = []
    if isinstance(m, (AnyMarker, EmptyMarker, MarkerExpression)):
        return out
    if isinstance(m, (EqualityMarkerUnion, InequalityMultiMarker)):
        vals = list(m.values)
        if len(vals) < 2 or len(set(vals)) != len(vals):
            out.append(f"{path}: atom group without two distinct values {vals}")
        return out
    if isinstance(m, (MultiMarker, MarkerUnion)):
        kids = list(m.markers)
        if len(kids) < 2:
            out.append(f"{path}: {type(m).__name__} with {len(kids)} children")
        if len(set(kids)) != len(kids):
            out.append(f"{path}: duplicate children")
        for i, k in enumerate(kids):
            if k.is_any() or k.is_empty():
                out.append(f"{path}[{i}]: child {k!r}")
            if type(k) is type(m):
                out.append(f"{path}[{i}]: nested compound of the same kind")
            out.extend(problems(k, f"{path}[{i}]"))
        return out
    return [f"{path}: unknown node {type(m).__name__}"]


def render_problems(m):
    if m.is_any() or m.is_empty():
        return []
    text = str(m)
    if "<empty>" in text:
        return [f"renders <empty>: {text}"]
    if "===" in text or '"' in "".join(getattr(a, "value", "") for a in atoms_of(m)):
        return []  # packaging cannot re-read these for unrelated reasons
    try:
        PkgMarker(text)
    except Exception as e:  # dangling operator etc.
        return [f"rendering not parsable by packaging: {text!r} ({e})"]
    return []


def atoms_of(m):
    if isinstance(m, (MultiMarker, MarkerUnion)):
        for k in m.markers:
            yield from atoms_of(k)
    else:
        yield m


found = []


def check(desc, m):
    p = problems(m) + render_problems(m)
    if p:
        found.append((desc, m, p))
        print(f"VIOLATION: {desc}\n   library returns: {m!r}\n   problems: {p}")


def derived(desc, r):
    check(desc, r)
    for n in ("extra", "os_name", "python_version", "python_full_version", "sys_platform"):
        check(f"({desc}).exclude({n!r})", r.exclude(n))
        check(f"({desc}).only({n!r})", r.only(n))
        check(f"({desc}).only({n!r}, 'os_name')", r.only(n, "os_name"))
    check(f"({desc}).only()", r.only())
    check(f"({desc}).without_extras()", r.without_extras())


# ---------------------------------------------------------------- 1. hand-built
HAND = [
    'os_name == "a" or os_name == "b"', 'os_name != "a" and os_name != "b"',
    '(os_name == "a" or os_name == "b") and os_name != "a"',
    '(os_name == "a" or os_name == "b") and (os_name != "a" and os_name != "b")',
    '(os_name != "a" and os_name != "b") or os_name == "a" or os_name == "b"',
    '(os_name == "a" or os_name == "b") and "a" in os_name',
    '(os_name != "a" and os_name != "b") or "a" in os_name',
    '(os_name == "a" or os_name == "b" or os_name == "c") and os_name < "c"',
    'os_name == "a" or "a" == os_name or os_name == "b"', '"b" == os_name or "a" == os_name',
    'extra == "a" or extra == "b"', 'extra != "a" and extra != "b"', 'extra == "a" and extra == "A"',
    'extra == "a" or extra != "a"', '"a" in extras or "b" in extras', '"a" in extras and "a" not in extras',
    'python_version in "3.6, 3.7" or python_version == "3.8"',
    'python_version not in "3.6, 3.7" and python_version != "3.8"',
    'python_version < "3.8" or python_version >= "3.8"', 'python_version < "3.8" and python_version >= "3.8"',
    'python_full_version < "3.8" or python_version >= "3.8"',
    'python_full_version < "3.8.0" and python_version >= "3.8"',
    'python_full_version < "3.8.0a1" or python_version >= "3.8"',
    'os.name == "a" and os_name == "a"',
    'os_name == "a" and (os_name == "a" or sys_platform == "x")',
    '(os_name == "a" and sys_platform == "x") or (os_name == "a" and sys_platform != "x")',
    '(os_name == "a" or sys_platform == "x") and (os_name == "a" or sys_platform != "x")',
    '(os_name == "a" or sys_platform == "x") and (os_name != "a" or sys_platform == "x")',
    '(os_name == "a" or sys_platform == "x" or extra == "q") and (os_name == "a" or sys_platform != "x")',
    '(extra == "q" and os_name == "a") or (extra == "q" and os_name != "a")',
    '(extra == "q" or os_name == "a") and (extra == "q" or os_name != "a")',
    'os_name in "abc" or os_name not in "abc"', 'os_name in "abc" and os_name not in "abc"',
    'platform_release >= "5" or platform_release < "5"', '((os_name == "a"))', '<empty>', '*', '',
]
for t in HAND:
    m = parse_marker(t)
    derived(f"parse_marker({t!r})", m)
    for other, on in ((AnyMarker(), "Any"), (EmptyMarker(), "Empty"), (m, "self")):
        derived(f"parse_marker({t!r}) & {on}", m & other)
        derived(f"{on} & parse_marker({t!r})", other & m)
        derived(f"parse_marker({t!r}) | {on}", m | other)
        derived(f"{on} | parse_marker({t!r})", other | m)

# ---------------------------------------------------------------- 2. exotic atom pairs
EXOTIC = [
    'platform_release >= "5.10"', '"5.10" in platform_release', 'python_version ~= "3.8"',
    'python_version == "3.8.*"', '"3.8.*" == python_version', '"3.8" ~= python_version',
    'python_version in "3.8"', 'python_version not in "3.8"', '"3.8" in python_version',
    'python_full_version in "3.8"', 'python_full_version in "3.8.1, 3.9.1"', 'python_version == "1!3.8"',
    'python_version >= "3.8rc1"', 'python_version > "3.8.post1"', 'python_version < "3.8.dev1"',
    'implementation_version == "3.8.0"', 'platform_version == "#1 SMP"', 'platform_version >= "1"',
    'extra == ""', 'extra == "a"', 'extra != "a"', '"a" == extra', '"a" in extras', '"a" not in extras',
    '"a" in dependency_groups', 'python_version > "3.8"', 'python_full_version <= "3.8"',
    'python_full_version == "3.8"', 'python_full_version != "3.8.0"', 'os_name == ""', '"" in os_name',
    '"3.8" > python_version', '"3.8" <= python_full_version', 'python_version != "3.8.*"',
]
EX = [(t, parse_marker(t)) for t in EXOTIC]
exc_seen = {}
for (ta, a), (tb, b) in itertools.product(EX, repeat=2):
    for sym in "&|":
        try:
            r = (a & b) if sym == "&" else (a | b)
        except Exception as e:
            exc_seen.setdefault(type(e).__name__, f"{ta} {sym} {tb}: {e}")
            continue
        check(f"{ta} {sym} {tb}", r)
        for tc, c in EX[::5]:
            try:
                check(f"({ta} {sym} {tb}) | {tc}", r | c)
                check(f"({ta} {sym} {tb}) & {tc}", r & c)
            except Exception as e:
                exc_seen.setdefault(type(e).__name__, f"({ta} {sym} {tb}) &| {tc}: {e}")

# ---------------------------------------------------------------- 3. chained random walk
STR_NAMES = ["os_name", "sys_platform", "platform_machine", "platform_system", "implementation_name",
             "platform_python_implementation", "platform_version"]
STR_VALS = ["nt", "posix", "linux", "win32", "darwin", "x86_64", "arm64", "Linux", "cpython", "a", "b"]
VER_NAMES = ["python_version", "python_full_version", "platform_release", "implementation_version"]
PV = ["3.6", "3.7", "3.8", "3.9", "3.10", "3", "2.7", "3.8.0", "3.8.1", "3.8.*", "3.*", "3.9.0a1",
      "3.10.0.post1", "1!3.8", "3.8.dev0"]


def atom(rng):
    r = rng.random()
    if r < 0.35:
        n, v = rng.choice(STR_NAMES), rng.choice(STR_VALS)
        op = rng.choice(["==", "!=", "==", "!=", "<", ">", "<=", ">=", "in", "not in"])
        return f'"{v}" {op} {n}' if rng.random() < 0.2 else f'{n} {op} "{v}"'
    if r < 0.8:
        n, v = rng.choice(VER_NAMES), rng.choice(PV)
        op = rng.choice(["==", "!=", "<", ">", "<=", ">=", "~=", "in", "not in"])
        if op in ("in", "not in"):
            v = ", ".join(rng.sample(["3.6", "3.7", "3.8", "3.9", "3.8.1"], rng.randint(1, 3)))
        if op == "~=" and ("*" in v or v == "3"):
            v = "3.8"
        if "*" in v and op not in ("==", "!="):
            op = "=="
        return f'"{v}" {op} {n}' if rng.random() < 0.15 else f'{n} {op} "{v}"'
    if r < 0.9:
        return f'extra {rng.choice(["==", "!="])} "{rng.choice(["a", "b", "c", "A_b", "a-b"])}"'
    return f'"{rng.choice("abc")}" {rng.choice(["in", "not in"])} {rng.choice(["extras", "dependency_groups"])}'


def expr(rng, depth):
    if depth == 0 or rng.random() < 0.3:
        return atom(rng)
    op = rng.choice([" and ", " or "])
    return "(" + op.join(expr(rng, depth - 1) for _ in range(rng.randint(2, 3))) + ")"


class Timeout(BaseException):
    pass


def _alarm(*_):
    raise Timeout


signal.signal(signal.SIGALRM, _alarm)
seed = int(sys.argv[1]) if len(sys.argv) > 1 else 0
rounds = int(sys.argv[2]) if len(sys.argv) > 2 else 150
rng = random.Random(seed)
NAMES = ["extra", "os_name", "python_version", "sys_platform", "platform_machine", "python_full_version"]
n_results = 0
for _ in range(rounds):
    pool = [AnyMarker(), EmptyMarker()]
    for _ in range(4):
        try:
            pool.append(parse_marker(expr(rng, rng.randint(0, 2))))
        except Exception:
            pass
    for _ in range(25):
        k, x, y = rng.random(), rng.choice(pool), rng.choice(pool)
        signal.alarm(2)
        try:
            if k < 0.35:
                res, d = x & y, f"{x!r} & {y!r}"
            elif k < 0.8:
                res, d = x | y, f"{x!r} | {y!r}"
            elif k < 0.87:
                n = rng.choice(NAMES)
                res, d = x.exclude(n), f"{x!r}.exclude({n!r})"
            elif k < 0.94:
                n = rng.sample(NAMES, 2)
                res, d = x.only(*n), f"{x!r}.only{tuple(n)}"
            else:
                res, d = x.without_extras(), f"{x!r}.without_extras()"
        except Timeout:
            continue
        except Exception as e:
            exc_seen.setdefault(type(e).__name__, f"{x!r} / {y!r}: {e}")
            continue
        finally:
            signal.alarm(0)
        n_results += 1
        check(d, res)
        if not (res.is_any() or res.is_empty()) and res.complexity[0] <= 14:
            pool.append(res)

print(f"hand-built: {len(HAND)} texts; exotic pairs: {len(EX)}^2 x 2 ops; random walk: {n_results} results (seed {seed})")
print(f"C15 violations found: {len(found)}")

print("\nADJACENT observations (not counted as C15 violations):")
print(" exception classes raised by &/| during the sweep (first example each):")
for k, v in exc_seen.items():
    print(f"   {k}: {v[:200]}")
a, b = parse_marker('python_version === "3.8"'), parse_marker('python_version > "3.8"')
try:
    print("  ", a | b)
except Exception as e:
    print(f' - `===` atoms: parse_marker(\'python_version === "3.8"\') | parse_marker(\'python_version > "3.8"\') raises '
          f"{type(e).__name__}: {e}  (packaging evaluates both atoms; `|` returns no marker at all)")
m = parse_marker('"a" in extras and "a" not in extras')
print(f" - simplification is incomplete, so is_empty()/is_any() are sound but not complete: {m!r}.is_empty() == {m.is_empty()}"
      " (unsatisfiable); likewise os_name > \"a\" and os_name <= \"a\", implementation_version >= \"5\" or implementation_version < \"5\"")
m = parse_marker("os_name == 'a\"b' and sys_platform == 'x'")
try:
    PkgMarker(str(m)); ok = "re-parses"
except Exception:
    ok = "is NOT parsable by packaging"
print(f" - a value containing a double quote renders as {str(m)!r}, which {ok} (quoting, not a dangling operator)")
