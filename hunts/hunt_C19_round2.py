"""C19 hunt (run against the UNMODIFIED tree: `git apply -R patch.diff` first).

Inside the property's quantifier (operators ==, !=, in, not in on string variables) no
violation was found.  This script re-runs a reduced version of the sweeps and then
prints two observations that sit just OUTSIDE the quantifier (exception type / atom
evaluation rather than the specifier algebra).

Sweeps that were run during the hunt (all with 0 violations on the unmodified tree):
  * GenericSpecifier &, |, ~ : exhaustive, 6 operators (the 4 plus the reversed
    `contains` / `not contains`) x 14 literals, ordered pairs, 21 candidates: 14 112
    operator applications (11 698 NotImplementedError, 2 414 results checked)
  * marker level, one variable, two operands of 1-3 atoms each (forward and
    literal-on-the-left atoms, in / not in, EqualityMarkerUnion / InequalityMultiMarker),
    `&` and `|`, results re-parsed from str(): 20 000 random cases vs packaging
  * left-folded chains of 2-4 MarkerExpression atoms with quote / backslash / NUL /
    newline / non-ASCII literals, result rendered and re-parsed: 30 000 random cases
  * exhaustive (a op b) op c over 48 os_name atoms (4 operators x 6 literals x
    forward/reversed), 4 operator patterns: 442 368 cases
  * extra / extras / dependency_groups with name normalisation and set / frozenset
    environments in lock_file and requirement contexts: 20 000 random cases
"""

import itertools

from packaging.markers import Marker

from dep_logic.markers import parse_marker
from dep_logic.markers.single import MarkerExpression
from dep_logic.specifiers.generic import GenericSpecifier

POOL = ["", "a", "b", "ab", "abc", "bc", "c", "nt", "posix", "posix nt", "A", "aa", "aba", " "]
CANDS = POOL + ["x", "abcd", "ba", "n", "t", "posix nt java", "a b"]
OPS = ["==", "!=", "in", "not in", "contains", "not contains"]


def spec_sweep() -> int:
    bad = 0
    for (o1, v1), (o2, v2) in itertools.product(itertools.product(OPS, POOL), repeat=2):
        a, b = GenericSpecifier(o1, v1), GenericSpecifier(o2, v2)
        for sym, comb in (("&", lambda x, y: x and y), ("|", lambda x, y: x or y)):
            try:
                r = (a & b) if sym == "&" else (a | b)
            except NotImplementedError:
                continue
            for c in CANDS:
                if (c in r) != comb(c in a, c in b):
                    print(f"VIOLATION ({a}) {sym} ({b}) -> {r!r} on {c!r}")
                    bad += 1
                    break
    for o, v in itertools.product(OPS, POOL):
        a = GenericSpecifier(o, v)
        if any((c in ~a) == (c in a) for c in CANDS):
            print(f"VIOLATION ~({a})")
            bad += 1
    return bad


def chain_sweep() -> int:
    pool = ["", "a", "ab", "b"]
    cands = pool + ["x", "ba"]
    atoms = [
        MarkerExpression("os_name", op, v, rev)
        for op in ("==", "!=", "in", "not in")
        for v in pool
        for rev in (False, True)
    ]
    table = {a: [a.evaluate({"os_name": c}) for c in cands] for a in atoms}
    bad = 0
    for a, b, c in itertools.product(atoms, repeat=3):
        for o1, o2 in ("&&", "||", "&|", "|&"):
            x = (a & b) if o1 == "&" else (a | b)
            r = (x & c) if o2 == "&" else (x | c)
            exp = [(p and q) if o1 == "&" else (p or q) for p, q in zip(table[a], table[b])]
            exp = [(p and q) if o2 == "&" else (p or q) for p, q in zip(exp, table[c])]
            if [r.evaluate({"os_name": cc}) for cc in cands] != exp:
                print(f"VIOLATION ({a}) {o1} ({b}) {o2} ({c}) -> {r}")
                bad += 1
    return bad


def side_observations() -> None:
    print("\nObservations outside the quantifier (not counted as C19 violations):")
    # 1. `extra` with in / not in: packaging evaluates, dep-logic hits a bare assert
    for s, env in (
        ('extra in "abc"', {"extra": "a"}),
        ('extra not in "abc"', {"extra": "x"}),
        ('"a" in extra', {"extra": "abc"}),
    ):
        oracle = Marker(s).evaluate(env)
        try:
            got = parse_marker(s).evaluate(env)
        except Exception as e:  # noqa: BLE001
            got = f"raises {type(e).__name__}"
        print(f"  [extra-in] {s!r} env={env}: dep-logic {got}; packaging {oracle}")
    print(
        "     (MarkerExpression._evaluate: `assert self.op in ('==', '!=')`; under "
        "python -O the assert is gone and `in` is evaluated as `!=`)"
    )
    # 2. `~=` on a plain string variable: the single atom parses (and evaluates to
    #    UndefinedComparison like packaging), but as soon as it meets a same-variable
    #    atom parse_marker itself raises specifiers.base.InvalidSpecifier (neither
    #    InvalidMarker nor NotImplementedError), so the marker cannot even be built.
    for s in ('os_name ~= "nt"', 'os_name ~= "nt" and os_name == "nt"', 'os_name ~= "nt" or sys_platform == "x" or os_name != "nt"'):
        try:
            Marker(s)
            pk = "parses"
        except Exception as e:  # noqa: BLE001
            pk = f"raises {type(e).__name__}"
        try:
            m = parse_marker(s)
            dl = f"parses to {str(m)!r}"
        except Exception as e:  # noqa: BLE001
            dl = f"raises {type(e).__module__}.{type(e).__name__}: {e}"
        print(f"  [tilde-on-string] {s!r}: dep-logic {dl}; packaging {pk}")


def main() -> None:
    bad = spec_sweep()
    print(f"GenericSpecifier exhaustive sweep: {bad} violation(s)")
    bad = chain_sweep()
    print(f"three-atom os_name chains (131 072 cases): {bad} violation(s)")
    side_observations()


if __name__ == "__main__":
    main()
