"""Hunt for C19 violations on the UNMODIFIED tree (run after `git apply -R patch.diff`;
with the seeded patch applied section 1 reports the seeded `== "" & in ""` bug).

Result of the hunt: no NEW violation inside the property's quantifier.  The script
re-runs the systematic parts of the search and prints one adjacent observation
(MarkerExpression.from_specifier on a "contains" specifier) that is outside C19.
"""
import itertools

from packaging.markers import Marker, default_environment

from dep_logic.markers import MarkerExpression, parse_marker
from dep_logic.markers.single import EqualityMarkerUnion, InequalityMultiMarker
from dep_logic.specifiers.generic import GenericSpecifier as G
from dep_logic.specifiers.special import AnySpecifier, EmptySpecifier
from dep_logic.utils import OrderedSet

OPS = ["==", "!=", "in", "not in"]
POOL = ["", "a", "b", "ab", "abc", "bc", "c", "xyz", "abcab", "nt", "posix", "win32",
        "linux", "lin", "x", "li nux", " ", "a ", "A", "Ab", 'q"t', "q't", "b\\s", "é"]
CANDS = POOL + ["zz", "abca", "n", "p"]


def sat(op, v, s):
    return {"==": s == v, "!=": s != v, "in": s in v, "not in": s not in v}[op]


found = 0

# 1. exhaustive: ordered pairs of (op, literal) x candidates, &, |, ~, plus Empty/Any operands
n = 0
for (o1, v1), (o2, v2) in itertools.product(itertools.product(OPS, POOL), repeat=2):
    a, b = G(o1, v1), G(o2, v2)
    for kind in "&|":
        try:
            r = a & b if kind == "&" else a | b
        except NotImplementedError:
            continue
        for s in CANDS:
            n += 1
            p, q = sat(o1, v1, s), sat(o2, v2, s)
            exp = (p and q) if kind == "&" else (p or q)
            if (s in r) != exp:
                found += 1
                print(f"VIOLATION ({a}) {kind} ({b}) -> {r!r}; {s!r} in result = {s in r}, oracle = {exp}")
for o, v in itertools.product(OPS, POOL):
    a = G(o, v)
    assert hash(a) == hash(G(o, v)) and a == G(o, v)
    for s in CANDS:
        n += 1
        if (s in ~a) == sat(o, v, s):
            found += 1
            print(f"VIOLATION ~({a}) on {s!r}")
        for r, exp in ((a & EmptySpecifier(), False), (EmptySpecifier() & a, False),
                       (a | EmptySpecifier(), sat(o, v, s)), (EmptySpecifier() | a, sat(o, v, s)),
                       (a & AnySpecifier(), sat(o, v, s)), (AnySpecifier() & a, sat(o, v, s)),
                       (a | AnySpecifier(), True), (AnySpecifier() | a, True)):
            n += 1
            if (s in r) != exp:
                found += 1
                print(f"VIOLATION special operand with {a} on {s!r}: {r!r}")
print(f"[1] specifier level: {n} membership checks")

# 2. consumers: atoms (both literal sides), EqualityMarkerUnion / InequalityMultiMarker built
#    through their constructors, every ordered pair under & and | (incl. __rand__/__ror__),
#    result evaluated directly and after str() -> parse_marker(); oracle = both operands
#    evaluated separately, atoms cross-checked against packaging.
pool = ["", "a", "b", "ab", "abc", "bc"]
atoms = [MarkerExpression("os_name", o, v, r) for o in OPS for v in pool for r in (False, True)]
sets = [OrderedSet(c) for k in (2, 3) for c in itertools.permutations(pool[:5], k)][::3]
objs = atoms + [EqualityMarkerUnion("os_name", s) for s in sets] + [InequalityMultiMarker("os_name", s) for s in sets]
base = default_environment()
envs = [dict(base, os_name=v) for v in pool + ["zz", "abca", "c"]]
ev = lambda m: tuple(m.evaluate(e) for e in envs)
E = {id(o): ev(o) for o in objs}
for a in atoms:
    assert tuple(Marker(str(a)).evaluate(e) for e in envs) == E[id(a)], str(a)
m = 0
for x, y in itertools.product(objs, repeat=2):
    for kind in "&|":
        m += 1
        r = x & y if kind == "&" else x | y
        rp = r if (r.is_any() or r.is_empty()) else parse_marker(str(r))
        exp = tuple((p and q) if kind == "&" else (p or q) for p, q in zip(E[id(x)], E[id(y)]))
        if ev(r) != exp or ev(rp) != exp:
            found += 1
            print(f"VIOLATION marker level: {x!r} {kind} {y!r} -> {r!r}")
print(f"[2] marker level: {m} ordered pairs x {len(envs)} environments")

# 3. adjacent observation (NOT a C19 violation: the algebra itself never produces it, because a
#    "contains" result is always one of the operands and _merge_single_markers returns that operand):
spec = parse_marker('"a" in os_name').specifier
me = MarkerExpression.from_specifier("os_name", spec)
print(f"[3] note: from_specifier('os_name', {spec!r}) -> {str(me)!r}: not a PEP 508 marker; ", end="")
try:
    me.evaluate({"os_name": "abc"})
except Exception as ex:
    print("evaluate raises", type(ex).__name__)
else:
    print("evaluates")

print("NEW C19 violations found:", found)
