"""Task A: violations of C05 on the UNMODIFIED library.

Oracle: packaging.specifiers.SpecifierSet(...).contains(v, prereleases=True), evaluated
directly on both operands (an `a||b` text is the disjunction of its parts).

Every finding below has a *witness version* (definitive) or, when the claim is
"no version / every version", a scan over a sample universe plus the PEP 440 rule
that explains it.

Run: cd /tmp/wt/C05f && PYTHONPATH=/tmp/wt/C05f/src /venv/bin/python hunt_C05.py
"""
from __future__ import annotations

from packaging.specifiers import SpecifierSet

from dep_logic.specifiers import parse_version_specifier as P

RELS = ["0", "0.9", "1", "1.0.1", "1.1", "2", "2.0.1", "3"]
SUFS = ["", ".dev0", ".dev1", "a1", "a1.dev1", "rc1", ".post0", ".post1",
        ".post1.dev0", "+local", "a1+l", ".post1+l"]
UNIVERSE = [e + r + s for e in ("", "1!") for r in RELS for s in SUFS]


def sat(text: str, v: str) -> bool:
    """packaging's verdict for an `a||b||...` text."""
    if text == "<empty>":
        return False
    return any(
        SpecifierSet(part).contains(v, prereleases=True) for part in text.split("||")
    )


found = 0


def report(title, expr, observed, expected, why):
    global found
    found += 1
    print(f"[{found}] {title}")
    print(f"     input    : {expr}")
    print(f"     library  : {observed}")
    print(f"     oracle   : {expected}")
    print(f"     why      : {why}")


def and_empty_but_witness(a, b, witness, why):
    r = P(a) & P(b)
    if r.is_empty() and sat(a, witness) and sat(b, witness):
        report(
            "(a & b).is_empty() is True although a version satisfies both",
            f"a={a!r}  b={b!r}",
            f"a & b = {r!r}, is_empty() = True",
            f"packaging: {witness!r} satisfies a and b",
            why,
        )


def or_any_but_witness(a, b, witness, why):
    r = P(a) | P(b)
    if r.is_any() and not sat(a, witness) and not sat(b, witness):
        report(
            "(a | b).is_any() is True although a version satisfies neither",
            f"a={a!r}  b={b!r}",
            f"a | b = {r!r}, is_any() = True",
            f"packaging: {witness!r} satisfies neither a nor b",
            why,
        )


def and_nonempty_but_nothing(a, b, why):
    r = P(a) & P(b)
    hits = [v for v in UNIVERSE if sat(a, v) and sat(b, v)]
    if not r.is_empty() and not hits:
        report(
            "(a & b).is_empty() is False although no version satisfies both",
            f"a={a!r}  b={b!r}",
            f"a & b = {r!r}, is_empty() = False",
            f"packaging: none of {len(UNIVERSE)} sampled versions satisfies both",
            why,
        )


def or_notany_but_everything(a, b, why):
    r = P(a) | P(b)
    misses = [v for v in UNIVERSE if not sat(a, v) and not sat(b, v)]
    if not r.is_any() and not misses:
        report(
            "(a | b).is_any() is False although every version satisfies one of them",
            f"a={a!r}  b={b!r}",
            f"a | b = {r!r}, is_any() = False",
            f"packaging: all {len(UNIVERSE)} sampled versions satisfy a or b",
            why,
        )


def equal_but_differ(a, b, witness, why):
    x, y = P(a), P(b)
    if x == y and sat(a, witness) != sat(b, witness):
        report(
            "a == b although they admit different versions",
            f"a={a!r}  b={b!r}",
            f"{x!r} == {y!r} -> True",
            f"packaging: {witness!r} in a = {sat(a, witness)}, in b = {sat(b, witness)}",
            why,
        )


def unequal_but_same(a, b, why):
    x, y = P(a), P(b)
    diff = [v for v in UNIVERSE if sat(a, v) != sat(b, v)]
    if x != y and not diff:
        report(
            "a != b although they admit the same versions",
            f"a={a!r}  b={b!r}",
            f"{x!r} == {y!r} -> False",
            f"packaging: identical on all {len(UNIVERSE)} sampled versions",
            why,
        )


# --- 1. local versions: ==V / <=V / !=V ignore a candidate's local label -----------
and_empty_but_witness(
    "==1.0", "==1.0+local", "1.0+local",
    "PEP 440: `==1.0` matches 1.0+anything; the library models ==1.0 as the point [1.0,1.0]",
)
and_empty_but_witness(
    "<=1.0", "==1.0+local", "1.0+local",
    "PEP 440: `<=1.0` ignores the candidate's local label; interval model puts 1.0+local above 1.0",
)
or_notany_but_everything(
    "!=1.0+local", "==1.0",
    "the only version excluded by a (1.0+local) satisfies b; library keeps a hole at 1.0+local",
)
# --- 2. wildcard prefix matching vs [X.0, X+1.0) ------------------------------------
and_empty_but_witness(
    "==1.*", "<=1.0a1", "1.0a1",
    "PEP 440 prefix matching: 1.0a1 (and 1.0.dev0) match ==1.*; the library uses [1.0, 2.0)",
)
and_nonempty_but_nothing(
    "!=1.*", "==1.0a1",
    "1.0a1 prefix-matches 1.* so !=1.* excludes it; the library uses (<1.0 or >=2.0)",
)
equal_but_differ(
    "==1.*", ">=1.0,<2.0", "1.0a1",
    "both parse to the same RangeSpecifier [1.0,2.0) but ==1.* admits 1.0a1 and 2.0.dev0 is excluded",
)
# --- 3. `<V` excludes pre-releases of V, `>V` excludes post-releases/locals of V -----
or_any_but_witness(
    "<1.0", ">=1.0", "1.0.dev0",
    "PEP 440: `<1.0` does not admit pre-releases of 1.0; the library merges to the universal range",
)
or_any_but_witness(
    "<=1.0", ">1.0", "1.0.post1",
    "PEP 440: `>1.0` does not admit post-releases of 1.0",
)
and_nonempty_but_nothing(
    ">=2.0a1", "<2.0",
    "everything in [2.0a1, 2.0) is a pre-release of 2.0, which `<2.0` excludes",
)
and_nonempty_but_nothing(
    ">1.0", "<1.0.post1",
    "everything in (1.0, 1.0.post1) is a post-release or local version of 1.0, which `>1.0` excludes",
)
# --- 4. the bottom of the version order ----------------------------------------------
and_nonempty_but_nothing(
    "<0.dev0", "<0.dev0",
    "0.dev0 is the smallest PEP 440 version (epoch 0): `<0.dev0` admits nothing but is a RangeSpecifier",
)
or_notany_but_everything(
    ">=0.dev0", ">=0.dev0",
    "0.dev0 is the smallest version: `>=0.dev0` admits everything but is_any() is False",
)
unequal_but_same(
    "<0.dev0", "<empty>",
    "both admit nothing",
)
unequal_but_same(
    "<=0.dev0", "==0.dev0",
    "0.dev0 is the smallest version, so both admit exactly 0.dev0",
)
# --- 5. === is case-insensitive in packaging, case-sensitive here --------------------
and_empty_but_witness(
    "===1.0A", "===1.0a", "1.0a",
    "packaging compares `===` operands case-insensitively; ArbitrarySpecifier.contains uses str ==",
)

# --- 6. wrong-kind failures (no result at all) ---------------------------------------
for title, f in [
    ("~parse('===1.0')", lambda: ~P("===1.0")),
    ("parse('===1.0') | parse('===2.0')", lambda: P("===1.0") | P("===2.0")),
    ("parse('===1.0||>=2')", lambda: P("===1.0||>=2")),
]:
    try:
        f()
    except ValueError as e:
        report(
            "operator on a parse result raises instead of returning a canonical specifier",
            title,
            f"{type(e).__name__}: {e}",
            "a specifier (the operators are total on the other shapes)",
            "ArbitrarySpecifier is reachable from parse_version_specifier but is outside the algebra",
        )

print()
print(f"{found} violations printed")
print(
    "Not violated (interval-model oracle, 60k random expression trees over pools with\n"
    "coincident bounds, epochs, pre/post/dev, trailing zeros, wildcards, ~=, comma-sets,\n"
    "||-texts, &, |, ~): canonical shape, ==/hash vs. same set, is_empty, is_any."
)
