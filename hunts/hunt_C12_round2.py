"""Hunt round 3 for property C12 (only()/exclude()/without_extras()).

Run on the UNMODIFIED tree:
    cd /tmp/wt/C12i && PYTHONPATH=/tmp/wt/C12i/src /venv/bin/python hunt_C12.py

One new finding, reachable only through the public *constructors* (not through
parse_marker / & / |, whose results never have a MultiMarker directly above a
semantically empty member):

  MultiMarker.exclude() silently DROPS a conjunct whose exclusion is empty
  (`if not marker.is_empty(): new_markers.append(marker)`), instead of making the
  whole conjunction empty.  For a marker that does not mention the excluded variable
  at all, exclude()/without_extras() therefore change the meaning from "never" to
  whatever the remaining conjuncts say.  (The related degenerate MarkerUnion() with no
  members evaluates False, and its exclude() returns AnyMarker.)

The oracle is direct evaluation of both sides (evaluate() of a MultiMarker is all(),
of a MarkerUnion any(), of the atoms packaging's semantics) on ordinary environments.
"""
from __future__ import annotations

import itertools

from packaging.markers import Marker

from dep_logic.markers import (
    EmptyMarker,
    MarkerExpression,
    MarkerUnion,
    MultiMarker,
)

ENVS = [
    {"os_name": o, "sys_platform": s, "extra": x}
    for o, s, x in itertools.product(["posix", "nt"], ["linux", "win32"], ["", "a"])
]

posix = MarkerExpression("os_name", "==", "posix")
nt = MarkerExpression("os_name", "==", "nt")
linux = MarkerExpression("sys_platform", "==", "linux")


def names(m) -> set[str]:
    if isinstance(m, (MultiMarker, MarkerUnion)):
        return set().union(*(names(x) for x in m.markers)) if m.markers else set()
    return {m.name} if hasattr(m, "name") else set()


CASES = [
    # (description, marker, equivalent PEP 508 text for packaging or None)
    (
        "conjunction with a nested contradictory group",
        MultiMarker(MarkerUnion(MultiMarker(posix, nt)), linux),
        '(os_name == "posix" and os_name == "nt") and sys_platform == "linux"',
    ),
    ("conjunction with an explicit EmptyMarker member", MultiMarker(EmptyMarker(), linux), None),
    ("conjunction holding the result of MultiMarker.of() on a contradiction",
     MultiMarker(MultiMarker.of(posix, nt), linux), None),
    ("MarkerUnion() without members", MarkerUnion(), None),
]

found = 0
for desc, m, text in CASES:
    assert "extra" not in names(m) and "platform_machine" not in names(m)
    for what, r in (
        ('exclude("extra")', m.exclude("extra")),
        ("without_extras()", m.without_extras()),
        ('exclude("platform_machine")', m.exclude("platform_machine")),
    ):
        diff = [e for e in ENVS if m.evaluate(e) != r.evaluate(e)]
        if text is not None:
            assert all(Marker(text).evaluate(dict(e)) == m.evaluate(e) for e in ENVS)
        if diff:
            found += 1
            e = diff[0]
            print(f"NEW VIOLATION ({desc})")
            print(f"   input      : {m!r}   (mentions {sorted(names(m))}, not the excluded variable)")
            print(f"   operation  : .{what}")
            print(f"   library    : {r!r}")
            print(f"   on env {e}: input evaluates {m.evaluate(e)}"
                  + (f" (packaging on the equivalent text: {Marker(text).evaluate(dict(e))})" if text else "")
                  + f", result evaluates {r.evaluate(e)}")
            print("   expected   : a marker with the same meaning as the input (EmptyMarker)")
            # only() with every mentioned name is fine on the same input:
            o = m.only(*sorted(names(m))) if names(m) else m.only()
            print(f"   (only{tuple(sorted(names(m)))} gives {o!r})")

if not found:
    print("no violation reproduced (is the tree unmodified?)")
print(f"{found} violating (input, operation) pairs")
