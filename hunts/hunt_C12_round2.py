"""C12 hunt on the unmodified tree.

Result of the hunt: no violation of C12 inside the quantifier was found outside the
already known families (areas and case counts are in the final report).  The one thing
that does go wrong is borderline: a marker that packaging parses, that parse_marker()
accepts, and on which only()/exclude()/without_extras() raise an exception of the
library's *specifier* layer (dep_logic.specifiers.base.InvalidSpecifier) instead of
returning a marker.  It needs `~=` applied to a plain string variable, which PEP 508's
grammar allows but whose evaluation is undefined (packaging raises UndefinedComparison
for every environment), so it is a close relative of known family (7).

Run: cd /tmp/wt/C12g && PYTHONPATH=/tmp/wt/C12g/src /venv/bin/python hunt_C12.py
"""
from __future__ import annotations

from packaging.markers import Marker, UndefinedComparison

from dep_logic.markers import parse_marker

CASES = [
    # (marker, call description, callable)
    (
        '(os_name ~= "nt" and extra == "a") or (os_name == "posix" and extra == "b")',
        [
            ("only('os_name')", lambda m: m.only("os_name")),
            ("exclude('extra')", lambda m: m.exclude("extra")),
            ("without_extras()", lambda m: m.without_extras()),
        ],
    ),
    (
        '(platform_machine ~= "x86_64" and python_version >= "3.8") or (platform_machine != "arm64" and python_version < "3.8")',
        [
            ("only('platform_machine')", lambda m: m.only("platform_machine")),
            ("exclude('python_version')", lambda m: m.exclude("python_version")),
        ],
    ),
]

ENV = {"os_name": "posix", "platform_machine": "x86_64", "python_version": "3.9", "extra": "a"}

found = 0
for text, calls in CASES:
    print("marker:", text)
    pk = Marker(text)  # packaging parses it
    try:
        print("  packaging evaluate:", pk.evaluate(ENV))
    except UndefinedComparison as e:
        print("  packaging evaluate: UndefinedComparison:", e)
    m = parse_marker(text)  # and so does the library
    print("  parse_marker ->", repr(str(m)))
    for label, call in calls:
        try:
            result = call(m)
        except Exception as e:  # noqa: BLE001
            found += 1
            print(f"  {label}: raises {type(e).__module__}.{type(e).__name__}: {e}")
            print("     expected: a marker that does not mention the removed variable(s)")
        else:
            print(f"  {label}: {str(result)!r}")

print()
print(f"{found} borderline finding(s) (exception of the wrong layer from only()/exclude());")
print("no in-quantifier violation of C12 found outside the known families.")
