"""Task A hunt for C17 on the unmodified tree.

For every probe the oracle is packaging: each `||` alternative must be taken by
SpecifierSet() (or be exactly `<empty>`); then parse_version_specifier has to return
a specifier, otherwise it has to raise dep_logic's InvalidSpecifier and nothing else.

Run:  cd /tmp/wt/C17f && PYTHONPATH=/tmp/wt/C17f/src /venv/bin/python hunt_C17.py
"""

from __future__ import annotations

from packaging.specifiers import InvalidSpecifier as PkgInvalidSpecifier
from packaging.specifiers import SpecifierSet

from dep_logic.specifiers import (
    InvalidSpecifier,
    from_specifierset,
    parse_version_specifier,
)


def short(text: str) -> str:
    return text if len(text) <= 48 else f"{text[:20]}...<{len(text)} chars>...{text[-12:]}"


def oracle(text: str) -> str:
    def one(part: str) -> bool:
        if part == "<empty>":
            return True
        try:
            SpecifierSet(part)
        except PkgInvalidSpecifier:
            return False
        return True

    parts = text.split("||") if "||" in text else [text]
    return "accept" if all(one(p) for p in parts) else "reject"


def observe(fn) -> str:
    try:
        result = fn()
    except InvalidSpecifier as exc:
        return "raises InvalidSpecifier"
    except BaseException as exc:
        return f"raises {type(exc).__name__}: {str(exc)[:70]}"
    return f"returns {type(result).__name__}"


def probe(group: str, text: str) -> None:
    want = oracle(text)
    got = observe(lambda: parse_version_specifier(text))
    ok = (want == "accept" and got.startswith("returns")) or (
        want == "reject" and got == "raises InvalidSpecifier"
    )
    print(f"[{'ok ' if ok else 'BAD'}] {group}: parse_version_specifier({short(text)!r})")
    print(f"        packaging oracle: {want};  dep_logic: {got}")


print("== 1. `||` alternative that is an arbitrary-equality clause: plain ValueError ==")
for text in ["===1.0||>=2", ">=2||===1.0", "===1.0||===2.0", "===1.0,>=1||<0.5"]:
    probe("arbitrary in ||", text)
print("   (for contrast, these are fine)")
for text in ["===2.5||>=2", "===1.0||<empty>"]:
    probe("arbitrary in ||", text)

print()
print("== 2. numerals beyond the interpreter's int<->str digit limit: plain ValueError ==")
nines = "9" * 4300
for text in [
    ">=1." + "9" * 4301,  # Version() cannot int() the segment
    ">=" + "1" * 4301 + "!1",  # epoch
    ">=1.dev" + "1" * 4301,  # dev number
    "~=" + nines + ".0",  # parses, but release+1 cannot be rendered
    "==" + nines + ".*",
    "!=" + nines + ".*",
]:
    probe("digit limit", text)
print("   (for contrast: 4300 digits without increment is fine)")
probe("digit limit", ">=1." + nines)

print()
print("== 3. `~=` operands with non-ASCII case-fold twins (packaging's ~= branch lacks (?a:)) ==")
print("   packaging's SpecifierSet accepts them; dep_logic answers InvalidSpecifier, and")
print("   from_specifierset raises on a SpecifierSet object (deliberate since 670aa97, but")
print("   against the letter of the statement)")
for text in ["~=1.0.poſt1", "~=1.0.prevıew1", "~=1.0.PREVİEW"]:
    probe("case-fold twin", text)
    got = observe(lambda: from_specifierset(SpecifierSet(text)))
    print(f"        from_specifierset(SpecifierSet(...)): {got}")

print()
print("== 4. borderline: whitespace around `<empty>` inside `||` is asymmetric ==")
for text in [">=1||<empty>", ">=1 ||<empty>", ">=1|| <empty>", ">=1||<empty> ", ">=1 || <2"]:
    probe("<empty> whitespace", text)
