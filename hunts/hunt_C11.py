"""Task A: pre-existing violations of C11 (marker <-> specifier bridge) on the unmodified tree.

Run:  cd /tmp/wt/C11f && PYTHONPATH=/tmp/wt/C11f/src /venv/bin/python hunt_C11.py

Oracles: packaging.markers.Marker(...).evaluate for "the atom evaluates true",
packaging.specifiers.SpecifierSet(...).contains for "the specifier admits".
Every finding prints the concrete input, what the library answers and what the oracle says.
"""

from __future__ import annotations

from packaging.markers import Marker
from packaging.specifiers import SpecifierSet

from dep_logic.markers import MarkerExpression, parse_marker
from dep_logic.specifiers import parse_version_specifier

findings = 0


def env(full: str) -> dict[str, str]:
    x, y, _ = full.split(".")
    return {"python_version": f"{x}.{y}", "python_full_version": full}


def call(fn):
    try:
        return fn()
    except Exception as e:  # noqa: BLE001
        return f"raises {type(e).__name__}: {e}"


def header(title: str) -> None:
    print()
    print("=" * 100)
    print(title)
    print("=" * 100)


def atom_vs_view(text: str, interps: list[str], scope: str) -> None:
    """Direction 1: value in marker.specifier  vs  marker.evaluate  vs  packaging."""
    global findings
    m = parse_marker(text)
    pm = Marker(text)
    name = m.name  # type: ignore[attr-defined]
    view = call(lambda: m.specifier)  # type: ignore[attr-defined]
    for full in interps:
        e = env(full)
        lib_eval = call(lambda: m.evaluate(e))
        pkg_eval = call(lambda: pm.evaluate(e))
        in_view = (
            view if isinstance(view, str) else call(lambda: e[name] in view)
        )
        if not (lib_eval == pkg_eval == in_view):
            findings += 1
            print(
                f"[{scope}] atom {text!r}, interpreter {full} ({name}={e[name]!r}):\n"
                f"      library evaluate -> {lib_eval}; packaging evaluate -> {pkg_eval};"
                f" value in marker.specifier -> {in_view}   (specifier view: {view})"
            )


# --------------------------------------------------------------------------------------
header(
    "A1 (inside the quantifier) python_version in / not in: PEP 508 evaluates a SUBSTRING test,\n"
    "   the specifier view expands the list to ==X.Y.* entries -> 3.1 vs 3.10, and X-only entries"
)
atom_vs_view('python_version in "3.10"', ["3.1.0", "3.10.0"], "in-scope")
atom_vs_view('python_version not in "3.10"', ["3.1.4"], "in-scope")
atom_vs_view('python_version in "2.7, 3.10"', ["3.1.0"], "in-scope")
atom_vs_view('python_version not in "2.7, 3.10, 3.11"', ["3.1.0"], "in-scope")
atom_vs_view('python_version in "3"', ["3.0.0", "3.0.5"], "in-scope")
atom_vs_view('python_version not in "3"', ["3.0.0"], "in-scope")
print("   -> consequence when such an atom is combined through its specifier view:")
for text, full in [
    ('python_version in "3.10" and python_version < "3.5"', "3.1.0"),
    ('python_version not in "3.10" and python_version == "3.1"', "3.1.0"),
]:
    m = parse_marker(text)
    lib = m.evaluate(env(full))
    pkg = Marker(text).evaluate(env(full))
    if lib != pkg:
        findings += 1
        print(
            f"[in-scope] parse_marker({text!r}) -> {str(m)!r}; interpreter {full}:"
            f" library {lib}, packaging {pkg}"
        )

# --------------------------------------------------------------------------------------
header(
    "A2 (inside the quantifier) python_version in / not in with the whitespace separated list PEP 508\n"
    "   itself uses ('2.7 3.4'): the atom evaluates fine, its specifier view raises InvalidSpecifier"
)
atom_vs_view('python_version in "3.8 3.9"', ["3.8.0", "3.7.0"], "in-scope")
atom_vs_view('python_version not in "2.7 3.4"', ["3.4.0"], "in-scope")
text = 'python_version in "3.8 3.9" and python_version >= "3"'
res = call(lambda: parse_marker(text))
if isinstance(res, str):
    findings += 1
    print(f"[in-scope] parse_marker({text!r}) {res}   (packaging parses and evaluates it)")

# --------------------------------------------------------------------------------------
header(
    "A3 (from_specifier input '!=V' with a local version label): the specifier object produced for a\n"
    "   legal simple specifier cannot answer membership at all (wrong-kind exception)"
)
for txt in ["!=3.8+local", "!=3.8.1+ubuntu1"]:
    spec = parse_version_specifier(txt)
    atom = MarkerExpression.from_specifier("python_full_version", spec)
    for full in ["3.8.0", "3.9.0"]:
        a = call(lambda: atom.evaluate(env(full)))
        s = call(lambda: full in spec)
        p = SpecifierSet(txt).contains(full)
        if not (a == s == p):
            findings += 1
            print(
                f"[in-scope] from_specifier('python_full_version', {txt!r}) -> {atom}; {full}:"
                f" atom {a}; packaging specifier {p}; `{full!r} in spec` {s}"
            )

# --------------------------------------------------------------------------------------
header(
    "A4 (borderline: '===' is a single comparison) from_specifier zero-pads the operand of '===' for\n"
    "   python_full_version although '===' is a string comparison -> the atom admits a version the specifier rejects"
)
for txt, full in [("===3.8", "3.8.0"), ("===3", "3.0.0")]:
    spec = parse_version_specifier(txt)
    atom = MarkerExpression.from_specifier("python_full_version", spec)
    a = call(lambda: atom.evaluate(env(full)))
    pa = call(lambda: Marker(str(atom)).evaluate(env(full)))
    s = call(lambda: full in spec)
    p = SpecifierSet(txt).contains(full)
    if not (a == s == p):
        findings += 1
        print(
            f"[borderline] from_specifier('python_full_version', {txt!r}) -> {atom}; {full}:"
            f" atom {a} (packaging on the atom: {pa}); packaging specifier {p}; in library spec {s}"
        )

# --------------------------------------------------------------------------------------
header(
    "A5 (composite specifier, outside the literal quantifier but the requires-python round trip of the\n"
    "   statement) a range with a POST-release upper bound is declared simple and becomes '~='"
)
for lo, hi, full in [(">=3.8.0", "<3.9.post1", "3.9.0"), (">=3.8", "<4.post1", "4.0.0")]:
    spec = parse_version_specifier(f"{lo},{hi}")
    atom = MarkerExpression.from_specifier("python_full_version", spec)
    expected = SpecifierSet(f"{lo},{hi}").contains(full)
    a = call(lambda: atom.evaluate(env(full))) if atom is not None else None
    s = call(lambda: full in spec)
    if atom is not None and not (a == s == expected):
        findings += 1
        print(
            f"[composite] parse_version_specifier('{lo},{hi}') -> {spec!r} (is_simple={spec.is_simple()});"
            f" from_specifier -> {atom}; {full}: atom {a}; `in spec` {s}; packaging {expected}"
        )
text = 'python_full_version >= "3.8.0" and python_full_version < "3.9.post1"'
m = parse_marker(text)
lib, pkg = m.evaluate(env("3.9.0")), Marker(text).evaluate(env("3.9.0"))
if lib != pkg:
    findings += 1
    print(
        f"[composite] parse_marker({text!r}) -> {str(m)!r}; interpreter 3.9.0: library {lib}, packaging {pkg}"
    )

# --------------------------------------------------------------------------------------
header(
    "A6 (adjacent, OUTSIDE the quantifier - listed for completeness)\n"
    "   python_full_version in/not in lists, literal-on-the-left wildcard/~= atoms, pre-release interpreters"
)
atom_vs_view('python_full_version in "3.8, 3.9"', ["3.8.0"], "outside")
atom_vs_view('python_full_version not in "3.8.*"', ["3.8.1"], "outside")
atom_vs_view('python_version in "3.8.1"', ["3.8.1"], "outside")
atom_vs_view('"3.8.*" == python_version', ["3.8.0"], "outside")
atom_vs_view('"3.8" ~= python_version', ["3.0.0"], "outside")
atom_vs_view('"3.8.1" ~= python_full_version', ["3.8.0"], "outside")
for text, full_value in [
    ('python_full_version != "3.8.0"', "3.8.0rc1"),
    ('python_full_version > "3.8"', "3.9.0+"),
]:
    m = parse_marker(text)
    e = {"python_version": full_value[:3], "python_full_version": full_value}
    lib_eval = call(lambda: m.evaluate(e))
    pkg_eval = call(lambda: Marker(text).evaluate(e))
    in_view = call(lambda: full_value in m.specifier)  # type: ignore[attr-defined]
    if not (lib_eval == pkg_eval == in_view):
        findings += 1
        print(
            f"[outside] atom {text!r}, python_full_version={full_value!r}: library evaluate {lib_eval};"
            f" packaging evaluate {pkg_eval}; value in marker.specifier {in_view}"
        )

print()
print(f"{findings} discrepancies printed")
