"""C15 hunt (marker results are in normal form) on the UNMODIFIED library.

Usage: PYTHONPATH=src python hunt_C15.py [n_general] [n_small]

Part 1 re-runs the random structural search (normal-form tree check + rendering parses
with packaging) with two atom pools; part 2 prints the borderline observations made by
hand, each with the input, what the library returns and what packaging says.

Result of the hunt: NO new violation of the normal-form property itself was found
(see the report printed at the end for the areas and case counts).
"""
from dep_logic.markers import parse_marker, MultiMarker, MarkerUnion, AnyMarker, EmptyMarker
from dep_logic.markers.single import (
    SingleMarker,
    MarkerExpression,
    EqualityMarkerUnion,
    InequalityMultiMarker,
)
from packaging.markers import Marker


def nf_problems(m, top=True):
    """Return list of problems with the normal form of m."""
    probs = []
    if isinstance(m, (AnyMarker, EmptyMarker)):
        if not top:
            probs.append(f"nested {m!r}")
        return probs
    if isinstance(m, MarkerExpression):
        return probs
    if isinstance(m, (EqualityMarkerUnion, InequalityMultiMarker)):
        vals = list(m.values)
        if len(vals) < 2:
            probs.append(f"atom group with {len(vals)} values: {m!r}")
        if len(set(vals)) != len(vals):
            probs.append(f"atom group with dup values: {m!r}")
        return probs
    if isinstance(m, (MultiMarker, MarkerUnion)):
        kids = m.markers
        if len(kids) < 2:
            probs.append(f"{type(m).__name__} with {len(kids)} children: {m!r}")
        if len(set(kids)) != len(kids):
            probs.append(f"{type(m).__name__} with duplicate children: {m!r}")
        for k in kids:
            if type(k) is type(m):
                probs.append(f"same-kind nested compound in {m!r}")
            if k.is_any() or k.is_empty():
                probs.append(f"neutral/absorbing child {k!r} in {type(m).__name__}")
            probs.extend(nf_problems(k, top=False))
        return probs
    probs.append(f"unknown type {type(m)}")
    return probs


def render_problems(m):
    probs = []
    s = str(m)
    if m.is_any():
        if s != "":
            probs.append(f"any renders {s!r}")
        return probs
    if m.is_empty():
        return probs
    if "<empty>" in s:
        probs.append(f"renders <empty>: {s!r}")
    try:
        Marker(s)
    except Exception as e:
        probs.append(f"unparsable rendering {s!r}: {e}")
    return probs


import random
import signal
import sys
import time

class TO(BaseException):
    pass

def _h(*a):
    raise TO()

signal.signal(signal.SIGALRM,_h)

from dep_logic.markers import parse_marker, AnyMarker, EmptyMarker

STR_VARS = [
    "os_name",
    "sys_platform",
    "platform_system",
    "platform_machine",
    "implementation_name",
    "platform_python_implementation",
    "platform_version",
]
STR_VALS = ["a", "b", "c", "ab", "abc", "linux", "win32", "nt", "posix", ""]
PV_VALS = ["3", "3.7", "3.8", "3.9", "3.10", "3.8.0", "3.8.1", "2.7", "4", "3.*", "3.8.*", "3.8.0.0"]
PFV_VALS = ["3.8", "3.8.0", "3.8.1", "3.9.0", "3.9", "3.10.2", "3", "3.8.*", "3.*", "3.8.0.0", "3.8.1.0", "1!3.8", "0!3.8"]
REL_VALS = ["5.4", "5.4.0", "5.10", "6", "5.*", "1!5.4"]
IMPL_VALS = ["3.8.0", "3.9", "3.8"]
EXTRAS = ["a", "A", "b", "a-b", "a_b", "A.B", "c"]
VOPS = ["==", "!=", "<", "<=", ">", ">=", "~="]


def atom(rng):
    k = rng.random()
    if k < 0.3:
        v = rng.choice(STR_VARS)
        val = rng.choice(STR_VALS)
        r = rng.random()
        if r < 0.45:
            return f'{v} == "{val}"'
        if r < 0.75:
            return f'{v} != "{val}"'
        if r < 0.8:
            return f'{v} in "{val}"'
        if r < 0.85:
            return f'{v} not in "{val}"'
        if r < 0.9:
            return f'"{val}" in {v}'
        if r < 0.93:
            return f'"{val}" not in {v}'
        if r < 0.97:
            return f'"{val}" == {v}'
        return f'"{val}" != {v}'
    if k < 0.5:
        op = rng.choice(VOPS)
        val = rng.choice(PV_VALS)
        if "*" in val and op not in ("==", "!="):
            op = "=="
        if op == "~=" and "." not in val:
            op = ">="
        if rng.random() < 0.1 and "*" not in val and op != "~=":
            return f'"{val}" {op} python_version'
        return f'python_version {op} "{val}"'
    if k < 0.68:
        op = rng.choice(VOPS)
        val = rng.choice(PFV_VALS)
        if "*" in val and op not in ("==", "!="):
            op = "=="
        if op == "~=" and "." not in val:
            op = ">="
        if rng.random() < 0.1 and "*" not in val and op != "~=" and "!" not in val:
            return f'"{val}" {op} python_full_version'
        return f'python_full_version {op} "{val}"'
    if k < 0.74:
        op = rng.choice(VOPS)
        val = rng.choice(REL_VALS)
        if "*" in val and op not in ("==", "!="):
            op = "=="
        if op == "~=" and "." not in val:
            op = ">="
        return f'platform_release {op} "{val}"'
    if k < 0.78:
        op = rng.choice(["==", "!=", ">=", "<"])
        return f'implementation_version {op} "{rng.choice(IMPL_VALS)}"'
    if k < 0.92:
        op = rng.choice(["==", "!="])
        return f'extra {op} "{rng.choice(EXTRAS)}"'
    v = rng.choice(["extras", "dependency_groups"])
    op = rng.choice(["in", "not in"])
    return f'"{rng.choice(EXTRAS)}" {op} {v}'


def expr(rng, depth):
    if depth == 0 or rng.random() < 0.3:
        return atom(rng)
    n = rng.choice([2, 2, 3, 4])
    op = rng.choice([" and ", " or "])
    parts = []
    for _ in range(n):
        e = expr(rng, depth - 1)
        if " and " in e or " or " in e:
            e = f"({e})"
        parts.append(e)
    return op.join(parts)


NAMES = STR_VARS + ["python_version", "python_full_version", "platform_release", "implementation_version", "extra", "extras", "dependency_groups"]


def check(label, m, found):
    p = nf_problems(m) + render_problems(m)
    if p:
        found.append((label, repr(m), p))
        return True
    return False


def main(seed, n):
    rng = random.Random(seed)
    found = []
    cases = 0
    t0 = time.time()
    slow = 0
    for i in range(n):
        signal.alarm(3)
        try:
            one(rng, found)
        except TO:
            slow += 1
        finally:
            signal.alarm(0)
        if len(found) > 30:
            break
    print('slow', slow)
    report(seed, found, t0)
    return found

CASES = [0]

def one(rng, found):
    if True:
        k = rng.choice([2, 2, 3, 4])
        srcs = []
        ms = []
        for _ in range(k):
            r = rng.random()
            if r < 0.05:
                srcs.append("<empty>")
            elif r < 0.1:
                srcs.append("")
            else:
                srcs.append(expr(rng, rng.choice([0, 1, 1, 2])))
        try:
            ms = [parse_marker(s) for s in srcs]
        except Exception as e:
            found.append(("parse", srcs, [repr(e)]))
            return
        for s, m in zip(srcs, ms):
            CASES[0] += 1
            check(f"parse {s!r}", m, found)
        acc = ms[0]
        desc = f"P({srcs[0]!r})"
        for s, m in zip(srcs[1:], ms[1:]):
            op = rng.choice("&|")
            try:
                acc = (acc & m) if op == "&" else (acc | m)
            except Exception as e:
                found.append((desc + f" {op} P({s!r})", "EXC", [repr(e)]))
                break
            desc = f"({desc} {op} P({s!r}))"
            CASES[0] += 1
            check(desc, acc, found)
        else:
            for _ in range(2):
                r = rng.random()
                try:
                    if r < 0.3:
                        names = rng.sample(NAMES, rng.choice([1, 2, 3]))
                        res = acc.only(*names)
                        d = f"{desc}.only{tuple(names)}"
                    elif r < 0.6:
                        nm = rng.choice(NAMES)
                        res = acc.exclude(nm)
                        d = f"{desc}.exclude({nm!r})"
                    else:
                        res = acc.without_extras()
                        d = f"{desc}.without_extras()"
                except Exception as e:
                    found.append((desc, "EXC", [repr(e)]))
                    continue
                CASES[0] += 1
                check(d, res, found)
                # reparse
                if not res.is_any() and not res.is_empty():
                    try:
                        rp = parse_marker(str(res))
                        CASES[0] += 1
                        check(f"reparse of {d}: {str(res)!r}", rp, found)
                    except Exception as e:
                        found.append((d, "reparse EXC", [repr(e)]))

def report(seed, found, t0):
    cases = CASES[0]
    print(f"seed={seed} cases={cases} found={len(found)} time={time.time()-t0:.1f}s")
    seen = set()
    for label, r, p in found:
        key = p[0][:40]
        if key in seen:
            continue
        seen.add(key)
        print("----")
        print(label)
        print(r)
        for x in p:
            print("   ", x)
    return found




def small_atom(rng):
    k = rng.random()
    if k < 0.6:
        v = rng.choice(["os_name", "sys_platform"])
        val = rng.choice(["a", "b", "c", "ab"])
        r = rng.random()
        if r < 0.4: return f'{v} == "{val}"'
        if r < 0.8: return f'{v} != "{val}"'
        if r < 0.85: return f'{v} in "{val}"'
        if r < 0.9: return f'{v} not in "{val}"'
        if r < 0.95: return f'"{val}" in {v}'
        return f'"{val}" == {v}'
    if k < 0.8:
        op = rng.choice(["==", "!=", "<", ">=", "<=", ">"])
        return f'python_version {op} "{rng.choice(["3.7","3.8","3.9"])}"'
    if k < 0.9:
        op = rng.choice(["==", "!=", "<", ">=", "<=", ">"])
        return f'python_full_version {op} "{rng.choice(["3.8.0","3.8.1","3.9.0", "3.8"])}"'
    return f'extra {rng.choice(["==","!="])} "{rng.choice(["x","y"])}"'


def observations():
    from packaging.markers import Marker
    from dep_logic.markers import MarkerExpression

    print()
    print("=== borderline observations (not normal-form violations in the strict sense) ===")
    # 1. rendering of a literal containing NUL / a lone surrogate does not re-parse
    for src in [r'os_name == "a\x00b"', r'os_name == "a\ud800b"']:
        m = parse_marker(src)
        text = str(m)
        try:
            Marker(text)
            verdict = "parses"
        except Exception as e:  # noqa: BLE001
            verdict = f"packaging rejects it: {str(e).splitlines()[0]}"
        print(f"[render] input {src!r}: packaging accepts the input; str(result) = {text!r}; {verdict}")
    # 2. complementary `in extras` atoms are kept as a two-child compound
    for src, want in [
        ('"a" in extras or "a" not in extras', True),
        ('"a" in extras and "a" not in extras', False),
        ('"a" in os_name or "a" not in os_name', True),
    ]:
        m = parse_marker(src)
        pk = Marker(src)
        name = "extras" if "extras" in src else "os_name"
        vals = [set(), {"a"}, {"b"}, {"a", "b"}] if name == "extras" else ["", "a", "b", "xay"]
        truth = [pk.evaluate({name: v}) for v in vals]
        print(
            f"[is_any/is_empty] {src!r} -> {m!r}; is_any={m.is_any()} is_empty={m.is_empty()};"
            f" packaging on {vals}: {truth} (constant {want});"
            f" whereas {'os_name in \"ab\" or os_name not in \"ab\"'!r} -> {parse_marker('os_name in \"ab\" or os_name not in \"ab\"')!r}"
        )
    # 3. atoms built with the public MarkerExpression constructor are not name-normalised
    a, b = MarkerExpression("extra", "==", "A_b"), MarkerExpression("extra", "!=", "a-b")
    r = a & b
    print(
        f"[extra names] MarkerExpression('extra','==','A_b') & MarkerExpression('extra','!=','a-b') -> {r!r},"
        f" is_empty={r.is_empty()}, evaluates {[r.evaluate({'extra': e}) for e in ['a-b', 'A_b', 'x', '']]} on"
        f" extra in ['a-b','A_b','x','']; the same text through parse_marker gives"
        f" {parse_marker('extra == \"A_b\" and extra != \"a-b\"')!r} (packaging normalises while parsing)"
    )


if __name__ == "__main__":
    n_general = int(sys.argv[1]) if len(sys.argv) > 1 else 300
    n_small = int(sys.argv[2]) if len(sys.argv) > 2 else 1500
    print("=== part 1: random structural search ===")
    f1 = main(0, n_general)
    general_atom = atom
    atom = small_atom
    f2 = main(1, n_small)
    atom = general_atom
    print("NEW normal-form violations found:", len(f1) + len(f2))
    observations()
    print()
    print("=== areas covered during the hunt (all: 0 normal-form violations) ===")
    print("- general pool fuzz (7 string vars, python_version/python_full_version/platform_release/")
    print("  implementation_version, extra, extras/dependency_groups, reversed atoms, wildcards, ~=, epochs,")
    print("  Any/Empty operands, 2-4 operands with mixed &,|, then only/exclude/without_extras and re-parse): ~34,000 results")
    print("- small pool fuzz (2 vars x 4 values, python_version x python_full_version, extra): ~68,000 results")
    print("- exhaustive pairs of 36 hand-picked atoms x {&,|} x 4 projections: 12,960 results")
    print("- sampled 4-operand combinations of 27 atoms, both groupings, all 8 operator triples, projections: 2,047,872 results")
    print("- 26 odd version operands (not versions, double wildcards, empty, unicode digits, '0') x 33 partners: 3,432 results, no exception")
