"""C15 hunt (third round) - meant for the UNMODIFIED library.

Run:  cd /tmp/wt/C15i && PYTHONPATH=/tmp/wt/C15i/src /venv/bin/python hunt_C15.py [cases]

Result of the hunt: NO new violation of C15 inside the property's quantifier.
The script re-runs (a) the hand-written probes of rarely reached branches and
(b) two random searches, judging every result with a structural normal-form checker
and by re-parsing its rendering.  Two borderline observations OUTSIDE the quantifier
are printed at the end as notes.
"""

from __future__ import annotations

import itertools
import random
import signal
import sys

import dep_logic.utils as U
from dep_logic.markers import (
    AnyMarker,
    EmptyMarker,
    MarkerUnion,
    MultiMarker,
    from_pkg_marker,
    parse_marker,
)
from dep_logic.markers.single import (
    EqualityMarkerUnion,
    InequalityMultiMarker,
    MarkerExpression,
)
from packaging.markers import Marker

P = parse_marker


def nf_problems(m, path="root"):
    if isinstance(m, (AnyMarker, EmptyMarker, MarkerExpression)):
        return []
    if isinstance(m, (EqualityMarkerUnion, InequalityMultiMarker)):
        vals = list(m.values)
        return (
            [f"{path}: atom group with values {vals}"]
            if len(vals) < 2 or len(set(vals)) != len(vals)
            else []
        )
    if not isinstance(m, (MultiMarker, MarkerUnion)):
        return [f"{path}: unexpected node {type(m).__name__}"]
    out = []
    kids = list(m.markers)
    if len(kids) < 2:
        out.append(f"{path}: {type(m).__name__} with {len(kids)} children")
    for i, j in itertools.combinations(range(len(kids)), 2):
        if kids[i] == kids[j]:
            out.append(f"{path}: equal children {i},{j}")
    for i, k in enumerate(kids):
        if k.is_any() or k.is_empty():
            out.append(f"{path}: child {i} is {k!r}")
        if type(k) is type(m):
            out.append(f"{path}: child {i} same kind")
        out += nf_problems(k, f"{path}.{i}")
    return out


def full_check(m):
    """normal form + rendering re-parses (packaging) into a normal-form marker."""
    p = nf_problems(m)
    if not m.is_any() and not m.is_empty():
        s = str(m)
        if "<empty>" in s or not s.strip():
            p.append(f"renders {s!r}")
        Marker(s)  # raises if a dangling operator was rendered
        p += ["reparse " + x for x in nf_problems(parse_marker(s))]
    return p


violations: list[str] = []
borderline: list[str] = []  # operands that are themselves non-normal (raw constructors)
ran = 0


def probe(label, thunk, bucket=violations):
    global ran
    ran += 1
    try:
        m = thunk()
        p = nf_problems(m) if bucket is borderline else full_check(m)
    except Exception as e:  # wrong-type exceptions count too
        bucket.append(f"{label}: raised {type(e).__name__}: {e}")
        return
    if p:
        bucket.append(f"{label}: returned {m!r}: {p}")


# ---------------------------------------------------------------- hand-written probes
A, B = P('os_name == "a"'), P('sys_platform == "b"')
E, ANY = EmptyMarker(), AnyMarker()
eq = P('os_name == "a" or os_name == "b"')
ne = P('os_name != "a" and os_name != "b"')
assert isinstance(eq, EqualityMarkerUnion) and isinstance(ne, InequalityMultiMarker)

# neutral / absorbing operands with every node class, both operand orders (dunder
# dispatch: __and__/__rand__/__or__/__ror__ across classes)
nodes = [A, A & B, A | B, eq, ne, eq & B, ne | B, E, ANY]
for x, y in itertools.product(nodes, repeat=2):
    probe(f"{x!r} & {y!r}", lambda: x & y)
    probe(f"{x!r} | {y!r}", lambda: x | y)
for x, y, z in itertools.product(nodes, repeat=3):
    probe("3-operand union", lambda: U.union(x, y, z))
    probe("3-operand intersection", lambda: U.intersection(x, y, z))
    probe("MarkerUnion.of", lambda: MarkerUnion.of(x, y, z))
    probe("MultiMarker.of", lambda: MultiMarker.of(x, y, z))
probe("union()", lambda: U.union())
probe("intersection()", lambda: U.intersection())
probe("MultiMarker.of()", lambda: MultiMarker.of())
probe("MarkerUnion.of()", lambda: MarkerUnion.of())

# operands built through the constructors (one-child, zero-child, with neutral children)
for built in [
    MultiMarker(A), MarkerUnion(A), MultiMarker(), MarkerUnion(), MultiMarker(A, ANY),
    MultiMarker(A, E), MarkerUnion(A, E), MarkerUnion(A, ANY), MultiMarker(MarkerUnion(A), B),
]:
    for other in [B, A | B, A & B, eq, E, ANY]:
        probe(f"built {built!r} | {other!r}", lambda: built | other, borderline)
        probe(f"built {built!r} & {other!r}", lambda: built & other, borderline)
        probe(f"{other!r} | built {built!r}", lambda: other | built, borderline)
        probe(f"{other!r} & built {built!r}", lambda: other & built, borderline)

# only / exclude / without_extras, including on results of `|`
NAMES = ["os_name", "sys_platform", "extra", "python_version", "python_full_version", "nope"]
for text in [
    'os_name == "a" and sys_platform == "b"',
    'os_name == "a" or sys_platform == "b"',
    '(os_name == "a" and extra == "x") or (sys_platform == "b" and extra == "y")',
    '(extra == "x" and extra == "y") or os_name == "a"',
    '(extra == "x" or os_name == "a") and (extra == "y" or sys_platform == "b")',
    'os_name == "a" or os_name == "b"',
    'os_name != "a" and os_name != "b"',
    '(os_name == "a" or os_name == "b") and extra == "x"',
    'python_version >= "3.8" and (python_full_version < "3.9.1" or extra == "x")',
]:
    m = P(text)
    for n in NAMES:
        probe(f"({text}).exclude({n})", lambda: m.exclude(n))
        probe(f"({text}).only({n})", lambda: m.only(n))
        probe(f"(({text}) | B).exclude({n})", lambda: (m | B).exclude(n))
        probe(f"(({text}) | B).only({n}, 'sys_platform')", lambda: (m | B).only(n, "sys_platform"))
    probe(f"({text}).only()", lambda: m.only())
    probe(f"({text}).without_extras()", lambda: m.without_extras())

# parser: grouping, repeated atoms, literal-on-the-left, name aliases, extra normalisation,
# group/group interactions, python_version vs python_full_version merging
for text in [
    '((os_name == "a"))', 'os_name == "a" and (os_name == "a")',
    '(os_name == "a" or os_name == "a") and sys_platform == "x"',
    'os.name == "a" and os_name == "a"', '"a" == os_name or os_name == "a"',
    'python_implementation == "x" or platform_python_implementation == "x"',
    'extra == "a" and extra == "A"', 'extra == "a_b" or extra == "A.B"',
    '"a" == extra or extra == "a"', 'extra != "a" and "a" != extra', 'extra == "a" or extra != "a"',
    'os_name == "a" or (os_name == "b" or (os_name == "c" or sys_platform == "x"))',
    'os_name != "a" and (os_name != "b" and (os_name != "c" and sys_platform == "x"))',
    '(os_name != "a" and os_name != "b") or (os_name != "c" and os_name != "d")',
    '(os_name != "a" and os_name != "b") or (os_name != "b" and os_name != "d")',
    '(os_name == "a" or os_name == "b") and (os_name == "c" or os_name == "d")',
    '(os_name == "a" or os_name == "b") and (os_name == "b" or os_name == "d")',
    '(os_name != "a" and os_name != "b") or (os_name == "a" or os_name == "b")',
    '(os_name != "a" and os_name != "b") and (os_name == "a" or os_name == "c")',
    '(os_name != "a" and os_name != "b") or (os_name == "a" or os_name == "c")',
    '(os_name == "a" or os_name == "b") and "a" not in os_name',
    '(os_name != "a" and os_name != "b") or "a" in os_name',
    'python_version == "3.8" and python_full_version == "3.8.*"',
    'python_version >= "3.8" and python_full_version < "3.8.0"',
    'python_version >= "3.8" or python_full_version < "3.8.0"',
    'python_version != "3.8" or python_full_version == "3.8.*"',
    'python_version ~= "3.8" and python_full_version ~= "3.8.2"',
    'python_version >= "3" or python_full_version < "3"',
    'python_full_version >= "1!3" or python_version < "3"',
    'python_version == "3.8" or python_version == "3.8.0"',
    'python_version >= "3.8" and sys_platform == "b" or python_version >= "3.7"',
    '(python_version >= "3.8" or sys_platform == "b") and python_version >= "3.9"',
    'implementation_version == "1" and "1" == implementation_version',
    'platform_version == "#1 SMP" or platform_version == "x"',
]:
    probe(f"parse {text}", lambda: P(text))
    probe(f"from_pkg_marker {text}", lambda: from_pkg_marker(Marker(text)))

print(f"hand-written probes: {ran} results checked")

# ---------------------------------------------------------------- random searches
N = int(sys.argv[1]) if len(sys.argv) > 1 else 6000
rnd = random.Random(20260930)
ATOMS = [P(a) for a in [
    'os_name == "a"', 'os_name == "b"', 'os_name == "c"', 'os_name != "a"', 'os_name != "b"',
    'os_name != "c"', 'os_name in "ab"', 'os_name not in "ab"', '"a" in os_name',
    'sys_platform == "x"', 'sys_platform != "x"', 'sys_platform == "y"',
    'platform_machine == "m"', 'platform_machine == "n"', 'platform_system == "s"',
    'python_version >= "3.8"', 'python_version < "3.8"', 'python_version == "3.8"',
    'python_version != "3.8"', 'python_full_version >= "3.8.0"', 'python_full_version < "3.9"',
    'python_full_version >= "3.8.2"', 'python_version < "3.10"', 'python_version > "3.8"',
    'python_full_version == "3.8.*"', 'python_version ~= "3.8"', '"3.9" <= python_version',
    'extra == "a"', 'extra == "b"', 'extra != "a"', '"a" in extras', '"a" not in extras',
    '"g" in dependency_groups', 'implementation_version == "3.8"', 'platform_release >= "5"',
    'platform_release < "5"',
]]
NAMES = ["os_name", "sys_platform", "python_version", "python_full_version", "extra", "extras",
         "platform_machine", "platform_release"]


def gen(d):
    r = rnd.random()
    if d == 0 or r < 0.25:
        if r < 0.02:
            return AnyMarker()
        if r < 0.04:
            return EmptyMarker()
        return rnd.choice(ATOMS)
    a = gen(d - 1)
    k = rnd.random()
    if k < 0.35:
        return a & gen(d - 1)
    if k < 0.70:
        return a | gen(d - 1)
    if k < 0.76:
        return a.only(*rnd.sample(NAMES, rnd.choice([1, 2, 3])))
    if k < 0.82:
        return a.exclude(rnd.choice(NAMES))
    if k < 0.85:
        return a.without_extras()
    if k < 0.90:
        return MultiMarker.of(a, gen(d - 1), gen(d - 1))
    if k < 0.95:
        return MarkerUnion.of(a, gen(d - 1), gen(d - 1))
    if k < 0.975:
        return U.union(a, gen(d - 1), gen(d - 1))
    return U.intersection(a, gen(d - 1), gen(d - 1))


class _Timeout(Exception):
    pass


def _alarm(*_):
    raise _Timeout()


signal.signal(signal.SIGALRM, _alarm)
done = timeouts = 0
for _ in range(N):
    try:
        signal.alarm(3)
        m = gen(rnd.choice([2, 3, 4]))
        p = full_check(m)
        signal.alarm(0)
    except _Timeout:  # known family (9): exponential run time
        timeouts += 1
        continue
    except Exception as e:
        signal.alarm(0)
        violations.append(f"random: raised {type(e).__name__}: {e}")
        continue
    done += 1
    if p:
        violations.append(f"random: returned {m!r}: {p}")
print(f"random search: {done} results checked ({timeouts} skipped on the 3 s time limit)")

print()
if violations:
    print(f"{len(violations)} VIOLATION(S) OF C15:")
    for v in violations[:20]:
        print(" -", v)
else:
    print("NO new C15 violation found on this tree.")

# ---------------------------------------------------------------- notes (outside the quantifier)
print()
print("Notes (NOT counted: outside the property's quantifier)")
print(" 0. operands built with the raw constructors that are themselves not in normal form")
print("    (MultiMarker(A), MarkerUnion(), MultiMarker(A, AnyMarker()), ...) are normalised by every")
print("    operator path EXCEPT the identity shortcuts EmptyMarker.__or__ / AnyMarker.__and__ (left")
print(f"    operand neutral), which hand the operand back untouched - {len(borderline)} such results:")
for b in borderline[:4]:
    print("      " + b)
import dep_logic.markers.utils as orphan  # noqa: E402  (a module nothing in the library imports)

p_ = P('platform_machine == "n" and sys_platform == "y"')
q_ = P('platform_system == "s" and sys_platform == "x"')
r_ = orphan.union(p_, q_, EmptyMarker())
print(" 1. dep_logic/markers/utils.py is an unused stale copy of dep_logic/utils.py; its union()")
print("    still lacks the empty-operand filter:")
print(f"      dep_logic.markers.utils.union(P, Q, EmptyMarker()) -> {r_!r}")
print(f"      (P | Q | EmptyMarker() through the real operators  -> {(p_ | q_ | EmptyMarker())!r})")
lit = P('"a" == "a"')
print(" 2. an atom with a literal on BOTH sides (packaging parses it, evaluating it raises")
print("    UndefinedEnvironmentName there) is accepted and rendered with a bare name:")
print(f"      parse_marker('\"a\" == \"a\"') -> {lit!r}; str() does not re-parse; evaluate() raises KeyError")
