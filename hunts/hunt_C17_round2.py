"""C17 hunt on the unmodified tree: inputs on which the library already violates

    "parse_version_specifier returns a specifier for every specifier set that packaging's
     SpecifierSet accepts ... for every other string it raises InvalidSpecifier and nothing
     else.  from_specifierset never raises on a SpecifierSet object."

Oracle: packaging.specifiers.SpecifierSet(text) accepting / rejecting the text.
Run: cd /tmp/wt/C17h && PYTHONPATH=/tmp/wt/C17h/src /venv/bin/python hunt_C17.py
"""

from packaging.specifiers import InvalidSpecifier as PkgInvalidSpecifier
from packaging.specifiers import SpecifierSet

from dep_logic.specifiers import (
    InvalidSpecifier,
    from_specifierset,
    parse_version_specifier,
)


def short(text: str) -> str:
    return text if len(text) <= 40 else f"{text[:16]}...({len(text)} chars)...{text[-8:]}"


def outcome(fn, arg):
    try:
        return "returned " + type(fn(arg)).__name__
    except InvalidSpecifier as e:
        return "InvalidSpecifier"
    except Exception as e:  # noqa: BLE001
        return f"{type(e).__name__} (not InvalidSpecifier): {str(e)[:60]}"


found = 0

# ---------------------------------------------------------------------------------------
# NEW 1: release / epoch numbers longer than CPython's int<->str digit limit (4300).
#   The PEP 440 grammar puts no bound on the number of digits, and SpecifierSet accepts
#   the text.  The library converts eagerly (Version(...), and str(n + 1) for the
#   exclusive bound of `==X.*` / `~=`), so a bare ValueError escapes from both entry
#   points - neither a specifier nor InvalidSpecifier.
#   (a) 5000 digits: int() fails inside packaging.version.Version
#   (b) exactly 4300 nines: Version() succeeds, but the *next* series has 4301 digits and
#       _release_version's str() fails - only the wildcard / compatible forms raise,
#       `>=` with the same operand is fine.
# ---------------------------------------------------------------------------------------
nines = "9" * 4300
cases = [
    ">=1." + "9" * 5000,
    "==1." + "9" * 5000,
    "!=" + "9" * 5000 + "!1.0",
    "==1." + nines + ".*",
    "!=1." + nines + ".*",
    "~=1." + nines + ".0",
    ">=1." + nines,  # control: accepted
]
print("== integer segments beyond the 4300-digit int/str conversion limit")
for text in cases:
    try:
        pkg = SpecifierSet(text)
        oracle = "accepts"
    except PkgInvalidSpecifier:
        pkg = None
        oracle = "rejects"
    got = outcome(parse_version_specifier, text)
    got_set = outcome(from_specifierset, pkg) if pkg is not None else "-"
    expected = "a specifier" if pkg is not None else "InvalidSpecifier"
    bad = (pkg is not None) != got.startswith("returned") or "not InvalidSpecifier" in got
    found += bad
    print(
        f"{'VIOLATION' if bad else 'ok       '} {short(text)!r}\n"
        f"      packaging SpecifierSet: {oracle}; expected from library: {expected}\n"
        f"      parse_version_specifier: {got}\n"
        f"      from_specifierset:       {got_set}"
    )

# ---------------------------------------------------------------------------------------
# Not new (same mechanism as the `~=1.0.poſt1` carve-out documented in from_specifierset):
# the `~=` branch of packaging's regex is the only one without the (?a:) flag, so under
# IGNORECASE U+0131 / U+0130 match the "i" of "preview".  SpecifierSet accepts, the library
# answers InvalidSpecifier.  Printed for completeness only, not counted.
# ---------------------------------------------------------------------------------------
print("== (known carve-out, other letters) non-ASCII case folding in the ~= operand")
for text in ["~=1.0prevıew1", "~=1.0.prevİew1"]:
    try:
        SpecifierSet(text)
        oracle = "accepts"
    except PkgInvalidSpecifier:
        oracle = "rejects"
    print(f"          {text!r}: packaging {oracle}; library: {outcome(parse_version_specifier, text)}")

print()
print(f"new violations: {found}")
print(
    "areas covered without further findings: ~110k random cases / ~37M membership checks\n"
    "(valid sets of 1-4 clauses over all operators except ===, epochs, v prefix, 1-5 release\n"
    "segments, wildcards of every depth, ~= with suffixes, every alternative pre/post/dev\n"
    "spelling and separator, odd whitespace; single-character mutations of those for the\n"
    "near-miss side; 2-3 way `||` alternatives; render -> re-parse of every result), compared\n"
    "with packaging for acceptance, exception type and membership; plus ~120 hand-written\n"
    "edge strings (empty clauses, unicode blanks/digits, NUL, lone surrogate, `<empty>`\n"
    "placement, stray `|`), 1500-clause and 3000-alternative inputs, and SpecifierSet objects\n"
    "built from Specifier iterables / with prereleases= / via `&`."
)
