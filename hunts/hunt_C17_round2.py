"""C17 hunt, round 3 (run on the UNMODIFIED tree).

Prints the candidate deviations found by reading the code paths, each with the concrete
input, what the library does and what the oracle (packaging) says, then re-runs a
grammar fuzzer as evidence for the areas that turned out clean.

Neither candidate is a clear-cut violation of the property as worded; both are
borderline (see the notes printed with them).
"""

import random
import sys

from packaging.specifiers import InvalidSpecifier as PkgInvalid
from packaging.specifiers import Specifier, SpecifierSet

from dep_logic.specifiers import (
    BaseSpecifier,
    InvalidSpecifier,
    from_specifierset,
    parse_version_specifier,
)


def outcome(f):
    try:
        return f"returns {f()!r}"
    except BaseException as e:  # noqa: BLE001
        return f"raises {type(e).__name__}: {e}"


print("== candidate 1 (borderline): SpecifierSet built from an iterable of strings")
ss = SpecifierSet([">=1.0", "<2"])  # packaging: 'setuptools passes lists of strings'
print("  input    : from_specifierset(SpecifierSet(['>=1.0', '<2']))")
print("  oracle   : packaging builds the object and renders it:", outcome(lambda: str(ss)),
      "- but ss.contains('1.5')", outcome(lambda: ss.contains("1.5")))
print("  library  :", outcome(lambda: from_specifierset(ss)))
print("  expected : 'from_specifierset never raises on a SpecifierSet object' (the same set built from")
print("             Specifier objects works:", outcome(lambda: from_specifierset(SpecifierSet([Specifier('>=1.0'), Specifier('<2')]))), ")")
print("  note     : packaging annotates the argument Iterable[Specifier]; with strings packaging's own contains()")
print("             fails the same way, so the object is not a usable SpecifierSet -> NOT counted as a violation")

print("== candidate 2 (borderline): `<empty>` alternative written with blanks around `||`")
for text in (">=1.0 || <empty>", "<empty> || >=1.0", " <empty>"):
    print(f"  input    : parse_version_specifier({text!r})")
    print("  library  :", outcome(lambda: parse_version_specifier(text)))
print("  compare  :", outcome(lambda: parse_version_specifier(">=1.0 || <2 ")), "for '>=1.0 || <2 ' (blanks fine around ordinary alternatives)")
print("  note     : every other alternative may carry blanks (SpecifierSet strips them); only the literal")
print("             `<empty>` must be exact. The property names `<empty>` as a string, so this is by the letter.")

# ---------------------------------------------------------------------------------------
# evidence for the clean areas: grammar fuzzer (valid sets + near-miss mutations)
rnd = random.Random(2024)
N = int(sys.argv[1]) if len(sys.argv) > 1 else 60000


def num():
    r = rnd.random()
    if r < 0.5:
        return str(rnd.randint(0, 3))
    if r < 0.8:
        return str(rnd.randint(0, 30))
    if r < 0.9:
        return "0" * rnd.randint(1, 2) + str(rnd.randint(0, 9))
    return str(rnd.choice([99, 100, 2**31, 2**64, 10**20]))


def release(minseg=1):
    return ".".join(num() for _ in range(rnd.randint(minseg, rnd.choice([2, 3, 3, 4, 6]))))


def sep():
    return rnd.choice(["", "", ".", "-", "_"])


def case(s):
    return "".join(c.upper() if rnd.random() < 0.15 else c for c in s)


def suffixes():
    out = ""
    if rnd.random() < 0.3:
        out += sep() + case(rnd.choice(["a", "b", "c", "rc", "alpha", "beta", "pre", "preview"])) + sep() + rnd.choice(["", num()])
    if rnd.random() < 0.3:
        if rnd.random() < 0.2:
            out += "-" + num()
        else:
            out += sep() + case(rnd.choice(["post", "rev", "r"])) + sep() + rnd.choice(["", num()])
    if rnd.random() < 0.3:
        out += sep() + case("dev") + sep() + rnd.choice(["", num()])
    return out


def ws():
    return rnd.choice(["", "", "", " ", "  ", "\t", " ", "\x1c"])


def atom():
    op = rnd.choice(["==", "!=", "<", "<=", ">", ">=", "~=", "==", "!="])
    epoch = rnd.choice(["", "", "", "0!", "1!", "2!", "10!"])
    v = rnd.choice(["", "", "", "v", "V"])
    if op in ("==", "!=") and rnd.random() < 0.4:
        body = release() + ".*"
    elif op == "~=":
        body = release(2) + suffixes()
    else:
        body = release() + suffixes()
    return ws() + op + ws() + v + epoch + body + ws()


def specset():
    parts = [atom() for _ in range(rnd.choice([0, 1, 1, 1, 2, 2, 3, 4]))]
    if rnd.random() < 0.1:
        parts.insert(rnd.randint(0, len(parts)), ws())
    return ",".join(parts)


def full():
    n = rnd.choice([1, 1, 1, 2, 2, 3, 4])
    return "||".join(("<empty>" if rnd.random() < 0.08 else specset()) for _ in range(n))


JUNK = list("<>=!~.*,| -_+v!0123456789abdeprstcov()[];\n\t") + ["||", "<empty>", ".*", "dev", "post", "rc", "==", "~=", "ſ", "ı", "١"]


def mutate(s):
    for _ in range(rnd.randint(1, 3)):
        if not s:
            s = rnd.choice(JUNK)
            continue
        r = rnd.random()
        i = rnd.randrange(len(s) + 1)
        if r < 0.35:
            s = s[:i] + rnd.choice(JUNK) + s[i:]
        elif r < 0.7:
            s = s[:i] + s[i + 1 :]
        elif r < 0.85:
            j = rnd.randrange(len(s) + 1)
            i, j = min(i, j), max(i, j)
            s = s[:i] + s[j:]
        else:
            s = s[:i] + rnd.choice(JUNK) + s[i + 1 :]
    return s


def oracle(s):
    if s == "<empty>":
        return True
    for alt in s.split("||"):
        if alt == "<empty>":
            continue
        try:
            SpecifierSet(alt)
        except PkgInvalid:
            return False
    return True


bad = nvalid = ran = 0
for _ in range(N):
    s = full()
    if rnd.random() < 0.5:
        s = mutate(s)
    if "===" in s or "+" in s:  # known families 4 and 5
        continue
    ran += 1
    want = oracle(s)
    nvalid += want
    try:
        r = parse_version_specifier(s)
    except InvalidSpecifier as e:
        ok = type(e) is InvalidSpecifier and (not want or not s.isascii())  # non-ASCII ~= operand: documented
        msg = f"InvalidSpecifier {e}"
    except BaseException as e:  # noqa: BLE001
        ok, msg = False, f"{type(e).__name__} {e}"
    else:
        ok, msg = want and isinstance(r, BaseSpecifier), f"returned {r!r}"
    if not ok:
        bad += 1
        print(f"  FUZZ VIOLATION {s!r}: packaging says {'valid' if want else 'invalid'}, library: {msg}")
print(f"== fuzzer: {ran} strings ({nvalid} valid per packaging), {bad} violations")
