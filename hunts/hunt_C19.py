"""Hunt for pre-existing C19 violations on the unmodified tree.

Layer 1: GenericSpecifier &, |, ~ and `in` - exhaustive over a literal pool closed
under equal / substring / superstring / disjoint / empty, all ordered pairs.
Layer 2: the consumers (marker atoms on string variables, EqualityMarkerUnion,
InequalityMultiMarker, parse_marker) judged against packaging's Marker.evaluate.
"""

from __future__ import annotations

import itertools
import sys

from packaging.markers import Marker as PkgMarker

from dep_logic.markers import parse_marker
from dep_logic.specifiers.generic import GenericSpecifier
from dep_logic.specifiers.special import AnySpecifier, EmptySpecifier

OPS = ["==", "!=", "in", "not in"]
POOL = [
    "", "a", "b", "ab", "ba", "abc", "bc", "abab", "linux", "linux2", "lin", "nux",
    "win32", "win", "32", "darwin", "x86_64", "x86", "86", "_", " ", "a b", "A",
    "Linux", "é", "é", "1.0", "1.00", "1", "nt", "posix", "java",
]
CANDS = POOL + ["c", "abcd", "zzz", "linux3", "in", "n", "x"]

ORACLE = {
    "==": lambda x, v: x == v,
    "!=": lambda x, v: x != v,
    "in": lambda x, v: x in v,
    "not in": lambda x, v: x not in v,
}

violations: list[str] = []


def report(msg: str) -> None:
    violations.append(msg)
    print("VIOLATION:", msg)


def layer1() -> int:
    n = 0
    specs = [(op, v) for op in OPS for v in POOL]
    for op, v in specs:
        s = GenericSpecifier(op, v)
        try:
            inv = ~s
        except Exception as e:  # noqa: BLE001
            report(f"~({op!r},{v!r}) raised {type(e).__name__}: {e}")
            continue
        for x in CANDS:
            n += 1
            if (x in s) != ORACLE[op](x, v):
                report(f"{x!r} in ({op!r},{v!r}) -> {x in s}")
            if (x in inv) == ORACLE[op](x, v):
                report(f"~({op!r},{v!r}) = {inv!r}; {x!r}: lib {x in inv}")
        if hash(s) != hash(GenericSpecifier(op, v)) or s != GenericSpecifier(op, v):
            report(f"hash/eq unstable for ({op!r},{v!r})")
    for (op1, v1), (op2, v2) in itertools.product(specs, repeat=2):
        a, b = GenericSpecifier(op1, v1), GenericSpecifier(op2, v2)
        for name, fn, comb in (
            ("&", lambda p, q: p & q, lambda p, q: p and q),
            ("|", lambda p, q: p | q, lambda p, q: p or q),
        ):
            try:
                r = fn(a, b)
            except NotImplementedError:
                continue
            except Exception as e:  # noqa: BLE001
                report(f"{a!r} {name} {b!r} raised {type(e).__name__}: {e}")
                continue
            if r is NotImplemented:
                report(f"{a!r} {name} {b!r} returned NotImplemented")
                continue
            for x in CANDS:
                n += 1
                want = comb(ORACLE[op1](x, v1), ORACLE[op2](x, v2))
                try:
                    got = x in r
                except Exception as e:  # noqa: BLE001
                    report(f"{x!r} in ({a!r} {name} {b!r} = {r!r}) raised {e!r}")
                    break
                if got != want:
                    report(
                        f"{a!r} {name} {b!r} = {r!r}; candidate {x!r}: lib {got}, "
                        f"oracle {want}"
                    )
                    break
    # special results combined further (the table returns Empty/Any)
    g = GenericSpecifier("==", "a")
    for sp, e_and, e_or in (
        (EmptySpecifier(), "empty", "g"),
        (AnySpecifier(), "g", "any"),
    ):
        for lhs, rhs in ((sp, g), (g, sp)):
            try:
                r_and, r_or = lhs & rhs, lhs | rhs
            except Exception as e:  # noqa: BLE001
                report(f"{lhs!r} &,| {rhs!r} raised {type(e).__name__}: {e}")
                continue
            for x in ("a", "b", ""):
                n += 1
                w_and = {"empty": False, "g": x == "a"}[e_and]
                w_or = {"any": True, "g": x == "a"}[e_or]
                if (x in r_and) != w_and:
                    report(f"{lhs!r} & {rhs!r} = {r_and!r}: {x!r} -> {x in r_and}")
                if (x in r_or) != w_or:
                    report(f"{lhs!r} | {rhs!r} = {r_or!r}: {x!r} -> {x in r_or}")
    return n


STRING_VARS = [
    "os_name", "sys_platform", "platform_machine", "platform_system",
    "platform_python_implementation", "implementation_name", "platform_version",
]
MPOOL = ["", "a", "ab", "abc", "b", "linux", "linux2", "lin", "win32", "A", "1.0", "1"]
MCANDS = MPOOL + ["c", "nux", "zz", "1.00"]


def atom_texts(var: str, lit: str) -> list[str]:
    q = f'"{lit}"'
    out = [f"{var} {op} {q}" for op in OPS]
    out += [f"{q} == {var}", f"{q} != {var}", f"{q} in {var}", f"{q} not in {var}"]
    return out


def layer2() -> int:
    n = 0
    for var in STRING_VARS:
        lits = MPOOL if var == "sys_platform" else MPOOL[:7]
        atoms = [t for lit in lits for t in atom_texts(var, lit)]
        triples = []
        if var == "sys_platform":
            small = [t for lit in ("a", "ab", "b") for t in atom_texts(var, lit)[:6]]
            triples = list(itertools.product(small, repeat=3))
        for glue in (" and ", " or "):
            for t1, t2 in itertools.product(atoms, repeat=2):
                n += check_text(f"{t1}{glue}{t2}", var)
            for t1, t2, t3 in triples:
                for glue2 in (" and ", " or "):
                    n += check_text(f"({t1}{glue}{t2}){glue2}{t3}", var)
                    n += check_text(f"{t3}{glue2}({t1}{glue}{t2})", var)
    return n


def check_text(text: str, var: str) -> int:
    try:
        pm = PkgMarker(text)
    except Exception:  # noqa: BLE001
        return 0
    try:
        m = parse_marker(text)
    except Exception as e:  # noqa: BLE001
        report(f"parse_marker({text!r}) raised {type(e).__name__}: {e}")
        return 1
    for x in MCANDS:
        env = {var: x}
        want = pm.evaluate(env)
        try:
            got = m.evaluate(env)
        except Exception as e:  # noqa: BLE001
            report(f"{text!r} -> {m}; evaluate({env}) raised {type(e).__name__}: {e}")
            return 1
        if got != want:
            report(f"{text!r} -> {str(m)!r}; env {env}: lib {got}, packaging {want}")
            return 1
    # round trip through str
    try:
        m2 = parse_marker(str(m)) if str(m) not in ("", "<empty>") else None
    except Exception as e:  # noqa: BLE001
        report(f"{text!r} -> {str(m)!r} does not re-parse: {e}")
        return 1
    if m2 is not None:
        for x in MCANDS:
            if m2.evaluate({var: x}) != m.evaluate({var: x}):
                report(f"{text!r}: str() round trip changes meaning at {x!r}")
                return 1
    return 1


if __name__ == "__main__":
    n1 = layer1()
    print(f"layer 1 (GenericSpecifier): {n1} membership checks")
    n2 = layer2()
    print(f"layer 2 (marker consumers): {n2} marker texts")
    print(f"{len(violations)} violation(s)")
    sys.exit(0)
