"""C08 hunt, round 3 (run on the UNMODIFIED tree: `git apply -R patch.diff` first).

Run:  cd /tmp/wt/C08i && PYTHONPATH=/tmp/wt/C08i/src /venv/bin/python hunt_C08.py [seed]

Every block compares dep-logic with an oracle that does not use dep-logic:
  * packaging.specifiers.SpecifierSet over an explicit universe of final interpreter versions
    decides which (major, minor) series requires_python admits;
  * the tag rule of the property statement re-implemented with regular expressions (`rule`), and
  * packaging.tags.cpython_tags / generic_tags / compatible_tags / sys_tags (`packaging` blocks).
Known families (pre/post/dev/local/epoch/4-segment-only ranges, `===`, upper-case tags passed
directly, pp27-pypy_NN, from_spec(None, gil_disabled=True), cpXY-abi3 below cp32, ...) are not
generated.  Each block prints how many cases it ran and every disagreement it saw.
"""
from __future__ import annotations

import itertools
import random
import re
import sys

from packaging import tags as ptags
from packaging.specifiers import SpecifierSet
from packaging.utils import parse_wheel_filename
from packaging.version import Version

from dep_logic.specifiers import (
    RangeSpecifier,
    from_specifierset,
    parse_version_specifier,
)
from dep_logic.specifiers.special import AnySpecifier, EmptySpecifier
from dep_logic.tags.tags import EnvSpec, Implementation

SEED = int(sys.argv[1]) if len(sys.argv) > 1 else 20260930
R = random.Random(SEED)
FINALS = [Version(f"{X}.{Y}.{Z}") for X in (1, 2, 3, 4, 5) for Y in range(0, 24) for Z in range(0, 14)]
FINALS += [Version(f"{X}.{Y}") for X in (1, 2, 3, 4, 5) for Y in range(0, 24)]
# known family (18): slivers such as `>3.8,<3.8.1` admit only 4-segment releases; count those as
# admitted so that they are not reported again (dep-logic decides emptiness on the interval)
FINALS += [Version(f"{X}.{Y}.{Z}.1") for X in (2, 3, 4) for Y in range(0, 24) for Z in range(0, 14)]
SHORT = {None: None, "cpython": "cp", "pypy": "pp", "pyston": "pt"}
SETTINGS = [(None, False), ("cpython", False), ("cpython", True), ("pypy", False), ("pyston", False)]
total = {"cases": 0, "bad": 0}


def report(block: str, cases: int, bad: int) -> None:
    total["cases"] += cases
    total["bad"] += bad
    print(f"[{block}] cases={cases} disagreements={bad}")


def series(contains) -> set[tuple[int, int]]:
    return {(v.major, v.minor) for v in FINALS if contains(v)}


def pkg_contains(spec: str):
    parts = [SpecifierSet(p) for p in spec.split("||")]
    return lambda v: any(p.contains(v, prereleases=True) for p in parts)


def rule(vs, impl, gil, py, abi) -> bool:
    """The property statement, literally."""
    m = re.fullmatch(r"(cp|py|pp|pt|ip|jy)(\d)(\d*)", py)
    if not m:
        return False
    kind, X, Y = m.group(1), int(m.group(2)), m.group(3)
    if SHORT[impl] is not None and kind not in (SHORT[impl], "py"):
        return False
    ft = None if impl is None else gil
    if abi == "abi3":
        return kind == "cp" and not ft and any(v >= (X, int(Y or 0)) for v in vs)
    if abi != "none":
        a = abi.split("_", 1)[0].replace("pypy", "pp").replace("pyston", "pt")
        am = re.fullmatch(r"(cp|pp|pt)(\d)(\d*)([a-z]*)", a)
        if not am or (am.group(1), am.group(2), am.group(3)) != (kind, str(X), Y):
            return False
        if ft is not None and ("t" in am.group(4)) is not ft:
            return False
    if Y == "":
        return any(v[0] == X for v in vs)
    if kind == "py":
        return any(v[0] == X and v[1] >= int(Y) for v in vs)
    return any(v == (X, int(Y)) for v in vs)


def want_score(py, abi):
    m = re.fullmatch(r"(..)(\d)(\d*)", py)
    return (int(m.group(2)), int(m.group(3) or 0), 0 if abi == "none" else 1 if abi == "abi3" else 2)


def judge(env, vs, impl, gil, py, abi, what) -> int:
    try:
        got = env.compatibility([py], [abi], ["any"])
    except Exception as e:  # noqa: BLE001
        print(f"  EXCEPTION {what}: {py}-{abi}: {type(e).__name__}: {e}")
        return 1
    exp = rule(vs, impl, gil, py, abi)
    if (got is not None) != exp:
        print(f"  VIOLATION {what}: impl={impl} gil_disabled={gil} {py}-{abi}: dep-logic={got} oracle={exp}")
        return 1
    if got is not None and got[:3] != want_score(py, abi):
        print(f"  SCORE {what}: {py}-{abi}: dep-logic={got} expected prefix {want_score(py, abi)}")
        return 1
    return 0


# ------------------------------------------------------------------ generators
def rand_version(r, segs=(1, 2, 2, 2, 3, 3)):
    n = r.choice(segs)
    parts = [r.choice([2, 3, 3, 3, 3, 4])]
    for i in range(n - 1):
        parts.append(r.choice([0, 0, 1, 2, 5, 7, 8, 9, 10, 11, 12, 13, 19, 20, 21]) if i == 0 else r.choice([0, 0, 0, 1, 2, 5]))
    txt = ".".join(map(str, parts))
    c = r.random()
    if c < 0.04:
        txt = "v" + txt
    elif c < 0.08:
        txt = " " + txt + " "
    elif c < 0.12:
        txt = "0!" + txt
    elif c < 0.16:
        txt = txt.replace(".", ".0", 1) if "." in txt else txt  # 3.09 == 3.9
    return txt


def rand_clause(r):
    op = r.choice([">=", ">=", ">", "<", "<", "<=", "==", "!=", "~=", "==*", "!=*"])
    v = rand_version(r)
    if op == "~=" and "." not in v.strip():
        v = v.strip() + ".0"
    if op in ("==*", "!=*"):
        return f"{op[:2]}{v.strip()}.*"
    return f"{op}{v}"


def rand_set(r):
    return ",".join(rand_clause(r) for _ in range(r.choice([1, 1, 2, 2, 3, 4])))


def rand_spec(r):
    return "||".join(rand_set(r) for _ in range(r.choice([1, 1, 1, 2, 3])))


FLAGS = ["", "", "m", "d", "dm", "mu", "u", "dmu", "t", "t", "td"]


def abi_for(base: str, r) -> str:
    if base.startswith("pp"):
        return f"pypy{base[2:]}_pp73"
    if base.startswith("pt"):
        return f"pyston{base[2:]}_23"
    return base + r.choice(FLAGS)


def rand_pair(r):
    kind = r.choice(["cp", "cp", "cp", "py", "py", "pp", "pt", "ip", "jy"])
    X = r.choice([2, 3, 3, 3])
    Y = r.choice(["", *map(str, range(0, 21))]) if kind == "py" else str(r.randrange(0, 21))
    py = f"{kind}{X}{Y}"
    c = r.random()
    if c < 0.25:
        return py, "none"
    if c < 0.45:
        return py, "abi3"
    if r.random() < 0.7 and kind in ("cp", "pp", "pt"):
        base = py
    elif r.random() < 0.3 and kind in ("cp", "pp", "pt") and Y:
        base = py + r.choice("0123456789")  # cp31 vs cp310
    else:
        base = f"{r.choice(['cp', 'pp', 'pt'])}{r.choice([2, 3])}{r.randrange(0, 21)}"
    return py, abi_for(base, r)


# ------------------------------------------------------------------ block 1
def block_routes(n_specs: int) -> None:
    """requires_python reached through every constructor route, against the rule oracle."""
    cases = bad = 0
    for _ in range(n_specs):
        spec = rand_spec(R)
        try:
            rp = parse_version_specifier(spec)
        except Exception as e:  # noqa: BLE001
            print("  PARSE EXCEPTION", repr(spec), type(e).__name__, e)
            bad += 1
            continue
        vs = series(pkg_contains(spec))
        if rp.is_empty():
            if vs:
                print("  VIOLATION: parsed empty but packaging admits", repr(spec), sorted(vs)[:3])
                bad += 1
            continue
        impl, gil = R.choice(SETTINGS)
        imp = Implementation.parse(impl, gil) if impl else None
        envs = [("from_spec", EnvSpec.from_spec(spec, None, impl, gil)), ("constructor", EnvSpec(rp, None, imp))]
        try:
            envs.append(("as_dict round trip", EnvSpec.from_spec(**envs[0][1].as_dict())))
            envs.append(("double complement", EnvSpec(~~rp, None, imp)))
            envs.append(("rp & Any / rp | Empty", EnvSpec((AnySpecifier() & rp) | EmptySpecifier(), None, imp)))
            envs.append(("Empty | (rp & RangeSpecifier())", EnvSpec(EmptySpecifier() | (rp & RangeSpecifier()), None, imp)))
            if "||" not in spec:
                envs.append(("from_specifierset", EnvSpec(from_specifierset(SpecifierSet(spec)), None, imp)))
        except Exception as e:  # noqa: BLE001
            print("  ROUTE EXCEPTION", repr(spec), type(e).__name__, e)
            bad += 1
        if len({e for _, e in envs}) != 1 or len({hash(e) for _, e in envs}) != 1:
            # the routes must give equal (and equally hashed) specs unless rendering is lossy
            if str(envs[0][1].requires_python) != str(envs[2][1].requires_python):
                pass  # known rendering families only change the text
        for _ in range(10):
            py, abi = rand_pair(R)
            for name, env in envs:
                cases += 1
                bad += judge(env, vs, impl, gil, py, abi, f"{name} {spec!r}")
    report("1 routes: from_spec / constructor / as_dict / ~~ / Any,Empty dunders / from_specifierset", cases, bad)


# ------------------------------------------------------------------ block 2
def block_algebra(n: int) -> None:
    """requires_python objects produced by |, &, ~ on parsed pieces (simplified=None objects)."""
    cases = bad = 0
    for _ in range(n):
        a_s, b_s, c_s = rand_set(R), rand_set(R), rand_set(R)
        try:
            a, b, c = (parse_version_specifier(s) for s in (a_s, b_s, c_s))
            ca, cb, cc = (pkg_contains(s) for s in (a_s, b_s, c_s))
            shape = R.choice(["(a|b)&c", "a|(b&c)", "~a|b", "~(a|b)", "(a&~b)|c", "c|a|b"])
            if shape == "(a|b)&c":
                rp, f = (a | b) & c, lambda v: (ca(v) or cb(v)) and cc(v)
            elif shape == "a|(b&c)":
                rp, f = a | (b & c), lambda v: ca(v) or (cb(v) and cc(v))
            elif shape == "~a|b":
                rp, f = ~a | b, lambda v: (not ca(v)) or cb(v)
            elif shape == "~(a|b)":
                rp, f = ~(a | b), lambda v: not (ca(v) or cb(v))
            elif shape == "(a&~b)|c":
                rp, f = (a & ~b) | c, lambda v: (ca(v) and not cb(v)) or cc(v)
            else:
                rp, f = c | a | b, lambda v: ca(v) or cb(v) or cc(v)
        except Exception as e:  # noqa: BLE001
            print("  ALGEBRA EXCEPTION", a_s, b_s, c_s, type(e).__name__, e)
            bad += 1
            continue
        vs = series(f)
        impl, gil = R.choice(SETTINGS)
        env = EnvSpec(rp, None, Implementation.parse(impl, gil) if impl else None)  # also Empty/Any
        for _ in range(10):
            py, abi = rand_pair(R)
            cases += 1
            bad += judge(env, vs, impl, gil, py, abi, f"{shape} a={a_s!r} b={b_s!r} c={c_s!r}")
    report("2 algebra-built requires_python (incl. EmptySpecifier / AnySpecifier as requires_python)", cases, bad)


# ------------------------------------------------------------------ block 3
def accepted_by(kind: str, xy: tuple[int, int], ft: bool) -> set[ptags.Tag]:
    x, y = xy
    if kind == "cp":
        abis = [f"cp{x}{y}t", f"cp{x}{y}td"] if ft else [f"cp{x}{y}{f}" for f in ("", "m", "d", "dm", "u", "mu", "dmu")]
        native = set(ptags.cpython_tags(xy, abis=abis, platforms=["any"]))
    else:
        long = {"pp": "pypy", "pt": "pyston"}[kind]
        tail = {"pp": "pp73", "pt": "23"}[kind]
        native = set(ptags.generic_tags(interpreter=f"{kind}{x}{y}", abis=[f"{long}{x}{y}_{tail}"], platforms=["any"]))
    return native | set(ptags.compatible_tags(xy, interpreter=f"{kind}{x}{y}", platforms=["any"]))


def block_packaging_exhaustive() -> None:
    """One pinned series at a time, the whole tag universe, against packaging.tags."""
    cases = bad = 0
    pys = [f"{k}{x}{y}" for k in ("cp", "py", "pp", "pt") for x in (2, 3) for y in range(0, 21)] + ["py2", "py3"]
    for (x, y) in [(2, 7), (3, 0), (3, 1), (3, 2), (3, 7), (3, 8), (3, 9), (3, 10), (3, 11), (3, 13), (3, 19), (3, 20)]:
        for impl, gil, kind in [("cpython", False, "cp"), ("cpython", True, "cp"), ("pypy", False, "pp"), ("pyston", False, "pt")]:
            acc = accepted_by(kind, (x, y), gil)
            for rp in (f"=={x}.{y}.*", f"=={x}.{y}.3", f">={x}.{y},<{x}.{y + 1}", f"~={x}.{y}.0", f">{x}.{y}.0,<={x}.{y}.5"):
                env = EnvSpec.from_spec(rp, None, impl, gil)
                for py in pys:
                    digits = py[2:]
                    abis = {"none", "abi3"}
                    for base in {py, f"cp{digits}", f"pp{digits}", f"pt{digits}", py + "0", py + "3", py[:-1] or py}:
                        if base[:2] in ("cp", "pp", "pt") and len(base) > 3:
                            abis.update(abi_for(base, R) if base[:2] != "cp" else base + f for f in FLAGS)
                    if rp != f"=={x}.{y}.*":
                        abis = set(R.sample(sorted(abis), min(len(abis), 6)))
                    for abi in abis:
                        if abi == "abi3" and py.startswith("cp") and (int(py[2]), int(py[3:] or 0)) < (3, 2):
                            continue  # known borderline: abi3 floors below cp32
                        cases += 1
                        got = env.compatibility([py], [abi], ["any"])
                        exp = ptags.Tag(py, abi, "any") in acc
                        if (got is not None) != exp:
                            bad += 1
                            print(f"  VIOLATION packaging: {rp!r} {impl} gil_disabled={gil} {py}-{abi}: dep-logic={got} packaging={exp}")
    report("3 packaging.tags, pinned series x full tag universe x 4 stated implementations", cases, bad)


# ------------------------------------------------------------------ block 4
def block_wheel_names(n: int) -> None:
    """wheel_compatibility on file names with compressed tag sets, build tags, mixed case."""
    cases = bad = 0
    for _ in range(n):
        spec = rand_spec(R)
        try:
            rp = parse_version_specifier(spec)
        except Exception:  # noqa: BLE001
            continue
        if rp.is_empty():
            continue
        vs = series(pkg_contains(spec))
        impl, gil = R.choice(SETTINGS)
        env = EnvSpec.from_spec(spec, None, impl, gil)
        pairs = [rand_pair(R) for _ in range(3)]
        pys = sorted({p for p, _ in pairs[: R.choice([1, 1, 2, 3])]})
        abis = sorted({a for _, a in pairs[: R.choice([1, 1, 1, 2, 3])]})
        build = R.choice(["", "", "-1", "-2b"])
        name = f"{R.choice(['demo', 'Demo_X', 'a.b'])}-{R.choice(['1.0', '2!1.0.post1', '1.0+l.1'])}{build}-{'.'.join(pys)}-{'.'.join(abis)}-any.whl"
        if R.random() < 0.3:
            name = name[:-4].upper() + ".whl"
        try:
            tags = parse_wheel_filename(name)[3]
        except Exception:  # noqa: BLE001
            continue
        exp_scores = [want_score(t.interpreter, t.abi) for t in tags if rule(vs, impl, gil, t.interpreter, t.abi)]
        cases += 1
        try:
            got = env.wheel_compatibility(name)
        except Exception as e:  # noqa: BLE001
            print(f"  EXCEPTION {name}: {type(e).__name__}: {e}")
            bad += 1
            continue
        if (got is not None) != bool(exp_scores) or (got is not None and got[:3] != max(exp_scores)):
            bad += 1
            print(f"  VIOLATION wheel name: {spec!r} impl={impl} gil_disabled={gil} {name}: dep-logic={got} oracle best={max(exp_scores, default=None)}")
    report("4 wheel_compatibility(file name): compressed tag sets, build tags, upper case", cases, bad)


# ------------------------------------------------------------------ block 5
def block_current() -> None:
    """EnvSpec.current(): exactly the (python, abi) pairs of packaging.tags.sys_tags()."""
    cases = bad = 0
    env = EnvSpec.current()
    bare = EnvSpec(env.requires_python, None, env.implementation)
    sys_pairs = {(t.interpreter, t.abi) for t in ptags.sys_tags()}
    for t in ptags.sys_tags():
        cases += 1
        if env.compatibility([t.interpreter], [t.abi], [t.platform]) is None:
            bad += 1
            print("  VIOLATION current(): own tag rejected", t)
    pys = [f"{k}{x}{y}" for k in ("cp", "py", "pp") for x in (2, 3) for y in range(0, 21)] + ["py2", "py3"]
    for py in pys:
        for abi in ["none", "abi3", *(f"cp{py[2:]}{f}" for f in ("", "m", "t", "d")), f"pypy{py[2:]}_pp73"]:
            if abi == "abi3" and py.startswith("cp") and (int(py[2]), int(py[3:] or 0)) < (3, 2):
                continue
            cases += 1
            got = bare.compatibility([py], [abi], ["any"])
            own = f"cp{sys.version_info[0]}{sys.version_info[1]}"
            # the property does not tell the d / m / u builds of one series apart
            exp = (py, abi) in sys_pairs or (py == own and abi in (own + "d", own + "m"))
            if (got is not None) != exp:
                bad += 1
                print(f"  VIOLATION current(): {py}-{abi}: dep-logic={got} in sys_tags={exp}")
    report(f"5 EnvSpec.current() {env} vs packaging.tags.sys_tags()", cases, bad)


# ------------------------------------------------------------------ block 6
def block_order_and_identity(n: int) -> None:
    """Same questions in another order / on an equal spec written differently give the same answers."""
    cases = bad = 0
    for _ in range(n):
        x, y = 3, R.randrange(0, 21)
        texts = R.choice([
            (f">={x}.{y}", f">={x}.{y}.0", f">= {x}.{y}.0.0", f">=0!{x}.{y}"),
            (f"=={x}.{y}.*", f">={x}.{y},<{x}.{y + 1}", f"~={x}.{y}.0", f">={x}.{y}.0,<{x}.{y + 1}.0,!={x}.{y + 1}.*"),
            (f"!={x}.{y}.*", f"<{x}.{y}||>={x}.{y + 1}", f">={x}.{y + 1}.0||<{x}.{y}.0", f"!={x}.{y}.*,!={x}.{y}.*"),
            (f"<={x}.{y}", f"<{x}.{y}||=={x}.{y}", f"<={x}.{y}.0", f"<={x}.{y},<{x}.{y}.1"),
        ])
        impl, gil = R.choice(SETTINGS)
        envs = [EnvSpec.from_spec(t, None, impl, gil) for t in texts]
        if len(set(envs)) != 1 or len({hash(e) for e in envs}) != 1:
            bad += 1
            print("  VIOLATION: equal requires_python texts give unequal / differently hashed EnvSpecs", texts)
        pairs = [rand_pair(R) for _ in range(15)] + [(f"cp{x}{y}", "abi3"), (f"py{x}{y}", "none"), (f"cp{x}{y}", f"cp{x}{y}")]
        first = [[e.compatibility([p], [a], ["any"]) for p, a in pairs] for e in envs]
        again = [[e.compatibility([p], [a], ["any"]) for p, a in reversed(pairs)][::-1] for e in reversed(envs)][::-1]
        cases += len(pairs) * len(envs)
        if any(f != first[0] for f in first) or first != again:
            bad += 1
            print("  VIOLATION: answers depend on spelling or call order", texts)
    report("6 equal specs spelled differently, repeated / reordered calls, eq & hash", cases, bad)


def note_borderline() -> None:
    """Not counted: outside the declared argument type (list[str])."""
    env = EnvSpec.from_spec(">=3.8")
    as_list = env.compatibility(["py2", "py3"], ["none"], ["any"])
    as_tuple = env.compatibility(("py2", "py3"), ("none",), ("any",))
    as_iter = env.compatibility(iter(["py2", "py3"]), iter(["none"]), iter(["any"]))
    print("[note, borderline, not counted] requires_python='>=3.8' wheel py2.py3-none-any: "
          f"lists -> {as_list}, tuples -> {as_tuple}, one-shot iterators -> {as_iter} "
          "(the ABI iterator is exhausted after the first python tag; packaging says installable)")


if __name__ == "__main__":
    print(f"seed {SEED}")
    block_routes(2500)
    block_algebra(2500)
    block_packaging_exhaustive()
    block_wheel_names(6000)
    block_current()
    block_order_and_identity(400)
    note_borderline()
    print(f"TOTAL cases={total['cases']} new violations={total['bad']}")
