"""C08 hunt (round 4): candidate violations on the UNMODIFIED library.

Run: cd /tmp/wt/C08j && PYTHONPATH=/tmp/wt/C08j/src /venv/bin/python hunt_C08.py
"""
from packaging.specifiers import SpecifierSet
from packaging.tags import Tag, cpython_tags
from packaging.version import Version

from dep_logic.specifiers import EmptySpecifier, parse_version_specifier
from dep_logic.tags import EnvSpec


def attempt(f):
    try:
        return repr(f())
    except Exception as e:  # noqa: BLE001
        return f"raises {type(e).__name__}: {e}"


print("== H1: a valid but unsatisfiable requires_python makes EnvSpec.from_spec raise InvalidSpecifier")
grid = [Version(f"{x}.{y}.{z}") for x in (2, 3, 4) for y in range(25) for z in range(12)]
for rp in [">=3.9,<3.8", "==3.8.*,!=3.8.*", ">=3.8,<3.8", "~=3.8.0.0,>=3.8.1", "<empty>"]:
    if rp != "<empty>":
        ss = SpecifierSet(rp)  # packaging: a perfectly valid specifier set
        admitted = [v for v in grid if ss.contains(v, prereleases=True)]
        oracle = f"packaging parses it, admits {len(admitted)} of {len(grid)} interpreters -> every wheel incompatible (None)"
    else:
        oracle = "the library's own rendering of EmptySpecifier (EnvSpec(...).as_dict()['requires_python'])"
    print(f"  requires_python={rp!r}")
    print("    parse_version_specifier ->", attempt(lambda: parse_version_specifier(rp)))
    print("    EnvSpec.from_spec       ->", attempt(lambda: EnvSpec.from_spec(rp)))
    print("    expected                -> an EnvSpec for which compatibility(...) is None;", oracle)
env = EnvSpec(EmptySpecifier())
print("  EnvSpec(EmptySpecifier()).compatibility(['py3'],['none'],['any']) ->",
      attempt(lambda: env.compatibility(["py3"], ["none"], ["any"])), "(the answer from_spec should have led to)")
print("  EnvSpec.from_spec(**EnvSpec(EmptySpecifier()).as_dict()) ->",
      attempt(lambda: EnvSpec.from_spec(**env.as_dict())), "(as_dict does not round-trip)")

print()
print("== H2 (edge of the quantifier: PEP 803 `abi3t`, emitted by the installed packaging.tags for free-threaded CPython)")
for ver in [(3, 15), (3, 20)]:
    oracle = set(cpython_tags(ver, abis=[f"cp{ver[0]}{ver[1]}t"], platforms=["any"]))
    for impl, gil in [("cpython", True), (None, False)]:
        env = EnvSpec.from_spec(f"=={ver[0]}.{ver[1]}.*", None, impl, gil)
        for py in [f"cp{ver[0]}{ver[1]}", "cp312"]:
            got = env.compatibility([py], ["abi3t"], ["any"])
            print(f"  env {env} impl={impl} gil_disabled={gil}: {py}-abi3t-any -> {got}; "
                  f"packaging.tags lists it for a free-threaded {ver[0]}.{ver[1]}: {Tag(py, 'abi3t', 'any') in oracle}")
