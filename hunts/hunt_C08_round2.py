"""C08 hunt: candidate violations on the UNMODIFIED library (python/abi compatibility).

Run: cd /tmp/wt/C08g && PYTHONPATH=/tmp/wt/C08g/src /venv/bin/python hunt_C08.py

Each block prints the input, what dep-logic returns and what an independent oracle
(packaging.specifiers / packaging.tags) says.  None of these is in the known families
(no pre/post/dev/local *environment*, no in/not in, no ===, no +local, no `<X.postN`,
no pre-release-only range, no string ordering, no macOS 10.x arm64, no deep nesting).
"""
from __future__ import annotations

from packaging import tags as ptags
from packaging.specifiers import SpecifierSet
from packaging.version import Version

from dep_logic.tags.tags import EnvSpec

INTERPRETERS = [
    Version(f"{x}.{y}.{z}") for x in (2, 3, 4) for y in range(0, 31) for z in range(0, 21)
]


def admitted(spec: str) -> list[Version]:
    """Final X.Y.Z interpreter versions admitted by a (|| separated) specifier, by packaging."""
    parts = [SpecifierSet(p) for p in spec.split("||")]
    return [v for v in INTERPRETERS if any(p.contains(v, prereleases=True) for p in parts)]


def cpython_accepts(xy: tuple[int, int], abi: str) -> set[ptags.Tag]:
    """Every (python, abi, any) tag packaging says a CPython X.Y with that ABI can install."""
    return set(ptags.cpython_tags(xy, abis=[abi], platforms=["any"])) | set(
        ptags.compatible_tags(xy, interpreter=f"cp{xy[0]}{xy[1]}", platforms=["any"])
    )


def show(title: str) -> None:
    print()
    print("=" * 100)
    print(title)
    print("-" * 100)


found = 0

# ---------------------------------------------------------------------------------------------
show(
    "H0  free-threading flag that is truthy but not the object True: Implementation.current()\n"
    "    passes `sysconfig.get_config_var('Py_GIL_DISABLED') or False`, which is the int 1 on a\n"
    "    free-threaded build; _evaluate_python compares with `is not`, so the environment built by\n"
    "    EnvSpec.current() on python3.13t rejects EVERY native ABI, its own cp313t included.\n"
    "    The spec compares equal (and hashes equal) to the one built with gil_disabled=True,\n"
    "    which answers differently.  (free-threaded interpreter simulated by patching sysconfig)"
)
import sysconfig  # noqa: E402
from unittest import mock  # noqa: E402

from dep_logic.specifiers import parse_version_specifier  # noqa: E402
from dep_logic.tags.tags import Implementation  # noqa: E402

_real = sysconfig.get_config_var
with mock.patch("sysconfig.get_config_var", lambda n: 1 if n == "Py_GIL_DISABLED" else _real(n)), \
        mock.patch("dep_logic.tags.tags.python_implementation", lambda: "CPython"):
    impl_current = Implementation.current()
impl_true = Implementation.parse("cpython", True)
rp = parse_version_specifier("==3.13.*")
env_cur, env_true = EnvSpec(rp, None, impl_current), EnvSpec(rp, None, impl_true)
print(f"Implementation.current() -> {impl_current!r}; == Implementation('cpython', True): "
      f"{impl_current == impl_true}; EnvSpecs equal: {env_cur == env_true}")
ft313 = cpython_accepts((3, 13), "cp313t")
for py, abi in [("cp313", "cp313t"), ("cp313", "cp313"), ("cp313", "none"), ("cp38", "abi3")]:
    a = env_cur.compatibility([py], [abi], ["any"])
    b = env_true.compatibility([py], [abi], ["any"])
    can = ptags.Tag(py, abi, "any") in ft313
    flag = ""
    if (a is not None) != can:
        flag = "   <-- VIOLATION"
        found += 1
    print(f"requires_python='==3.13.*' cpython free-threaded wheel={py}-{abi:7} gil_disabled=1: {a!s:17} "
          f"gil_disabled=True: {b!s:17} packaging 3.13t accepts={can}{flag}")
print("same through from_spec(..., 'cpython', gil_disabled=1):",
      EnvSpec.from_spec("==3.13.*", None, "cpython", 1).compatibility(["cp313"], ["cp313t"], ["any"]))

# ---------------------------------------------------------------------------------------------
show(
    "H1  requires_python that only admits epoch-1 versions: native / generic wheels are rejected,\n"
    "    but every cpXY-abi3 wheel is reported compatible (the abi3 floor `>=X.Y` is open-ended,\n"
    "    so it reaches into epoch 1; `==X.Y.*` and `==X.*` do not)"
)
for spec in [">=1!2.6", "==1!3.11", "<3.2||>=1!3.15"]:
    env = EnvSpec.from_spec(spec)
    adm = admitted(spec)
    for py, abi in [("cp310", "abi3"), ("cp310", "cp310"), ("py3", "none"), ("py310", "none")]:
        got = env.compatibility([py], [abi], ["any"])
        can = any(
            ptags.Tag(py, abi, "any") in cpython_accepts((v.major, v.minor), f"cp{v.major}{v.minor}")
            for v in {Version(f"{v.major}.{v.minor}") for v in adm}
        )
        flag = ""
        if (got is not None) != can:
            flag = "   <-- VIOLATION"
            found += 1
        print(
            f"requires_python={spec!r:18} wheel={py}-{abi:6} dep-logic={got!s:18} "
            f"oracle: {len(adm)} admitted interpreters (first (major, minor): "
            f"{sorted({(v.major, v.minor) for v in adm})[:4]}...), loadable={can}{flag}"
        )

# ---------------------------------------------------------------------------------------------
show(
    "H2  EnvSpec.from_spec(..., implementation=None, gil_disabled=True) silently drops the\n"
    "    free-threading flag: the GIL ABI and abi3 are reported compatible with a spec that was\n"
    "    asked to be free-threaded (with implementation='cpython' both are rejected; with\n"
    "    implementation='pypy' the same call raises UnsupportedImplementation)"
)
env = EnvSpec.from_spec("==3.13.*", None, None, gil_disabled=True)
env_cp = EnvSpec.from_spec("==3.13.*", None, "cpython", gil_disabled=True)
ft = cpython_accepts((3, 13), "cp313t")
for py, abi in [("cp313", "cp313t"), ("cp313", "cp313"), ("cp38", "abi3"), ("cp313", "none")]:
    got = env.compatibility([py], [abi], ["any"])
    got_cp = env_cp.compatibility([py], [abi], ["any"])
    can = ptags.Tag(py, abi, "any") in ft
    flag = ""
    if (got is not None) != can:
        flag = "   <-- VIOLATION"
        found += 1
    print(
        f"from_spec('==3.13.*', gil_disabled=True) as_dict={env.as_dict()} wheel={py}-{abi:7} "
        f"dep-logic={got!s:17} (implementation='cpython': {got_cp!s:17}) "
        f"packaging free-threaded 3.13 accepts={can}{flag}"
    )

# ---------------------------------------------------------------------------------------------
show(
    "H3  compatibility() called directly (the documented observation point) is case-sensitive,\n"
    "    and inconsistently so; only wheel_compatibility()/parse_wheel_tags lower-cases.\n"
    "    packaging.tags.Tag compares case-insensitively."
)
env = EnvSpec.from_spec(">=3.8")
env_cp = EnvSpec.from_spec(">=3.8", None, "cpython")
for py, abi in [("PY36", "none"), ("CP38", "abi3"), ("CP38", "cp38")]:
    lo = env.compatibility([py.lower()], [abi.lower()], ["any"])
    up = env.compatibility([py], [abi], ["any"])
    up_cp = env_cp.compatibility([py], [abi], ["any"])
    lo_cp = env_cp.compatibility([py.lower()], [abi.lower()], ["any"])
    same = ptags.Tag(py, abi, "any") == ptags.Tag(py.lower(), abi.lower(), "any")
    flag = ""
    if (lo is None) != (up is None) or (lo_cp is None) != (up_cp is None):
        flag = "   <-- VIOLATION"
        found += 1
    print(
        f"requires_python='>=3.8' tags=({py},{abi}): impl=None {up!s:16} vs lower-case {lo!s:16}; "
        f"impl=cpython {up_cp!s:16} vs lower-case {lo_cp!s:16}; packaging Tag equal={same}{flag}"
    )

# ---------------------------------------------------------------------------------------------
show(
    "H4  requires_python ranges that are non-empty only through versions no interpreter can have\n"
    "    (4-segment releases, post-releases of the lower bound). Sibling of known family (6)\n"
    "    (pre-release-only ranges) but reached without any pre-release; the second one is empty\n"
    "    under PEP 440 for *every* version because `>3.8` excludes 3.8.postN"
)
probe = [Version(s) for s in ("3.8.0.1", "3.8.0.post0", "3.8.post1", "3.8.post1.dev0", "3.8.0.0.1")]
for spec in [">3.8.0,<3.8.1", ">3.8,<=3.8.post1", ">=3.8.0.0.0.1,<3.8.1"]:
    env = EnvSpec.from_spec(spec)
    got = env.compatibility(["cp38"], ["cp38"], ["any"])
    adm = admitted(spec)
    extra = [str(v) for v in probe if SpecifierSet(spec).contains(v, prereleases=True)]
    flag = ""
    if got is not None and not adm:
        flag = "   <-- VIOLATION"
        found += 1
    print(
        f"requires_python={spec!r:24} wheel=cp38-cp38 dep-logic={got!s:16} oracle: admitted X.Y.Z "
        f"interpreters={len(adm)}, other versions packaging admits={extra}{flag}"
    )

# ---------------------------------------------------------------------------------------------
show(
    "H5  (borderline, depends on how literally the statement is read) abi3 floors that no CPython\n"
    "    honours: cp2Y-abi3 / cp30-abi3 / cp31-abi3 are compatible with every later 3.x, and\n"
    "    cpXY-abi3 also with `>=4`; packaging emits abi3 tags only from cp32 on (and pyXY is\n"
    "    bounded by ==X.* in dep-logic, abi3 is not)"
)
for spec, py in [(">=3.8", "cp27"), (">=3.8", "cp2"), (">=3.8", "cp31"), (">=3.8", "cp32"), (">=4", "cp38")]:
    env = EnvSpec.from_spec(spec)
    got = env.compatibility([py], ["abi3"], ["any"])
    can = any(
        ptags.Tag(py, "abi3", "any") in cpython_accepts((3, m), f"cp3{m}") for m in range(8, 21)
    )
    print(
        f"requires_python={spec!r:8} wheel={py}-abi3 dep-logic={got!s:16} "
        f"packaging: some CPython 3.8..3.20 accepts it={can}"
    )
env = EnvSpec.from_spec(">=4")
print("requires_python='>=4' wheel=py38-none / py3-none dep-logic=",
      env.compatibility(["py38"], ["none"], ["any"]), env.compatibility(["py3"], ["none"], ["any"]))

# ---------------------------------------------------------------------------------------------
show(
    "H6  (borderline: is PyPy2's ABI in the tag universe?) pp27-pypy_73 / pp27-pypy_41 - the ABI\n"
    "    tag packaging derives from PyPy2.7's SOABI 'pypy-73' - is rejected by every EnvSpec,\n"
    "    also by one that states implementation='pypy' and requires_python='==2.7.*'"
)
print("packaging._normalize_string('pypy-73') =", ptags._normalize_string("pypy-73"))
for impl in (None, "pypy"):
    env = EnvSpec.from_spec("==2.7.*", None, impl)
    for abi in ("pypy_73", "pypy_41", "none"):
        print(f"requires_python='==2.7.*' implementation={impl!s:5} wheel=pp27-{abi:8} dep-logic=",
              env.compatibility(["pp27"], [abi], ["any"]))

# ---------------------------------------------------------------------------------------------
show("H7  wrong exception type on a malformed python tag given to compatibility() (others give None)")
env = EnvSpec.from_spec(">=3.8")
for py in ("cp38.1", "cp3x", "cp", "cp3_10"):
    try:
        print(f"python tag {py!r:9} ->", env.compatibility([py], ["none"], ["any"]))
    except Exception as e:  # noqa: BLE001
        print(f"python tag {py!r:9} -> raises {type(e).__name__}: {e}")

print()
print(f"flagged rows: {found}")
