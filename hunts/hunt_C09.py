"""Task A: hunt for pre-existing C09 violations on the unmodified tree.

For every Platform in the property's quantifier, compare
  - Platform.compatible_tags (set and order), and
  - the 4th component of EnvSpec.compatibility (platform score)
against
  (1) an independent oracle written from the property statement / PEPs 600, 656,
      and the macOS rules, and
  (2) packaging.tags with its glibc / musl / ELF probes stubbed.
Each distinct class of disagreement is printed once with a concrete example.
"""
from __future__ import annotations

import itertools
import sys
import sysconfig
from collections import OrderedDict
from unittest import mock

import packaging
from packaging import _manylinux, _musllinux
from packaging import tags as ptags

from dep_logic.specifiers import parse_version_specifier
from dep_logic.tags import os as dos
from dep_logic.tags.platform import Arch, Platform
from dep_logic.tags.tags import EnvSpec

LINUX_ARCHS = ["x86_64", "aarch64", "armv7l", "ppc64le", "ppc64", "s390x", "riscv64"]
MAC_ARCHS = ["arm64", "x86_64"]
WIN = {"x86": "win32", "amd64": "win_amd64", "arm64": "win_arm64"}


# ---------------------------------------------------------------- oracle (1)
def rule_manylinux(minor: int, arch: str) -> list[str]:
    floor = 5 if arch == "x86_64" else 17
    legacy = {5: "manylinux1", 12: "manylinux2010", 17: "manylinux2014"}
    out = []
    for k in range(minor, floor - 1, -1):
        out.append(f"manylinux_2_{k}_{arch}")
        if k in legacy:
            out.append(f"{legacy[k]}_{arch}")
    return out  # linux_<arch> handled separately (position differs between oracles)


def rule_musllinux(minor: int, arch: str) -> set[str]:
    return {f"musllinux_1_{k}_{arch}" for k in range(1, minor + 1)} | {f"linux_{arch}"}


def rule_macos(major: int, minor: int, arch: str) -> list[str]:
    """Statement: every release not newer than the target; formats <arch>, universal2
    (back to 10.4) and, on x86_64, intel/universal; legacy fat* NOT claimed."""
    fmts = [arch] + (["intel"] if arch == "x86_64" else []) + ["universal2"]
    if arch == "x86_64":
        fmts.append("universal")
    out = []
    if major == 10:
        rels = [(10, m) for m in range(minor, 3, -1)]
    else:
        rels = [(M, 0) for M in range(major, 10, -1)] + [(10, m) for m in range(16, 3, -1)]
    for M, m in rels:
        for f in fmts:
            if arch == "arm64" and M == 10 and f == "arm64" and major >= 11:
                continue  # no arm64-only binaries for 10.x
            out.append(f"macosx_{M}_{m}_{f}")
    return out


# ---------------------------------------------------------------- oracle (2)
def pk_linux(arch: str, glibc: tuple[int, int] | None, musl: tuple[int, int] | None) -> list[str]:
    _musllinux._get_musl_version.cache_clear()
    with mock.patch.object(sysconfig, "get_platform", lambda: f"linux-{arch}"), \
         mock.patch.object(_manylinux, "_get_glibc_version",
                           lambda: _manylinux._GLibCVersion(*(glibc or (-1, -1)))), \
         mock.patch.object(_manylinux, "_have_compatible_abi",
                           lambda exe, archs: glibc is not None), \
         mock.patch.object(_manylinux, "_get_manylinux_module", lambda: None), \
         mock.patch.object(_musllinux, "_get_musl_version",
                           lambda exe: _musllinux._MuslVersion(*musl) if musl else None):
        return list(ptags._linux_platforms(is_32bit=False))


def pk_mac(major: int, minor: int, arch: str) -> list[str]:
    return list(ptags.mac_platforms((major, minor), arch))


# ---------------------------------------------------------------- driver
findings: "OrderedDict[str, list[str]]" = OrderedDict()


def report(kind: str, msg: str) -> None:
    findings.setdefault(kind, []).append(msg)


def score(plat: Platform, tag: str):
    env = EnvSpec(parse_version_specifier(">=3.8"), plat, None)
    r = env.compatibility(["py3"], ["none"], [tag])
    return None if r is None else r[3]


def check_scores(plat: Platform, label: str) -> None:
    """score must be strictly decreasing along compatible_tags and `any` lowest."""
    tags = plat.compatible_tags
    scores = [score(plat, t) for t in tags] + [score(plat, "any")]
    if any(s is None for s in scores) or scores != sorted(scores, reverse=True) or len(set(scores)) != len(scores):
        report("score-not-index", f"{label}: scores {scores[:6]}...")
    if score(plat, "definitely_not_a_tag") is not None:
        report("score-bogus-tag", label)


def main() -> int:
    # ---- manylinux
    for arch, minor in itertools.product(LINUX_ARCHS, range(5, 51)):
        text = f"manylinux_2_{minor}_{arch}"
        try:
            plat = Platform.parse(text)
            lib = list(plat.compatible_tags)
        except Exception as e:  # noqa: BLE001
            report("manylinux-exception", f"{text}: {type(e).__name__}: {e}")
            continue
        assert plat == Platform(dos.Manylinux(2, minor), Arch(arch))
        rule = rule_manylinux(minor, arch)
        pk = pk_linux(arch, (2, minor), None)
        if set(lib) != set(rule) | {f"linux_{arch}"}:
            report("manylinux-set-vs-rule", f"{text}: lib-rule={sorted(set(lib) - set(rule))} rule-lib={sorted(set(rule) - set(lib))}")
        if set(lib) != set(pk):
            report("manylinux-set-vs-packaging", f"{text}: lib-pk={sorted(set(lib) - set(pk))} pk-lib={sorted(set(pk) - set(lib))}")
        lib_ml = [t for t in lib if t.startswith("manylinux")]
        pk_ml = [t for t in pk if t.startswith("manylinux")]
        if lib_ml != rule or lib_ml != pk_ml:
            report("manylinux-order", f"{text}: lib={lib_ml[:5]} rule={rule[:5]} pk={pk_ml[:5]}")
        if lib != pk:
            report(
                "linux_<arch>-position-vs-packaging-%s" % packaging.__version__,
                f"{text}: library puts linux_{arch} at index {lib.index('linux_' + arch)} of {len(lib)} (score {score(plat, 'linux_' + arch)}), "
                f"packaging {packaging.__version__} yields it at index {pk.index('linux_' + arch)} (first = most preferred)",
            )
        check_scores(plat, text)

    # ---- musllinux
    for arch, minor in itertools.product(LINUX_ARCHS, range(1, 6)):
        text = f"musllinux_1_{minor}_{arch}"
        try:
            plat = Platform.parse(text)
            lib = list(plat.compatible_tags)
        except Exception as e:  # noqa: BLE001
            report("musllinux-exception", f"{text}: {type(e).__name__}: {e}")
            continue
        rule = rule_musllinux(minor, arch)
        pk = pk_linux(arch, None, (1, minor))
        if set(lib) != rule:
            report("musllinux-set-vs-rule", f"{text}: lib-rule={sorted(set(lib) - rule)} rule-lib={sorted(rule - set(lib))}")
        if set(lib) != set(pk):
            report("musllinux-set-vs-packaging (musllinux_1_0)", f"{text}: lib-pk={sorted(set(lib) - set(pk))} pk-lib={sorted(set(pk) - set(lib))}")
        lib_mu = [t for t in lib if t.startswith("musllinux")]
        pk_mu = [t for t in pk if t.startswith("musllinux") and not t.startswith("musllinux_1_0_")]
        if lib_mu != pk_mu and minor > 1:
            report(
                "musllinux-order (outside the statement's order clause, but real)",
                f"{text}: lib order={lib_mu} -> score of musllinux_1_1={score(plat, f'musllinux_1_1_{arch}')} > score of musllinux_1_{minor}={score(plat, f'musllinux_1_{minor}_{arch}')}; packaging order={pk_mu}",
            )
        check_scores(plat, text)

    # ---- macOS
    mac_versions = [(10, m) for m in range(4, 17)] + [(M, 0) for M in range(11, 31)]
    mac_versions += [(11, 3), (12, 6), (13, 5), (14, 7), (15, 1)]
    for arch, (major, minor) in itertools.product(MAC_ARCHS, mac_versions):
        text = f"macos_{major}_{minor}_{arch}"
        try:
            plat = Platform.parse(text)
            lib = list(plat.compatible_tags)
        except Exception as e:  # noqa: BLE001
            report("macos-exception", f"{text}: {type(e).__name__}: {e}")
            continue
        rule = rule_macos(major, minor, arch)
        pk = pk_mac(major, minor, arch)
        newer = []
        for t in lib:
            _, M, m, _rest = t.split("_", 3)
            if (int(M), int(m)) > (major, minor):
                newer.append(t)
        if newer or (arch == "arm64" and major == 10):
            missing = sorted(set(rule) - set(lib))
            report(
                "macos-arm64-10.x: claims releases NEWER than the target, never claims macosx_10_K_arm64",
                f"{text}: lib={lib[:3]}..({len(newer)} tags newer than the target, {len(missing)} rule tags missing e.g. {missing[:2]}); rule oracle={rule[:3]}..; packaging={pk[:3]}..",
            )
            newer = newer or ["-"]
        fat = sorted({t.rsplit("_", 1)[1] for t in lib if "_fat" in t})
        pkfat = sorted({t.rsplit("_", 1)[1] for t in pk if "_fat" in t})
        if fat:
            report(
                "macos-x86_64-legacy-fat-formats",
                f"{text}: lib claims formats {fat} (e.g. {[t for t in lib if '_fat' in t][:2]}); statement says fat* are not claimed; packaging {packaging.__version__} claims {pkfat}",
            )
        nofat = lambda ts: [t for t in ts if "_fat" not in t]  # noqa: E731
        if not newer and set(nofat(lib)) != set(rule):
            report("macos-set-vs-rule", f"{text}: lib-rule={sorted(set(nofat(lib)) - set(rule))[:5]} rule-lib={sorted(set(rule) - set(lib))[:5]}")
        if not newer and set(nofat(lib)) != set(nofat(pk)):
            report("macos-set-vs-packaging", f"{text}: lib-pk={sorted(set(nofat(lib)) - set(pk))[:5]} pk-lib={sorted(set(nofat(pk)) - set(lib))[:5]}")
        if not newer and (nofat(lib) != rule or nofat(lib) != nofat(pk)):
            report("macos-order", f"{text}: lib={nofat(lib)[:6]} rule={rule[:6]} pk={nofat(pk)[:6]}")
        if not newer:
            check_scores(plat, text)

    # ---- windows
    for a, tag in WIN.items():
        text = f"windows_{a}"
        try:
            plat = Platform.parse(text)
            lib = list(plat.compatible_tags)
        except Exception as e:  # noqa: BLE001
            report("windows-exception", f"{text}: {type(e).__name__}: {e}")
            continue
        if lib != [tag]:
            report("windows", f"{text}: lib={lib} expected {[tag]}")
        check_scores(plat, text)

    # ---- cache / aliasing: compatible_tags is a cached mutable list
    p = Platform(dos.Manylinux(2, 17), Arch.X86_64)
    before = list(p.compatible_tags)
    EnvSpec(parse_version_specifier(">=3.8"), p, None).compatibility(["py3"], ["none"], ["any"])
    if p.compatible_tags != before:
        report("cache-mutation", "EnvSpec.compatibility mutates Platform.compatible_tags")

    # ---- outside the quantifier, reported for information only
    info = []
    p = Platform.parse("manylinux_2_17_i686")
    info.append(f"(outside quantifier) manylinux_2_17_i686 -> {p.compatible_tags[:2]}.. + {p.compatible_tags[-1]!r}: "
                f"arch is spelled 'x86', real tags are manylinux_2_17_i686 / linux_i686 (packaging: {pk_linux('i686', (2, 17), None)[:2]})")
    p = Platform.parse("manylinux_2_17_loongarch64")
    info.append(f"(outside quantifier) manylinux_2_17_loongarch64 -> {p.compatible_tags}; packaging: {pk_linux('loongarch64', (2, 17), None)}")

    if not findings:
        print("no violation found")
    for kind, msgs in findings.items():
        print(f"== {kind}: {len(msgs)} platform(s)")
        for m in msgs[:2]:
            print("   ", m)
    print()
    for i in info:
        print(i)
    return 0


if __name__ == "__main__":
    sys.exit(main())
