"""Hunt for violations of C01 (&, |, ~ on version specifiers are exact set operations)
on the UNMODIFIED library.

Run as (with patch.diff reversed, i.e. on the pristine tree):
    cd /tmp/wt/C01i && PYTHONPATH=/tmp/wt/C01i/src /venv/bin/python hunt_C01.py

Every check compares what the library returns with an independent oracle:
  * structural: membership read from min/max/include_* of the ranges; the result
    of an operator must admit exactly the boolean combination of its operands;
  * packaging: for specifiers/probes made of plain final releases the operands'
    membership is also decided by packaging.specifiers.SpecifierSet;
  * shape: results must be canonical (sorted, disjoint, non adjacent, no empty
    piece, >= 2 ranges in a union) - a broken shape would break later operators;
  * laws on three / four operands (De Morgan, distributivity, absorption,
    double complement, commutativity) judged by membership AND by equality of
    the canonical results;
  * no exception may escape from &, |, ~ on non-`===` specifiers.
Each NEW violation is printed with input, library answer and oracle answer.
"""

from __future__ import annotations

import itertools
import random
import sys
import time
import traceback

from packaging.specifiers import SpecifierSet
from packaging.version import Version

from dep_logic.specifiers import (
    AnySpecifier,
    BaseSpecifier,
    EmptySpecifier,
    RangeSpecifier,
    UnionSpecifier,
    from_specifierset,
    parse_version_specifier,
)

VIOLATIONS: list[str] = []
COUNTS: dict[str, int] = {}


def count(area: str, n: int = 1) -> None:
    COUNTS[area] = COUNTS.get(area, 0) + n


def report(area: str, msg: str) -> None:
    if len(VIOLATIONS) < 40:
        print(f"VIOLATION [{area}] {msg}")
    VIOLATIONS.append(f"[{area}] {msg}")


# ---------------------------------------------------------------- oracle
def ranges_of(s: BaseSpecifier) -> list[RangeSpecifier]:
    if isinstance(s, EmptySpecifier):
        return []
    if isinstance(s, AnySpecifier):
        return [RangeSpecifier()]
    if isinstance(s, RangeSpecifier):
        return [s]
    if isinstance(s, UnionSpecifier):
        return list(s.ranges)
    raise TypeError(f"unexpected type {type(s).__name__}")


def in_range(r: RangeSpecifier, v: Version) -> bool:
    if r.min is not None and (v < r.min or (v == r.min and not r.include_min)):
        return False
    if r.max is not None and (v > r.max or (v == r.max and not r.include_max)):
        return False
    return True


def member(s: BaseSpecifier, v: Version) -> bool:
    return any(in_range(r, v) for r in ranges_of(s))


def bounds(s: BaseSpecifier) -> list[Version]:
    out = []
    for r in ranges_of(s):
        out += [b for b in (r.min, r.max) if b is not None]
    return out


def between(a: Version, b: Version) -> Version | None:
    rel = ".".join(map(str, a.release))
    relb = ".".join(map(str, b.release))
    for text in (
        f"{a.epoch}!{rel}.0.1",
        f"{a.epoch}!{rel}.1",
        f"{a.epoch}!{rel}.post99999",
        f"{a.epoch}!{rel}",
        f"{b.epoch}!{relb}.dev0",
        f"{b.epoch}!{relb}a0",
        f"{b.epoch}!0",
    ):
        c = Version(text)
        if a < c < b:
            return c
    return None


def probes(bs: list[Version]) -> list[Version]:
    bs = sorted(set(bs))
    pts = list(bs) + [Version("0.dev0"), Version("99!99")]
    for b in bs:
        pts.append(Version(f"{b.epoch}!{'.'.join(map(str, b.release))}.99"))
    for a, b in zip(bs, bs[1:]):
        m = between(a, b)
        if m is not None:
            pts.append(m)
    return pts


def canonical_problem(s: BaseSpecifier) -> str | None:
    rs = ranges_of(s)
    if isinstance(s, UnionSpecifier) and len(rs) < 2:
        return "union with fewer than two ranges"
    for r in rs:
        if not isinstance(r, RangeSpecifier):
            return f"non-range member {r!r}"
        if r.min is not None and r.max is not None:
            if not (r.min < r.max or (r.min == r.max and r.include_min and r.include_max)):
                return f"empty piece {r!r}"
    if isinstance(s, UnionSpecifier) and any(r.is_any() for r in rs):
        return "universal piece inside a union"
    for a, b in zip(rs, rs[1:]):
        if a.max is None or b.min is None:
            return "unbounded piece in the middle"
        if not (a.max < b.min or (a.max == b.min and not a.include_max and not b.include_min)):
            return f"pieces {a!r} and {b!r} overlap, touch or are out of order"
    return None


def same_set(x: BaseSpecifier, y: BaseSpecifier) -> bool:
    """Equality of canonical forms (the canonical form of a set is unique)."""
    return ranges_of(x) == ranges_of(y)


# ---------------------------------------------------------------- generators
SMALL = ["0.9", "1", "1.0.1", "1.1", "1.2", "1.2.0", "1.2.3", "2", "2.0.0", "2.1", "3"]
EDGY = SMALL + [
    "1.0a1", "1.0b2", "1.0rc1", "1.0.dev3", "1.0.post1", "1.0.post1.dev2", "1.0a1.dev1",
    "1!0.5", "1!1.0", "1!2.3", "2!0", "1.2.3.4", "1.2.3.4.5", "0", "0.0.1", "10.20.30",
    "1.10", "1.9", "2.0.post2", "2.0rc3", "2.0a1.post1", "1.0.0.0", "1.2.0.0", "1.2.post0",
    "1_000.2".replace("_", ""), "01.02", "v1.2", "1.2-1", "1.2.RC1",
]


def rand_version(rng: random.Random, mode: str) -> str:
    if mode == "small":
        return rng.choice(SMALL)
    if mode == "edgy":
        return rng.choice(EDGY)
    v = ".".join(str(rng.randint(0, 30)) for _ in range(rng.randint(1, 5)))
    if rng.random() < 0.15:
        v = f"{rng.randint(1, 2)}!" + v
    if rng.random() < 0.15:
        v += rng.choice(["a", "b", "rc"]) + str(rng.randint(0, 3))
    if rng.random() < 0.15:
        v += ".post" + str(rng.randint(0, 3))
    if rng.random() < 0.15:
        v += ".dev" + str(rng.randint(0, 3))
    return v


def rand_clause(rng: random.Random, mode: str) -> str:
    op = rng.choice([">", ">=", "<", "<=", "==", "!=", "~=", "==*", "!=*"])
    v = rand_version(rng, mode)
    V = Version(v)
    if op.endswith("*"):
        depth = rng.randint(1, len(V.release))
        base = (f"{V.epoch}!" if V.epoch else "") + ".".join(map(str, V.release[:depth]))
        return op[:2] + base + ".*"
    if op == "~=":
        if len(V.release) < 2:
            return ">=" + v
        return "~=" + v
    return op + v


def rand_leaf(rng: random.Random, mode: str) -> tuple[BaseSpecifier, str]:
    r = rng.random()
    if r < 0.04:
        return EmptySpecifier(), "<empty>"
    if r < 0.07:
        return AnySpecifier(), "AnySpecifier()"
    if r < 0.09:
        return RangeSpecifier(), "RangeSpecifier()"
    if r < 0.11:
        return ~EmptySpecifier(), "~<empty>"
    text = ",".join(rand_clause(rng, mode) for _ in range(rng.choice([1, 1, 1, 2, 2, 3, 4])))
    if rng.random() < 0.3:
        for _ in range(rng.choice([1, 1, 2, 3])):
            text += "||" + ",".join(rand_clause(rng, mode) for _ in range(rng.choice([1, 2])))
        return parse_version_specifier(text), text
    if rng.random() < 0.5:
        return from_specifierset(SpecifierSet(text)), f"from_specifierset({text!r})"
    return parse_version_specifier(text), text


def build(rng, depth, mode, leaves):
    if depth == 0 or rng.random() < 0.2:
        leaf, text = rand_leaf(rng, mode)
        leaves.append(leaf)
        return leaf, (lambda v, leaf=leaf: member(leaf, v)), text
    op = rng.choice("&|~&|")
    x, fx, tx = build(rng, depth - 1, mode, leaves)
    if op == "~":
        return ~x, (lambda v: not fx(v)), f"~({tx})"
    y, fy, ty = build(rng, depth - 1, mode, leaves)
    if op == "&":
        return x & y, (lambda v: fx(v) and fy(v)), f"({tx}) & ({ty})"
    return x | y, (lambda v: fx(v) or fy(v)), f"({tx}) | ({ty})"


# ---------------------------------------------------------------- areas
def area_random_expressions(n_per_mode: int) -> None:
    for mode in ("small", "edgy", "wide"):
        rng = random.Random(20260930 + len(mode))
        for _ in range(n_per_mode):
            leaves: list[BaseSpecifier] = []
            count("random expression trees (depth<=4, &,|,~, all leaf kinds)")
            try:
                res, f, text = build(rng, rng.randint(1, 4), mode, leaves)
            except Exception as e:
                report("exception", f"{type(e).__name__}: {e}\n{traceback.format_exc()}")
                continue
            problem = canonical_problem(res)
            if problem:
                report("shape", f"{text} -> {res!r}: {problem}")
            bs = bounds(res)
            for leaf in leaves:
                bs += bounds(leaf)
            for v in probes(bs):
                if member(res, v) != f(v):
                    report(
                        "membership",
                        f"{text} -> {res!r}: library {'admits' if member(res, v) else 'rejects'} {v}, "
                        f"direct evaluation of the operands says {'admit' if f(v) else 'reject'}",
                    )
                    break


def area_exhaustive_small_scope() -> None:
    pool = ["1", "1.0.0", "1.5", "2", "1!0"]  # 1 == 1.0.0, an epoch on top
    clauses = [f"{op}{v}" for op in (">", ">=", "<", "<=", "==", "!=") for v in pool]
    texts = {""} | set(clauses)
    for a, b in itertools.combinations(clauses, 2):
        texts.add(f"{a},{b}")
    specs: dict[tuple, tuple[str, BaseSpecifier]] = {}
    for t in sorted(texts):
        s = parse_version_specifier(t)
        specs.setdefault(tuple(ranges_of(s)), (t, s))
    # unions of two parsed specifiers
    base = list(specs.values())
    rng = random.Random(1)
    for (ta, a), (tb, b) in rng.sample(list(itertools.combinations(base, 2)), 400):
        u = a | b
        specs.setdefault(tuple(ranges_of(u)), (f"{ta}||{tb}", u))
    items = list(specs.values())
    items += [("<empty>", EmptySpecifier()), ("AnySpecifier()", AnySpecifier())]
    pts = probes([Version(v) for v in pool])
    memb = {t: [member(s, v) for v in pts] for t, s in items}
    for t, s in items:
        count("exhaustive small scope (5 bounds incl. 1 == 1.0.0 and an epoch)")
        inv = ~s
        if [member(inv, v) for v in pts] != [not m for m in memb[t]] or canonical_problem(inv):
            report("small-scope ~", f"~({t}) -> {inv!r}")
    for (ta, a), (tb, b) in itertools.product(items, repeat=2):
        count("exhaustive small scope (5 bounds incl. 1 == 1.0.0 and an epoch)", 2)
        i, u = a & b, a | b
        if [member(i, v) for v in pts] != [x and y for x, y in zip(memb[ta], memb[tb])] or canonical_problem(i):
            report("small-scope &", f"({ta}) & ({tb}) -> {i!r}")
        if [member(u, v) for v in pts] != [x or y for x, y in zip(memb[ta], memb[tb])] or canonical_problem(u):
            report("small-scope |", f"({ta}) | ({tb}) -> {u!r}")


def area_packaging_oracle(n: int) -> None:
    """Final releases only: packaging and the interval reading coincide."""
    rng = random.Random(7)
    finals = ["0.5", "1", "1.0.1", "1.1", "1.2", "1.2.0", "1.2.3", "2", "2.0.0", "2.1", "3", "1!0.5", "1!1", "1!2.0"]
    pts = [Version(v) for v in finals] + [Version(v) for v in ("0.1", "1.0.5", "1.1.5", "1.2.1", "1.9", "2.0.5", "2.5", "4", "1!0.1", "1!0.7", "1!1.5", "1!3")]

    def clause():
        op = rng.choice([">", ">=", "<", "<=", "==", "!=", "~=", "==*", "!=*"])
        v = rng.choice(finals)
        V = Version(v)
        if op.endswith("*"):
            d = rng.randint(1, len(V.release))
            return op[:2] + (f"{V.epoch}!" if V.epoch else "") + ".".join(map(str, V.release[:d])) + ".*"
        if op == "~=" and len(V.release) < 2:
            op = ">="
        return op + v

    def text():
        return "||".join(
            ",".join(clause() for _ in range(rng.choice([1, 1, 2, 3])))
            for _ in range(rng.choice([1, 1, 1, 2, 3]))
        )

    def pk(t, v):
        return any(SpecifierSet(p).contains(v, prereleases=True) for p in t.split("||"))

    for _ in range(n):
        count("packaging as oracle (final releases, epochs, wildcards of several depths, ~=)")
        ta, tb, tc = text(), text(), text()
        a, b, c = (parse_version_specifier(t) for t in (ta, tb, tc))
        cases = {
            f"({ta}) & ({tb})": (a & b, lambda v: pk(ta, v) and pk(tb, v)),
            f"({ta}) | ({tb})": (a | b, lambda v: pk(ta, v) or pk(tb, v)),
            f"~({ta})": (~a, lambda v: not pk(ta, v)),
            f"(({ta}) & ~({tb})) | ({tc})": ((a & ~b) | c, lambda v: (pk(ta, v) and not pk(tb, v)) or pk(tc, v)),
            f"~(({ta}) | ({tb})) & ({tc})": (~(a | b) & c, lambda v: not (pk(ta, v) or pk(tb, v)) and pk(tc, v)),
        }
        for name, (res, f) in cases.items():
            for v in pts:
                if member(res, v) != f(v):
                    report("packaging", f"{name} -> {res!r}: library {member(res, v)} for {v}, packaging {f(v)}")
                    break


def area_laws(n: int) -> None:
    for mode in ("small", "edgy"):
        rng = random.Random(99 + len(mode))
        for _ in range(n):
            count("algebraic laws on 3-4 operands, compared as canonical structures")
            (a, ta), (b, tb), (c, tc), (d, td) = (rand_leaf(rng, mode) for _ in range(4))
            laws = {
                "a&b == b&a": (a & b, b & a),
                "a|b == b|a": (a | b, b | a),
                "~~a == a": (~~a, a),
                "~(a&b) == ~a|~b": (~(a & b), ~a | ~b),
                "~(a|b) == ~a&~b": (~(a | b), ~a & ~b),
                "a&(b|c) == a&b|a&c": (a & (b | c), (a & b) | (a & c)),
                "a|(b&c) == (a|b)&(a|c)": (a | (b & c), (a | b) & (a | c)),
                "a&(a|b) == a": (a & (a | b), a),
                "a|(a&b) == a": (a | (a & b), a),
                "(a&b)&(c&d) == a&(b&(c&d))": ((a & b) & (c & d), a & (b & (c & d))),
                "(a|b)|(c|d) == ((d|c)|b)|a": ((a | b) | (c | d), ((d | c) | b) | a),
                "a&~a == empty": (a & ~a, EmptySpecifier()),
                "a|~a == any": (a | ~a, AnySpecifier()),
            }
            for name, (x, y) in laws.items():
                if not same_set(x, y):
                    report("law", f"{name} with a={ta!r} b={tb!r} c={tc!r} d={td!r}: {x!r} vs {y!r}")


def area_dunder_matrix() -> None:
    kinds = {
        "Empty": EmptySpecifier(),
        "Any": AnySpecifier(),
        "~Empty": ~EmptySpecifier(),
        "Range()": RangeSpecifier(),
        "parse('')": parse_version_specifier(""),
        "range": parse_version_specifier(">=1,<2"),
        "pin": parse_version_specifier("==1.5"),
        "union": parse_version_specifier("<1||>=2"),
        "neq": parse_version_specifier("!=1.5"),
        "ctor-range": RangeSpecifier(min=Version("1"), max=Version("2.0.0"), include_min=True),
        "ctor-union": UnionSpecifier((RangeSpecifier(max=Version("1.0")), RangeSpecifier(min=Version("2"), include_min=True))),
    }
    pts = probes([Version("1"), Version("1.5"), Version("2")])
    for (na, a), (nb, b) in itertools.product(kinds.items(), repeat=2):
        calls = {
            "a & b": lambda: a & b,
            "a | b": lambda: a | b,
            "a.__and__(b)": lambda: a.__and__(b),
            "b.__rand__(a)": lambda: b.__rand__(a) if hasattr(b, "__rand__") else NotImplemented,
            "a.__or__(b)": lambda: a.__or__(b),
            "b.__ror__(a)": lambda: b.__ror__(a) if hasattr(b, "__ror__") else NotImplemented,
        }
        for name, call in calls.items():
            count("operator / reflected-operator matrix over all classes")
            try:
                res = call()
            except Exception as e:
                report("dunder", f"{name} a={na} b={nb}: {type(e).__name__}: {e}")
                continue
            if res is NotImplemented:
                continue
            is_and = "and" in name or "&" in name
            for v in pts:
                want = (member(a, v) and member(b, v)) if is_and else (member(a, v) or member(b, v))
                if member(res, v) != want:
                    report("dunder", f"{name} a={na} b={nb} -> {res!r}: wrong for {v}")
                    break
            if canonical_problem(res):
                report("dunder", f"{name} a={na} b={nb} -> {res!r}: {canonical_problem(res)}")
    # operands that are not specifiers must give TypeError, nothing else
    for na, a in kinds.items():
        for other in ("", ">=1", 1, None, SpecifierSet(">=1"), Version("1")):
            for op in ("&", "|"):
                count("operator / reflected-operator matrix over all classes")
                try:
                    _ = (a & other) if op == "&" else (a | other)
                    report("dunder", f"{na} {op} {other!r} did not raise")
                except TypeError:
                    pass
                except Exception as e:
                    report("dunder", f"{na} {op} {other!r}: {type(e).__name__}: {e}")


def area_render_reparse(n: int) -> None:
    """A result, written out and parsed back, must be the same set
    (family 3, exclusive post-release upper bound, is skipped)."""
    for mode in ("small", "edgy", "wide"):
        rng = random.Random(5 + len(mode))
        for _ in range(n):
            leaves: list[BaseSpecifier] = []
            res, _, text = build(rng, rng.randint(1, 3), mode, leaves)
            if any(r.max is not None and not r.include_max and r.max.is_postrelease for r in ranges_of(res)):
                continue
            count("str(result) parsed back gives the same ranges")
            try:
                back = parse_version_specifier(str(res))
            except Exception as e:
                report("reparse", f"{text} -> {str(res)!r}: {type(e).__name__}: {e}")
                continue
            if not same_set(back, res):
                report("reparse", f"{text} -> {str(res)!r} parses back as {back!r}, ranges differ")


def area_sequences(n: int) -> None:
    """Long chains on one accumulator, alternating operators (order of earlier operations)."""
    for mode in ("small", "edgy"):
        rng = random.Random(31 + len(mode))
        for _ in range(n):
            count("long operator chains on one accumulator (20 steps)")
            acc, text = rand_leaf(rng, mode)
            f = lambda v, acc=acc: member(acc, v)  # noqa: E731
            bs = bounds(acc)
            for _ in range(20):
                op = rng.choice("&|~")
                if op == "~":
                    acc, f, text = ~acc, (lambda v, f=f: not f(v)), f"~({text})"
                else:
                    leaf, lt = rand_leaf(rng, mode)
                    bs += bounds(leaf)
                    if rng.random() < 0.5:
                        if op == "&":
                            acc, f = acc & leaf, (lambda v, f=f, leaf=leaf: f(v) and member(leaf, v))
                        else:
                            acc, f = acc | leaf, (lambda v, f=f, leaf=leaf: f(v) or member(leaf, v))
                        text = f"({text}) {op} ({lt})"
                    else:
                        if op == "&":
                            acc, f = leaf & acc, (lambda v, f=f, leaf=leaf: f(v) and member(leaf, v))
                        else:
                            acc, f = leaf | acc, (lambda v, f=f, leaf=leaf: f(v) or member(leaf, v))
                        text = f"({lt}) {op} ({text})"
                if canonical_problem(acc):
                    report("chain shape", f"{text} -> {acc!r}: {canonical_problem(acc)}")
                    break
            for v in probes(bs):
                if member(acc, v) != f(v):
                    report("chain", f"{text} -> {acc!r}: wrong for {v}")
                    break


def main() -> int:
    t0 = time.time()
    area_exhaustive_small_scope()
    area_dunder_matrix()
    area_random_expressions(60000)
    area_packaging_oracle(15000)
    area_laws(15000)
    area_sequences(4000)
    area_render_reparse(15000)
    print()
    for area, n in COUNTS.items():
        print(f"{n:>8} cases  {area}")
    print(f"total {sum(COUNTS.values())} cases in {time.time() - t0:.0f}s")
    if VIOLATIONS:
        print(f"{len(VIOLATIONS)} violation(s) found")
        return 1
    print("no new violation of C01 found")
    return 0


if __name__ == "__main__":
    sys.exit(main())
