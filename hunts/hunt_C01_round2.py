"""Hunt for violations of C01 (exact &, |, ~ on version specifiers) on the library as it is.

Run: cd /tmp/wt/C01h && PYTHONPATH=/tmp/wt/C01h/src /venv/bin/python hunt_C01.py [seed]

Membership is read structurally from the bounds (min/max/include_*) of the result and of
the operands, so the oracle is the direct evaluation of both sides of
    v in (a&b) <=> v in a and v in b,  v in (a|b) <=> v in a or v in b,  v in ~a <=> not v in a
for probe versions v placed on and around every bound.  In addition every result is checked
for well-formedness (ranges sorted, disjoint, non adjacent, not inverted), and parsed
operands are compared with packaging on final releases.

Every NEW violation is printed; the summary says how many cases were run per area.
"""
from __future__ import annotations

import collections
import itertools
import random
import sys

from packaging.specifiers import SpecifierSet
from packaging.version import Version

from dep_logic.specifiers import (
    AnySpecifier,
    EmptySpecifier,
    InvalidSpecifier,
    RangeSpecifier,
    UnionSpecifier,
    parse_version_specifier,
)

VIOLATIONS: list[str] = []
COUNTS: collections.Counter[str] = collections.Counter()


def report(area: str, msg: str) -> None:
    VIOLATIONS.append(f"[{area}] {msg}")
    if len(VIOLATIONS) <= 40:
        print("VIOLATION", VIOLATIONS[-1])


# ---------------------------------------------------------------- structural oracle
def member(s, v: Version) -> bool:
    if isinstance(s, EmptySpecifier):
        return False
    if isinstance(s, AnySpecifier):
        return True
    if isinstance(s, RangeSpecifier):
        if s.min is not None and not (s.min < v or (s.min == v and s.include_min)):
            return False
        if s.max is not None and not (v < s.max or (s.max == v and s.include_max)):
            return False
        return True
    if isinstance(s, UnionSpecifier):
        return any(member(r, v) for r in s.ranges)
    raise TypeError(type(s))


def bounds(s) -> list[Version]:
    if isinstance(s, RangeSpecifier):
        return [x for x in (s.min, s.max) if x is not None]
    if isinstance(s, UnionSpecifier):
        return [x for r in s.ranges for x in bounds(r)]
    return []


def wellformed(s) -> str | None:
    if isinstance(s, RangeSpecifier) and s.min is not None and s.max is not None:
        if s.min > s.max:
            return "inverted range"
        if s.min == s.max and not (s.include_min and s.include_max):
            return "degenerate empty range"
    if isinstance(s, UnionSpecifier):
        if len(s.ranges) < 2:
            return "union with <2 ranges"
        for r in s.ranges:
            if (w := wellformed(r)) is not None:
                return w
            if r.is_any():
                return "unbounded range inside union"
        for a, b in zip(s.ranges, s.ranges[1:]):
            if a.max is None or b.min is None:
                return "unbounded inner bound"
            if not (
                a.max < b.min
                or (a.max == b.min and not a.include_max and not b.include_min)
            ):
                return f"not sorted/disjoint/non-adjacent: {a} | {b}"
    return None


def probes(*specs) -> set[Version]:
    bs = {b for s in specs for b in bounds(s)}
    out = set(bs)
    for b in bs:
        base = b.base_version
        for suf in ("", ".dev0", "a0", ".post0", ".post0.dev0", ".0.1", ".1"):
            out.add(Version(base + suf))
        if b.pre:
            out.add(Version(f"{base}{b.pre[0]}{b.pre[1] + 1}"))
            out.add(Version(f"{base}{b.pre[0]}{b.pre[1]}.post0"))
            out.add(Version(f"{base}{b.pre[0]}{b.pre[1]}.dev0"))
        if b.post is not None:
            out.add(Version(str(b).split(".dev")[0] + ".dev0"))
            out.add(Version(f"{base}.post{b.post + 1}"))
        if b.dev is not None:
            out.add(Version(str(b).rsplit(".dev", 1)[0] + f".dev{b.dev + 1}"))
    out.add(Version("0.dev0"))
    out.add(Version("99!99"))
    return out


def check(area: str, a, ta: str, b, tb: str) -> None:
    COUNTS[area] += 1
    P = probes(a, b)
    for name, f, oracle in (
        ("&", lambda: a & b, lambda x, y: x and y),
        ("|", lambda: a | b, lambda x, y: x or y),
        ("~", lambda: ~a, lambda x, y: not x),
    ):
        try:
            r = f()
        except Exception as e:  # noqa: BLE001
            report(area, f"{name}: a={ta!r} b={tb!r} raised {type(e).__name__}: {e}")
            continue
        if (w := wellformed(r)) is not None:
            report(area, f"{name}: a={ta!r} b={tb!r} ill-formed result {r!r}: {w}")
        for v in P | probes(r):
            got, exp = member(r, v), oracle(member(a, v), member(b, v))
            if got != exp:
                report(
                    area,
                    f"{name}: a={ta!r} b={tb!r} -> {r!r}; v={v}: library {got}, "
                    f"direct evaluation of the operands {exp}",
                )
                break


# ---------------------------------------------------------------- generators
def rand_version(rng: random.Random) -> str:
    n = rng.choice([1, 1, 2, 2, 2, 3, 3, 4, 5])
    s = ".".join(str(rng.choice([0, 0, 1, 1, 2, 3, 10])) for _ in range(n))
    if rng.random() < 0.15:
        s = f"{rng.choice([1, 2])}!" + s
    if rng.random() < 0.12:
        s += rng.choice(["a", "b", "rc"]) + str(rng.choice([0, 1, 2]))
    if rng.random() < 0.1:
        s += ".post" + str(rng.choice([0, 1, 2]))
    if rng.random() < 0.1:
        s += ".dev" + str(rng.choice([0, 1, 2]))
    return s


POOLS = [
    ["1", "1.0", "1.0.0", "1.1", "1.0.1", "2", "2.0", "1.0a1", "1.0.post1", "1.0.dev1",
     "1!1", "1!1.0", "0"],
    ["1.2", "1.3", "1.3.0", "1.2.0", "1.2.1", "2.0", "2.0.0", "1.2.post0", "1.3.dev0",
     "1.3a0", "1!1.2", "1!1.3.0"],
    ["3.8", "3.9", "3.10", "3.10.0", "3.9.1", "3.9.0", "4", "4.0", "3", "3.0"],
]


def rand_atom(rng: random.Random, pool: list[str] | None) -> str:
    op = rng.choice(["<", "<=", ">", ">=", "==", "!=", "~=", "==*", "!=*"])
    while True:
        v = rng.choice(pool) if pool else rand_version(rng)
        pv = Version(v)
        if op in ("==*", "!=*"):
            if pv.is_prerelease or pv.is_postrelease:
                continue
            return op[:2] + v + ".*"
        if op == "~=" and len(pv.release) < 2:
            continue
        return op + v


def rand_spec(rng: random.Random, pool=None, depth=0, maxdepth=3):
    r = rng.random()
    if depth >= maxdepth or r < 0.45:
        text = ",".join(rand_atom(rng, pool) for _ in range(rng.choice([0, 1, 1, 1, 2, 2, 3])))
        return parse_version_specifier(text), text
    if r < 0.5:
        return (
            (EmptySpecifier(), "<empty>") if rng.random() < 0.5 else (AnySpecifier(), "<any>")
        )
    if r < 0.65:
        a, ta = rand_spec(rng, pool, depth + 1, maxdepth)
        return ~a, f"~({ta})"
    a, ta = rand_spec(rng, pool, depth + 1, maxdepth)
    b, tb = rand_spec(rng, pool, depth + 1, maxdepth)
    if rng.random() < 0.5:
        return a & b, f"({ta}) & ({tb})"
    return a | b, f"({ta}) | ({tb})"


def big_union(rng: random.Random):
    parts = []
    for _ in range(rng.randint(2, 5)):
        atoms = [
            rng.choice(["!=", "!=", "!=", ">=", "<", ">", "<=", "=="]) + rand_version(rng)
            for _ in range(rng.randint(1, 6))
        ]
        parts.append(",".join(atoms))
    t = "||".join(parts)
    return parse_version_specifier(t), t


# ---------------------------------------------------------------- areas
def area_random(rng, n):
    for _ in range(n):
        a, ta = rand_spec(rng)
        b, tb = rand_spec(rng)
        check("random expressions, wide version pool (epoch/pre/post/dev, 1-5 segments)", a, ta, b, tb)


def area_tight(rng, n):
    for _ in range(n):
        pool = rng.choice(POOLS)
        a, ta = rand_spec(rng, pool, maxdepth=4)
        b, tb = rand_spec(rng, pool, maxdepth=4)
        check("random expressions, tiny pools (coincident bounds, 1 / 1.0 / 1.0.0 spellings)", a, ta, b, tb)


def area_big(rng, n):
    for _ in range(n):
        a, ta = big_union(rng)
        b, tb = big_union(rng)
        if rng.random() < 0.3:
            a, ta = ~a, f"~({ta})"
        check("unions of many ranges written with ||", a, ta, b, tb)


def area_exhaustive():
    """all single ranges over a small pool x all single ranges, and all 2-range unions."""
    pts = ["1", "1.0.0", "1.0a1", "1.0.post1", "2", "1!0"]
    ranges = [("", parse_version_specifier(""))]
    for lo in [None, *pts]:
        for hi in [None, *pts]:
            for ilo, ihi in itertools.product([">", ">="] if lo else [None], ["<", "<="] if hi else [None]):
                t = ",".join(x for x in ((ilo + lo) if lo else "", (ihi + hi) if hi else "") if x)
                if not t:
                    continue
                ranges.append((t, parse_version_specifier(t)))
    for (ta, a), (tb, b) in itertools.product(ranges, ranges):
        check("exhaustive: every pair of single ranges over 6 bounds", a, ta, b, tb)
    nonempty = [(t, r) for t, r in ranges if isinstance(r, RangeSpecifier) and not r.is_any()]
    rng = random.Random(99)
    unions = []
    for (ta, a), (tb, b) in itertools.product(nonempty, nonempty):
        u = a | b
        if isinstance(u, UnionSpecifier):
            unions.append((f"{ta}||{tb}", u))
    unions = rng.sample(unions, 250)
    for (ta, a), (tb, b) in itertools.product(unions, unions):
        check("exhaustive-ish: pairs of 2-range unions over 6 bounds", a, ta, b, tb)
    for (ta, a), (tb, b) in itertools.product(unions, nonempty):
        check("exhaustive-ish: 2-range union x single range (both orders)", a, ta, b, tb)
        check("exhaustive-ish: 2-range union x single range (both orders)", b, tb, a, ta)


def area_roundtrip(rng, n):
    """parse(str(r)) admits the same versions as r (bounds that are final releases only,
    so the known `~=` / post-release rendering family is left out)."""
    for _ in range(n):
        a, ta = rand_spec(rng)
        if isinstance(a, AnySpecifier) or any(
            b.is_prerelease or b.is_postrelease for b in bounds(a)
        ):
            continue
        COUNTS["render and re-parse of results (final-release bounds)"] += 1
        s = str(a)
        try:
            b = parse_version_specifier(s)
        except Exception as e:  # noqa: BLE001
            report("roundtrip", f"{ta!r} renders {s!r} which raises {type(e).__name__}: {e}")
            continue
        for v in probes(a, b):
            if member(a, v) != member(b, v):
                report("roundtrip", f"{ta!r} = {a!r} renders {s!r}, re-parsed differs at v={v}")
                break


GRID = [Version(x) for x in [
    "0", "0.0.1", "0.1", "0.9", "1", "1.0.1", "1.0.0.1", "1.1", "1.2", "1.2.1", "1.3", "1.9",
    "2", "2.0.1", "2.1", "3", "10", "1!0", "1!0.1", "1!1", "1!1.0.1", "1!1.1", "1!1.2", "1!2", "2!0"]]


def area_strings(rng, n):
    """odd but legal spellings: parsed operand vs packaging on final releases, and
    only InvalidSpecifier may be raised for illegal text."""
    toks = ["<", "<=", ">", ">=", "==", "!=", "~=", "1", "1.0", "1.0.0", ".*", ",", " ", "||",
            "<empty>", "1!", "v", "0", ".", "2", "\t", "\n", "01", "1.2", "0.0", "1!0", "*",
            "a1", ".post1", ".dev0", "-1", "_", "rc", "ſ", "poſt1", "١", "(", ")", "|",
            "!", "=", "~", "1e5", "０", "²"]
    for _ in range(n):
        s = "".join(rng.choice(toks) for _ in range(rng.randint(1, 8)))
        if "===" in s or "+" in s:
            continue
        COUNTS["odd / illegal specifier text (exception type, packaging agreement on final releases)"] += 1
        try:
            r = parse_version_specifier(s)
        except InvalidSpecifier:
            continue
        except Exception as e:  # noqa: BLE001
            report("strings", f"parse_version_specifier({s!r}) raised {type(e).__name__}: {e}")
            continue
        if any(b.is_prerelease or b.is_postrelease for b in bounds(r)) or any(
            x in s for x in ("a1", "post", "dev", "rc", "-1")
        ):
            continue
        for v in GRID:
            exp = any(
                False if p.strip() == "<empty>" else SpecifierSet(p).contains(v, prereleases=True)
                for p in s.split("||")
            )
            if member(r, v) != exp:
                report("strings", f"{s!r} parsed as {r!r}: v={v} library {member(r, v)}, packaging {exp}")
                break


def main() -> int:
    seed = int(sys.argv[1]) if len(sys.argv) > 1 else 0
    rng = random.Random(seed)
    area_exhaustive()
    area_random(rng, 30000)
    area_tight(rng, 20000)
    area_big(rng, 8000)
    area_roundtrip(rng, 15000)
    area_strings(rng, 150000)
    print()
    for k, v in COUNTS.items():
        print(f"{v:8d} cases  {k}")
    print(f"total {sum(COUNTS.values())} cases; NEW violations found: {len(VIOLATIONS)}")
    if not VIOLATIONS:
        print("no new violation of C01 found on this tree")
    return 0


if __name__ == "__main__":
    sys.exit(main())
