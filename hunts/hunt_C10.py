"""C10 hunt on the UNMODIFIED tree (reverse patch.diff first: git apply -R patch.diff).

Three searches, all differential (the oracle is the property itself: the same operation
run first with cold caches / in another interpreter):

 1. saturation: a curated pool of atoms that are equal-but-differently-built
    (literal on the left/right, "3.10" vs "3.10.0" vs "3.10.0.0", rc spellings, wildcards,
    in-lists with/without blanks, re-rendered results, extra case/sep variants) -> every
    parse / & / | over the pool is run in a shuffled order (one big history), then each
    operation is re-run warm and compared with its cold result (all caches cleared,
    operands re-parsed into fresh objects).
 2. random histories over random compound markers (depth <= 2), cold vs warm probe.
 3. the same deterministic workload under several PYTHONHASHSEED values and in a fresh
    interpreter, compared by digest.

Prints every violation (input, cold result, warm result); prints a summary otherwise.
Run:  cd /tmp/wt/C10f && PYTHONPATH=/tmp/wt/C10f/src /venv/bin/python hunt_C10.py
"""
from __future__ import annotations

import functools
import gc
import hashlib
import os
import random
import signal
import subprocess
import sys

from dep_logic.markers import parse_marker

# ---------------------------------------------------------------- environment sample
ENVS = []
for pv, pfv in [("3.7", "3.7.3"), ("3.8", "3.8.0"), ("3.8", "3.8.1"), ("3.9", "3.9.0rc1"),
                ("3.10", "3.10.0"), ("3.10", "3.10.2"), ("3.12", "3.12.1"), ("2.7", "2.7.18")]:
    for plat, osn, psys, rel in [("linux", "posix", "Linux", "5.10.0"), ("win32", "nt", "Windows", "10"),
                                 ("darwin", "posix", "Darwin", "3.8.1")]:
        for extra in ["", "a-b"]:
            ENVS.append({
                "python_version": pv, "python_full_version": pfv, "sys_platform": plat,
                "os_name": osn, "platform_system": psys, "platform_machine": "x86_64",
                "implementation_name": "cpython", "platform_python_implementation": "CPython",
                "platform_release": rel, "platform_version": "#1 SMP  x",
                "implementation_version": pfv, "extra": extra,
            })

_WRAPPERS = None


def clear() -> None:
    """Drop every lru_cache of the library (so operands are re-parsed into fresh objects)."""
    global _WRAPPERS
    if _WRAPPERS is None:
        _WRAPPERS = [o for o in gc.get_objects() if isinstance(o, functools._lru_cache_wrapper)
                     and getattr(o, "__module__", "").startswith("dep_logic")]
    for w in _WRAPPERS:
        w.cache_clear()


class Timeout(BaseException):
    pass


def _alarm(*_a):
    raise Timeout


signal.signal(signal.SIGALRM, _alarm)


def observe(m):
    try:
        s = str(m)
    except Exception as e:  # noqa: BLE001
        s = f"STR-EXC {type(e).__name__}"
    ev = []
    for env in ENVS:
        try:
            ev.append(m.evaluate(env))
        except Exception as e:  # noqa: BLE001
            ev.append(type(e).__name__)
    return s, tuple(ev)


def run_op(op):
    try:
        if op[0] == "parse":
            return observe(parse_marker(op[1]))
        a, b = parse_marker(op[1]), parse_marker(op[2])
        return observe((a & b) if op[0] == "and" else (a | b))
    except Exception as e:  # noqa: BLE001
        return ("EXC", type(e).__name__, str(e)[:80])


def report(kind, probe, cold, warm, extra=""):
    print(f"VIOLATION ({kind}) probe={probe}")
    print(f"   cold: {cold[0] if cold[0] != 'EXC' else cold}")
    print(f"   warm: {warm[0] if warm[0] != 'EXC' else warm}")
    if cold[0] == warm[0]:
        print("   (same text, different truth values)")
    if extra:
        print("  ", extra)


# ---------------------------------------------------------------- 1. saturation
POOL = [
    'python_version >= "3.10"', 'python_version >= "3.10.0"', '"3.10" <= python_version',
    '"3.10.0" <= python_version', 'python_version > "3.9"', 'python_version < "3.10"',
    'python_version == "3.10"', 'python_version == "3.10.*"', 'python_version == "3.10.0"',
    'python_version != "3.10"', 'python_version in "3.9, 3.10"', 'python_version in "3.9,3.10"',
    'python_version not in "3.9, 3.10"', 'python_version ~= "3.10"', 'python_version >= "3"',
    'python_full_version >= "3.10"', 'python_full_version >= "3.10.0"',
    'python_full_version >= "3.10.0.0"', '"3.10" <= python_full_version',
    '"3.10.0" < python_full_version', 'python_full_version < "3.11"', 'python_full_version < "3.11.0"',
    'python_full_version == "3.10.*"', 'python_full_version != "3.10.*"', 'python_full_version ~= "3.10.0"',
    'python_full_version >= "3.9.0rc1"', 'python_full_version >= "3.9rc1"', 'python_full_version >= "3.9.0c1"',
    '"3.9.0rc1" <= python_full_version', 'python_full_version < "4"', 'python_full_version < "4.0"',
    'python_full_version in "3.9.1, 3.10.0"', 'python_full_version == "3.10.2"', 'python_full_version != "3.10.2"',
    'platform_release >= "5.10"', 'platform_release >= "5.10.0"', '"5.10" <= platform_release',
    'platform_release == "5.10.0"', 'platform_release < "5.10"', 'platform_release >= "5.10.0-generic"',
    'implementation_version >= "3.10"', 'implementation_version >= "3.10.0"', '"3.10" <= implementation_version',
    'sys_platform == "linux"', '"linux" == sys_platform', 'sys_platform != "linux"', 'sys_platform == "win32"',
    'sys_platform != "win32"', '"lin" in sys_platform', 'sys_platform in "linux"', 'sys_platform not in "linux win32"',
    '"win32" != sys_platform', 'sys_platform >= "linux"', 'os_name == "nt"', 'os_name != "nt"', 'os_name == "posix"',
    'extra == "a-b"', 'extra == "a_b"', 'extra == "A.B"', '"a-b" == extra', 'extra != "a-b"', 'extra != "a_b"',
    'platform_version == "#1 SMP  x"', 'platform_version == "#1 SMP x"',
]


def saturation(rounds=2, seed=7):
    clear()
    pool = list(POOL)
    # add what the library itself renders for small combinations (re-rendered operands)
    rng = random.Random(seed)
    for _ in range(150):
        a, b = rng.sample(POOL, 2)
        try:
            r = (parse_marker(a) & parse_marker(b)) if rng.random() < 0.5 else (parse_marker(a) | parse_marker(b))
            s = str(r)
        except Exception:  # noqa: BLE001
            continue
        if s and s != "<empty>" and s not in pool and len(s) < 160:
            pool.append(s)
    ops = [("parse", t) for t in pool]
    for a in pool:
        for b in pool:
            ops.append(("and", a, b))
            ops.append(("or", a, b))
    print(f"[1] saturation: pool of {len(pool)} texts, {len(ops)} operations, {rounds} shuffled histories")
    cold = {}
    for op in ops:
        clear()
        signal.alarm(10)
        try:
            cold[op] = run_op(op)
        except Timeout:
            cold[op] = None
        finally:
            signal.alarm(0)
    bad = 0
    for r in range(rounds):
        order = list(ops)
        random.Random(seed + r).shuffle(order)
        clear()
        for op in order:                     # the history: everything, in some order
            if cold[op] is not None:
                run_op(op)
        for op in order:                     # every position is probed warm
            if cold[op] is None:
                continue
            warm = run_op(op)
            if warm != cold[op]:
                bad += 1
                if bad <= 10:
                    report("saturation", op, cold[op], warm)
    print(f"    -> {bad} violations")
    return bad


# ---------------------------------------------------------------- 2. random histories
VERS = ["3", "3.0", "3.7", "3.8", "3.8.0", "3.8.1", "3.9", "3.10", "3.10.0", "3.10.2", "3.11", "3.12",
        "3.8.*", "3.*", "3.9.0rc1", "3.9.1.post1", "3.10.0.dev1", "4", "2.7", "1!3.8", "3.08"]
VOPS = ["==", "!=", "<", "<=", ">", ">=", "~="]
VNAMES = ["python_version", "python_full_version", "platform_release", "implementation_version"]
SNAMES = ["sys_platform", "os_name", "platform_system", "platform_machine", "implementation_name",
          "platform_python_implementation", "platform_version"]
SVALS = ["linux", "win32", "darwin", "nt", "posix", "Linux", "lin", "x86_64", "cpython", "in", "x"]
SOPS = ["==", "!=", "in", "not in", "<", ">", "<=", ">="]
EXTRAS = ["a", "A", "b", "a-b", "a_b", "A.B"]


def rand_atom(rng):
    k = rng.random()
    if k < 0.5:
        n = rng.choice(VNAMES)
        if rng.random() < 0.15:
            op = rng.choice(["in", "not in"])
            v = ", ".join(rng.sample([x for x in VERS if "*" not in x and "!" not in x], rng.randint(1, 3)))
            if rng.random() < 0.3:
                v = v.replace(", ", ",")
        else:
            op = rng.choice(VOPS)
            v = rng.choice(VERS)
            if op == "~=" and "." not in v:
                v += ".1"
            if "*" in v and op not in ("==", "!="):
                v = v.replace(".*", "")
    elif k < 0.9:
        n, op, v = rng.choice(SNAMES), rng.choice(SOPS), rng.choice(SVALS)
    elif k < 0.96:
        n, op, v = "extra", rng.choice(["==", "!="]), rng.choice(EXTRAS)
    elif k < 0.98:
        return f'"{rng.choice(EXTRAS)}" {rng.choice(["in", "not in"])} {rng.choice(["extras", "dependency_groups"])}'
    else:
        n, op = rng.choice(VNAMES), rng.choice(["===", "==", ">="])
        v = rng.choice(["3.8", "5.10.0-generic", "3.8.1+local", "v3.8", "3.8.0"])
    return f'"{v}" {op} {n}' if rng.random() < 0.3 else f'{n} {op} "{v}"'


def rand_text(rng, depth=0):
    if depth >= 1 or rng.random() < 0.4:
        return rand_atom(rng)
    parts = [rand_text(rng, depth + 1) for _ in range(rng.randint(2, 3))]
    s = rng.choice([" and ", " or "]).join(parts)
    return f"({s})" if depth else s


def rand_op(rng, pool):
    k = rng.choice(["parse", "and", "or", "and", "or"])
    return ("parse", rng.choice(pool)) if k == "parse" else (k, rng.choice(pool), rng.choice(pool))


def random_histories(seed, n, hist_len=8):
    rng = random.Random(seed)
    bad = 0
    for _ in range(n):
        pool = [rand_text(rng) for _ in range(6)]
        clear()
        for t in list(pool):
            try:
                s = str(parse_marker(t))
                if s and s != "<empty>" and s not in pool:
                    pool.append(s)
            except Exception:  # noqa: BLE001
                pass
        hist = [rand_op(rng, pool) for _ in range(hist_len)]
        probe = rand_op(rng, pool)
        signal.alarm(5)
        try:
            clear()
            cold = run_op(probe)
            clear()
            for h in hist:
                run_op(h)
            warm = run_op(probe)
        except Timeout:
            continue
        finally:
            signal.alarm(0)
        if cold != warm:
            bad += 1
            if bad <= 10:
                report("random history", probe, cold, warm, f"history={hist}")
    print(f"[2] random histories: seed {seed}, {n} cases -> {bad} violations")
    return bad


# ---------------------------------------------------------------- 3. interpreters / hash seeds
def workload_digest():
    rng = random.Random(99)
    h = hashlib.sha256()
    for _ in range(600):
        pool = [rand_text(rng) for _ in range(5)]
        for op in [rand_op(rng, pool) for _ in range(6)]:
            signal.alarm(5)
            try:
                r = run_op(op)
            except Timeout:
                r = "T"
            finally:
                signal.alarm(0)
            h.update(repr((op, r)).encode())
    return h.hexdigest()


def hash_seeds():
    digests = set()
    for hs in ["0", "1", "2", "31337"]:
        env = dict(os.environ, PYTHONHASHSEED=hs)
        out = subprocess.run([sys.executable, __file__, "--digest"], env=env, capture_output=True, text=True, check=True)
        digests.add(out.stdout.strip())
    bad = 0 if len(digests) == 1 else 1
    print(f"[3] fresh interpreters with 4 hash seeds: {len(digests)} distinct digest(s) -> {bad} violations")
    return bad


if __name__ == "__main__":
    if sys.argv[1:] == ["--digest"]:
        print(workload_digest())
        sys.exit(0)
    total = saturation()
    total += random_histories(101, 3000)
    total += random_histories(102, 3000)
    total += hash_seeds()
    if total == 0:
        print("no C10 violation found on this tree")
    sys.exit(1 if total else 0)
