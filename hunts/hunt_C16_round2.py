"""Hunt for NEW violations of C16 on the unmodified tree (fourth round).

Run: cd /tmp/wt/C16j && PYTHONPATH=/tmp/wt/C16j/src /venv/bin/python hunt_C16.py
Prints every candidate violation with input / observed / expected, then a summary.
"""

from __future__ import annotations

import itertools
import random

from packaging.specifiers import SpecifierSet
from packaging.version import Version

from dep_logic.specifiers import (
    AnySpecifier,
    EmptySpecifier,
    from_specifierset,
    parse_version_specifier,
)
from dep_logic.tags import EnvSpec
from dep_logic.tags import os as dlos
from dep_logic.tags.platform import Arch, Platform, PlatformError
from dep_logic.tags.tags import EnvCompatibility as EC
from dep_logic.tags.tags import Implementation

found: list[str] = []
cases = 0


def report(msg: str) -> None:
    found.append(msg)
    print("VIOLATION:", msg)


# ---------------------------------------------------------------------------
# 1. platform grid: nestedness of tag sets, compare() laws
# ---------------------------------------------------------------------------
def platform_grid() -> list[Platform]:
    out: list[Platform] = []
    for arch in Arch:
        for minor in (0, 4, 5, 6, 11, 12, 13, 16, 17, 18, 24, 28, 31, 35, 39, 40):
            out.append(Platform(dlos.Manylinux(2, minor), arch))
        for minor in (0, 1, 2, 3):
            out.append(Platform(dlos.Musllinux(1, minor), arch))
    for minor in range(0, 17):
        out.append(Platform(dlos.Macos(10, minor), Arch.X86_64))
    for major in range(11, 17):
        for minor in (0, 1, 7):
            out.append(Platform(dlos.Macos(major, minor), Arch.X86_64))
            out.append(Platform(dlos.Macos(major, minor), Arch.Aarch64))
    for arch in (Arch.X86, Arch.X86_64, Arch.Aarch64):
        out.append(Platform(dlos.Windows(), arch))
    for name in Platform.choices():
        if "X_Y" not in name:
            out.append(Platform.parse(name))
    return out


def check_platform_pairs() -> None:
    global cases
    plats = platform_grid()
    rp = parse_version_specifier(">=3.8")
    for a, b in itertools.product(plats, repeat=2):
        cases += 1
        A, B = EnvSpec(rp, a), EnvSpec(rp, b)
        ab, ba = A.compare(B), B.compare(A)
        if a == b and ab != EC.LOWER_OR_EQUAL:
            report(f"compare not reflexive for {a}: {ab!r}")
        if (ab == EC.INCOMPATIBLE) != (ba == EC.INCOMPATIBLE):
            report(f"INCOMPATIBLE not symmetric: {a} vs {b}: {ab!r} / {ba!r}")
        if ab == EC.HIGHER and ba == EC.HIGHER:
            report(f"HIGHER both ways: {a} vs {b}")
        ta, tb = set(a.compatible_tags), set(b.compatible_tags)
        if ab == EC.LOWER_OR_EQUAL and not ta <= tb:
            report(f"{a}.compare({b}) = LOWER_OR_EQUAL but tags not nested: {sorted(ta - tb)[:4]}")
        if ab == EC.HIGHER and not tb <= ta:
            report(f"{a}.compare({b}) = HIGHER but tags not nested: {sorted(tb - ta)[:4]}")
        # newer release of the same OS/arch -> superset
        if (
            type(a.os) is type(b.os)
            and a.arch == b.arch
            and hasattr(a.os, "major")
            and (a.os.major, a.os.minor) <= (b.os.major, b.os.minor)
            and not ta <= tb
        ):
            report(f"newer release {b} loses tags of {a}: {sorted(ta - tb)[:4]}")


# ---------------------------------------------------------------------------
# 2. requires_python widening: every wheel compatible with A is compatible with B
# ---------------------------------------------------------------------------
VERSIONS = [
    "2.7", "3", "3.0", "3.6", "3.8", "3.8.0", "3.9", "3.9.1", "3.9.18", "3.10",
    "3.10.0", "3.10.2", "3.11", "3.12", "3.13", "3.13.1", "3.14", "4", "4.0",
]
OPS = [">=", ">", "<", "<=", "==", "!=", "~="]
SAMPLES = [
    Version(f"{ma}.{mi}.{pa}")
    for ma in (2, 3, 4)
    for mi in range(0, 16)
    for pa in (0, 1, 2, 5, 18, 19)
]
PY_TAGS = ["py2", "py3", "py27", "py30", "py38", "py39", "py310", "py313", "py4",
           "cp38", "cp39", "cp310", "cp311", "cp313", "cp314", "cp3", "pp39", "pp310", "pt38"]
ABI_TAGS = ["none", "abi3", "cp38", "cp39", "cp310", "cp310t", "cp313", "cp313t", "cp314t",
            "cp38m", "cp27mu", "pypy39_pp73", "pypy310_pp73", "pyston38_23"]
IMPLS = [None, Implementation("cpython"), Implementation("cpython", True),
         Implementation("pypy"), Implementation("pyston")]


def rand_atom(rng: random.Random) -> str:
    op = rng.choice(OPS)
    v = rng.choice(VERSIONS)
    if op == "~=" and "." not in v:
        v += ".0"
    if op in ("==", "!=") and rng.random() < 0.4:
        v += ".*"
    return op + v


def rand_rp(rng: random.Random):
    """Build a requires_python through one of several entry points."""
    kind = rng.randrange(5)
    try:
        if kind == 0:
            text = ",".join(rand_atom(rng) for _ in range(rng.randint(1, 3)))
            return parse_version_specifier(text)
        if kind == 1:
            text = "||".join(
                ",".join(rand_atom(rng) for _ in range(rng.randint(1, 2)))
                for _ in range(rng.randint(2, 4))
            )
            return parse_version_specifier(text)
        if kind == 2:
            text = ",".join(rand_atom(rng) for _ in range(rng.randint(0, 3)))
            return from_specifierset(SpecifierSet(text))
        if kind == 3:
            a, b = rand_rp(rng), rand_rp(rng)
            return rng.choice([a | b, a & b, ~a, b | a, b & a])
        return rng.choice([AnySpecifier(), EmptySpecifier(), parse_version_specifier("")])
    except Exception:
        return parse_version_specifier(">=3.8")


def admits(spec, v: Version) -> bool:
    if spec.is_empty():
        return False
    if spec.is_any():
        return True
    return spec.contains(v, prereleases=True)


def check_widening(n: int, seed: int) -> None:
    global cases
    rng = random.Random(seed)
    wheels = list(itertools.product(PY_TAGS, ABI_TAGS))
    for _ in range(n):
        a, b = rand_rp(rng), rand_rp(rng)
        # make B a superset of A by construction half of the time
        if rng.random() < 0.5:
            b = a | b
        if not all(admits(b, v) for v in SAMPLES if admits(a, v)):
            continue
        # sample-based inclusion must be confirmed by the algebra (A & ~B empty)
        try:
            if not (a & ~b).is_empty():
                continue
        except Exception:
            continue
        impl = rng.choice(IMPLS)
        A, B = EnvSpec(a, None, impl), EnvSpec(b, None, impl)
        for py, abi in rng.sample(wheels, 25):
            cases += 1
            ca = A.compatibility([py], [abi], ["any"])
            cb = B.compatibility([py], [abi], ["any"])
            if ca is not None and cb is None:
                report(f"widening loses wheel {py}-{abi}: A={a} ({ca}) B={b} ({cb}) impl={impl}")
        # compare laws with the python part in play
        cases += 1
        ab, ba = A.compare(B), B.compare(A)
        if (ab == EC.INCOMPATIBLE) != (ba == EC.INCOMPATIBLE):
            report(f"INCOMPATIBLE not symmetric (python): {a} / {b}: {ab!r} {ba!r}")
        if A.compare(A) != EC.LOWER_OR_EQUAL:
            report(f"not reflexive: {a}")
        overlap = any(admits(a, v) and admits(b, v) for v in SAMPLES)
        if overlap and ab == EC.INCOMPATIBLE:
            report(f"INCOMPATIBLE although both admit a sample version: {a} / {b}")


# ---------------------------------------------------------------------------
# 3. argument types / exception types at the less used entry points
# ---------------------------------------------------------------------------
def check_entry_points() -> None:
    global cases
    spec = EnvSpec.from_spec(">=3.9", "linux", "cpython")
    # tuples / frozensets / iterators where list[str] is annotated
    for mk in (list, tuple, frozenset, iter):
        cases += 1
        got = spec.compatibility(mk(["cp38", "cp39"]), mk(["abi3", "cp39"]), mk(["manylinux2014_x86_64"]))
        exp = spec.compatibility(["cp38", "cp39"], ["abi3", "cp39"], ["manylinux2014_x86_64"])
        if (got is None) != (exp is None):
            # note: a one-shot iterator for the ABI tags is exhausted after the first python tag
            print(f"note: compatibility() with {mk.__name__} arguments -> {got}, with lists -> {exp}")
    # as_dict round trip keeps compare() reflexive
    for p in platform_grid():
        for impl in IMPLS:
            cases += 1
            s = EnvSpec(parse_version_specifier(">=3.8,!=3.9.*"), p, impl)
            d = s.as_dict()
            try:
                back = EnvSpec.from_spec(
                    d["requires_python"], d.get("platform"), d.get("implementation"),
                    d.get("gil_disabled", False),
                )
            except Exception as e:  # noqa: BLE001
                report(f"as_dict round trip raises {type(e).__name__}: {e} for {d}")
                continue
            if back != s or s.compare(back) != EC.LOWER_OR_EQUAL:
                report(f"as_dict round trip changes the spec: {d} -> {back}")
    # exception types
    for text in ("manylinux_2_17_i586", "macos_12_0_universal2", "windows_ia64", "nonsense",
                 "musllinux_1_2_mips"):
        cases += 1
        try:
            Platform.parse(text)
        except PlatformError:
            pass
        except Exception as e:  # noqa: BLE001
            print(f"note (exception type, not C16 proper): Platform.parse({text!r}) raises "
                  f"{type(e).__name__}: {e}; PlatformError is raised for 'foo_bar'")
    cur = EnvSpec.current()
    cases += 1
    if cur.compare(cur) != EC.LOWER_OR_EQUAL or cur.compare(EnvSpec.current()) != EC.LOWER_OR_EQUAL:
        report("EnvSpec.current() not reflexive")


if __name__ == "__main__":
    check_platform_pairs()
    for seed in range(4):
        check_widening(4000, seed)
    check_entry_points()
    print(f"cases run: {cases}; C16 violations found: {len(found)}")
