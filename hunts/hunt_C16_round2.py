"""Hunt round 3 for C16 (widening a target never loses wheels; compare() vs tag inclusion).

Run:  cd /tmp/wt/C16i && PYTHONPATH=/tmp/wt/C16i/src /venv/bin/python hunt_C16.py [N] [seed]

Everything is judged against an independent oracle:
  * inclusion of requires_python ranges: packaging.SpecifierSet.contains over a grid of
    final releases (alternatives of a `||` union are separate SpecifierSets);
  * inclusion of platform tag sets: plain set inclusion of Platform.compatible_tags;
  * compare(): the algebraic laws of the property statement.
The script prints every violation it finds (and classifies those that belong to an
already-known family), then a summary of the number of cases per area.
"""

from __future__ import annotations

import itertools
import random
import sys

from packaging.specifiers import SpecifierSet
from packaging.version import Version

from dep_logic.specifiers import (
    AnySpecifier,
    RangeSpecifier,
    UnionSpecifier,
    from_specifierset,
    parse_version_specifier,
)
from dep_logic.tags import EnvSpec, Implementation, Platform
from dep_logic.tags.os import Macos, Manylinux, Musllinux, Windows
from dep_logic.tags.platform import Arch
from dep_logic.tags.tags import EnvCompatibility as EC

N = int(sys.argv[1]) if len(sys.argv) > 1 else 20000
SEED = int(sys.argv[2]) if len(sys.argv) > 2 else 16
rnd = random.Random(SEED)

# ---------------------------------------------------------------- version grid
GRID = [
    Version(f"{ma}.{mi}.{mc}")
    for ma, mis in ((2, range(6, 8)), (3, range(0, 16)), (4, range(0, 2)))
    for mi in mis
    for mc in range(0, 5)
]

BOUNDS = ["2.7", "3", "3.0", "3.6", "3.8", "3.9", "3.9.0", "3.9.2", "3.10", "3.10.0",
          "3.10.3", "3.11", "3.12", "3.13", "3.13.1", "4", "4.0", "3.9.0.0", "03.010"]


def rnd_clause() -> str:
    k = rnd.random()
    v = rnd.choice(BOUNDS)
    if k < 0.45:
        return rnd.choice([">=", ">", "<", "<="]) + v
    if k < 0.55:
        return "==" + v
    if k < 0.70:
        pre = v.split(".")
        return rnd.choice(["==", "!="]) + ".".join(pre[: rnd.randint(1, len(pre))]) + ".*"
    if k < 0.80:
        return "!=" + v
    if "." in v:
        return "~=" + v
    return ">=" + v


def rnd_alt() -> str:
    return ",".join(rnd_clause() for _ in range(rnd.choice([1, 1, 2, 2, 3])))


def rnd_spec_text() -> list[str]:
    return [rnd_alt() for _ in range(rnd.choice([1, 1, 1, 2, 3]))]


def oracle_set(alts: list[str]) -> frozenset[Version]:
    sets = [SpecifierSet(a) for a in alts]
    return frozenset(v for v in GRID if any(s.contains(v, prereleases=True) for s in sets))


def build_spec(alts: list[str]):
    """Build the library object through a randomly chosen public route."""
    route = rnd.randrange(4)
    try:
        if route == 0:
            return parse_version_specifier("||".join(alts))
        if route == 1:
            acc = None
            for a in alts:
                s = from_specifierset(SpecifierSet(a))
                acc = s if acc is None else (acc | s)
            return acc
        if route == 2:
            acc = None
            for a in reversed(alts):
                s = parse_version_specifier(a)
                acc = s if acc is None else (s | acc)
            return acc
        # double inversion
        s = parse_version_specifier("||".join(alts))
        return ~(~s)
    except Exception as e:  # pragma: no cover
        print("EXC building", alts, type(e).__name__, e)
        return None


# ---------------------------------------------------------------- tag universe
PY_TAGS = ["py2", "py3", "py27", "py30", "py36", "py39", "py310", "py312", "cp27", "cp3",
           "cp36", "cp38", "cp39", "cp310", "cp311", "cp312", "cp313", "cp314", "pp39",
           "pp310", "pt39", "cp4", "py4", "cp40"]


def abis_for(py: str) -> list[str]:
    out = ["none", "abi3"]
    if py[:2] in ("cp", "pt"):
        out += [py, py + "m", py + "t", py + "d", py + "0", py + "td"]
    if py[:2] == "pp":
        out += [f"pypy{py[2:]}_pp73", f"pypy{py[2:]}0_pp73"]
    return out


ARCHES = [Arch.X86_64, Arch.Aarch64, Arch.X86, Arch.Powerpc64Le, Arch.Armv7L, Arch.S390X,
          Arch.RISCV64, Arch.LoongArch64, Arch.Armv6L, Arch.Powerpc64]


def rnd_platform() -> Platform:
    k = rnd.randrange(8)
    if k == 0:
        return Platform(Windows(), rnd.choice([Arch.X86_64, Arch.X86, Arch.Aarch64]))
    if k in (1, 2):
        return Platform(Manylinux(2, rnd.choice([0, 4, 5, 6, 11, 12, 13, 16, 17, 18, 28, 31, 39])),
                        rnd.choice(ARCHES))
    if k == 3:
        return Platform(Musllinux(1, rnd.randint(0, 3)), rnd.choice(ARCHES))
    if k == 4:
        return Platform(Macos(10, rnd.randint(3, 16)), Arch.X86_64)
    if k == 5:
        return Platform(Macos(rnd.randint(11, 16), rnd.randint(0, 7)), Arch.X86_64)
    if k == 6:
        return Platform(Macos(rnd.randint(11, 16), rnd.randint(0, 7)), Arch.Aarch64)
    return Platform.parse(rnd.choice(["linux", "windows", "macos", "alpine", "macos_arm64",
                                      "macos_x86_64", "windows_amd64", "windows_x86",
                                      "windows_arm64", "windows_i686", "macos_11_3_amd64",
                                      "manylinux_2_28_arm64", "musllinux_1_1_i386"]))


def plat_universe() -> list[str]:
    tags = {"any"}
    for a in ("x86_64", "aarch64", "x86", "i686", "ppc64le", "armv7l", "s390x", "riscv64",
              "loongarch64", "armv6l", "ppc64", "arm64", "amd64"):
        tags |= {f"linux_{a}", f"manylinux1_{a}", f"manylinux2010_{a}", f"manylinux2014_{a}"}
        for m in (0, 4, 5, 6, 11, 12, 13, 16, 17, 18, 24, 28, 31, 39, 40):
            tags.add(f"manylinux_2_{m}_{a}")
        for m in range(0, 5):
            tags.add(f"musllinux_1_{m}_{a}")
    for f in ("x86_64", "arm64", "intel", "fat64", "fat32", "universal2", "universal", "i386"):
        for m in range(3, 18):
            tags.add(f"macosx_10_{m}_{f}")
        for M in range(11, 18):
            for m in (0, 1, 3):
                tags.add(f"macosx_{M}_{m}_{f}")
    tags |= {"win32", "win_amd64", "win_arm64", "win_ia64"}
    return sorted(tags)


PLAT_UNIVERSE = plat_universe()
IMPLS = [None, Implementation("cpython"), Implementation("cpython", True),
         Implementation("pypy"), Implementation("pyston"),
         Implementation.parse("cpython", 1)]  # truthy non-bool flag

violations: list[str] = []
known: list[str] = []
counts = {"python-widening": 0, "platform-widening": 0, "compare-laws": 0,
          "compare-nesting": 0, "roundtrip": 0, "exotic": 0}


def report(kind: str, msg: str, known_family: str | None = None) -> None:
    line = f"[{kind}] {msg}"
    if known_family:
        known.append(line + f"   ({known_family})")
    else:
        violations.append(line)
        print("VIOLATION", line)


# ------------------------------------------------- 1. widening requires_python
def check_python_widening() -> None:
    a_text, b_text = rnd_spec_text(), rnd_spec_text()
    if rnd.random() < 0.5:
        b_text = b_text + a_text  # make inclusion frequent
    sa, sb = oracle_set(a_text), oracle_set(b_text)
    if not sa <= sb:
        return
    ra, rb = build_spec(a_text), build_spec(b_text)
    if ra is None or rb is None or ra.is_empty() or rb.is_empty():
        return
    plat = rnd.choice([None, rnd_platform()])
    impl = rnd.choice(IMPLS)
    A, B = EnvSpec(ra, plat, impl), EnvSpec(rb, plat, impl)
    for _ in range(12):
        py = rnd.sample(PY_TAGS, rnd.choice([1, 1, 2]))
        abi = rnd.sample(sorted({x for p in py for x in abis_for(p)}), rnd.choice([1, 1, 2]))
        pl = rnd.sample(PLAT_UNIVERSE, 2) + ["any"] + (plat.compatible_tags[:1] if plat else [])
        pl = rnd.sample(pl, rnd.choice([1, 2]))
        counts["python-widening"] += 1
        ca, cb = A.compatibility(py, abi, pl), B.compatibility(py, abi, pl)
        if ca is not None and cb is None:
            # is the witness inside the grid?  (otherwise family 18 / 6 / 10)
            msg = f"A={A} B={B} wheel={py}-{abi}-{pl}: A->{ca} B->{cb}"
            if not sa:
                report("python-widening", msg, "known family 18: A admits no final release of the grid")
            else:
                report("python-widening", msg)


# ------------------------------------------------- 2. widening platform
def newer_release(p: Platform) -> Platform | None:
    o = p.os
    if isinstance(o, Manylinux):
        return Platform(Manylinux(2, o.minor + rnd.randint(0, 12)), p.arch)
    if isinstance(o, Musllinux):
        return Platform(Musllinux(1, o.minor + rnd.randint(0, 3)), p.arch)
    if isinstance(o, Macos):
        if o.major == 10 and rnd.random() < 0.5:
            return Platform(Macos(10, rnd.randint(o.minor, 16)), p.arch)
        return Platform(Macos(rnd.randint(max(o.major, 11), 17), rnd.randint(0, 6)), p.arch)
    return None


def check_platform_widening() -> None:
    pa = rnd_platform()
    pb = newer_release(pa)
    if pb is None:
        return
    counts["platform-widening"] += 1
    ta, tb = pa.compatible_tags, pb.compatible_tags
    if not set(ta) <= set(tb):
        report("platform-widening", f"{pa} -> {pb}: lost {sorted(set(ta) - set(tb))[:4]}")
    # relative order (priority) of the shared tags is preserved as well
    shared = [t for t in tb if t in set(ta)]
    if shared != ta:
        report("platform-widening", f"{pa} -> {pb}: order of shared tags differs")
    rp = parse_version_specifier(rnd.choice([">=3.8", "==3.11.*", "<3.12,>=3.9"]))
    impl = rnd.choice(IMPLS)
    A, B = EnvSpec(rp, pa, impl), EnvSpec(rp, pb, impl)
    for t in rnd.sample(PLAT_UNIVERSE, 25) + ta[:3]:
        for py, abi in (("py3", "none"), ("cp311", "cp311"), ("cp39", "abi3")):
            ca, cb = A.compatibility([py], [abi], [t]), B.compatibility([py], [abi], [t])
            if ca is not None and cb is None:
                report("platform-widening", f"{A} -> {B}: wheel {py}-{abi}-{t} lost")


# ------------------------------------------------- 3. compare laws + nesting
def rnd_env() -> EnvSpec | None:
    rp = build_spec(rnd_spec_text())
    if rp is None or rp.is_empty():
        return None
    if rnd.random() < 0.05:
        rp = AnySpecifier()
    return EnvSpec(rp, rnd.choice([None, rnd_platform(), rnd_platform()]), rnd.choice(IMPLS))


POOL: list[EnvSpec] = []


def check_compare() -> None:
    a, b = rnd_env(), rnd_env()
    if a is None or b is None:
        return
    if POOL and rnd.random() < 0.5:
        # vary one field only: hits the interesting branches far more often
        base = rnd.choice(POOL)
        b = EnvSpec(rnd.choice([base.requires_python, b.requires_python]),
                    rnd.choice([base.platform, b.platform, newer_release(base.platform)
                                if base.platform else None]),
                    rnd.choice([base.implementation, b.implementation]))
        a = base
    POOL.append(a)
    del POOL[:-200]
    counts["compare-laws"] += 1
    if a.compare(a) != EC.LOWER_OR_EQUAL:
        report("compare", f"not reflexive: {a}")
    a2 = EnvSpec.from_spec(**a.as_dict()) if not a.requires_python.is_any() or True else a
    counts["roundtrip"] += 1
    if a2 != a or hash(a2) != hash(a) or a2.compare(a) != EC.LOWER_OR_EQUAL or a.compare(a2) != EC.LOWER_OR_EQUAL:
        report("roundtrip", f"from_spec(**as_dict()) differs: {a!r} -> {a.as_dict()} -> {a2!r}")
    ab, ba = a.compare(b), b.compare(a)
    if (ab == EC.INCOMPATIBLE) != (ba == EC.INCOMPATIBLE):
        report("compare", f"INCOMPATIBLE not symmetric: {a} vs {b}: {ab!r} / {ba!r}")
    if ab == EC.HIGHER and ba == EC.HIGHER:
        report("compare", f"HIGHER both ways: {a} vs {b}")
    if a.platform is not None and b.platform is not None and ab != EC.INCOMPATIBLE:
        counts["compare-nesting"] += 1
        ta, tb = set(a.platform.compatible_tags), set(b.platform.compatible_tags)
        if ab == EC.LOWER_OR_EQUAL and not ta <= tb:
            report("compare-nesting", f"{a} <= {b} but tags not nested: {sorted(ta - tb)[:3]}")
        if ab == EC.HIGHER and not tb <= ta:
            report("compare-nesting", f"{a} > {b} but tags not nested: {sorted(tb - ta)[:3]}")
    # python overlap, judged by the oracle: INCOMPATIBLE on python grounds only if no shared version
    if ab != EC.INCOMPATIBLE:
        pass


# ------------------------------------------------- 4. hand-written exotic cases
def exotic() -> None:
    def chk(cond: bool, msg: str, fam: str | None = None) -> None:
        counts["exotic"] += 1
        if not cond:
            report("exotic", msg, fam)

    # equal-but-differently-spelled specs / specs reached through different routes
    pairs = [(">=3.9", ">=3.9.0"), ("==3.9.*", ">=3.9,<3.10"), ("~=3.9", ">=3.9,<4"),
             ("~=3.9.0", "==3.9.*"), ("", ">=0"), ("!=3.9.*", "<3.9||>=3.10"),
             (">=3.9,!=3.9.*", ">=3.10"), ("<3.9||>=3.9", ""), ("==3.*,>=3.9", "~=3.9")]
    wheels = [(p, a, t) for p in PY_TAGS for a in abis_for(p) for t in ("any", "linux_x86_64")]
    for x, y in pairs:
        for plat in (None, Platform.parse("linux")):
            for impl in IMPLS:
                ex = EnvSpec.from_spec(x, str(plat) if plat else None,
                                       impl.name if impl else None,
                                       impl.gil_disabled if impl else False)
                ey = EnvSpec(parse_version_specifier(y), plat, impl)
                for w in wheels:
                    cx = ex.compatibility([w[0]], [w[1]], [w[2]])
                    cy = ey.compatibility([w[0]], [w[1]], [w[2]])
                    chk((cx is None) == (cy is None),
                        f"same set, different verdict: {x!r} vs {y!r} wheel {w}: {cx} / {cy}")
                chk(ex.compare(ey) != EC.INCOMPATIBLE and ey.compare(ex) != EC.INCOMPATIBLE,
                    f"same set judged incompatible: {x!r} vs {y!r}")

    # objects built directly: AnySpecifier, unbounded RangeSpecifier, Union from `~`
    any_envs = [EnvSpec(AnySpecifier()), EnvSpec(RangeSpecifier()), EnvSpec.from_spec("")]
    for e1, e2 in itertools.product(any_envs, repeat=2):
        chk(e1.compare(e2) == EC.LOWER_OR_EQUAL, f"any-spec compare {e1!r} {e2!r}")
        chk(e1 == e2 and hash(e1) == hash(e2), f"any-spec eq/hash {e1!r} {e2!r}")
    inv = ~parse_version_specifier("==3.9.*")
    chk(isinstance(inv, UnionSpecifier), "inversion type")
    for w in wheels:
        c1 = EnvSpec(inv).compatibility([w[0]], [w[1]], [w[2]])
        c2 = EnvSpec.from_spec("!=3.9.*").compatibility([w[0]], [w[1]], [w[2]])
        c3 = EnvSpec(AnySpecifier()).compatibility([w[0]], [w[1]], [w[2]])
        chk(c1 == c2, f"~(==3.9.*) vs !=3.9.* on {w}: {c1} {c2}")
        chk(not (c1 is not None and c3 is None), f"Any loses wheel {w}")

    # wheel file names: build tags, compressed tag sets, upper-case *file names*
    e_old = EnvSpec.from_spec(">=3.9,<3.11", "manylinux_2_17_x86_64", "cpython")
    e_new = EnvSpec.from_spec(">=3.8", "manylinux_2_28_x86_64", "cpython")
    for fn in ["a-1-cp39-cp39-manylinux2014_x86_64.whl", "a-1-1b-cp39-cp39-manylinux_2_17_x86_64.whl",
               "a-1-cp39.cp310-abi3.cp39-manylinux1_x86_64.manylinux_2_5_x86_64.whl",
               "A-1-CP39-CP39-MANYLINUX2014_X86_64.whl", "a-1-py2.py3-none-any.whl",
               "a-1-cp310-abi3-linux_x86_64.whl", "a-1-cp39-none-any.whl"]:
        c1, c2 = e_old.wheel_compatibility(fn), e_new.wheel_compatibility(fn)
        chk(c1 is not None, f"expected {fn} to fit {e_old}")
        chk(not (c1 is not None and c2 is None), f"widening both fields loses {fn}")

    # cached compatible_tags must not be affected by earlier compatibility() calls
    p = Platform.parse("manylinux_2_20_x86_64")
    before = list(p.compatible_tags)
    e = EnvSpec.from_spec(">=3.9", "manylinux_2_20_x86_64")
    for t in PLAT_UNIVERSE:
        e.compatibility(["py3"], ["none"], [t])
    chk(list(e.platform.compatible_tags) == before and "any" not in e.platform.compatible_tags,
        "compatibility() mutated the cached tag list")

    # EnvSpec.current(): reflexive, equal to its own round trip, accepts a pure wheel and
    # is below the same interpreter on a newer OS release
    cur = EnvSpec.current()
    chk(cur.compare(cur) == EC.LOWER_OR_EQUAL, "current() not reflexive")
    chk(cur.wheel_compatibility("a-1-py3-none-any.whl") is not None, "current() rejects py3-none-any")
    nb = newer_release(cur.platform)
    if nb is not None:
        newer = EnvSpec(cur.requires_python, nb, cur.implementation)
        chk(cur.compare(newer) == EC.LOWER_OR_EQUAL, "current() vs newer release")
        chk(set(cur.platform.compatible_tags) <= set(nb.compatible_tags), "current() tags vs newer")

    # platforms that parse() accepts and compare() orders but that have no tag list
    for name in ("macos_10_9_i386", "macos_12_0_ppc64", "windows_ppc64le"):
        e = EnvSpec.from_spec(">=3.9", name)
        try:
            c = e.wheel_compatibility("a-1-py3-none-any.whl")
            chk(c is not None, f"{name}: pure wheel rejected")
        except Exception as exc:
            chk(False, f"{name}: Platform.parse accepts it, compare(self) = "
                       f"{e.compare(EnvSpec.from_spec('>=3.8', name))!r}, but "
                       f"wheel_compatibility('a-1-py3-none-any.whl') raises "
                       f"{type(exc).__name__}: {exc}",
                "borderline, not counted: unsupported OS/arch pair, outside the property's platform grid")


def main() -> None:
    exotic()
    for i in range(N):
        check_python_widening()
        check_platform_widening()
        check_compare()
    print()
    for line in known[:10]:
        print("known/borderline:", line)
    if len(known) > 10:
        print(f"... and {len(known) - 10} more known/borderline lines")
    print("cases:", counts)
    print(f"NEW violations: {len(violations)}")


if __name__ == "__main__":
    main()
