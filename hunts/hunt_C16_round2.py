"""Hunt script for property C16 on the UNMODIFIED tree.

Prints every new (not in the known families) violation found, with the concrete
input, what the library answers, and what direct evaluation of both sides says.

Run: cd /tmp/wt/C16g && PYTHONPATH=/tmp/wt/C16g/src /venv/bin/python hunt_C16.py
"""
from __future__ import annotations

import itertools

from dep_logic.tags import EnvSpec
from dep_logic.tags.platform import Platform, PlatformError
from dep_logic.tags.tags import EnvCompatibility as EC

found = 0


def report(title: str, *lines: str) -> None:
    global found
    found += 1
    print(f"[{found}] {title}")
    for line in lines:
        print("      " + line)


def nested_check(a: str, b: str, note: str) -> None:
    """compare() says a <= b (or a > b); are the platform tag sets nested accordingly?"""
    ea, eb = EnvSpec.from_spec(">=3.8", a), EnvSpec.from_spec(">=3.8", b)
    r = ea.compare(eb)
    ta, tb = set(ea.platform.compatible_tags), set(eb.platform.compatible_tags)
    ok = (r == EC.LOWER_OR_EQUAL and ta <= tb) or (r == EC.HIGHER and ta >= tb)
    if r != EC.INCOMPATIBLE and not ok:
        lost = sorted(ta - tb) if r == EC.LOWER_OR_EQUAL else sorted(tb - ta)
        # a concrete wheel that is lost by moving to the "higher" spec
        lo, hi = (ea, eb) if r == EC.LOWER_OR_EQUAL else (eb, ea)
        w = f"pkg-1.0-py3-none-{lost[0]}.whl"
        report(
            f"compare({a}, {b}) = {r.name} but the tag sets are not nested ({note})",
            f"tags only on the lower side: {lost[:4]}{' ...' if len(lost) > 4 else ''}",
            f"wheel {w}: lower spec -> {lo.wheel_compatibility(w)}, higher spec -> {hi.wheel_compatibility(w)}",
            "expected: INCOMPATIBLE, or every tag of the lower spec accepted by the higher one",
        )


# ---------------------------------------------------------------------------------
# 1. compare() vs tag nesting for OS classes that carry no (major, minor)
# ---------------------------------------------------------------------------------
nested_check("cygwin_x86_64", "android_x86_64", "two different Generic OS names, same arch")
nested_check("freebsd_13_x86_64", "freebsd_14_x86_64", "FreeBSD releases: compare never looks at .release")
nested_check("freebsd_14_x86_64", "freebsd_13_x86_64", "same pair, other direction: LOWER_OR_EQUAL both ways")
nested_check("netbsd_9_aarch64", "netbsd_10_aarch64", "NetBSD releases")
nested_check("haiku_1_x86_64", "haiku_2_x86_64", "Haiku releases")

# ---------------------------------------------------------------------------------
# 2. "newer release of the same OS and arch" across a libc MAJOR version:
#    the generation loops only walk the minors of os.major, compare() orders (major, minor)
# ---------------------------------------------------------------------------------
nested_check("manylinux_2_17_x86_64", "manylinux_3_0_x86_64", "glibc 2.17 -> 3.0")
nested_check("manylinux_2_28_aarch64", "manylinux_3_20_aarch64", "glibc 2.28 -> 3.20")
nested_check("musllinux_1_2_x86_64", "musllinux_2_0_x86_64", "musl 1.2 -> 2.0")
nested_check("musllinux_1_2_x86_64", "musllinux_2_3_x86_64", "musl 1.2 -> 2.3")
# macOS 10.17+ on x86_64 (hypothetical releases): 11.0 only walks 10.16 .. 10.4
nested_check("macos_10_17_x86_64", "macos_11_0_x86_64", "macOS 10.17 -> 11.0, x86_64")

# ---------------------------------------------------------------------------------
# 3. exceptions of the wrong type
# ---------------------------------------------------------------------------------
env = EnvSpec.from_spec(">=3.8", "linux", "cpython")
for wheel in (
    "pkg-1.0-py39rc1-none-any.whl",
    "pkg-1.0-cp39a1-abi3-any.whl",
    "pkg-1.0-py39dev0-none-any.whl",
):
    try:
        res = env.wheel_compatibility(wheel)
    except Exception as e:  # noqa: BLE001
        sibling = wheel.replace("rc1", "x").replace("a1", "x").replace("dev0", "x")
        report(
            f"wheel_compatibility({wheel!r}) raises {type(e).__name__}: {e}",
            f"expected: None (not a tag this target understands), as for {sibling!r} -> {env.wheel_compatibility(sibling)!r};",
            "the specifier built from the tag happens to parse (>=3.9rc1 ...), then int(minor) is taken outside the try block",
        )

for text in ("win32", "foo", "manylinux_2_17_foo", "freebsd_13_2_x86_64", "illumos_5_11_x86_64"):
    try:
        Platform.parse(text)
    except PlatformError:
        pass
    except Exception as e:  # noqa: BLE001
        report(
            f"Platform.parse({text!r}) raises {type(e).__name__}: {e}",
            "expected: PlatformError (the module's own error type), as for Platform.parse('linux_')",
        )

# ---------------------------------------------------------------------------------
# 4. areas swept without a finding (counts)
# ---------------------------------------------------------------------------------
def sweep() -> tuple[int, int]:
    names = []
    for arch in ("x86_64", "aarch64", "x86", "armv7l", "ppc64le", "s390x", "riscv64", "arm64"):
        names += [f"manylinux_2_{m}_{arch}" for m in (0, 4, 5, 11, 12, 13, 16, 17, 18, 28, 40)]
        names += [f"musllinux_1_{m}_{arch}" for m in (0, 1, 2, 3, 5)]
        names += [f"windows_{arch}"]
    for arch in ("x86_64", "arm64"):
        names += [f"macos_{M}_{m}_{arch}" for M in (11, 12, 14, 15, 26) for m in (0, 3, 7)]
    names += [f"macos_10_{m}_x86_64" for m in (3, 4, 9, 15, 16)]
    names += ["linux", "windows", "macos", "alpine", "macos_arm64", "macos_x86_64"]
    plats = {}
    for n in names:
        try:
            p = Platform.parse(n)
            p.compatible_tags
            plats[n] = p
        except PlatformError:
            pass
    pairs = bad = 0
    for (na, a), (nb, b) in itertools.product(plats.items(), repeat=2):
        ea, eb = EnvSpec.from_spec(">=3.8", na), EnvSpec.from_spec(">=3.8", nb)
        r, r2 = ea.compare(eb), eb.compare(ea)
        ta, tb = set(a.compatible_tags), set(b.compatible_tags)
        pairs += 1
        if (r == EC.INCOMPATIBLE) != (r2 == EC.INCOMPATIBLE) or (r == r2 == EC.HIGHER):
            bad += 1
        if r == EC.LOWER_OR_EQUAL and not ta <= tb or r == EC.HIGHER and not ta >= tb:
            bad += 1
        if na == nb and r != EC.LOWER_OR_EQUAL:
            bad += 1
    return pairs, bad


def python_sweep(n: int = 400) -> tuple[int, int]:
    """requires_python widening (A = B plus one more clause) over a wheel universe, and
    emptiness against packaging on a universe of final releases."""
    import random

    from packaging.specifiers import SpecifierSet
    from packaging.version import Version

    rnd = random.Random(16)
    universe = [Version(f"{X}.{Y}{z}") for X in (2, 3, 4) for Y in range(16) for z in ("", ".0", ".1", ".2", ".5", ".1.1", ".0.0.1")]
    universe += [Version("1!3.9"), Version("1!3.9.1")]

    def version() -> str:
        s = f"{rnd.choice([2, 3, 3, 3, 3, 4])}.{rnd.randrange(15)}"
        k = rnd.random()
        if k < 0.3:
            s += f".{rnd.choice([0, 0, 1, 2, 5])}"
        elif k < 0.4:
            s += f".{rnd.choice([0, 1])}.{rnd.choice([0, 1])}"
        return (rnd.choice(["0!", "1!"]) if rnd.random() < 0.04 else "") + s

    def clause() -> str:
        op = rnd.choice([">=", ">=", ">", "<", "<", "<=", "==", "!=", "~=", "==*", "!=*"])
        return op[:-1] + version() + ".*" if op.endswith("*") else op + version()

    pytags = ["py3", "py2", "py30", "py38", "py310", "cp27", "cp3", "cp38", "cp39", "cp310", "cp312", "pp39", "pt39", "cp4", "py41"]
    cases = bad = 0
    for _ in range(n):
        b = ",".join(clause() for _ in range(rnd.randint(1, 2)))
        if rnd.random() < 0.25:
            b += "||" + clause()
        a = b.split("||")[0] + "," + clause()
        impl = rnd.choice([None, "cpython", "pypy"])
        try:
            A, B = EnvSpec.from_spec(a, None, impl), EnvSpec.from_spec(b, None, impl)
        except ValueError:
            continue
        admitted = [v for v in universe if any(SpecifierSet(p).contains(v, prereleases=True) for p in b.split("||"))]
        for pt in pytags:
            for abi in ("none", "abi3", pt, pt + "m", pt + "t"):
                cases += 1
                ra, rb = A._evaluate_python(pt, abi), B._evaluate_python(pt, abi)
                if ra is not None and rb is None:
                    bad += 1
                    print("   python widening loses a wheel:", a, "->", b, pt, abi)
                if abi == "none" and pt[2:].isdigit() and rb is None and (impl is None or pt[:2] in ("py", "cp" if impl == "cpython" else "pp")):
                    major, minor = int(pt[2]), (int(pt[3:]) if pt[3:] else None)
                    hit = [
                        v for v in admitted if v.epoch == 0 and v.release[0] == major
                        and (minor is None or (v.release >= (major, minor) if pt[:2] == "py" else v.release[:2] == (major, minor)))
                    ]
                    if hit:
                        bad += 1
                        print("   rejected although", hit[0], "is admitted:", b, pt)
    return cases, bad


pairs, bad = sweep()
pcases, pbad = python_sweep()
print(f"requires_python sweep (wildcards of several depths, ~=, !=, epochs, || unions, trailing zeros): {pcases} wheel evaluations, {pbad} violations")
print(
    f"sweep over real-world platform families (glibc 2.x, musl 1.x, macOS 10.4-10.16/11+, windows): "
    f"{pairs} pairs, {bad} violations"
)
print(f"{found} new violations printed above")
