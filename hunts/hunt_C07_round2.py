"""Hunt for property C07 (marker text round-trip) on the unmodified tree.

Run:  cd /tmp/wt/C07g && PYTHONPATH=/tmp/wt/C07g/src /venv/bin/python hunt_C07.py

NEW violation family found: a marker literal that contains a NUL character or a
lone surrogate code point.  Such a literal is legal input (it is written with a
Python escape sequence inside the quoted string, which packaging evaluates with
ast.literal_eval), parse_marker accepts it and evaluates it correctly, but
str(m) writes the character raw, and the text is then rejected both by
parse_marker and by packaging.markers.Marker.  (_quote() escapes backslash, CR,
LF and the double quote, but not these.)  The failure survives &, |, only(),
exclude(), EqualityMarkerUnion / InequalityMultiMarker rendering and
literal-on-the-left atoms.

The script also prints one side observation that is NOT a C07 violation (the
result round-trips) but was met on the way: a comma inside a version operand.
"""

from __future__ import annotations

from packaging.markers import InvalidMarker as PkgInvalidMarker
from packaging.markers import Marker

from dep_logic.markers import parse_marker

found = 0


def env(**kw):
    base = {
        "os_name": "posix",
        "sys_platform": "linux",
        "platform_version": "#1 SMP",
        "platform_machine": "x86_64",
        "python_version": "3.11",
        "python_full_version": "3.11.4",
        "extra": "",
    }
    base.update(kw)
    return base


def report(title, build_src, m, envs):
    """m is a marker inside the quantifier; check the round trip of str(m)."""
    global found
    text = str(m)
    print(f"--- {title}")
    print(f"    input            : {build_src}")
    print(f"    library str(m)   : {text!r}")
    for e in envs:
        shown = {k: e[k] for k in ("os_name", "platform_version", "extra") if k in e}
        print(f"    m.evaluate({shown!r}) = {m.evaluate(e)}")
    problems = []
    try:
        again = parse_marker(text)
    except Exception as exc:  # noqa: BLE001
        problems.append(f"parse_marker(str(m)) raises {type(exc).__name__}: {str(exc).splitlines()[0]}")
        again = None
    try:
        Marker(text)
    except PkgInvalidMarker as exc:
        problems.append(f"packaging Marker(str(m)) raises InvalidMarker: {str(exc).splitlines()[0]}")
    if again is not None:
        for e in envs:
            if again.evaluate(e) != m.evaluate(e):
                problems.append(f"re-parsed marker evaluates differently in {e}")
    if problems:
        found += 1
        for p in problems:
            print(f"    VIOLATION        : {p}")
        print("    expected         : str(m) is a valid PEP 508 marker that parses back to an equivalent marker")
    else:
        print("    round trip fine")


# 1. plain atom, NUL written as an escape sequence (legal: packaging accepts the source)
src = r'os_name == "a\x00b"'
Marker(src)  # the oracle accepts the input
m = parse_marker(src)
assert Marker(src).evaluate(env(os_name="a\x00b")) is True
report("NUL inside a literal", src, m, [env(os_name="a\x00b"), env(os_name="ab")])

# 2. the same with \0 and single quotes, literal on the left
src = r"'\0' in platform_version"
Marker(src)
report("NUL, literal on the left", src, parse_marker(src), [env(platform_version="x\x00y"), env()])

# 3. a lone surrogate
src = r'os_name == "a\ud800b"'
Marker(src)
report("lone surrogate inside a literal", src, parse_marker(src), [env(os_name="a\ud800b"), env()])

# 4. survives the operators: | (EqualityMarkerUnion), & (InequalityMultiMarker), only(), exclude()
a = parse_marker(r'os_name == "a\x00b"')
b = parse_marker('os_name == "nt"')
c = parse_marker('sys_platform == "linux"')
report("result of |  (EqualityMarkerUnion)", r'(os_name == "a\x00b") | (os_name == "nt")', a | b, [env(os_name="a\x00b"), env(os_name="nt"), env()])
na = parse_marker(r'os_name != "a\x00b"')
nb = parse_marker('os_name != "nt"')
report("result of &  (InequalityMultiMarker)", r'(os_name != "a\x00b") & (os_name != "nt")', na & nb, [env(os_name="a\x00b"), env()])
report("result of & then only('os_name')", r'((os_name == "a\x00b") & (sys_platform == "linux")).only("os_name")', (a & c).only("os_name"), [env(os_name="a\x00b"), env()])
report("result of | then exclude('sys_platform')", r'((os_name == "a\x00b") & (sys_platform == "linux") | (os_name == "nt")).exclude("sys_platform")', ((a & c) | b).exclude("sys_platform"), [env(os_name="a\x00b"), env()])

# 5. extra / extras
src = r'extra == "x\x00"'
Marker(src)
report("NUL in an extra name", src, parse_marker(src), [env(extra="x\x00"), env()])

print()
print(f"{found} round-trip violations printed above (all one family: NUL / lone surrogate in a literal)")

# ---------------------------------------------------------------------------------
# Side observation, NOT a C07 violation (the result itself round-trips): a version
# operand containing a comma is read as a whole specifier set by the algebra while
# evaluation (dep-logic's own and packaging's) falls back to a string comparison.
print()
print("--- side observation (parse/merge semantics, not C07): comma inside a version operand")
src = 'python_version == "3.8,!=3.9" or python_version != "3.8"'
m = parse_marker(src)
e = env(python_version="3.8", python_full_version="3.8.5")
print(f"    input               : {src}")
print(f"    parse_marker(input) : {m!r}   evaluates {m.evaluate(e)} on python_version 3.8")
print(f"    packaging oracle    : Marker(input).evaluate(...) = {Marker(src).evaluate(e)}")
