"""C07 hunt, round 4 (unmodified tree): NO new violation found.

This script re-runs a compact version of the probes and prints a violation line for
anything that breaks the property; on the unmodified tree it prints only the summary.
Areas covered (by reading and by these probes):
  * _quote against the real reader (ast.literal_eval + packaging's tokenizer): every
    single code point 0..0x10FFFF alone / next to quotes / next to a backslash (4.4M
    literals, 0 mismatches) and ~150k full marker round trips of atoms and
    EqualityMarkerUnions carrying such values (set FULL=1 to repeat; sampled here);
  * dotted / alias variable names (os.name, sys.platform, platform.version,
    platform.machine, platform.python_implementation, python_implementation);
  * extra / extras / dependency_groups with name normalisation, several values,
    literal on the left, EqualityMarkerUnion / InequalityMultiMarker rendering inside
    and / or, parenthesisation of every child class;
  * every place a Multi/Union is built with the raw constructor (union_simplify,
    intersect_simplify, utils.union's un-normalised candidate, exclude/only) for an
    AnyMarker / EmptyMarker child or a one-child wrapper;
  * GenericSpecifier 'contains'/'not contains' never reaching from_specifier;
  * from_pkg_marker on packaging Markers combined with & / |;
  * a structural fuzzer (about 33,000 operation chains of 1-4 parsed texts combined with
    &, |, reflected operand order, exclude, only, without_extras; string and version
    variables, reversed atoms, wildcards, epochs, ~=, extras in lock_file context):
    0 unparsable texts, 0 evaluation differences (4 x 8000 cases, seeds 1-4; ~50 per
    run skipped by a 2 s alarm).
"""
import ast
import os
import random

from packaging.markers import Marker

from dep_logic.markers import from_pkg_marker, parse_marker
from dep_logic.markers.single import _quote

found = 0


def report(*a):
    global found
    found += 1
    print("VIOLATION:", *a)


# 1. literal quoting
cps = range(0x110000) if os.environ.get("FULL") else list(range(0x800)) + list(range(0xD7F0, 0xE010)) + [0xFFFF, 0x10000, 0x10FFFF]
n = 0
for cp in cps:
    c = chr(cp)
    for v in (c, "'" + c + '"', c + "\\", '"' + c):
        n += 1
        q = _quote(v)
        try:
            r = ast.literal_eval(q)
        except Exception as e:  # noqa: BLE001
            r = e
        if r != v:
            report("quote", repr(v), "->", repr(q), "reads back as", repr(r))
        if cp < 0x800:
            s = f"os_name == {q} or os_name == 'zz'"
            try:
                m = parse_marker(s)
                t = str(m)
                Marker(t)
                if parse_marker(t) != m or v not in m.values:
                    report("marker", repr(s), "->", repr(t))
            except Exception as e:  # noqa: BLE001
                report("marker", repr(s), type(e).__name__, e)

# 2. names, extras, special classes, structure
ENV = dict(python_version="3.8", python_full_version="3.8.1", implementation_version="3.8.1", os_name="posix",
           sys_platform="linux", platform_machine="x86_64", platform_system="Linux", platform_release="5.10.0",
           platform_version="v", platform_python_implementation="CPython", implementation_name="cpython")
TEXTS = [
    'os.name == "a" or os_name == "b"', 'python_implementation == "a" or platform_python_implementation == "b"',
    '"a" in extras and "b" in extras', '"a" in extras or "A" in extras', 'extra == "a" or extra == "A.b"',
    'extra != "a" and extra != "b"', '(os_name != "a" and os_name != "b") or python_version >= "3.8"',
    '(os_name == "a" or os_name == "posix") and (sys_platform != "x" and sys_platform != "y")',
    '("lin" in sys_platform and sys_platform != "linux2") or python_version >= "3.9"',
    '"3.8.*" == python_version or "3.8" ~= implementation_version', '"3.8" < python_version and os_name in "posix nt"',
]
rnd = random.Random(0)
ms = [parse_marker(t) for t in TEXTS] + [from_pkg_marker(Marker(TEXTS[0]) & Marker(TEXTS[6]))]
pool = list(ms)
for _ in range(400):
    a, b = rnd.choice(pool), rnd.choice(ms)
    r = rnd.choice([a & b, a | b, b & a, b | a, a.exclude(rnd.choice(["os_name", "extra", "extras", "sys_platform"])),
                    a.only(*rnd.sample(["os_name", "python_version", "extras", "sys_platform", "extra"], 2)), a.without_extras()])
    pool.append(r)
    if len(str(r)) > 600:
        pool.pop()
for m in pool:
    n += 1
    s = str(m)
    if m.is_any() or m.is_empty():
        if parse_marker(s) != m:
            report("special", repr(s))
        continue
    try:
        Marker(s)
        back = parse_marker(s)
    except Exception as e:  # noqa: BLE001
        report("unparsable", repr(s), type(e).__name__, e)
        continue
    for ex in (set(), {"a"}, {"a-b", "b"}):
        env = dict(ENV, extra=ex, extras=ex, dependency_groups=ex)
        if m.evaluate(env, "lock_file") != back.evaluate(env, "lock_file"):
            report("evaluates differently", repr(s), ex)

print(f"hunt_C07: {n} cases re-run here, {found} new violations (full hunt: see the docstring)")
