"""C07 hunt (round 3): report of what was tried on the UNMODIFIED library.

Result: no NEW violation INSIDE the property's quantifier was found.

This script
  1. re-runs a compact version of the three generators that were used (flipped atoms,
     wildcard / non-version literals with == and !=, odd string values, extras and
     dependency_groups, chains of & | only exclude without_extras, `| EmptyMarker()`,
     `& AnyMarker()`), judging every result with packaging as the oracle, and
  2. prints two BORDERLINE observations that are outside the quantifier (the atoms are
     not well defined / the object is not produced by parse, &, |, only, exclude), so
     they are listed for information only.

Full-size runs done by hand (all 0 failures, known families filtered out of the
generators): 193k markers (plain grammar fuzzer, 42 envs each), 8k + 4 x 2500 iterations
of the odd-atom fuzzer, 480k markers from operation chains, 8145 markers with
backslash / quote / newline values (demo_C07.py), from_specifier() on 8274
(name, specifier) pairs built from 4000 random specifier expressions, and _quote on
104k strings around every code point class against packaging's tokenizer.
"""
from __future__ import annotations

import random
import signal

from packaging.markers import Marker
from packaging.specifiers import InvalidSpecifier, Specifier

from dep_logic.markers import AnyMarker, EmptyMarker, MarkerExpression, parse_marker

STR_NAMES = ["os_name", "sys_platform", "platform_system", "platform_machine", "platform_version", "os.name"]
VER_NAMES = ["python_version", "python_full_version", "platform_release", "implementation_version"]
STR_VALUES = ["posix", "nt", "", "linux", "lin", "a b", "a\\b", "it's", 'say "hi"', "tab\tx", "é", "1.0", "1.0.0", " 1.0"]
VER_VALUES = ["3.8", "3.8.0", "3.8.1", "3", "3.0", "3.9", "3.10", "4", "2.7", "3.8.*", "3.*", "3.8.0.*", "3.08", "v3.8",
              "3.8 ", "3.8.0.0", "3.8.0.1", "0!3.8", "3_8", "abc", "", "3.8.x", "5", "5.10", "5.*", "3.8,3.9", "3.8|3.9", "*"]
EXTRA_VALUES = ["a", "A", "a_b", "a-b", "a.b", "A__B", "b", ""]
NAMES = ["os_name", "sys_platform", "python_version", "python_full_version", "extra", "platform_release", "extras"]


def lit(v: str) -> str:
    return '"' + v.replace("\\", "\\\\").replace("\t", "\\t").replace('"', "\\x22") + '"'


def atom(rng: random.Random) -> str:
    k = rng.random()
    flip = rng.random() < 0.3
    if k < 0.3:
        name, op, v = rng.choice(STR_NAMES), rng.choice(["==", "!=", "in", "not in"]), rng.choice(STR_VALUES)
    elif k < 0.8:
        name, op, v = rng.choice(VER_NAMES), rng.choice(["==", "!=", "<", "<=", ">", ">=", "~=", "==", "!="]), rng.choice(VER_VALUES)
        if op not in ("==", "!="):
            try:  # ordering / ~= only with a version operand (known family 13/15 otherwise)
                Specifier(f"{op}{v}")
            except InvalidSpecifier:
                return atom(rng)
            if op == "~=":
                flip = False  # `"3.0" ~= platform_release` is undefined when the environment value has one segment
    elif k < 0.92:
        name, op, v = "extra", rng.choice(["==", "!="]), rng.choice(EXTRA_VALUES)
    else:
        name, op, v, flip = rng.choice(["extras", "dependency_groups"]), rng.choice(["in", "not in"]), rng.choice(EXTRA_VALUES), True
    return f"{lit(v)} {op} {name}" if flip else f"{name} {op} {lit(v)}"


def expr(rng: random.Random, depth: int) -> str:
    if depth == 0 or rng.random() < 0.4:
        return atom(rng)
    glue = rng.choice([" and ", " or "])
    parts = []
    for _ in range(rng.randint(2, 3)):
        e = expr(rng, depth - 1)
        parts.append(f"({e})" if (" and " in e or " or " in e) else e)
    return glue.join(parts)


def envs() -> list[dict]:
    rng = random.Random(7)
    out = []
    for full in ["2.7.18", "3.0.0", "3.7.9", "3.8.0", "3.8.1", "3.9.0", "3.10.0", "3.10.4", "4.0.0"]:
        for _ in range(2):
            env: dict = {"python_full_version": full, "python_version": ".".join(full.split(".")[:2])}
            for n in STR_NAMES[:-1]:
                env[n] = rng.choice(STR_VALUES)
            env["platform_release"] = rng.choice(["5.10.0", "5", "3.8", "3.8.0", "4.19.0"])
            env["implementation_version"] = rng.choice(["3.8.0", "3.8.1", "3.10.0"])
            env["extra"] = rng.choice(["", "a", "b", "a-b", "A_B"])
            env["extras"] = set(rng.sample(EXTRA_VALUES, rng.randint(0, 3)))
            env["dependency_groups"] = set(rng.sample(EXTRA_VALUES, rng.randint(0, 3)))
            out.append(env)
    return out


ENVS = envs()


def violation(m) -> str | None:
    s = str(m)
    if m.is_any():
        return None if s == "" and parse_marker(s).is_any() else f"universal marker renders {s!r}"
    if m.is_empty():
        return None if s == "<empty>" and parse_marker(s).is_empty() else f"empty marker renders {s!r}"
    if "<empty>" in s:
        return f"<empty> inside {s!r}"
    try:
        back, pk = parse_marker(s), Marker(s)
    except Exception as e:  # noqa: BLE001
        return f"str(m)={s!r} does not parse: {type(e).__name__}: {e}"
    for env in ENVS:
        a, b, c = m.evaluate(env), back.evaluate(env), pk.evaluate(env)
        if not (a == b == c):
            return f"str(m)={s!r}: m={a} parse_marker(str(m))={b} packaging(str(m))={c} on {env}"
    return None


class _Timeout(Exception):
    pass


def _on_alarm(*_a) -> None:
    raise _Timeout()


def sample_run(n: int = 400) -> None:
    rng = random.Random(2026)
    found = checked = skipped = 0
    signal.signal(signal.SIGALRM, _on_alarm)
    for _ in range(n):
        t1, t2 = expr(rng, rng.randint(0, 2)), expr(rng, rng.randint(0, 1))
        signal.alarm(3)  # known family 9: some nested inputs take exponential time
        try:
            c, f = one_case(rng, t1, t2)
            checked += c
            found += f
        except _Timeout:
            skipped += 1
        finally:
            signal.alarm(0)
    print(f"sample run: {checked} markers x {len(ENVS)} environments, {found} violations, {skipped} inputs skipped (slow)")


def one_case(rng: random.Random, t1: str, t2: str) -> tuple[int, int]:
    found = checked = 0
    if True:
        m1, m2 = parse_marker(t1), parse_marker(t2)
        ns = rng.sample(NAMES, 2)
        results = {
            "parse(t1)": m1,
            "t1 & t2": m1 & m2,
            "t2 | t1": m2 | m1,
            "(t1 | t2) & (t2 | <empty>)": (m1 | m2) & (m2 | EmptyMarker()),
            f"(t1 | t2).only{tuple(ns)}": (m1 | m2).only(*ns),
            f"(t1 & t2).exclude({ns[0]})": (m1 & m2).exclude(ns[0]),
            "(t1 | t2).without_extras() & <any>": (m1 | m2).without_extras() & AnyMarker(),
        }
        for label, m in results.items():
            checked += 1
            v = violation(m)
            if v:
                found += 1
                print(f"NEW VIOLATION t1=[{t1}] t2=[{t2}] {label}: {v}")
    return checked, found


def borderline() -> None:
    print("\nBORDERLINE 1 (outside the quantifier: atom without a variable is not well defined)")
    t = '"a" == "b"'
    m = parse_marker(t)
    print(f"  parse_marker({t!r}) is accepted and renders {str(m)!r}")
    try:
        parse_marker(str(m))
        print("  ... which re-parses")
    except Exception as e:  # noqa: BLE001
        print(f"  ... which parse_marker rejects: {type(e).__name__}")
    try:
        Marker(t).evaluate({})
    except Exception as e:  # noqa: BLE001
        print(f"  oracle: packaging parses the text but cannot evaluate it: {type(e).__name__}: {e}")

    print("BORDERLINE 2 (outside the quantifier: object built with the public classmethod from_specifier)")
    src = parse_marker('"lin" in sys_platform')
    m = MarkerExpression.from_specifier("sys_platform", src.specifier)
    print(f"  MarkerExpression.from_specifier('sys_platform', parse_marker('\"lin\" in sys_platform').specifier) renders {str(m)!r}")
    try:
        Marker(str(m))
    except Exception as e:  # noqa: BLE001
        print(f"  oracle: packaging rejects that text: {type(e).__name__}")
    print("  (&, | never reach this: GenericSpecifier results are one of the operands, <empty> or universal)")


if __name__ == "__main__":
    sample_run()
    borderline()
    print("\nNo new violation of C07 inside its quantifier.")
