"""Task A: pre-existing violations of C04 on the unmodified tree.

Run: cd /tmp/wt/C04f && PYTHONPATH=/tmp/wt/C04f/src /venv/bin/python hunt_C04.py
Oracle: packaging.specifiers.SpecifierSet(leaf).contains(v) combined with and/or/not.
"""
from packaging.specifiers import SpecifierSet as S

from dep_logic.specifiers import parse_version_specifier as P

found = 0


def report(title, expr, v, got, expected, result):
    global found
    if got != expected:
        found += 1
        print(f"VIOLATION [{title}]")
        print(f"   expression : {expr}")
        print(f"   result     : {result!r}")
        print(f"   version    : {v!r}")
        print(f"   library    : {got!r}")
        print(f"   oracle     : {expected!r}")


# 1. A half-open range whose exclusive upper bound is a post-release of X.0 is
#    rendered as `~=`, which drops the `.postN` of the bound; contains() goes
#    through that rendering, so the final release X.0 itself is lost.
#    (RangeSpecifier._simplified_form checks `not self.max.is_prerelease` only.)
r = P(">=1.2") & P("<2.0.post1")
exp = S(">=1.2").contains("2.0") and S("<2.0.post1").contains("2.0")
report("~= rendering drops .post of max", "P('>=1.2') & P('<2.0.post1')", "2.0", "2.0" in r, exp, r)
report("~= rendering drops .post of max (.contains)", "P('>=1.2') & P('<2.0.post1')", "2.0", r.contains("2.0"), exp, r)

# the same already for a single comma-joined leaf
r = P(">=1.2,<2.0.post1")
report("single leaf", "P('>=1.2,<2.0.post1')", "2.0", "2.0" in r, S(">=1.2,<2.0.post1").contains("2.0"), r)

# three-segment form
r = P(">=9.0.10") & P("<9.1.post1")
exp = S(">=9.0.10").contains("9.1") and S("<9.1.post1").contains("9.1")
report("three segments", "P('>=9.0.10') & P('<9.1.post1')", "9.1", "9.1" in r, exp, r)

# inside a union (member range is rendered the same way)
r = P("!=0.*,<2.post0") & P("<2.3")
exp = S("!=0.*,<2.post0").contains("2") and S("<2.3").contains("2")
report("member of a union", "P('!=0.*,<2.post0') & P('<2.3')", "2", "2" in r, exp, r)

# via complement
r = ~(P("<1.2") | P(">=2.0.post1"))
exp = not (S("<1.2").contains("2.0") or S(">=2.0.post1").contains("2.0"))
report("via complement", "~(P('<1.2') | P('>=2.0.post1'))", "2.0", "2.0" in r, exp, r)

# it leaks into the `===` algebra, which returns a wrong set instead of raising
r = P("===2.0") & (P(">=1.2") & P("<2.0.post1"))
exp = S("===2.0").contains("2.0") and S(">=1.2").contains("2.0") and S("<2.0.post1").contains("2.0")
report("=== intersected with such a range", "P('===2.0') & (P('>=1.2') & P('<2.0.post1'))", "2.0", "2.0" in r, exp, r)

# 2. (API gap rather than a wrong set) an empty / universal *result* has no
#    .contains() at all, only `in`.
e = P(">=2") & P("<1")
a = ~e
for name, obj in (("empty result", e), ("universal result", a)):
    if not hasattr(obj, "contains"):
        found += 1
        print(f"NOTE [{name}] {type(obj).__name__} has no .contains(); `in` works: {'1.0' in obj!r}")

print(f"{found} finding(s)")
