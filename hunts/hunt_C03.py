"""C03 hunt: inputs on which the UNMODIFIED library disagrees with packaging's
Marker(text).evaluate(env) (oracle = the packaging release installed next to it).

Run:  cd /tmp/wt/C03f && PYTHONPATH=/tmp/wt/C03f/src /venv/bin/python hunt_C03.py
Every line printed with VIOLATION is a concrete disagreement; "agree" lines are controls.
"""

from __future__ import annotations

import packaging
from packaging.markers import Marker

from dep_logic.markers import parse_marker


def both(text, env, context="metadata"):
    try:
        ref = Marker(text).evaluate(dict(env), context=context)
    except Exception as e:  # noqa: BLE001
        ref = f"raises {type(e).__name__}"
    parsed = "-"
    try:
        m = parse_marker(text)
        parsed = str(m)
        got = m.evaluate(dict(env), context=context)
    except Exception as e:  # noqa: BLE001
        got = f"raises {type(e).__name__}: {e}"
    return got, ref, parsed


CASES = [
    # ---- H1: `===` next to another atom on the same variable: parse_marker raises ValueError
    ("H1 '===' merged with a sibling atom -> ValueError from parse_marker",
     'python_version === "3.8" or python_version == "3.9"', {"python_version": "3.9", "python_full_version": "3.9.1"}),
    ("H1", 'python_full_version === "3.8.1" or python_full_version >= "3.9"', {"python_full_version": "3.9.1"}),
    # ---- H2: `python_full_version === "X.Y"` is padded to "X.Y.0" when it survives a merge
    ("H2 '===' operand padded to X.Y.0 by from_specifier",
     'python_full_version === "3.9" and python_version != "3.8"', {"python_version": "3.9", "python_full_version": "3.9.0"}),
    ("H2", 'python_version > "3.8" and "4" === python_full_version', {"python_version": "4.0", "python_full_version": "4.0.0"}),
    # ---- H3: a non PEP 440 platform_release literal next to another platform_release atom
    ("H3 non-PEP440 platform_release literal + sibling atom -> InvalidSpecifier from parse_marker",
     'platform_release != "5.10.0-generic" and platform_release >= "5"', {"platform_release": "5.10.0"}),
    ("H3", 'platform_release == "6.1.0-13-amd64" or platform_release == "5.10.0-generic"', {"platform_release": "5.10.0-generic"}),
    # ---- H4: `in` / `not in` on version variables: substring test in the reference,
    #          PEP 440 version list once the atom takes part in a merge
    ("H4 'in' on a version variable merged as a version list (reference: substring)",
     'python_version in "3.10" and python_full_version <= "3.8.1"', {"python_version": "3.1", "python_full_version": "3.1.0"}),
    ("H4", 'python_full_version >= "3" and python_version not in "3"', {"python_version": "3.8", "python_full_version": "3.8.0"}),
    ("H4", 'python_version in "3" or python_version < "3"', {"python_version": "3.9", "python_full_version": "3.9.0"}),
    ("H4", 'python_version > "3.8.10" and python_version not in "3.0,3,3.9"', {"python_version": "3.10", "python_full_version": "3.10.0"}),
    ("H4 space/pipe separated list -> InvalidSpecifier from parse_marker",
     'python_full_version in "3.8.0 3.9.1" and python_full_version >= "3"', {"python_full_version": "3.8.0"}),
    # ---- H5: literal-on-the-left `in` on platform_release is merged the wrong way round
    ("H5 '\"5\" in platform_release' merged as platform_release == 5.0.0",
     'platform_release <= "5" or "5" in platform_release', {"platform_release": "5.10"}),
    # ---- H6: pre-release / dev python_full_version in the environment
    ("H6 pre-release python_full_version: `<=V and !=V` merged to `<V`",
     'python_full_version <= "3.8.0" and python_full_version != "3.8"', {"python_version": "3.8", "python_full_version": "3.8.0a1"}),
    ("H6 python_version atom lifted to python_full_version range",
     'python_version == "3.8" or python_full_version > "3.8"', {"python_version": "3.8", "python_full_version": "3.8.0a1"}),
    ("H6", 'python_version != "3.8" and python_full_version >= "3.8.10"', {"python_version": "3.9", "python_full_version": "3.9.0.dev0"}),
    ("H6 reversed atom mirrored", 'python_version != "4" and "3.8.0" > python_full_version', {"python_version": "3.8", "python_full_version": "3.8.0a1"}),
    ("H6", 'python_full_version ~= "3.8" or python_full_version < "3.8"', {"python_version": "3.8", "python_full_version": "3.8.0a1"}),
    # ---- H7: ordering operators that fall back to non-version comparison
    #          (packaging 26.x: < and > are False, <= and >= mean ==; the library compares strings)
    ("H7 ordering operator on a plain string variable", 'os_name < "posix"', {"os_name": "nt"}),
    ("H7", 'sys_platform >= "linux"', {"sys_platform": "linux2"}),
    ("H7 ordering against a non-PEP440 platform_release literal",
     'platform_release >= "5.10.0-generic"', {"platform_release": "6.1.0-13-amd64"}),
    ("H7 literal-on-the-left ordering, environment value not a valid specifier operand",
     '"4.19.0" <= platform_release', {"platform_release": "5.4.0-42-generic"}),
    ("H7", '"3.9" > python_full_version', {"python_version": "3.8", "python_full_version": "3.8.0+local"}),
    # ---- H8: merged platform_release atoms evaluated on a non-PEP440 platform_release
    ("H8 tautology folded away, reference says False for a non-version platform_release",
     'platform_release != "5" or platform_release != "5.10"', {"platform_release": "5.4.0-42-generic"}),
    # ---- H9: operators other than ==/!= on `extra` -> AssertionError
    ("H9 'in' / ordering on extra -> AssertionError", 'extra in "foo,bar"', {"extra": "foo"}),
    ("H9", '"foo" in extra', {"extra": "foobar"}),
    ("H9", 'extra >= "foo"', {"extra": "foo"}),
    # ---- H10: python_version / python_full_version merged: inconsistent environment
    ("H10 python_version and python_full_version that do not match each other",
     'python_version > "3.8" and python_full_version >= "3.10.0"', {"python_version": "3.1", "python_full_version": "3.10.0"}),
    # ---- controls (must agree)
    ("control", 'python_version >= "3.8" and python_full_version < "3.10.2"', {"python_version": "3.9", "python_full_version": "3.9.7"}),
    ("control", '"foo_bar" in extras and "Foo.Bar" not in extras', {"extras": {"foo-bar"}}, "lock_file"),
]


def main() -> None:
    print("packaging", packaging.__version__)
    n = 0
    for case in CASES:
        label, text, env = case[:3]
        context = case[3] if len(case) > 3 else "metadata"
        got, ref, parsed = both(text, env, context)
        verdict = "agree    " if got == ref else "VIOLATION"
        n += got != ref
        print(f"{verdict} [{label}]\n    text={text!r}\n    env={env}\n    library -> {got}   (parsed as: {parsed})\n    packaging -> {ref}")
    print(f"{n} violations printed")


if __name__ == "__main__":
    main()
