"""Task A for property C06: pre-existing violations of the specifier text round-trip.

Run: cd /tmp/wt/C06f && PYTHONPATH=/tmp/wt/C06f/src /venv/bin/python hunt_C06.py

Finding (one family, many inputs): a range `>=X.Y, <V` whose upper bound V is a
POST-release of the first release of the next series (`2.0.post1`, `2.post0`,
`1.3.0.post2`, ...) is rendered as `~=X.Y`.  RangeSpecifier._simplified_form only
rejects `max.is_prerelease`; a post-release upper bound passes, so the text drops
the versions in [next-series-release, V).  The rendered text parses back to a
different specifier (upper bound 2.0 instead of 2.0.post1).
(tests/specifier/test_range.py::test_range_str_normalization even pins
 RangeSpecifier(min=1.2, max=2.0post1, include_min=True) -> "~=1.2".)
"""

from __future__ import annotations

import itertools

from packaging.specifiers import SpecifierSet
from packaging.version import Version

from dep_logic.specifiers import parse_version_specifier as P


def pkg_contains(text: str, v: str) -> bool:
    if text == "<empty>":
        return False
    return any(
        SpecifierSet(part).contains(v, prereleases=True) for part in text.split("||")
    )


def report(label: str, spec, source_text: str | None, witnesses: list[str]) -> bool:
    text = str(spec)
    back = P(text)
    equal = back == spec
    if equal:
        return False
    print(f"VIOLATION  {label}")
    print(f"   s (structure)        : {getattr(spec, 'ranges', None) or (spec.min, spec.include_min, spec.max, spec.include_max)}")
    print(f"   str(s)               : {text!r}")
    print(f"   parse(str(s)) == s   : {equal}   (parse(str(s)) has bounds "
          f"{getattr(back, 'ranges', None) or (back.min, back.max)})")
    if source_text is not None:
        for w in witnesses:
            print(
                f"   packaging: {w!r} in {source_text!r} = {pkg_contains(source_text, w)}"
                f"  but in rendered {text!r} = {pkg_contains(text, w)}"
            )
    return True


found = 0
print("== A1. post-release upper bound rendered as `~=` (narrows the range) ==")
cases = [
    ("parse('>=1.2,<2.0.post1')", lambda: P(">=1.2,<2.0.post1"), ">=1.2,<2.0.post1", ["2.0", "2.0.post0"]),
    ("parse('>=1.0,<2.post0')", lambda: P(">=1.0,<2.post0"), ">=1.0,<2.post0", ["2", "2.0.0"]),
    ("parse('>=1.2.3,<1.3.0.post2')", lambda: P(">=1.2.3,<1.3.0.post2"), ">=1.2.3,<1.3.0.post2", ["1.3.0", "1.3.0.post1"]),
    ("parse('>=1!1.2,<1!2.post1')", lambda: P(">=1!1.2,<1!2.post1"), ">=1!1.2,<1!2.post1", ["1!2.0"]),
    ("parse('>=1.2.dev1,<2.0.post3')", lambda: P(">=1.2.dev1,<2.0.post3"), ">=1.2.dev1,<2.0.post3", ["2.0", "2.0.post2"]),
    ("parse('>=1.2') & parse('<2.0.post1')", lambda: P(">=1.2") & P("<2.0.post1"), ">=1.2,<2.0.post1", ["2.0"]),
    ("~parse('<1.2||>=2.0.post1')", lambda: ~P("<1.2||>=2.0.post1"), ">=1.2,<2.0.post1", ["2.0"]),
    ("parse('<1||>=1.2,<2.0.post1||>=3')  (inside a union)", lambda: P("<1||>=1.2,<2.0.post1||>=3"), "<1||>=1.2,<2.0.post1||>=3", ["2.0"]),
    ("parse('!=2.0.post1') & parse('>=1.2')  (-> `~=1.2||>2.0.post1`)", lambda: P("!=2.0.post1") & P(">=1.2"), ">=1.2,!=2.0.post1", ["2.0"]),
]  # fmt: skip
for label, build, src, wit in cases:
    found += report(label, build(), src, wit)

print()
print("== A2. size of the family in an exhaustive sweep over bound shapes ==")
pool = []
for ep in ["", "1!"]:
    for rel in ["0", "1", "2", "1.0", "1.1", "1.2", "2.0", "1.0.0", "1.1.0", "1.2.0",
                "1.2.1", "2.0.0", "1.9", "1.10", "0.0", "1.0.0.0", "1.1.0.0", "2.0.0.0"]:  # fmt: skip
        for suf in ["", "a1", ".post0", ".post1", ".dev0", "rc1.post1.dev2"]:
            pool.append(ep + rel + suf)
total = bad = bad_other = 0
for a, b in itertools.product(pool, pool):
    if not Version(a) <= Version(b):
        continue
    texts = [f"{lo}{a},{hi}{b}" for lo in (">", ">=") for hi in ("<", "<=")]
    texts += [f"{hi}{a}||{lo}{b}" for hi in ("<", "<=") for lo in (">", ">=")]
    for t in texts:
        s = P(t)
        total += 1
        try:
            ok = P(str(s)) == s
        except Exception as e:  # noqa: BLE001
            ok = False
            print("   exception", t, type(e).__name__, e)
        if not ok:
            bad += 1
            mx = getattr(s, "max", None)
            if not (mx is not None and mx.is_postrelease and str(s).startswith("~=")):
                bad_other += 1
                print("   other-family failure:", t, "->", str(s))
print(f"   {total} two-bound specifiers over {len(pool)} version shapes: {bad} round-trip failures,"
      f" {bad_other} outside the `~=` / post-release-max family")

print()
print("== A3. borderline, OUTSIDE the quantifier (not public-version bounds) - for the record ==")
try:
    s = P("!=1.5+abc,>=1.0")
    print(f"   parse('!=1.5+abc,>=1.0') renders {str(s)!r};", end=" ")
    P(str(s))
    print("parses back")
except Exception as e:  # noqa: BLE001
    print(f"parsing it back raises {type(e).__name__}: {e}  (local version label in a `<`/`>` bound)")
try:
    from dep_logic.specifiers import from_specifierset

    s = from_specifierset(SpecifierSet("===a||b"))
    print(f"   from_specifierset(SpecifierSet('===a||b')) renders {str(s)!r};", end=" ")
    P(str(s))
    print("parses back")
except Exception as e:  # noqa: BLE001
    print(f"parsing it back raises {type(e).__name__}: {e}  (`||` inside an arbitrary-equality target)")

print()
print(f"in-quantifier violations demonstrated: {found}")
