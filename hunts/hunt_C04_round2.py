"""Hunt for NEW violations of C04 on the unmodified library (third round).

Run as:  cd /tmp/wt/C04i && PYTHONPATH=/tmp/wt/C04i/src /venv/bin/python hunt_C04.py [random_cases]

Oracle: packaging's SpecifierSet(leaf).contains(v) on the leaves, combined with the same
Boolean operations.  Candidates are final releases only.  Findings that belong to a known
family are counted separately and not reported:
  (3) an exclusive upper bound that is a post-release, rendered `~=`  (detected structurally:
      some range of the result has include_max False and max.is_postrelease)
  (6) ranges that only hold pre-releases / bounds at 0.dev0 - these never disagree on finals.
"""

from __future__ import annotations

import itertools
import random
import re
import sys

from packaging.specifiers import SpecifierSet
from packaging.version import Version

from dep_logic.specifiers import (
    AnySpecifier,
    EmptySpecifier,
    RangeSpecifier,
    UnionSpecifier,
    from_specifierset,
    parse_version_specifier,
)

NEW: list[str] = []
KNOWN = 0
CASES = 0
CHECKS = 0


def ranges_of(r):
    if isinstance(r, RangeSpecifier):
        return [r]
    if isinstance(r, UnionSpecifier):
        return list(r.ranges)
    return []


def known_family(r) -> bool:
    return any(
        x.max is not None and not x.include_max and x.max.is_postrelease
        for x in ranges_of(r)
    )


# ---------------------------------------------------------------- expression trees
def build(t, how=0):
    k = t[0]
    if k == "leaf":
        if how == 0:
            return parse_version_specifier(t[1])
        return from_specifierset(SpecifierSet(t[1]))
    if k == "not":
        return ~build(t[1], how)
    a, b = build(t[1], how), build(t[2], how)
    return a & b if k == "and" else a | b


def oracle(t, v):
    k = t[0]
    if k == "leaf":
        return SpecifierSet(t[1]).contains(v)
    if k == "not":
        return not oracle(t[1], v)
    a, b = oracle(t[1], v), oracle(t[2], v)
    return (a and b) if k == "and" else (a or b)


def show(t):
    if t[0] == "leaf":
        return repr(t[1])
    if t[0] == "not":
        return f"~{show(t[1])}"
    return f"({show(t[1])} {'&' if t[0] == 'and' else '|'} {show(t[2])})"


def leaves(t):
    if t[0] == "leaf":
        return [t[1]]
    return [x for c in t[1:] for x in leaves(c)]


_num = re.compile(r"(\d+(?:\.\d+)*)")


def candidates(t) -> list[str]:
    out = {"0", "1", "0.0.1", "99"}
    for leaf in leaves(t):
        for part in leaf.split(","):
            m = _num.search(part.split("!")[-1])
            if not m:
                continue
            r = [int(x) for x in m.group(1).split(".")]
            for k in range(1, len(r) + 1):
                base = r[:k]
                for d in (-1, 0, 1):
                    if base[-1] + d < 0:
                        continue
                    b = base[:-1] + [base[-1] + d]
                    for tail in ([], [0], [1], [0, 1], [0, 0, 0, 1]):
                        out.add(".".join(map(str, b + tail)))
    return sorted(out)


def check_tree(t, label="") -> None:
    global CASES, CHECKS, KNOWN
    CASES += 1
    for how in (0, 1):
        try:
            r = build(t, how)
        except Exception as e:  # noqa: BLE001
            NEW.append(f"{label}{show(t)}: building raised {type(e).__name__}: {e}")
            return
        for v in candidates(t):
            exp = oracle(t, v)
            CHECKS += 1
            try:
                got = (v in r, r.contains(v), r.contains(Version(v)), r.contains(v, True), r.contains(v, False))
            except Exception as e:  # noqa: BLE001
                NEW.append(f"{label}{show(t)}: {v} in {r!r} raised {type(e).__name__}: {e}")
                return
            if set(got) != {exp}:
                if known_family(r):
                    KNOWN += 1
                else:
                    NEW.append(f"{label}{show(t)}: version {v}: library {got} on {r!r}, packaging {exp}")
                return
            if r.is_empty() and got[0]:
                NEW.append(f"{label}{show(t)}: is_empty() but contains {v}")
            if r.is_any() and not got[0]:
                NEW.append(f"{label}{show(t)}: is_any() but lacks {v}")
        # rendering and re-parsing keeps the membership (only as a way to reach other objects)
        try:
            again = parse_version_specifier(str(r))
        except Exception as e:  # noqa: BLE001
            NEW.append(f"{label}{show(t)}: str(result)={str(r)!r} does not re-parse: {type(e).__name__}: {e}")
            return
        for v in candidates(t)[::3]:
            if (v in again) != (v in r) and not known_family(r) and not known_family(again):
                NEW.append(f"{label}{show(t)}: re-parsed {str(r)!r} differs on {v}")
                return


# ---------------------------------------------------------------- 1. systematic small scope
def systematic() -> None:
    versions = ["0", "1", "1.0", "1.0.0", "1.1", "1.0.1", "1.1.0", "2", "2.0", "1.9", "1.10", "1.0.0.0", "1.0.0.1", "1.1.0.0"]
    ls: list[str] = []
    for v in versions:
        for op in (">", ">=", "<", "<=", "==", "!="):
            ls.append(op + v)
        ls.append(f"=={v}.*")
        ls.append(f"!={v}.*")
        if "." in v:
            ls.append(f"~={v}")
    # pre/post/dev bounds in the places where they are not a known family
    ls += [">=1.0a1", ">1.0a1", ">=1.0.post1", ">1.0.post1", "<=1.0.post1", ">=1.0.dev1", "<1.1rc1", "<=1.1rc1", "~=1.0.post2", "~=1.1a1", "~=1.0.0.dev3", "==1.0.post1", "!=1.0a1"]
    # odd but legal spellings
    ls += [">= v1.0", "==V1.0.*", "~= 1.0.0", "!=01.1", ">=1.0-1", "~=1.0-1", "==1.0_post1", ">=1.0.ALPHA.1", "<=1.0.0.0.0", "~=1.0.0.0.1", "==1.0.0.0.*"]
    pairs = list(itertools.product(ls, repeat=2))
    rnd = random.Random(7)
    rnd.shuffle(pairs)
    for a, b in pairs[:6000]:
        la, lb = ("leaf", a), ("leaf", b)
        check_tree(("and", la, lb))
        check_tree(("or", la, ("not", lb)))
        check_tree(("not", ("or", ("not", la), lb)))
    triples = [tuple(rnd.choice(ls) for _ in range(3)) for _ in range(3000)]
    for a, b, c in triples:
        la, lb, lc = ("leaf", a), ("leaf", b), ("leaf", c)
        check_tree(("or", ("and", la, lb), lc))
        check_tree(("and", ("or", la, ("not", lb)), ("not", lc)))
        check_tree(("leaf", f"{a},{b},{c}"))


# ---------------------------------------------------------------- 2. other entry points / types
def entry_points() -> None:
    global CASES
    V = Version
    finals = ["0", "0.9", "1", "1.0.0", "1.5", "2", "2.0.1", "3", "10"]

    def same(label, r, pred):
        global CASES
        CASES += 1
        for v in finals:
            try:
                got = v in r
            except Exception as e:  # noqa: BLE001
                NEW.append(f"{label}: {v} in {r!r} raised {type(e).__name__}: {e}")
                return
            if got != pred(v) or r.contains(V(v)) != pred(v):
                NEW.append(f"{label}: {v}: library {got} on {r!r}, expected {pred(v)}")

    P = lambda s: (lambda v: SpecifierSet(s).contains(v))  # noqa: E731
    # `||` syntax, blanks, the empty word, duplicates
    same("'>=1 || <0.9'", parse_version_specifier(">=1 || <0.9"), lambda v: P(">=1")(v) or P("<0.9")(v))
    same("'<empty>||==1.*'", parse_version_specifier("<empty>||==1.*"), P("==1.*"))
    same("'>=2||'", parse_version_specifier(">=2||"), lambda v: True)
    same("'!=1.*||!=2.*'", parse_version_specifier("!=1.*||!=2.*"), lambda v: True)
    same("'==1.*||==2.*||>=3'", parse_version_specifier("==1.*||==2.*||>=3"), P(">=1"))
    same("' >=1 , <2 '", parse_version_specifier(" >=1 , <2 "), P(">=1,<2"))
    same("'>=1,>=1,<2,<2'", parse_version_specifier(">=1,>=1,<2,<2"), P(">=1,<2"))
    # SpecifierSet objects with a prereleases setting
    for flag in (None, True, False):
        same(f"from_specifierset(prereleases={flag})", from_specifierset(SpecifierSet(">=1.0a1,<2", prereleases=flag)), P(">=1.0a1,<2"))
    # objects built through the constructors
    r = RangeSpecifier(min=V("1.0"), max=V("2"), include_min=True)
    same("RangeSpecifier[1.0,2)", r, P(">=1.0,<2"))
    same("~RangeSpecifier[1.0,2)", ~r, lambda v: not P(">=1.0,<2")(v))
    same("RangeSpecifier()", RangeSpecifier(), lambda v: True)
    same("~RangeSpecifier()", ~RangeSpecifier(), lambda v: False)
    same("~~RangeSpecifier()", ~~RangeSpecifier(), lambda v: True)
    u = UnionSpecifier((RangeSpecifier(max=V("1")), RangeSpecifier(min=V("2"), include_min=True)))
    same("UnionSpecifier(<1, >=2)", u, lambda v: P("<1")(v) or P(">=2")(v))
    same("~UnionSpecifier(<1, >=2)", ~u, P(">=1,<2"))
    # Any / Empty across classes, both operand orders (the reflected dunders)
    any_, empty = AnySpecifier(), EmptySpecifier()
    for name, x, px in (("range", r, P(">=1.0,<2")), ("union", u, lambda v: P("<1")(v) or P(">=2")(v))):
        same(f"Any & {name}", any_ & x, px)
        same(f"{name} & Any", x & any_, px)
        same(f"Any | {name}", any_ | x, lambda v: True)
        same(f"{name} | Any", x | any_, lambda v: True)
        same(f"Empty & {name}", empty & x, lambda v: False)
        same(f"{name} & Empty", x & empty, lambda v: False)
        same(f"Empty | {name}", empty | x, px)
        same(f"{name} | Empty", x | empty, px)
        same(f"{name} & RangeSpecifier()", x & RangeSpecifier(), px)
        same(f"RangeSpecifier() & {name}", RangeSpecifier() & x, px)
        same(f"{name} | RangeSpecifier()", x | RangeSpecifier(), lambda v: True)
        same(f"RangeSpecifier() | {name}", RangeSpecifier() | x, lambda v: True)
        same(f"{name} | ~{name}", x | ~x, lambda v: True)
        same(f"~{name} | {name}", ~x | x, lambda v: True)
        same(f"{name} & ~{name}", x & ~x, lambda v: False)
        same(f"~({name} | ~{name})", ~(x | ~x), lambda v: False)
    same("range & union", r & u, lambda v: False)
    same("union & range", u & r, lambda v: False)
    same("range | union", r | u, lambda v: True)
    same("union | range", u | r, lambda v: True)
    same("~Any | range", ~any_ | r, P(">=1.0,<2"))
    same("~Empty & union", ~empty & u, lambda v: P("<1")(v) or P(">=2")(v))
    # sequences of operations on the same objects (cached renderings must not leak)
    a, b = parse_version_specifier(">=1.0"), parse_version_specifier("<2")
    str(a), str(b), str(a & b), str(~(a & b))
    same("(>=1.0 & <2) after rendering", a & b, P(">=1.0,<2"))
    same("~(>=1.0 & <2) after rendering", ~(a & b), lambda v: not P(">=1.0,<2")(v))
    # hashing / equality do not change what is contained
    s = {a & b, r, parse_version_specifier("==1.*"), parse_version_specifier("~=1.0")}
    for x in s:
        same(f"set member {x!r}", x, P(">=1.0,<2"))
    # large segments, many segments
    big = "9" * 40
    same("big", parse_version_specifier(f">={big}") | parse_version_specifier(f"<{big}"), lambda v: True)
    same("~=1.2.3.4.5.6", ~parse_version_specifier("~=1.2.3.4.5.6") & parse_version_specifier("==1.*"), lambda v: P("==1.*")(v) and not P("~=1.2.3.4.5.6")(v))


# ---------------------------------------------------------------- 3. random trees, rich leaf grammar
def random_trees(n: int, seed: int) -> None:
    R = random.Random(seed)

    def suffix():
        if R.random() < 0.6:
            return ""
        kind = R.choice(["a", "b", "rc", "c", "alpha", "pre", "preview", ".post", "post", "-", "rev", ".r", ".dev", "dev", "_post", "rc.dev", ".post.dev"])
        k = R.choice([0, 1, 2])
        if kind == "-":
            return f"-{k}"
        if kind == "rc.dev":
            return f"rc{k}.dev1"
        if kind == ".post.dev":
            return f".post{k}.dev1"
        return f"{kind.upper() if R.random() < 0.2 else kind}{k}"

    def rel(lo, hi):
        return ".".join(str(R.choice([0, 0, 1, 1, 2, 3, 9, 10])) for _ in range(R.randint(lo, hi)))

    def leaf():
        op = R.choice([">", ">=", "<", "<=", "==", "!=", "~=", "==*", "!=*"])
        if op.endswith("*"):
            return f"{op[:2]}{rel(1, 3)}.*"
        if op == "~=":
            return f"~={rel(2, 5)}{suffix()}"
        return f"{op}{R.choice(['', '', '', 'v', ' '])}{rel(1, 4)}{suffix()}"

    def tree(d):
        if d == 0 or R.random() < 0.25:
            return ("leaf", ",".join(leaf() for _ in range(R.choice([1, 1, 2, 3]))))
        k = R.choice(["and", "or", "not", "and", "or"])
        if k == "not":
            return ("not", tree(d - 1))
        return (k, tree(d - 1), tree(d - 1))

    for _ in range(n):
        check_tree(tree(R.choice([1, 2, 3, 4])))


if __name__ == "__main__":
    n = int(sys.argv[1]) if len(sys.argv) > 1 else 3000
    systematic()
    entry_points()
    random_trees(n, 2026)
    print(f"expressions checked: {CASES}; membership comparisons: {CHECKS}")
    print(f"disagreements belonging to known family (3) (exclusive post-release upper bound): {KNOWN}")
    if NEW:
        print(f"NEW violations: {len(NEW)}")
        for line in NEW[:40]:
            print("  " + line)
    else:
        print("NEW violations: none")
