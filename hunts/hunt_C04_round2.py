"""Hunt for pre-existing violations of C04 on the unmodified tree.

C04: for every final release v and every &,|,~ expression over PEP 440 specifier
strings, `v in result` / result.contains(v) equals the same Boolean combination of
packaging's SpecifierSet(leaf).contains(v) over the leaves.

Run:  cd /tmp/wt/C04h && PYTHONPATH=/tmp/wt/C04h/src /venv/bin/python hunt_C04.py [quick|full]

Streams (all judged against packaging, leaf by leaf):
  S1  random expression trees (depth <= 4) over comma-joined leaves with epochs,
      1-5 release segments, trailing zeros, multi-digit segments, pre/post/dev bounds,
      `v` prefixes and odd spellings; candidates are final releases next to every bound.
  S2  unusual-but-legal spellings (leading zeros, -/_ separators, upper case, implicit
      post `1.0-1`, `1.0.r3`, `c1`, `preview`, huge integers, 7 segments, wildcards of
      several depths with epochs) as leaves, under ~, ~~ and pairwise &, |, ~(a|b), ~a&b.
  S3  exhaustive three-operand combinations, both associativities, all operand orders,
      over a small leaf universe (includes equal bounds with different inclusivity,
      1.0 vs 1 vs 1.0.0, epoch 1!, wildcards 1.* 1.0.* 1!1.*).
  S4  result -> str -> parse round trip keeps membership (rendering feeds contains()).
Known families are filtered: an exclusive post-release upper bound (family 3), `===`
(family 4), +local (5); candidates are final releases only (families 6 and 10 moot).
"""
from __future__ import annotations

import itertools
import random
import sys

from packaging.specifiers import SpecifierSet
from packaging.version import Version

from dep_logic.specifiers import parse_version_specifier as P
from dep_logic.specifiers.range import RangeSpecifier
from dep_logic.specifiers.union import UnionSpecifier

FOUND: list[str] = []
CHECKS = 0


def report(msg: str) -> None:
    FOUND.append(msg)
    print("NEW VIOLATION:", msg)


def known(result) -> bool:
    rs = []
    if isinstance(result, RangeSpecifier):
        rs = [result]
    elif isinstance(result, UnionSpecifier):
        rs = list(result.ranges)
    return any(
        r.max is not None and r.max.is_postrelease and not r.include_max for r in rs
    )


# ---------------------------------------------------------------- expression trees
def leaves(t):
    return [t[1]] if t[0] == "leaf" else [x for c in t[1:] for x in leaves(c)]


def build(t):
    if t[0] == "leaf":
        return P(t[1])
    if t[0] == "not":
        return ~build(t[1])
    a, b = build(t[1]), build(t[2])
    return a & b if t[0] == "and" else a | b


def oracle(t, v):
    if t[0] == "leaf":
        return SpecifierSet(t[1]).contains(v, prereleases=True)
    if t[0] == "not":
        return not oracle(t[1], v)
    a, b = oracle(t[1], v), oracle(t[2], v)
    return (a and b) if t[0] == "and" else (a or b)


def show(t):
    if t[0] == "leaf":
        return f"P({t[1]!r})"
    if t[0] == "not":
        return f"~{show(t[1])}"
    return f"({show(t[1])} {'&' if t[0] == 'and' else '|'} {show(t[2])})"


def candidates(t):
    out = set()
    for ls in leaves(t):
        for s in SpecifierSet(ls):
            txt = s.version[:-2] if s.version.endswith(".*") else s.version
            v = Version(txt)
            rel = list(v.release)
            for e in {v.epoch, 0}:
                pre = f"{e}!" if e else ""
                rels = [rel, rel + [0], rel + [1], rel[:-1] or [0], rel[:-1] + [rel[-1] + 1]]
                if rel[-1] > 0:
                    rels += [rel[:-1] + [rel[-1] - 1], rel[:-1] + [rel[-1] - 1, 99]]
                if len(rel) > 1:
                    rels += [rel[:-2] + [rel[-2] + 1], rel[:-2] + [rel[-2] + 1, 0]]
                    if rel[-2] > 0:
                        rels.append(rel[:-2] + [rel[-2] - 1, 99])
                if len(rel) > 2:
                    rels.append(rel[:-3] + [rel[-3] + 1])
                out.update(pre + ".".join(map(str, r)) for r in rels)
    out.update(["0", "0.0.1", "1", "100", "1!0", "3!0"])
    return sorted(out)


def check_tree(t, cands=None, roundtrip=False) -> None:
    global CHECKS
    try:
        res = build(t)
    except Exception as e:  # any exception is a violation: no === leaves here
        report(f"{show(t)} raises {type(e).__name__}: {e}")
        return
    if known(res):
        return
    r2 = None
    if roundtrip:
        try:
            r2 = P(str(res))
        except Exception as e:
            report(f"str({show(t)}) = {str(res)!r} does not re-parse: {type(e).__name__}: {e}")
    for v in cands or candidates(t):
        CHECKS += 1
        exp = oracle(t, v)
        try:
            got = (res.contains(v), v in res, Version(v) in res)
        except Exception as e:
            report(f"{show(t)}: contains({v!r}) raises {type(e).__name__}: {e}")
            return
        if got != (exp, exp, exp):
            report(f"{show(t)}: v={v} library={got} packaging={exp} result={res!r}")
            return
        if r2 is not None and r2.contains(v) != exp:
            report(f"{show(t)}: v={v} re-parsed {str(res)!r} gives {r2.contains(v)}, packaging={exp}")
            return


# ---------------------------------------------------------------- S1 random trees
OPS = [">", ">=", "<", "<=", "==", "!=", "~=", "==*", "!=*"]
SUFFIXES = ["a1", "b2", "rc1", ".post1", ".post0", ".dev1", ".dev0", "a1.dev1",
            ".post1.dev1", "rc1.post1", "a0", "-1", ".r1", "c1", ".pre1", "ALPHA1", "_beta_2"]


def rand_leaf(rng):
    op = rng.choice(OPS)
    ep = rng.choice(["1!", "0!", "2!"]) if rng.random() < 0.15 else ""
    pre = "v" if rng.random() < 0.05 else ""
    n = rng.choice([2, 2, 3, 3, 4, 5] if op == "~=" else [1, 2, 2, 3, 3, 4, 5])
    rel = [rng.choice([0, 0, 1, 1, 2, 3, 9, 10]) for _ in range(n)]
    if rng.random() < 0.3:
        rel[-1] = 0
    body = ".".join(map(str, rel))
    if op in ("==*", "!=*"):
        return f"{op[:2]}{pre}{ep}{body}.*"
    suf = rng.choice(SUFFIXES) if rng.random() < 0.4 else ""
    return f"{op}{' ' if rng.random() < 0.1 else ''}{pre}{ep}{body}{suf}"


def rand_tree(rng, depth):
    if depth == 0 or rng.random() < 0.25:
        return ("leaf", ",".join(rand_leaf(rng) for _ in range(rng.choice([1, 1, 1, 2, 2, 3]))))
    r = rng.random()
    if r < 0.2:
        return ("not", rand_tree(rng, depth - 1))
    return ("and" if r < 0.6 else "or", rand_tree(rng, depth - 1), rand_tree(rng, depth - 1))


def stream1(n, seed=2024, roundtrip=False):
    rng = random.Random(seed)
    for _ in range(n):
        check_tree(rand_tree(rng, rng.choice([1, 2, 2, 3, 4])), roundtrip=roundtrip)


# ---------------------------------------------------------------- S2 odd spellings
ODD = ["01.0", "1.00", "001", "1.0-1", "1.0_post_1", "1.0.POST.1", "1.0-rc-1", "1.0RC1", "V1.0",
       "v1.0.0", "1.0.preview1", "1.0c1", "1.0.rev2", "1.0.r3", "1!01.0", "00!1.0", "0!1", "1.0a",
       "1.0.post", "1.0.dev", "1.0alpha", "1.0-beta.2", "1.0a1.post2.dev3", "1.2.3.4.5.6.7",
       "0.0.0", "0", "00", "1.0.0.0.0", "4294967296.0", "1.18446744073709551616"]
ODDW = ["01.*", "1.00.*", "V1.*", "v1.0.*", "1!01.*", "0!1.*", "0.*", "0.0.*", "00.*",
        "1.2.3.4.5.6.*", "4294967296.*"]
ODDC = ["0", "0.0.1", "0.9", "1", "1.0", "1.0.0", "1.0.1", "1.1", "2", "1.2.3.4.5.6",
        "1.2.3.4.5.6.0", "1.2.3.4.5.6.1", "1.2.3.4.5.7", "1.2.3.4.6", "1!0", "1!1", "1!1.0.1", "1!2",
        "4294967296", "4294967296.0", "4294967297", "4294967295.9", "1.18446744073709551616",
        "1.18446744073709551617", "1.18446744073709551615", "1.9", "0.1", "1.2.3.4.5.6.7",
        "1.2.3.4.5.6.8", "1.2.3.4.5.6.6.9"]


def stream2(npairs):
    ls = []
    for op in [">", ">=", "<", "<=", "==", "!=", "~="]:
        for v in ODD:
            try:
                SpecifierSet(op + v)
            except Exception:
                continue
            ls.append(op + v)
    ls += [op + w for w in ODDW for op in ("==", "!=")]
    for s in ls:
        L = ("leaf", s)
        for t in (L, ("not", L), ("not", ("not", L))):
            check_tree(t, ODDC)
    rng = random.Random(5)
    for _ in range(npairs):
        a, b = ("leaf", rng.choice(ls)), ("leaf", rng.choice(ls))
        for t in (("and", a, b), ("or", a, b), ("not", ("or", a, b)), ("and", ("not", a), b)):
            check_tree(t, ODDC)


# ---------------------------------------------------------------- S3 exhaustive triples
def stream3(limit):
    vers = ["1", "1.0", "1.1", "2", "1!1", "1.0.0"]
    ls = [op + v for v in vers for op in (">", ">=", "<", "<=", "==", "!=")]
    ls += ["~=1.0", "~=1.1", "~=1.0.0", "~=1!1.0", "==1.*", "!=1.*", "==1.0.*", "!=1.0.*", "==1!1.*"]
    cands = ["0.9", "1", "1.0.1", "1.0.99", "1.1", "1.1.1", "1.9", "2", "2.0.1", "3",
             "1!0.9", "1!1", "1!1.0.1", "1!1.5", "1!2"]
    shapes = []
    for o1, o2 in itertools.product(("and", "or"), repeat=2):
        shapes.append(lambda a, b, c, o1=o1, o2=o2: (o2, (o1, a, b), c))
        shapes.append(lambda a, b, c, o1=o1, o2=o2: (o1, a, (o2, b, c)))
        shapes.append(lambda a, b, c, o1=o1, o2=o2: (o2, ("not", (o1, a, b)), c))
    triples = list(itertools.product(ls, repeat=3))
    random.Random(9).shuffle(triples)
    for a, b, c in triples[:limit]:
        A, B, C = ("leaf", a), ("leaf", b), ("leaf", c)
        for sh in shapes:
            check_tree(sh(A, B, C), cands)


def main():
    mode = sys.argv[1] if len(sys.argv) > 1 else "quick"
    k = 1 if mode == "quick" else 10
    stream1(3000 * k)
    print("S1 done", CHECKS)
    stream2(1500 * k)
    print("S2 done", CHECKS)
    stream3(1500 * k)
    print("S3 done", CHECKS)
    stream1(1500 * k, seed=99, roundtrip=True)
    print("S4 done", CHECKS)
    print(f"membership checks: {CHECKS}; new violations: {len(FOUND)}")
    if not FOUND:
        print("no NEW violation of C04 found on the unmodified tree")


if __name__ == "__main__":
    main()
