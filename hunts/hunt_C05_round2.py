"""Third hunt round for property C05 (canonical results: ==, is_empty(), is_any() exact).

Run:  cd /tmp/wt/C05i && PYTHONPATH=/tmp/wt/C05i/src /venv/bin/python hunt_C05.py [cases] [seed]

Prints every violation found (input, what the library returned, what the oracle says) and a
summary line per part.  Oracle: pointwise evaluation of the expression in the interval model with
packaging's Version order, on a probe set holding every bound that occurs plus one version strictly
between each two neighbouring bounds, one below and one above all of them (so a canonical result
that agrees with the oracle on the probes is exactly right, and two results are the same set iff
they agree on the probes).  Known families (density gaps / least element of the order, ===,
+local, PEP 440 exclusion rules) are kept out of the generators.

Parts
  1. random expression trees over &, |, ~ (leaves: comma sets and || alternatives of <,<=,>,>=,==,!=,
     ==V.*, !=V.*, ~=V with epochs, pre/post/dev bounds, trailing zeros, <empty>):
     canonical shape, membership, is_empty/is_any exactness, equality with ~~r, r&r, r|r,
     the De Morgan twin and the operand-swapped twin (and their hashes).
  2. closed grid: ~80 leaf specifiers (incl. "", <empty>, ~<empty>) -> every a&b, a|b, ~a, then a
     second layer on a sample of the results; all results are grouped by their probe vector:
     equal vector <=> ==  (both directions, all pairs against the group representative), hash.
  3. unusual spellings / entry points: from_specifierset on SpecifierSet built from Specifier
     objects, prereleases=True, spellings (v prefix, upper case, -1, _post1, alpha, leading zeros,
     explicit epoch 0), copy / deepcopy / pickle round trips, AnySpecifier on either side.
  4. mutation fuzz of specifier text: only InvalidSpecifier may escape parse_version_specifier.
"""
import bisect
import itertools
import random
import sys
import time

from packaging.version import Version

from dep_logic.specifiers import (
    AnySpecifier,
    EmptySpecifier,
    RangeSpecifier,
    UnionSpecifier,
    parse_version_specifier,
)

RELS = ["0", "0.1", "1", "1.0", "1.0.0", "1.0.1", "1.1", "1.2", "1.2.0", "1.2.3", "1.2.3.4",
        "2", "2.0", "2.0.0", "2.1", "3", "3.7.0", "10", "2.20"]
SUF = ["", "", "", "", "a1", "rc2", ".post1", ".dev3", ".post1.dev2", "b2.post3"]
EPO = ["", "", "", "", "1!", "2!"]


def rel_of(s):
    return tuple(int(x) for x in s.split("."))


def V(epoch, rel, suf=""):
    return Version(f"{epoch}{'.'.join(map(str, rel))}{suf}")


class Atom:
    def __init__(self, text, pred, bounds):
        self.text, self.pred, self.bounds = text, pred, bounds


def gen_atom(rnd):
    k = rnd.random()
    e = rnd.choice(EPO)
    r = rnd.choice(RELS)
    if k < 0.6:
        op = rnd.choice(["<", "<=", ">", ">=", "==", "!="])
        s = rnd.choice(SUF)
        v = Version(e + r + s)
        pred = {
            "<": lambda x: x < v, "<=": lambda x: x <= v, ">": lambda x: x > v,
            ">=": lambda x: x >= v, "==": lambda x: x == v, "!=": lambda x: x != v,
        }[op]
        return Atom(f"{op}{e}{r}{s}", pred, [v])
    if k < 0.8:
        op = rnd.choice(["==", "!="])
        rel = rel_of(r)
        lo = V(e, rel + (0,))
        hi = V(e, rel[:-1] + (rel[-1] + 1,))
        if op == "==":
            return Atom(f"=={e}{r}.*", lambda x: lo <= x < hi, [lo, hi])
        return Atom(f"!={e}{r}.*", lambda x: not (lo <= x < hi), [lo, hi])
    rel = rel_of(r)
    if len(rel) < 2:
        rel = rel + (rnd.choice([0, 1, 5]),)
    s = rnd.choice(SUF)
    lo = V(e, rel, s)
    hi = V(e, rel[:-2] + (rel[-2] + 1,))
    return Atom(f"~={e}{'.'.join(map(str, rel))}{s}", lambda x: lo <= x < hi, [lo, hi])


class Leaf:
    def __init__(self, rnd):
        self.alts = []
        for _ in range(rnd.choice([1, 1, 1, 2, 2, 3, 4])):
            self.alts.append([gen_atom(rnd) for _ in range(rnd.choice([1, 1, 2, 2, 3]))])
        self.text = "||".join(",".join(a.text for a in alt) for alt in self.alts)
        if rnd.random() < 0.03:
            self.alts, self.text = [], "<empty>"

    def build(self):
        return parse_version_specifier(self.text)

    def ev(self, x):
        return any(all(a.pred(x) for a in alt) for alt in self.alts)

    def bounds(self):
        return [b for alt in self.alts for a in alt for b in a.bounds]


class Node:
    def __init__(self, op, *kids):
        self.op, self.kids = op, kids
        if op == "~":
            self.text = f"~({kids[0].text})"
        else:
            self.text = f"({kids[0].text}) {op} ({kids[1].text})"

    def build(self):
        if self.op == "~":
            return ~self.kids[0].build()
        a, b = self.kids[0].build(), self.kids[1].build()
        return a & b if self.op == "&" else a | b

    def ev(self, x):
        if self.op == "~":
            return not self.kids[0].ev(x)
        a, b = self.kids[0].ev(x), self.kids[1].ev(x)
        return (a and b) if self.op == "&" else (a or b)

    def bounds(self):
        return [b for k in self.kids for b in k.bounds()]


def gen_tree(rnd, depth):
    if depth == 0 or rnd.random() < 0.25:
        return Leaf(rnd)
    op = rnd.choice(["&", "|", "&", "|", "~"])
    if op == "~":
        return Node("~", gen_tree(rnd, depth - 1))
    return Node(op, gen_tree(rnd, depth - 1), gen_tree(rnd, depth - 1))


# universe of candidate in-between points
def universe(base_rels=None):
    out = set()
    rels = set()
    for r in (RELS if base_rels is None else base_rels):
        rel = rel_of(r) if isinstance(r, str) else tuple(r)
        for t in (rel, rel + (0, 1), rel + (1,), rel[:-1] + (rel[-1] + 1,), rel + (0,),
                  rel[:-1] + (rel[-1] + 1, 0, 1)):
            rels.add(t)
            if len(t) >= 2:
                rels.add(t[:-2] + (t[-2] + 1,))
    sufs = ["", "a0", "a1", "a2", "rc1", "rc2", "rc3", "b2.post3", "b2.post4", "b2.post2", ".post0", ".post1",
            ".post2", ".dev0", ".dev1", ".dev3", ".dev4", ".post1.dev1", ".post1.dev2",
            ".post1.dev3", ".post0.dev1", "a1.dev1", "rc2.dev1", "a1.post1", "rc2.post1"]
    for e in ("", "1!", "2!", "3!"):
        for t in rels:
            for s in sufs:
                out.add(Version(f"{e}{'.'.join(map(str, t))}{s}"))
    return sorted(out)


UNI = universe()


def probes_for(bounds, UNI=None):
    UNI = UNI or globals()["UNI"]
    bs = sorted(set(bounds))
    pts = list(bs)
    gaps = []
    for u, v in zip(bs, bs[1:]):
        i = bisect.bisect_right(UNI, u)
        if i < len(UNI) and UNI[i] < v:
            pts.append(UNI[i])
        else:
            gaps.append((u, v))
    if bs:
        i = bisect.bisect_left(UNI, bs[0])
        if i > 0:
            pts.append(UNI[i - 1])
        pts.append(Version("9!0"))
    else:
        pts.append(Version("1"))
    return pts, gaps


def member(spec, x):
    if isinstance(spec, EmptySpecifier):
        return False
    if isinstance(spec, AnySpecifier):
        return True
    if isinstance(spec, RangeSpecifier):
        if spec.min is not None and (x < spec.min or (x == spec.min and not spec.include_min)):
            return False
        if spec.max is not None and (x > spec.max or (x == spec.max and not spec.include_max)):
            return False
        return True
    if isinstance(spec, UnionSpecifier):
        return any(member(r, x) for r in spec.ranges)
    raise TypeError(type(spec))


def canonical(spec):
    if isinstance(spec, (EmptySpecifier, AnySpecifier)):
        return None
    if isinstance(spec, RangeSpecifier):
        if spec.min is not None and spec.max is not None:
            if spec.min > spec.max or (spec.min == spec.max and not (spec.include_min and spec.include_max)):
                return "degenerate range"
        return None
    if isinstance(spec, UnionSpecifier):
        if len(spec.ranges) < 2:
            return "union of <2"
        for r in spec.ranges:
            if not isinstance(r, RangeSpecifier):
                return "non-range member"
            if r.is_any():
                return "universal member"
            if (m := canonical(r)):
                return m
        for a, b in zip(spec.ranges, spec.ranges[1:]):
            if a.max is None or b.min is None:
                return "unbounded inside"
            if a.max > b.min or (a.max == b.min and (a.include_max or b.include_min)):
                return "not separated"
        return None
    return f"unexpected type {type(spec).__name__}"


def same(a, b):
    return a == b and b == a and not (a != b) and hash(a) == hash(b)


def part1(n, seed, depth=3):
    rnd = random.Random(seed)
    bad = 0
    ngaps = 0
    t0 = time.time()
    first = None
    universal = [parse_version_specifier(""), ~parse_version_specifier("<empty>"),
                 parse_version_specifier("<1") | parse_version_specifier(">=1")]
    empty = [parse_version_specifier("<empty>"), parse_version_specifier(">=2,<1")]
    for i in range(n):
        t = gen_tree(rnd, rnd.choice([1, 2, 2, depth]))
        try:
            r = t.build()
        except Exception as e:  # noqa
            print("  EXCEPTION", type(e).__name__, e, "on", t.text)
            bad += 1
            first = first if first is not None else i
            continue
        msgs = []
        if (m := canonical(r)):
            msgs.append(f"not canonical: {m}")
        pts, gaps = probes_for(t.bounds())
        want = [t.ev(x) for x in pts]
        got = [member(r, x) for x in pts]
        if want != got:
            x = pts[[a != b for a, b in zip(want, got)].index(True)]
            msgs.append(f"oracle says {x} {'is' if t.ev(x) else 'is not'} admitted, result disagrees")
        if gaps:
            ngaps += 1
        else:
            if r.is_empty() != (not any(want)):
                msgs.append(f"is_empty()={r.is_empty()} but oracle: some probe admitted={any(want)}")
            if r.is_any() != all(want):
                msgs.append(f"is_any()={r.is_any()} but oracle: all probes admitted={all(want)}")
            if all(want) and not all(same(r, u) for u in universal):
                msgs.append("universal result does not equal every universal spelling")
            if not any(want) and not all(same(r, u) for u in empty):
                msgs.append("empty result does not equal <empty>")
        for name, twin in (("~~r", lambda: ~~r), ("r&r", lambda: r & r), ("r|r", lambda: r | r)):
            tw = twin()
            if not same(tw, r):
                msgs.append(f"{name} = {tw!r} != {r!r}")
        if isinstance(t, Node) and t.op != "~":
            A, B = t.kids[0].build(), t.kids[1].build()
            dm = ~(~A | ~B) if t.op == "&" else ~(~A & ~B)
            if not same(dm, r):
                msgs.append(f"De Morgan twin {dm!r} != {r!r}")
            sw = (B & A) if t.op == "&" else (B | A)
            if not same(sw, r):
                msgs.append(f"swapped twin {sw!r} != {r!r}")
        if msgs:
            bad += 1
            first = first if first is not None else i
            if bad <= 5:
                print("  VIOLATION input:", t.text, "\n    library:", repr(r), "\n    ", "; ".join(msgs))
    print(f"part 1: random trees seed={seed} cases={n} (skipped exactness on {ngaps} with a density gap) "
          f"violations={bad} first_at={first} {time.time()-t0:.1f}s")
    return bad


GRID = ["", "<empty>", "~<empty>", "<1", "<=1", ">1", ">=1", "==1", "!=1", "<1.0.0", ">=1.0", "==1.0.0",
        "<2", "<=2", ">2", ">=2", "==2", "!=2", "==1.*", "!=1.*", "~=1.0", "~=1.5", "==1.5.*", "!=1.5.*",
        ">=1,<2", ">1,<2", ">=1,<=2", ">1,<=2", "<1||>2", "<=1||>=2", "<1||>=2", "<=1||>2", "<1||==2",
        "==1||==2", "==1||>2", "<1||>1,<2||>2", "<=1||==1.5||>=2", "!=1,!=2", "!=1,!=1.5,!=2",
        ">=1.5", "<1.5", "==1.5", ">1.5,<2", ">=1,<1.5", "<1||>=1.5,<2", "==1||==1.5||==2",
        ">=1!0", "<1!0", "==1!1.*", "!=1!1.*", "~=1!1.0", "<1||>=1!0", ">=2,<1!1", "==1!1", "<=1!1||>1!2",
        ">=1.0a1", "<1.0a1", ">1.0.post1", "<=1.0.post1", "==1.0.post1", "!=1.0.post1", ">=2.dev3", "<2.dev3",
        ">=1.0a1,<1.0.post1", "<1.0a1||>1.0.post1", "~=1.0.post1", "~=1.0a1", "~=1.5.0", "~=1.5.0.0",
        "==1.5.0.*", ">=1.5.0.0,<1.5.1", "<1.5.0||>=1.5.1.0", "<1||==1.0.post1||>=2.dev3,<2||>2",
        ">=3", "<3", "==3.*", "<1||>=3", ">=1,<3", "!=2.*"]


def build_leaf(text):
    if text == "~<empty>":
        return ~parse_version_specifier("<empty>")
    return parse_version_specifier(text)


def spec_bounds(s, acc):
    if isinstance(s, RangeSpecifier):
        acc.update(v for v in (s.min, s.max) if v is not None)
    elif isinstance(s, UnionSpecifier):
        for r in s.ranges:
            spec_bounds(r, acc)


def part2(seed):
    t0 = time.time()
    rnd = random.Random(seed)
    leaves = [(t, build_leaf(t)) for t in GRID]
    acc = set()
    for _, s in leaves:
        spec_bounds(s, acc)
    pts, gaps = probes_for(sorted(acc), universe({b.release for b in acc}))
    assert not gaps, gaps
    pts = sorted(set(pts))

    def vec(s):
        return tuple(member(s, x) for x in pts)

    items = []  # (description, spec, expected vector)
    for t, s in leaves:
        items.append((t, s, vec(s)))   # the leaf's own vector is checked by part 1's oracle
    bad = 0

    def layer(src, pairs):
        nonlocal bad
        out = []
        for (ta, a, va), (tb, b, vb) in pairs:
            for op, f, g in (("&", lambda x, y: x & y, lambda p, q: p and q),
                             ("|", lambda x, y: x | y, lambda p, q: p or q)):
                try:
                    r = f(a, b)
                except Exception as e:  # noqa
                    print("  EXCEPTION", type(e).__name__, e, f"({ta}) {op} ({tb})")
                    bad += 1
                    continue
                out.append((f"({ta}) {op} ({tb})", r, tuple(g(p, q) for p, q in zip(va, vb))))
        for ta, a, va in src:
            out.append((f"~({ta})", ~a, tuple(not p for p in va)))
        return out

    l1 = layer(items, itertools.product(items, items))
    sample = rnd.sample(l1, 400)
    l2 = layer(sample, itertools.product(sample, sample))
    everything = items + l1 + l2
    groups = {}
    for desc, r, want in everything:
        msgs = []
        if (m := canonical(r)):
            msgs.append(f"not canonical: {m}")
        if vec(r) != want:
            msgs.append("membership differs from pointwise evaluation of the operands")
        if r.is_empty() != (not any(want)):
            msgs.append(f"is_empty()={r.is_empty()}, oracle nonempty={any(want)}")
        if r.is_any() != all(want):
            msgs.append(f"is_any()={r.is_any()}, oracle universal={all(want)}")
        rep = groups.setdefault(want, (desc, r))
        if not same(rep[1], r):
            msgs.append(f"same versions as {rep[0]} = {rep[1]!r} but == / hash disagree")
        if msgs:
            bad += 1
            if bad <= 5:
                print("  VIOLATION input:", desc, "\n    library:", repr(r), "\n    ", "; ".join(msgs))
    reps = list(groups.values())
    for (d1, r1), (d2, r2) in itertools.combinations(reps, 2):
        if r1 == r2 or r2 == r1:
            bad += 1
            print("  VIOLATION: different version sets compare equal:", d1, repr(r1), "|", d2, repr(r2))
    print(f"part 2: grid {len(GRID)} leaves, {len(everything)} results, {len(groups)} distinct sets, "
          f"{len(pts)} probes: violations={bad} {time.time()-t0:.1f}s")
    return bad


def part3():
    import copy
    import pickle

    from packaging.specifiers import Specifier, SpecifierSet

    from dep_logic.specifiers import from_specifierset

    bad = 0
    n = 0
    P = parse_version_specifier
    eqs = [("== V1.0.*", ">=1.0.0,<1.1"), ("!=v1.*", "<1.0||>=2"), ("~=1.0-1", ">=1.0.post1,<2"),
           ("~= 1.0alpha1", ">=1.0a1,<2.0"), ("==1.0_post1", "==1.0.post1"), (">=1.0.pre", ">=1.0rc0"),
           ("<1.0-r3", "<1.0.post3"), ("~=01.002", ">=1.2,<2"), ("==001.*", ">=1,<2"), (">=0!1.0", ">=1"),
           ("==0!1.*", "==1.*"), ("~=0!1.5", "~=1.5"), (" >=1 , <2 ", ">=1,<2"), (">=1,", ">=1"), (",", ""),
           ("==1.0.0.0.*", ">=1.0.0.0.0,<1.0.0.1"), ("~=1.0.0.0.0", "==1.0.0.0.*"), ("||", ""),
           (">=1||", ""), ("<empty>||>=1", ">=1"), ("<empty>||<empty>", "<empty>"),
           ("!=1.0,!=1.0.0", "!=1"), ("==1.0||==1.0.0", "==1"), (">=1 || <2", "")]
    for a, b in eqs:
        n += 1
        try:
            if not same(P(a), P(b)):
                bad += 1
                print("  VIOLATION:", repr(a), "->", repr(P(a)), "should equal", repr(b), "->", repr(P(b)))
        except Exception as e:  # noqa
            bad += 1
            print("  EXCEPTION", type(e).__name__, e, a, b)
    sets = [(SpecifierSet([Specifier(">= 1"), Specifier("< 2")]), ">=1,<2"),
            (SpecifierSet(">=1", prereleases=True), ">=1"), (SpecifierSet(">=1", prereleases=False), ">=1"),
            (SpecifierSet([Specifier("!=1.*"), Specifier("!=2.*")]), "<1||>=3"),
            (SpecifierSet(">=1") & SpecifierSet("<2"), ">=1,<2"), (SpecifierSet(), "")]
    for ss, b in sets:
        n += 1
        if not same(from_specifierset(ss), P(b)):
            bad += 1
            print("  VIOLATION from_specifierset", ss, "->", repr(from_specifierset(ss)), "!=", repr(P(b)))
    anyspec = ~P("<empty>")
    for t in GRID:
        r = build_leaf(t)
        str(r)  # fill the cached_property before copying
        n += 1
        for name, f in (("copy", copy.copy), ("deepcopy", copy.deepcopy),
                        ("pickle", lambda x: pickle.loads(pickle.dumps(x)))):
            if not same(f(r), r):
                bad += 1
                print("  VIOLATION", name, "of", repr(r), "is not equal to it")
        checks = [(anyspec & r, r), (r & anyspec, r), (P("") & r, r), (r & P(""), r),
                  (P("<empty>") | r, r), (r | P("<empty>"), r)]
        for got, want in checks:
            if not same(got, want):
                bad += 1
                print("  VIOLATION identity element:", repr(got), "!=", repr(want))
        for got in (anyspec | r, r | anyspec, P("") | r, r | P("")):
            if not (got.is_any() and same(got, P("")) and same(got, anyspec)):
                bad += 1
                print("  VIOLATION absorbing element:", repr(got), "from", t)
        for got in (P("<empty>") & r, r & P("<empty>")):
            if not (got.is_empty() and same(got, P("<empty>"))):
                bad += 1
                print("  VIOLATION empty absorbing:", repr(got), "from", t)
        c = ~r
        if not ((r & c).is_empty() and (r | c).is_any() and same(~c, r)):
            bad += 1
            print("  VIOLATION complement laws for", t, repr(r), repr(c))
    print(f"part 3: spellings / entry points / copies / identity elements: {n} inputs, violations={bad}")
    return bad


def part4(n, seed):
    from dep_logic.specifiers import InvalidSpecifier

    rnd = random.Random(seed)
    base = ["~=1.0.post1", ">=1.0a1", "==1.0.*", "!=2!1.*", "<1.0.dev1", "~=1.2.3rc1", ">1.0-1",
            "<=v1.0_beta.2", "~=1.0.0", ">=1,<2||==3.*"]
    chars = list("0123456789.*!-_vVabcrpostdev ,<>=~|") + ["ſ", "İ", "ı", "K", " ",
             " ", "٠", "１", "²", "\t", "\n", "\x1c", "\x1f", "\x85", " ", "\x0b", "\x0c"]
    ok = inv = bad = 0
    for _ in range(n):
        s = list(rnd.choice(base))
        for _ in range(rnd.choice([1, 1, 2, 3])):
            k, pos = rnd.random(), rnd.randrange(len(s) + 1)
            if k < 0.5:
                s.insert(pos, rnd.choice(chars))
            elif k < 0.8 and s:
                s[min(pos, len(s) - 1)] = rnd.choice(chars)
            elif s:
                del s[min(pos, len(s) - 1)]
        s = "".join(s)
        if "===" in s:
            continue
        try:
            r = parse_version_specifier(s)
            ok += 1
            if (m := canonical(r)):
                bad += 1
                print("  VIOLATION", repr(s), "->", repr(r), m)
        except InvalidSpecifier:
            inv += 1
        except Exception as e:  # noqa
            bad += 1
            if bad <= 5:
                print("  EXCEPTION of the wrong type", type(e).__name__, e, "on", repr(s))
    print(f"part 4: mutated specifier text: {ok} parsed (all canonical), {inv} InvalidSpecifier, violations={bad}")
    return bad


if __name__ == "__main__":
    n = int(sys.argv[1]) if len(sys.argv) > 1 else 20000
    seed = int(sys.argv[2]) if len(sys.argv) > 2 else 0
    total = part1(n, seed) + part2(seed) + part3() + part4(max(n, 1000) * 2, seed)
    print("NEW VIOLATIONS FOUND:" if total else "no new violation of C05 found;", total if total else "")
    sys.exit(1 if total else 0)
