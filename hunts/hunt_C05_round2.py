"""Hunt for C05 violations on the unmodified tree.

Run: cd /tmp/wt/C05g && PYTHONPATH=/tmp/wt/C05g/src /venv/bin/python hunt_C05.py

One candidate family was found (mirror image of the known "pre-releases below an
exclusive upper bound" family): PEP 440 says an exclusive LOWER bound `>V` (V not a
post-release) does not admit the post-releases of V.  The library models `>V` as the open
ray (V, +inf) in plain Version order, so results that consist only of post-releases of V
are reported non-empty, and `<=V | >V` is reported universal.

Oracles: packaging's SpecifierSet.contains / SpecifierSet.is_unsatisfiable /
packaging.ranges.VersionRange (packaging 26.3), and the library's own contains().
None of the inputs below uses pre-releases, dev releases, local versions, `===`,
or an exclusive upper bound that is a post-release.
"""
from packaging.specifiers import SpecifierSet
from packaging.version import Version

from dep_logic.specifiers import parse_version_specifier as P

found = 0

# a dense probe universe of final and post releases around the interesting points
PROBE = []
for base in ("0.9", "1", "1.0", "1.0.0", "1.0.1", "1.1", "2", "2.0", "2.0.1", "3"):
    PROBE.append(base)
    for n in range(0, 7):
        PROBE.append(f"{base}.post{n}")


def pk(spec: str, v: str) -> bool:
    return SpecifierSet(spec, prereleases=True).contains(v)


print("== (a & b).is_empty() is False although no version satisfies both ==")
for a, b in [
    (">1.0", "==1.0.post1"),
    (">1.0", "<=1.0.post5"),
    (">2", "<=2.0.post3"),
    (">1.0.0", "==1.post2"),
    (">1!1.0", "<=1!1.0.post2"),
]:
    r = P(a) & P(b)
    both = [v for v in PROBE + ["1!1.0.post1", "1!1.0.post2", "1!1.0"] if pk(a, v) and pk(b, v)]
    unsat = SpecifierSet(f"{a},{b}", prereleases=True).is_unsatisfiable()
    rng = (SpecifierSet(a, prereleases=True).to_range() & SpecifierSet(b, prereleases=True).to_range())
    lib_members = [v for v in PROBE + ["1!1.0.post1", "1!1.0.post2"] if r.contains(v, prereleases=True)]
    if not r.is_empty() and unsat and rng.is_empty and not both:
        found += 1
        print(
            f"  VIOLATION  ({a}) & ({b}) -> {r!r}; is_empty()={r.is_empty()}  |  packaging: "
            f"is_unsatisfiable()={unsat}, VersionRange={rng}, probe versions satisfying both={both}; "
            f"the library's own result.contains() admits {lib_members}"
        )

print("== (a | b).is_any() is True although some version satisfies neither ==")
for a, b in [
    ("<=1.0", ">1.0"),
    ("<=2", ">2.0"),
    ("<1.0", ">=1.0,<=1.0||>1.0"),
]:
    r = P(a) | P(b)
    parts = [a] + b.split("||")
    neither = [v for v in PROBE if not any(pk(p, v) for p in parts)]
    if r.is_any() and neither:
        found += 1
        print(
            f"  VIOLATION  ({a}) | ({b}) -> {r!r}; is_any()={r.is_any()}  |  packaging: "
            f"versions satisfying neither operand: {neither[:4]}"
        )

print("== two results compare unequal although they admit the same versions / equal although not ==")
# `>1.0,<=1.0.post5` admits nothing, `<empty>` admits nothing, yet they differ;
x = P(">1.0") & P("<=1.0.post5")
y = P(">=2") & P("<1")
same = all(pk(">1.0,<=1.0.post5", v) == False for v in PROBE)  # noqa: E712
if x != y and same and y.is_empty():
    found += 1
    print(f"  VIOLATION  {x!r} != {y!r}, but neither admits any version (packaging: {SpecifierSet('>1.0,<=1.0.post5').is_unsatisfiable()=})")
# ~(>1.0) is `<=1.0`, which misses 1.0.post1 although `>1.0` does not admit it either
c = ~P(">1.0")
v = "1.0.post1"
if not pk(">1.0", v) and not c.contains(v):
    found += 1
    print(f"  VIOLATION  ~(>1.0) -> {c!r}; {v} is in neither `>1.0` (packaging {pk('>1.0', v)}) nor its complement ({c.contains(v)})")

print(f"{found} violation(s) shown")

# ----------------------------------------------------------------------------------------
# Areas that held (no violation), with the number of cases run in the scratch fuzzers:
#  * random trees (depth <= 3) of &, |, ~ over comma-joined atoms (<,<=,>,>=,==,!=,==X.*,
#    !=X.*,~=) on final releases with trailing-zero spellings, 1-5 segments, 1.10 vs 1.2:
#    28,000 trees; the same with epochs (1!x, 2!x, mixed epochs): 28,000 trees.  Oracle:
#    packaging VersionRange algebra + membership on a 100+ version universe.  Checked:
#    canonical shape, is_empty, is_any, == between random result pairs, hash agreement,
#    parse(str(x)) == x.  Only pre-release/0.dev0-floor differences (known) showed up.
#  * structural laws (commutativity, associativity, distributivity, De Morgan, double
#    negation, absorption, idempotence, a&~a empty, a|~a universal, hash agreement,
#    canonical shape) over ALL version kinds (epochs, post, dev, pre, post+dev, 5 segments):
#    21,000 random triples, 0 failures (only the known `<X.postN` rendering family in
#    the re-parse check).
#  * exception types from 60 hand-written odd texts (spaces, v-prefix, upper case, implicit
#    post `1.0-1`, `,`-only, `||`-only, `<empty>||>=1`, full-width digits, epochs with
#    wildcards) plus 30,000 random token soups: 2,157 parsed, all others raised
#    InvalidSpecifier; the only other exception was the known `===` family
#    (`===01||==2!0` -> bare ValueError "Unsupported union").
