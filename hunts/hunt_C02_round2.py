"""Hunt for violations of C02 (marker & and | are sound) on the library as it is.

Run:  cd /tmp/wt/C02g && PYTHONPATH=/tmp/wt/C02g/src /venv/bin/python hunt_C02.py [quick]

Oracle: every *atom* is evaluated by packaging.markers.Marker on the concrete
environment (``extra`` atoms by the documented multi-valued reading: normalised name
in / not in the set), atoms are combined with Python's and/or, and that is compared
with ``evaluate`` of what the library builds through parse_marker, ``&`` and ``|`` and
through rendering the result and parsing it again.

The script enumerates small scopes exhaustively (pairs, triples and some quadruples of
atoms over one variable or over python_version/python_full_version) instead of
sampling, and prints every disagreement that is outside the already known families.
"""
from __future__ import annotations

import itertools
import re
import sys
import time

from packaging.markers import Marker as PM

from dep_logic.markers import parse_marker

QUICK = len(sys.argv) > 1 and sys.argv[1] == "quick"


def norm(n: str) -> str:
    return re.sub(r"[-_.]+", "-", n).lower()


_pm: dict[str, PM] = {}
_extra_re = re.compile(r'^(?:extra (==|!=) "(.*)"|"(.*)" (==|!=) extra)$')


def eval_atom(a: str, env: dict) -> bool:
    m = _extra_re.match(a)
    if m:
        op = m.group(1) or m.group(4)
        v = m.group(2) if m.group(1) else m.group(3)
        has = norm(v) in {norm(x) for x in env["extra"]}
        return has if op == "==" else not has
    pm = _pm.get(a)
    if pm is None:
        pm = _pm[a] = PM(a)
    e = dict(env)
    e["extra"] = ""
    return pm.evaluate(e)


BASE_ENV = {
    "os_name": "posix",
    "sys_platform": "linux",
    "platform_machine": "x86_64",
    "platform_system": "Linux",
    "platform_python_implementation": "CPython",
    "implementation_name": "cpython",
    "platform_version": "#1 SMP",
    "platform_release": "5.10.0",
    "implementation_version": "3.8.1",
    "python_full_version": "3.8.1",
    "python_version": "3.8",
    "extra": set(),
}


def py_envs(versions):
    for v in versions:
        e = dict(BASE_ENV)
        e["python_full_version"] = v
        e["python_version"] = ".".join(v.split(".")[:2])
        yield e


def var_envs(name, values):
    for v in values:
        e = dict(BASE_ENV)
        e[name] = v
        yield e


found: list[str] = []
stats = {"cases": 0, "evals": 0}


def combos(atoms_truth, n):
    """All and/or trees over n atoms (left/right nested and flat groupings)."""
    if n == 2:
        shapes = ["{0} and {1}", "{0} or {1}"]
    elif n == 3:
        shapes = [
            "({0} and {1}) or {2}", "({0} or {1}) and {2}", "{0} and {1} and {2}",
            "{0} or {1} or {2}", "{0} and ({1} or {2})", "{0} or ({1} and {2})",
        ]
    else:
        shapes = [
            "({0} or {1}) and ({2} or {3})", "({0} and {1}) or ({2} and {3})",
            "({0} and {1}) and ({2} or {3})", "({0} or {1}) or ({2} and {3})",
            "({0} and {1}) and ({2} and {3})", "({0} or {1}) or ({2} or {3})",
        ]
    return shapes


def shape_eval(shape: str, vals):
    expr = shape.format(*["V%d" % i for i in range(len(vals))])
    return eval(expr, {}, {"V%d" % i: v for i, v in enumerate(vals)})


def check_group(label, atoms, envs, sizes=(2, 3), limit=None):
    """atoms: list of atom strings over the envs; exhaustive over ordered tuples."""
    envs = list(envs)
    truth = {}
    for a in atoms:
        try:
            truth[a] = [eval_atom(a, e) for e in envs]
        except Exception as exc:  # atom not well defined for packaging on these envs
            truth[a] = None
    good = [a for a in atoms if truth[a] is not None]
    t0 = time.time()
    for n in sizes:
        shapes = combos(None, n)
        count = 0
        for tup in itertools.permutations(good, n) if n < 4 else itertools.product(good, repeat=n):
            if limit and count >= limit:
                break
            count += 1
            for shape in shapes:
                text = shape.format(*tup)
                stats["cases"] += 1
                # also build it with the operators from the parsed halves
                try:
                    m = parse_marker(text)
                    variants = [("parse", m)]
                    if n == 2:
                        a, b = parse_marker(tup[0]), parse_marker(tup[1])
                        variants.append(("op", (a & b) if " and " in shape else (a | b)))
                    elif n == 4:
                        mm = re.match(r"^\((.*?)\) (and|or) \((.*)\)$", text)
                        l, r = parse_marker(mm.group(1)), parse_marker(mm.group(3))
                        variants.append(("op", (l & r) if mm.group(2) == "and" else (l | r)))
                    s = str(variants[-1][1])
                    if s and s != "<empty>":
                        variants.append(("reparse", parse_marker(s)))
                except Exception as exc:
                    msg = f"[{label}] {text!r}: building raised {type(exc).__name__}: {exc}"
                    if msg not in found:
                        found.append(msg)
                        print(msg)
                    continue
                for i, env in enumerate(envs):
                    exp = shape_eval(shape, [truth[a][i] for a in tup])
                    for how, mk in variants:
                        stats["evals"] += 1
                        try:
                            got = mk.evaluate(env)
                        except Exception as exc:
                            got = f"{type(exc).__name__}: {exc}"
                        if got != exp:
                            key = f"[{label}] {text!r} via {how} -> {str(mk)!r}"
                            if not any(f.startswith(key) for f in found):
                                msg = (
                                    f"{key}: env {label_env(env)} library={got} oracle={exp}"
                                )
                                found.append(msg)
                                print(msg)
    print(f"  .. {label}: {len(good)} atoms, sizes {sizes}, {time.time() - t0:.1f}s", flush=True)


def label_env(env):
    return {k: v for k, v in env.items() if BASE_ENV.get(k) != v or k in ("python_full_version",)}


def vatoms(name, ops_values, reversed_values=()):
    out = []
    for op, values in ops_values.items():
        for v in values:
            out.append(f'{name} {op} "{v}"')
    for op, values in dict(reversed_values).items():
        for v in values:
            out.append(f'"{v}" {op} {name}')
    return out


def main():
    pyvers = [
        "2.7.18", "3.0.0", "3.0.1", "3.1.0", "3.7.0", "3.7.9", "3.8.0", "3.8.1", "3.8.2", "3.8.10",
        "3.9.0", "3.9.1", "3.10.0", "3.10.1", "3.11.0", "4.0.0", "4.0.1", "4.1.0",
    ]
    cmp_ops = ["<", "<=", ">", ">="]

    # 1. python_full_version alone: many spellings of the same bounds
    vals = ["3", "3.8", "3.8.0", "3.8.1", "3.9", "3.9.0", "3.10", "4", "4.0", "3.8.0.0", "3.8.1.0"]
    if QUICK:
        vals = ["3.8", "3.8.0", "3.8.1", "3.9", "4"]
    pfv = vatoms(
        "python_full_version",
        {**{op: vals for op in cmp_ops}, "==": vals + ["3.*", "3.8.*", "3.8.1.*", "3.8.0.*"],
         "!=": vals[:6] + ["3.*", "3.8.*", "3.8.1.*"], "~=": ["3.8", "3.8.0", "3.8.1", "3.0", "3.8.0.0", "3.8.1.0"]},
        {"<": ["3.8", "3.8.1"], ">=": ["3.9", "3.8.0"], "==": ["3.8.1", "3.8"], "!=": ["3.8.0"]},
    )
    check_group("pfv", pfv, py_envs(pyvers), sizes=(2,))
    check_group("pfv3", pfv[:: 3 if not QUICK else 5], py_envs(pyvers), sizes=(3,))

    # 2. python_version alone
    pvals = ["3", "3.0", "3.8", "3.8.0", "3.9", "3.10", "3.10.0", "4", "3.8.1", "3.8.0.0"]
    if QUICK:
        pvals = ["3", "3.8", "3.8.0", "3.9", "3.10"]
    pv = vatoms(
        "python_version",
        {**{op: pvals for op in cmp_ops}, "==": pvals + ["3.*", "3.8.*", "3.10.*", "3.8.0.*"],
         "!=": pvals[:7] + ["3.*", "3.8.*"], "~=": ["3.8", "3.0", "3.8.0", "3.10", "3.8.1", "3.8.0.0"]},
        {"<": ["3.8", "3.10"], ">=": ["3.9", "3"], "==": ["3.8", "3.8.0"], "!=": ["3.10"]},
    )
    check_group("pv", pv, py_envs(pyvers), sizes=(2,))

    # 3. python_version x python_full_version (ordered pairs both ways, triples on a thinned pool)
    mixed = pv + pfv
    envs = list(py_envs(pyvers))
    truth_ok = []
    check_group("pv*pfv", mixed, envs, sizes=(2,))
    check_group("pv*pfv 3", (pv[::4] + pfv[::5]) if not QUICK else (pv[::9] + pfv[::11]), envs, sizes=(3,))
    check_group("pv*pfv 4", pv[1::11] + pfv[2::13], envs, sizes=(4,), limit=4000 if not QUICK else 300)

    # 4. platform_release with valid versions of 1..4 segments and an epoch
    rels = ["4.19", "5", "5.0", "5.4.0", "5.10", "5.10.0", "5.10.0.1", "5.10.1", "5.11", "6", "6.0.0", "6.1", "10", "21.6.0", "1!1.0"]
    rvals = ["5", "5.0", "5.10", "5.10.0", "5.10.1", "6", "6.0", "1!0", "1!1.0", "0!5.10"]
    rel = vatoms(
        "platform_release",
        {**{op: rvals for op in cmp_ops}, "==": rvals + ["5.*", "5.10.*", "5.10.0.*", "1!1.*"],
         "!=": rvals + ["5.*", "5.10.*", "1!1.*"], "~=": ["5.0", "5.10", "5.10.0", "5.10.0.0", "1!1.0", "5.4.0"]},
        {"<": ["5.10", "6"], ">=": ["5.10.0"], "==": ["5.10"], "!=": ["6"]},
    )
    check_group("platform_release", rel if not QUICK else rel[::3], var_envs("platform_release", rels), sizes=(2,))
    check_group("platform_release 3", rel[::4] if not QUICK else rel[::9], var_envs("platform_release", rels), sizes=(3,))

    # 5. implementation_version (compared as a version when evaluated)
    iv = vatoms(
        "implementation_version",
        {**{op: ["3.8", "3.8.0", "3.8.1", "3.10"] for op in cmp_ops}, "==": ["3.8", "3.8.0", "3.8.*", "3.10"],
         "!=": ["3.8", "3.8.0", "3.8.*"], "~=": ["3.8", "3.8.0"], "in": ["3.8", "3.8.0 3.10"], "not in": ["3.8.0"]},
        {"==": ["3.8"], "<": ["3.10"], "in": ["3.8"]},
    )
    check_group("implementation_version", iv, var_envs("implementation_version", ["3.8", "3.8.0", "3.8.1", "3.10", "3.10.0", "7.3.9", "3.8.0.0"]), sizes=(2, 3) if not QUICK else (2,))

    # 6. one string variable: values that are substrings / superstrings / equal up to case
    svals = ["", "a", "ab", "abc", "b", "a b", "A", "ab abc"]
    s_env = ["", "a", "ab", "abc", "b", "c", "A", "a b", "ab abc", "abcd"]
    st = vatoms(
        "os_name",
        {"==": svals, "!=": svals, "in": svals, "not in": svals},
        {"==": ["a", "ab"], "!=": ["a", "ab"], "in": ["", "a", "ab", "b"], "not in": ["", "a", "ab", "b"]},
    )
    check_group("os_name", st, var_envs("os_name", s_env), sizes=(2,))
    st3 = [a for a in st if not any(x in a for x in ('"A"', '"a b"'))]
    check_group("os_name 3", st3[::2] if not QUICK else st3[::5], var_envs("os_name", s_env), sizes=(3,))
    # groups: (== or ==) / (!= and !=) against everything, and against each other
    eqs = [f'os_name == "{v}"' for v in ["a", "ab", "abc", "b"]]
    nes = [f'os_name != "{v}"' for v in ["a", "ab", "abc", "b"]]
    quad_pool = eqs + nes + ['os_name in "ab abc"', 'os_name not in "ab abc"', '"a" in os_name', '"b" not in os_name', '"a" == os_name']
    check_group("os_name 4", quad_pool, var_envs("os_name", s_env), sizes=(4,), limit=None if not QUICK else 500)

    # 7. platform_version / platform_machine: version looking strings stay strings
    pvv = vatoms(
        "platform_version",
        {"==": ["1.0", "1.0.0", "#1 SMP"], "!=": ["1.0", "1.0.0"], "in": ["1.0", "1.0.0", "#1 SMP x"], "not in": ["1.0", "1.0.0"]},
        {"in": ["1.0", "SMP"], "not in": ["1.0"], "==": ["1.0"]},
    )
    check_group("platform_version", pvv, var_envs("platform_version", ["1.0", "1.0.0", "1", "#1 SMP", "#1 SMP x", ""]), sizes=(2, 3) if not QUICK else (2,))

    # 8. extra: several spellings of one name, several names, several values at once
    ex = [f'extra {op} "{v}"' for op in ("==", "!=") for v in ["a", "A", "a_b", "a-b", "A.B", "b", ""]]
    ex += ['"a" == extra', '"A_B" != extra', '"b" != extra']
    ex_envs = []
    for s in [set(), {""}, {"a"}, {"A"}, {"b"}, {"a", "b"}, {"a_b"}, {"A-B", "a"}, {"a.b", "b"}, {"c"}, {"a", "a-b", "b"}]:
        e = dict(BASE_ENV)
        e["extra"] = s
        ex_envs.append(e)
        e2 = dict(e)
        e2["os_name"] = "nt"
        ex_envs.append(e2)
    check_group("extra", ex, ex_envs, sizes=(2, 3) if not QUICK else (2,))
    exo = ex[::3] + ['os_name == "nt"', 'os_name != "nt"', 'os_name == "posix"']
    check_group("extra+os 4", exo, ex_envs, sizes=(4,), limit=None if not QUICK else 500)

    # 9. two different variables + python: cnf/dnf rewriting, shared atoms
    cross = [
        'python_version >= "3.8"', 'python_version < "3.8"', 'python_full_version >= "3.8.1"', 'python_version == "3.9"',
        'os_name == "nt"', 'os_name != "nt"', 'os_name == "posix"', 'sys_platform == "linux"', 'sys_platform != "linux"',
        'extra == "a"', 'extra != "a"',
    ]
    cenvs = []
    for v in ["3.7.9", "3.8.0", "3.8.1", "3.9.0", "3.10.0"]:
        for osn in ["nt", "posix", "java"]:
            for sp in ["linux", "win32"]:
                for exs in [set(), {"a"}, {"a", "b"}]:
                    e = dict(BASE_ENV)
                    e.update(python_full_version=v, python_version=".".join(v.split(".")[:2]), os_name=osn, sys_platform=sp, extra=exs)
                    cenvs.append(e)
    check_group("cross 3", cross, cenvs, sizes=(3,))
    check_group("cross 4", cross, cenvs, sizes=(4,), limit=None if not QUICK else 500)

    lock_file_probe()
    literal_probe()
    odd_operand_probe()
    random_fuzz(300 if QUICK else 3000, 1, seed=1)
    random_fuzz(200 if QUICK else 3000, 2, seed=2)

    print()
    print(f"cases built: {stats['cases']}, evaluations compared: {stats['evals']}")
    if found:
        print(f"{len(found)} distinct disagreement(s) printed above")
    else:
        print("no violation of C02 found outside the known families")


# ---------------------------------------------------------------------------
# further probes: lock_file context, awkward string literals, odd-but-legal version
# operands, and a random generator of deeper markers
# ---------------------------------------------------------------------------
def report(msg):
    if msg not in found:
        found.append(msg)
        print(msg)


def lock_file_probe():
    atoms = ['"a" in extras', '"a" not in extras', '"A_b" in extras', '"a-b" not in extras', '"b" in extras',
             '"b" not in extras', '"x" in dependency_groups', '"x" not in dependency_groups',
             '"X.y" in dependency_groups', 'os_name == "nt"', 'os_name != "nt"', 'python_version >= "3.8"']
    envs = [
        {"extras": ex, "dependency_groups": dg, "os_name": osn, "python_version": "3.8", "python_full_version": "3.8.1"}
        for ex in [set(), {"a"}, {"b"}, {"a", "b"}, {"a-b"}, {"A_B", "b"}]
        for dg in [set(), {"x"}, {"x-y"}, {"X_Y", "x"}]
        for osn in ["nt", "posix"]
    ]
    shapes = ["{0} and {1}", "{0} or {1}", "({0} and {1}) or {2}", "({0} or {1}) and {2}", "{0} and {1} and {2}",
              "{0} or {1} or {2}", "({0} or {1}) and ({2} or {3})", "({0} and {1}) or ({2} and {3})"]
    for k in (2, 3) if QUICK else (2, 3, 4):
        tuples = itertools.permutations(atoms, k) if k < 4 else itertools.product(atoms[:9], repeat=4)
        for tup in tuples:
            for sh in shapes:
                if sh.count("{") != k:
                    continue
                text = sh.format(*tup)
                stats["cases"] += 1
                try:
                    m = parse_marker(text)
                    s = str(m)
                    m2 = parse_marker(s) if s and s != "<empty>" else m
                except Exception as exc:
                    report(f"[lock_file] {text!r}: {type(exc).__name__}: {exc}")
                    continue
                for e in envs:
                    vals = [PM(a).evaluate(e, context="lock_file") for a in tup]
                    exp = shape_eval(sh, vals)
                    for mm in (m, m2):
                        stats["evals"] += 1
                        got = mm.evaluate(e, context="lock_file")
                        if got != exp:
                            report(f"[lock_file] {text!r} -> {s!r}: env {e} library={got} oracle={exp}")
    print("  .. lock_file context (extras / dependency_groups) done", flush=True)


def literal_probe():
    vals = ["a'b", 'a"b', "a\\\\b", "a\\nb", " a", "a ", "é", "A", "", "a\\tb", "x'y", "\\x41", "\\101",
            "a,b", "(a)", "a and b"]
    atoms = []
    for v in vals:
        lit = f"'{v}'" if '"' in v else f'"{v}"'
        atoms += [f"os_name {op} {lit}" for op in ("==", "!=", "in", "not in")]
        atoms += [f"{lit} in os_name", f"{lit} == os_name"]
    good = []
    for a in atoms:
        try:
            PM(a)
            good.append(a)
        except Exception:
            pass
    envs = [{"os_name": v} for v in ["a'b", 'a"b', "a\\b", "a\nb", " a", "a ", "é", "A", "", "a\tb", "a", "b", "x'y", "a,b", "(a)", "a and b"]]
    pool = good[::3] if QUICK else good
    for a, b in itertools.permutations(pool, 2):
        for word in ("and", "or"):
            stats["cases"] += 1
            try:
                ma, mb = parse_marker(a), parse_marker(b)
                m = (ma & mb) if word == "and" else (ma | mb)
                s = str(m)
                m2 = parse_marker(s) if s and s != "<empty>" else m
            except Exception as exc:
                report(f"[literals] {a!r} {word} {b!r}: {type(exc).__name__}: {exc}")
                continue
            for e in envs:
                ea, eb = PM(a).evaluate(e), PM(b).evaluate(e)
                exp = (ea and eb) if word == "and" else (ea or eb)
                for mm in (m, m2):
                    stats["evals"] += 1
                    if mm.evaluate(e) != exp:
                        report(f"[literals] {a!r} {word} {b!r} -> {s!r}: env {e} library={mm.evaluate(e)} oracle={exp}")
    print("  .. string literals with quotes / escapes / blanks done", flush=True)


def odd_operand_probe():
    atoms = """python_version >= "3.8"
python_version == "3.8.*"
python_version ~= "3.8"
python_version ~= "3.8.0"
"3.8" ~= python_version
"3.8" == python_version
"3.8.*" == python_version
python_version >= " 3.8 "
python_version == "03.08"
python_version >= "v3.8"
python_full_version ~= "3.8.0.0.0"
python_full_version == "3.8.0.0.*"
python_full_version == "1!3.8.*"
python_full_version ~= "1!3.8"
python_full_version >= "1!3"
python_full_version < "1!0"
python_full_version >= "3"
python_full_version == "3"
python_full_version != "3"
python_full_version >= "0"
python_full_version < "0"
python_full_version == "0.*"
python_full_version >= "V3.8"
python_full_version >= "3.8.01"
python_full_version >= "3.8.0.0.0.0.0.0"
python_full_version >= "99999999999999999999.1"
python_version > "99999999999999999999"
platform_release ~= "5.10"
platform_release == "5.*"
platform_release != "5.10.*"
platform_release == "5.10.0-generic"
platform_release != "5.10.0-generic"
implementation_version >= "3.8"
implementation_version ~= "3.8"
implementation_version == "3.8.*"
os_name == "posix"
os_name != "posix"
os_name in "posix nt"
"pos" in os_name
extra == "a"
extra != "a"
extra == "A_.-b"
"a" == extra
platform_version == "#1 SMP"
platform_version in "a, b"
"x86" in platform_machine""".splitlines()
    envs = []
    for v in ["3.7.9", "3.8.0", "3.8.1", "3.9.0", "4.0.0"]:
        e = dict(BASE_ENV)
        e.update(python_full_version=v, python_version=".".join(v.split(".")[:2]), extra={"a"})
        envs.append(e)
    ok = []
    for a in atoms:
        try:
            [eval_atom(a, e) for e in envs]
            ok.append(a)
        except Exception:
            pass
    for a, b in itertools.product(ok[::2] if QUICK else ok, repeat=2):
        for word in ("and", "or"):
            stats["cases"] += 1
            try:
                ma, mb = parse_marker(a), parse_marker(b)
                m = (ma & mb) if word == "and" else (ma | mb)
                s = str(m)
                m2 = parse_marker(s) if s and s != "<empty>" else m
            except Exception as exc:
                report(f"[odd operands] {a!r} {word} {b!r}: {type(exc).__name__}: {exc}")
                continue
            for e in envs:
                ea, eb = eval_atom(a, e), eval_atom(b, e)
                exp = (ea and eb) if word == "and" else (ea or eb)
                for mm in (m, m2):
                    stats["evals"] += 1
                    got = mm.evaluate(e)
                    if got != exp:
                        report(f"[odd operands] {a!r} {word} {b!r} -> {s!r}: env {label_env(e)} library={got} oracle={exp}")
    print("  .. odd but legal operands (epochs, blanks, leading zeros, long releases, reversed ~=) done", flush=True)


def random_fuzz(n, depth, seed):
    """Random and/or trees (2-3 children per node) over a mixed atom pool; 3 s budget per case."""
    import random
    import signal

    rng = random.Random(seed)
    pyv = ["2.7.18", "3.0.0", "3.6.0", "3.7.9", "3.8.0", "3.8.1", "3.8.10", "3.9.0", "3.10.0", "3.10.1", "3.11.5", "4.0.0", "4.1.2"]
    svars = {
        "os_name": ["posix", "nt", "java", ""], "sys_platform": ["linux", "win32", "darwin", "cygwin", "linux2"],
        "platform_machine": ["x86_64", "arm64", "aarch64"], "platform_system": ["Linux", "Windows", "Darwin"],
        "platform_python_implementation": ["CPython", "PyPy"], "implementation_name": ["cpython", "pypy"],
        "platform_version": ["#1 SMP", "1.0", "1.0.0"],
    }
    vpool = {
        "python_version": (["3", "3.0", "3.7", "3.8", "3.8.0", "3.9", "3.10", "3.10.0", "3.8.1", "4", "2.7", "3.8.0.0"], ["3.*", "3.8.*", "3.10.*", "3.8.0.*"]),
        "python_full_version": (["3", "3.8", "3.8.0", "3.8.1", "3.8.10", "3.9", "3.10.0", "3.10.1", "4", "3.8.0.0", "0!3.8", "3.08"], ["3.*", "3.8.*", "3.8.1.*", "3.10.*"]),
        "platform_release": (["5", "5.10", "5.10.0", "6", "6.1", "6.0", "10"], ["5.*", "5.10.*", "6.0.*"]),
        "implementation_version": (["3.8", "3.8.0", "3.8.1", "3.10"], ["3.*", "3.8.*"]),
    }
    tilde = ["3.8", "3.8.0", "3.8.1", "3.0", "3.10", "3.8.0.0", "5.10", "6.0", "5.10.0"]

    def atom():
        k = rng.random()
        if k < 0.68:
            name = rng.choices(list(vpool), [30, 25, 8, 5])[0]
            vals, wild = vpool[name]
            op = rng.choice(["==", "!=", "<", "<=", ">", ">=", "~="])
            v = rng.choice(tilde) if op == "~=" else rng.choice(wild) if op in ("==", "!=") and rng.random() < 0.35 else rng.choice(vals)
            if rng.random() < 0.2 and op != "~=" and "*" not in v:
                return f'"{v}" {op} {name}'
            return f'{name} {op} "{v}"'
        if k < 0.80:
            v, op = rng.choice(["a", "b", "A", "a_b", "a-b", "A.B", "c", ""]), rng.choice(["==", "!="])
            return f'"{v}" {op} extra' if rng.random() < 0.2 else f'extra {op} "{v}"'
        name = rng.choice(list(svars))
        v = rng.choice(svars[name] + ["x", "lin", "win", "posix nt", "linux darwin"])
        op = rng.choice(["==", "!=", "==", "!=", "in", "not in"])
        return f'"{v}" {op} {name}' if rng.random() < 0.25 else f'{name} {op} "{v}"'

    def tree(d):
        if d == 0 or rng.random() < 0.3:
            return atom()
        return (rng.choice(["and", "or"]), [tree(d - 1) for _ in range(rng.choice([2, 2, 3]))])

    def render(t):
        return t if isinstance(t, str) else "(" + f" {t[0]} ".join(render(k) for k in t[1]) + ")"

    def truth(t, env):
        if isinstance(t, str):
            return eval_atom(t, env)
        vals = [truth(k, env) for k in t[1]]
        return all(vals) if t[0] == "and" else any(vals)

    def env():
        v = rng.choice(pyv)
        e = {k: rng.choice(vs) for k, vs in svars.items()}
        e.update(python_full_version=v, python_version=".".join(v.split(".")[:2]),
                 platform_release=rng.choice(["5.10.0", "6.1", "6", "10", "5.4.0", "5.10", "6.0.0"]),
                 implementation_version=rng.choice(["3.8.0", "3.10.1", "7.3.9", "3.8"]),
                 extra=rng.choice([set(), {""}, {"a"}, {"b"}, {"a", "b"}, {"A_b"}, {"a-b", "c"}, {"a.b"}]))
        return e

    class Timeout(BaseException):
        pass

    def on_alarm(*_):
        raise Timeout()

    signal.signal(signal.SIGALRM, on_alarm)
    timeouts = 0
    for _ in range(n):
        ta, tb = tree(depth), tree(depth)
        sa, sb = render(ta), render(tb)
        stats["cases"] += 1
        signal.alarm(3)
        try:
            a, b = parse_marker(sa), parse_marker(sb)
            res = {"and": a & b, "or": a | b}
            for word in ("and", "or"):
                s = str(res[word])
                res["re_" + word] = parse_marker(s) if s and s != "<empty>" else res[word]
            for e in [env() for _ in range(25)]:
                oa, ob = truth(ta, e), truth(tb, e)
                for key, m in res.items():
                    exp = (oa and ob) if key.endswith("and") else (oa or ob)
                    stats["evals"] += 1
                    got = m.evaluate(e)
                    if got != exp:
                        report(f"[random] {sa} {key} {sb} -> {str(m)!r}: env {label_env(e)} library={got} oracle={exp}")
        except Timeout:
            timeouts += 1  # exponential normalisation, a known family
        except Exception as exc:
            report(f"[random] {sa} / {sb}: {type(exc).__name__}: {exc}")
        finally:
            signal.alarm(0)
    print(f"  .. random markers: {n} operand pairs of depth {depth}, {timeouts} skipped after 3 s", flush=True)


if __name__ == "__main__":
    main()
