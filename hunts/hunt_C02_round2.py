"""C02 hunt (round 3) - run on the UNMODIFIED tree:
    cd /tmp/wt/C02i && PYTHONPATH=/tmp/wt/C02i/src /venv/bin/python hunt_C02.py [scale]

Prints every violation of C02 it finds (input, library answer, oracle answer).  The oracle is
packaging's evaluation of every single atom, combined with Python's and/or (multi-valued
`extra` handled as membership), i.e. independent of the library's simplifier.
Known families (1)-(20) are kept out of the generators.

Parts:
  general   random and/or trees over all variable kinds, a & b / a | b (strings through parse_marker)
  build     the same trees built through a random mix of constructors, .of() and operators in both
            operand orders, with Any/Empty members, single-member compounds
  versions  python_version / python_full_version / platform_release only, unusual literals
            (spaces, leading zeros, 0! epoch, trailing .0, 1-4 component wildcards, literal on
            the left incl. ~= and wildcards)
  grouped   exhaustive: EqualityMarkerUnion / InequalityMultiMarker / atoms (==, !=, in, not in,
            both operand orders) on one variable, all pairs, & and |, plus render + re-parse
  roundtrip str(result) re-parsed, only()/exclude()/without_extras() on results must not raise
"""
import random, sys, itertools, time
from packaging.markers import Marker
from dep_logic.markers import parse_marker, MarkerExpression, MultiMarker, MarkerUnion, AnyMarker, EmptyMarker
from dep_logic.markers.single import EqualityMarkerUnion, InequalityMultiMarker
from dep_logic.utils import OrderedSet

STR_VARS = ["os_name", "sys_platform", "platform_machine", "platform_system", "implementation_name", "platform_python_implementation", "platform_version"]
STR_VALS = ["nt", "posix", "linux", "win32", "darwin", "x86_64", "arm64", "", "n", "lin", "Linux", "linux2", "posix nt", "a b"]
PV = ["3.7", "3.8", "3.9", "3.10", "3.11", "2.7", "3", "3.0", "4.0", "3.8.0", "3.08", "3.8.1", "3.*", "3.8.*", "0", "1!3.8", "3.8.0.0"]
PFV = PV + ["3.8.5", "3.9.0", "3.9.1", "3.10.0", "3.8.10", "3.8.0.1", "3.8.5.*", "3.10.2", "4", "3.7.9"]
VOPS = ["==", "!=", "<", "<=", ">", ">=", "~="]
EXTRAS = ["a", "b", "A", "a_b", "a-b", "A.B", "c"]


def gen_atom(rng):
    k = rng.random()
    if k < 0.35:
        name = rng.choice(STR_VARS)
        op = rng.choice(["==", "!=", "in", "not in", "==", "!="])
        val = rng.choice(STR_VALS)
        rev = rng.random() < 0.25
    elif k < 0.8:
        name = rng.choice(["python_version", "python_full_version", "python_version", "python_full_version", "platform_release", "implementation_version"])
        op = rng.choice(VOPS)
        val = rng.choice(PV if name == "python_version" else PFV)
        if op == "~=" and ("*" in val or "." not in val):
            op = ">="
        if "*" in val and op not in ("==", "!="):
            op = "=="
        rev = rng.random() < 0.2
        if rev and (op == "~=" or "*" in val):
            rev = False
    elif k < 0.93:
        name = "extra"
        op = rng.choice(["==", "!="])
        val = rng.choice(EXTRAS)
        rev = rng.random() < 0.2
    else:
        name = rng.choice(["extras", "dependency_groups"])
        op = rng.choice(["in", "not in"])
        val = rng.choice(EXTRAS)
        rev = True
    return ("atom", name, op, val, rev)


REFL = {"<": ">", "<=": ">=", ">": "<", ">=": "<=", "==": "==", "!=": "!=", "~=": "~=", "in": "in", "not in": "not in"}


def atom_str(a):
    _, name, op, val, rev = a
    if rev:
        return f'"{val}" {op} {name}'
    return f'{name} {op} "{val}"'


def gen_tree(rng, depth):
    if depth == 0 or rng.random() < 0.3:
        return gen_atom(rng)
    n = rng.choice([2, 2, 3])
    return (rng.choice(["and", "or"]), [gen_tree(rng, depth - 1) for _ in range(n)])


def tree_str(t):
    if t[0] == "atom":
        return atom_str(t)
    return "(" + f" {t[0]} ".join(tree_str(c) for c in t[1]) + ")"


def atoms(t):
    if t[0] == "atom":
        yield t
    else:
        for c in t[1]:
            yield from atoms(c)


_cache = {}


def eval_atom(a, env):
    s = atom_str(a)
    m = _cache.get(s)
    if m is None:
        m = _cache[s] = Marker(s)
    if a[1] == "extra":
        # multi-valued extra: == is membership, != non membership
        ex = env["extra"]
        from packaging.utils import canonicalize_name
        v = canonicalize_name(a[3])
        s_ = {canonicalize_name(x) for x in ex}
        return (v in s_) if a[2] == "==" else (v not in s_)
    e = dict(env)
    e.pop("extra")
    return m.evaluate(e, context="lock_file")


def eval_tree(t, env):
    if t[0] == "atom":
        return eval_atom(t, env)
    if t[0] == "and":
        return all(eval_tree(c, env) for c in t[1])
    return any(eval_tree(c, env) for c in t[1])


def gen_envs(rng, ats, n):
    fulls = ["3.7.0", "3.7.9", "3.8.0", "3.8.1", "3.8.5", "3.8.10", "3.9.0", "3.9.1", "3.10.0", "3.10.2", "3.11.4", "2.7.18", "3.0.0", "3.0.1", "4.0.0", "3.8.0.1", "0.0.0", "3.1.0", "1!3.8.0", "3.8", "3.9", "4.0.1"]
    out = []
    for _ in range(n):
        full = rng.choice(fulls)
        from packaging.version import Version
        v = Version(full)
        pv = (f"{v.epoch}!" if v.epoch else "") + ".".join(map(str, (v.release + (0,))[:2]))
        env = {
            "python_full_version": full,
            "python_version": pv,
            "platform_release": rng.choice(fulls),
            "implementation_version": rng.choice(fulls),
            "extra": set(rng.sample(EXTRAS, rng.randint(0, 3))),
            "extras": set(rng.sample(EXTRAS, rng.randint(0, 3))),
            "dependency_groups": set(rng.sample(EXTRAS, rng.randint(0, 3))),
        }
        for sv in STR_VARS:
            env[sv] = rng.choice(STR_VALS)
        out.append(env)
    return out


def lib_eval(m, env):
    return m.evaluate(env, context="lock_file")


def main(seed, n, depth=2):
    rng = random.Random(seed)
    bad = 0
    t0 = time.time()
    for i in range(n):
        ta = gen_tree(rng, rng.randint(0, depth))
        tb = gen_tree(rng, rng.randint(0, depth))
        sa, sb = tree_str(ta), tree_str(tb)
        import signal
        class TO(Exception): pass
        def h(*_): raise TO()
        signal.signal(signal.SIGALRM, h)
        signal.alarm(3)
        try:
            a = parse_marker(sa)
            b = parse_marker(sb)
            c = a & b
            d = a | b
            signal.alarm(0)
        except TO:
            continue
        except Exception as e:
            signal.alarm(0)
            print("EXC", repr(e), sa, "||", sb)
            bad += 1
            continue
        envs = gen_envs(rng, None, 12)
        for env in envs:
            ea, eb = eval_tree(ta, env), eval_tree(tb, env)
            try:
                got = (lib_eval(a, env), lib_eval(b, env), lib_eval(c, env), lib_eval(d, env))
            except Exception as e:
                print("EXC-eval", repr(e), sa, "||", sb)
                bad += 1
                break
            exp = (ea, eb, ea and eb, ea or eb)
            if got != exp or (c.is_empty() and exp[2]) or (d.is_any() and not exp[3]) or (c.is_any() and not exp[2]) or (d.is_empty() and exp[3]):
                print("MISMATCH", i, sa, "||", sb, "\n   ", env, "\n   got", got, "exp", exp, "\n   a=", a, "| b=", b, "| and=", c, "| or=", d)
                bad += 1
                break
        if bad > 5:
            break
    print("done", n, "bad", bad, "time", time.time() - t0)
    return bad




import signal


class _TO(Exception):
    pass


def _h(*_):
    raise _TO()


signal.signal(signal.SIGALRM, _h)


def build(t, rng):
    if t[0] == "atom":
        _, name, op, val, rev = t
        if rng.random() < 0.5:
            return parse_marker(atom_str(t))
        return MarkerExpression(name, REFL[op] if rev else op, val, rev)
    kids = [build(c, rng) for c in t[1]]
    r = rng.random()
    cls, ident, fold = (MultiMarker, AnyMarker(), lambda x, y: x & y) if t[0] == "and" else (MarkerUnion, EmptyMarker(), lambda x, y: x | y)
    if r < 0.3:
        return cls(*kids)
    if r < 0.5:
        return cls.of(*kids)
    if r < 0.6:
        return cls(*kids, ident)
    rng.shuffle(kids)
    out = kids[0]
    for k in kids[1:]:
        out = fold(out, k) if rng.random() < 0.5 else fold(k, out)
    return out


def run_random(label, seed, n, depth, use_build=False, roundtrip=False):
    rng = random.Random(seed)
    bad = skipped = 0
    for i in range(n):
        ta = gen_tree(rng, rng.randint(0, depth))
        tb = gen_tree(rng, rng.randint(0, depth))
        sa, sb = tree_str(ta), tree_str(tb)
        signal.alarm(3)
        try:
            if use_build:
                a, b = build(ta, rng), build(tb, rng)
            else:
                a, b = parse_marker(sa), parse_marker(sb)
            res = [(a & b, "and"), (a | b, "or"), (b & a, "and"), (b | a, "or")]
            if roundtrip:
                extra_res = []
                for m, k in res:
                    if not (m.is_any() or m.is_empty()):
                        extra_res.append((parse_marker(str(m)), k))
                    str(m.without_extras()); str(m.only("python_version", "os_name")); str(m.exclude("python_full_version"))
                res += extra_res
            signal.alarm(0)
        except _TO:
            skipped += 1  # exponential blow-up: known family (9)
            continue
        except Exception as e:
            signal.alarm(0)
            print(f"[{label}] EXCEPTION {type(e).__name__}: {e}\n    a = {sa}\n    b = {sb}")
            bad += 1
            continue
        for env in gen_envs(rng, None, 10):
            ea, eb = eval_tree(ta, env), eval_tree(tb, env)
            try:
                ok = lib_eval(a, env) == ea and lib_eval(b, env) == eb
                for m, k in res:
                    exp = (ea and eb) if k == "and" else (ea or eb)
                    ok = ok and lib_eval(m, env) == exp and not (m.is_empty() and exp) and not (m.is_any() and not exp)
            except Exception as e:
                print(f"[{label}] EXCEPTION in evaluate {type(e).__name__}: {e}\n    a = {sa}\n    b = {sb}")
                bad += 1
                break
            if not ok:
                print(f"[{label}] VIOLATION\n    a = {sa}\n    b = {sb}\n    env = {env}\n    oracle: a={ea} b={eb}\n    library: a={lib_eval(a, env)} b={lib_eval(b, env)} " + " ".join(f"{k}:<{m}>={lib_eval(m, env)}" for m, k in res))
                bad += 1
                break
    print(f"[{label}] {n} pairs, {skipped} skipped for run time, {bad} violations")
    return bad


def run_versions(seed, n, depth):
    global PV, PFV, gen_atom
    old = PV, PFV, gen_atom
    PV = ["3.8", "3.9", "3.10", "3", "3.0", "3.8.0", " 3.8", "3.8 ", "03.08", "3.8.*", "3.*", "3.8.0.*", "0!3.8", "3.8.0.0", "3.9.0", "3.08.0", "4", "2.7", "3.8.1", "3.7", "0!3.*", "3.8.00", "3.9.*"]
    PFV = PV + ["3.8.5", "3.9.1", "3.8.5.0", "3.8.10", "0!3.8.5", "3.8.5.*", "3.8.0.1", "3.9.0.0", "3.10.0", "4.0", "4.0.0", "3.8.05"]

    def gen_atom(rng):
        name = rng.choice(["python_version", "python_full_version", "python_version", "python_full_version", "platform_release"])
        op = rng.choice(VOPS)
        val = rng.choice(PV if name == "python_version" else PFV)
        if op == "~=" and ("*" in val or "." not in val.strip()):
            op = ">="
        if "*" in val and op not in ("==", "!="):
            op = "=="
        return ("atom", name, op, val, rng.random() < 0.3)

    try:
        return run_random("versions", seed, n, depth)
    finally:
        PV, PFV, gen_atom = old


def run_grouped():
    from dep_logic.utils import OrderedSet
    vals = ["a", "b", "ab", "", "c"]
    envs = vals + ["abc", "d", "a b"]
    objs = []
    for r in (2, 3):
        for vs in itertools.permutations(vals, r):
            if r == 3 and vs[0] > vs[1]:
                continue
            objs.append((EqualityMarkerUnion("os_name", OrderedSet(vs)), (lambda x, vs=vs: x in vs), f"== any of {vs}"))
            objs.append((InequalityMultiMarker("os_name", OrderedSet(vs)), (lambda x, vs=vs: x not in vs), f"!= all of {vs}"))
    for v in vals + ["a b", "abc"]:
        for op in ("==", "!=", "in", "not in"):
            for rev in (False, True):
                s = f'"{v}" {op} os_name' if rev else f'os_name {op} "{v}"'
                pk = Marker(s)
                objs.append((MarkerExpression("os_name", op, v, rev), (lambda x, pk=pk: pk.evaluate({"os_name": x})), s))
    bad = n = 0
    for (a, fa, la), (b, fb, lb) in itertools.product(objs, repeat=2):
        n += 1
        c, d = a & b, a | b
        for x in envs:
            env = {"os_name": x}
            ea, eb = fa(x), fb(x)
            got = (a.evaluate(env), b.evaluate(env), c.evaluate(env), d.evaluate(env))
            exp = (ea, eb, ea and eb, ea or eb)
            rt = [parse_marker(str(m)).evaluate(env) if not (m.is_any() or m.is_empty()) else m.evaluate(env) for m in (c, d)]
            if got != exp or (c.is_empty() and exp[2]) or (d.is_any() and not exp[3]) or rt != [exp[2], exp[3]]:
                print(f"[grouped] VIOLATION a = <{la}>  b = <{lb}>  os_name = {x!r}\n    library: a & b = <{c}> -> {got[2]}, a | b = <{d}> -> {got[3]}, re-parsed -> {rt}\n    oracle: a={ea} b={eb} and={exp[2]} or={exp[3]}")
                bad += 1
                break
    print(f"[grouped] {n} pairs x {len(envs)} values, {bad} violations")
    return bad


if __name__ == "__main__":
    scale = float(sys.argv[1]) if len(sys.argv) > 1 else 1.0
    total = 0
    total += run_grouped()
    total += run_random("general", 101, int(6000 * scale), 1)
    total += run_random("general-deep", 102, int(300 * scale), 2)
    total += run_random("build", 103, int(6000 * scale), 1, use_build=True)
    total += run_random("roundtrip", 104, int(3000 * scale), 1, roundtrip=True)
    total += run_versions(105, int(8000 * scale), 1)
    total += run_versions(106, int(2000 * scale), 2)
    print("NEW violations found:" if total else "no new violation found;", total)
