"""C02 hunt, round 4 (unmodified tree).

No new violation of C02 proper (soundness of `&` / `|` under evaluate) was found.
The script prints the one neighbouring defect that turned up on a less used public
entry point, and re-checks that it cannot be reached through `&` / `|`.

Run:  cd /tmp/wt/C02j && PYTHONPATH=/tmp/wt/C02j/src /venv/bin/python hunt_C02.py
"""
from packaging.markers import Marker

from dep_logic.markers import MarkerExpression, parse_marker


def finding_from_specifier_contains():
    """MarkerExpression.from_specifier(m.name, m.specifier) for a literal-on-the-left
    `in` / `not in` atom on a string variable returns an atom whose operator is the
    specifier-internal word "contains": it renders as text no parser accepts and
    raises UndefinedComparison when evaluated.  (from_specifier is documented as the
    way to re-render a set view as an atom; for every other string atom the round
    trip gives an equivalent atom.)"""
    text = '"lin" in sys_platform'
    env = {"sys_platform": "linux"}
    m = parse_marker(text)
    want = Marker(text).evaluate(env)
    back = MarkerExpression.from_specifier(m.name, m.specifier)
    print("input atom           :", text)
    print("its specifier        :", repr(m.specifier))
    print("from_specifier gives :", repr(back), "(op=%r)" % back.op)
    try:
        got = back.evaluate(env)
    except Exception as e:  # noqa: BLE001
        got = f"raises {type(e).__name__}: {e}"
    print("library evaluate     :", got)
    print("oracle (packaging)   :", want)
    try:
        Marker(str(back))
        reparse = "parses"
    except Exception as e:  # noqa: BLE001
        reparse = f"does not parse ({type(e).__name__})"
    print("str(result)          :", str(back), "->", reparse)

    # not reachable through & / |: a merge of two generic set views is always one of
    # the operands, Any or Empty, so from_specifier is never handed a "contains" view
    others = [
        'sys_platform == "linux"', 'sys_platform != "linux"', 'sys_platform in "linux darwin"',
        'sys_platform not in "linux darwin"', '"nux" in sys_platform', '"nux" not in sys_platform',
        'sys_platform == "lin"', 'sys_platform != "lin"', '"lin" not in sys_platform',
        'sys_platform == "linux" or sys_platform == "win32"',
        'sys_platform != "linux" and sys_platform != "win32"',
    ]
    envs = [{"sys_platform": v} for v in ("linux", "lin", "win32", "darwin", "", "nux")]
    bad = 0
    for o in others:
        for x, y in ((text, o), (o, text)):
            a, b = parse_marker(x), parse_marker(y)
            for e in envs:
                oa, ob = Marker(x).evaluate(e), Marker(y).evaluate(e)
                if (a & b).evaluate(e) != (oa and ob) or (a | b).evaluate(e) != (oa or ob):
                    bad += 1
                    print("  C02 VIOLATION", x, "|&", y, e)
    print("reachable through & or | :", "yes" if bad else "no (checked %d operand pairs)" % (2 * len(others)))


if __name__ == "__main__":
    print("== side finding (from_specifier, not C02 proper) ==")
    finding_from_specifier_contains()
    print()
    print("== C02 proper: no new violation; see the final report for the areas and case counts ==")
