"""Task A for property C08: inputs on which the UNMODIFIED library violates
"a wheel's (python tag, abi tag) is compatible  <=>  some Python admitted by
requires_python can load it".

Run:  cd /tmp/wt/C08f && PYTHONPATH=/tmp/wt/C08f/src /venv/bin/python hunt_C08.py

The oracle is independent of dep_logic: requires_python is evaluated with
packaging.specifiers.SpecifierSet over an explicit universe of interpreter
versions, and the tag rules of the property statement are re-implemented with
regular expressions.
"""
from __future__ import annotations

import re

from packaging.specifiers import SpecifierSet
from packaging.version import Version

from dep_logic.tags import EnvSpec

# Interpreter universe: every final X.Y.Z plus the a/b/rc pre-releases of X.Y.0
# (python_full_version of such an interpreter is e.g. "3.10.0rc1").
FINALS = [Version(f"{X}.{Y}.{Z}") for X in (2, 3, 4) for Y in range(0, 22) for Z in range(0, 8)]
PRES = [
    Version(f"{X}.{Y}.0{s}")
    for X in (2, 3, 4)
    for Y in range(0, 22)
    for s in ("a1", "a4", "b1", "b3", "rc1", "rc2")
]


def admitted(rp: str, universe):
    parts = [SpecifierSet(p) for p in rp.split("||")]
    return [v for v in universe if any(p.contains(v, prereleases=True) for p in parts)]


def oracle(rp, impl, gil, py, abi, universe):
    """True/False: can some admitted interpreter load (py, abi)?"""
    m = re.fullmatch(r"(cp|py|pp|pt)(\d)(\d*)", py)
    if not m:
        return False
    kind, X, Y = m.group(1), int(m.group(2)), m.group(3)
    short = {None: None, "cpython": "cp", "pypy": "pp", "pyston": "pt"}[impl]
    if short is not None and kind not in (short, "py"):
        return False
    ft = None if impl is None else gil
    vs = [(v.major, v.minor) for v in admitted(rp, universe)]
    if abi == "abi3":
        return kind == "cp" and not ft and any(v >= (X, int(Y or 0)) for v in vs)
    if abi != "none":
        a = abi.split("_", 1)[0].replace("pypy", "pp").replace("pyston", "pt")
        am = re.fullmatch(r"(cp|pp|pt)(\d)(\d*)([a-z]*)", a)
        if not am or (am.group(1), am.group(2), am.group(3)) != (kind, str(X), Y):
            return False
        if ft is not None and ("t" in am.group(4)) is not ft:
            return False
    if Y == "":
        return any(v[0] == X for v in vs)
    if kind == "py":
        return any(v[0] == X and v[1] >= int(Y) for v in vs)
    return any(v == (X, int(Y)) for v in vs)


found = 0


def check(title, rp, impl, gil, py, abi, universes=("finals", "finals+pre")):
    global found
    try:
        env = EnvSpec.from_spec(rp, None, impl, gil)
        got = env.compatibility([py], [abi], ["any"])
        got_s = repr(got)
        got_b = got is not None
    except Exception as e:  # noqa: BLE001
        got_s = f"raises {type(e).__name__}: {e}"
        got_b = None
    exp = {
        "finals": oracle(rp, impl, gil, py, abi, FINALS),
        "finals+pre": oracle(rp, impl, gil, py, abi, FINALS + PRES),
    }
    wrong = [u for u in universes if exp[u] is not got_b]
    if wrong:
        found += 1
        print(f"VIOLATION [{title}]")
        print(f"   requires_python={rp!r} implementation={impl} gil_disabled={gil} wheel={py}-{abi}")
        print(f"   library : {got_s}")
        for u in universes:
            print(f"   oracle  : compatible={exp[u]}  (interpreter universe: {u})")
    else:
        print(f"ok        [{title}] {rp!r} {py}-{abi} -> {got_s}")


print("=== 1. ABI tag only has to START WITH the python tag (cp31 accepts cp310..cp319) ===")
check("abi prefix", ">=3.0", None, False, "cp31", "cp310")
check("abi prefix", ">=3.0", "cpython", False, "cp31", "cp312")
check("abi prefix", ">=3.0", "cpython", True, "cp31", "cp313t")
check("abi prefix", ">=2.0", None, False, "cp21", "cp216")
check("abi prefix", "<3.4", "pypy", False, "pp32", "pypy320_pp73")
check("abi prefix", ">=3", "pyston", False, "pt31", "pyston311_23")

print()
print("=== 2. pre-releases of the NEXT series fall inside the wheel range [X.Y.0, X.(Y+1).0) ===")
# `==3.9.*` is modelled as >=3.9.0,<3.10.0 and 3.10.0a1 < 3.10.0, so a requires_python
# that starts at a 3.10 pre-release (common: `>=3.10.0rc1`) still "intersects" cp39.
check("next-series pre-release", ">=3.10.0a1", None, False, "cp39", "cp39")
check("next-series pre-release", ">=3.10.0rc1", "cpython", False, "cp39", "cp39")
check("next-series pre-release", ">=3.10.dev0", "cpython", False, "cp39", "none")
check("next-series pre-release", "==3.10.0rc1", "cpython", False, "cp39", "cp39")
check("next-series pre-release", ">=3.0a1", None, False, "py2", "none")
check("next-series pre-release", ">=3.0a1", None, False, "py27", "none")

print()
print("=== 3. ...and pre-releases of the wheel's OWN series fall outside it ===")
# only a violation if pre-release interpreters (python_full_version 3.10.0rc1) count as Pythons
check("own-series pre-release", "==3.10.0rc1", "cpython", False, "cp310", "cp310", universes=("finals+pre",))
check("own-series pre-release", "<3.10.0", None, False, "cp310", "cp310", universes=("finals+pre",))
check("own-series pre-release", "<3.10.0rc2", None, False, "cp310", "none", universes=("finals+pre",))

print()
print("=== 4. free-threaded debug ABI `cp313td` (abiflags 'td') is classified by endswith('t') ===")
check("td abi", ">=3.13", "cpython", True, "cp313", "cp313td")
check("td abi", ">=3.13", "cpython", False, "cp313", "cp313td")

print()
print("=== 5. requires_python that admits nothing cannot be given to EnvSpec.from_spec at all ===")
# expected by the property: every wheel incompatible (None); observed: InvalidSpecifier from the constructor
check("empty requires_python", ">3.9,<3.9", None, False, "py3", "none")
check("empty requires_python", ">=3.10,<3.9", None, False, "cp39", "cp39")

print()
print("=== 6. (borderline) range that is empty under PEP 440 but not as an interval ===")
# `>3.9.5` excludes post-releases of 3.9.5, so nothing at all satisfies both clauses
probe = ["3.9.5", "3.9.5.post0", "3.9.5.post1.dev0", "3.9.5.post1", "3.9.5.0.1", "3.9.6.dev0", "3.9.6"]
ss = SpecifierSet(">3.9.5,<3.9.5.post1")
print("   packaging matches among", probe, ":", [v for v in probe if ss.contains(v, prereleases=True)])
check("pep440-empty", ">3.9.5,<3.9.5.post1", "cpython", False, "cp39", "cp39")

print()
print(f"{found} violating inputs printed")
