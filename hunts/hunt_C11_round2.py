"""Hunt script for property C11 on the unmodified tree (fourth round).

No NEW violation was found; this script re-runs (in a reduced form, about 7 minutes; `full` takes much longer) the
searches that were done and prints every disagreement it sees (none on the unmodified
tree).  Known families (wildcard operands under ordering operators, in / not in,
===, pre/post/dev/local, ...) are filtered out.

Run: cd /tmp/wt/C11j && PYTHONPATH=/tmp/wt/C11j/src /venv/bin/python hunt_C11.py [full]
"""

from __future__ import annotations

import itertools
import random
import sys

from packaging.markers import Marker
from packaging.specifiers import SpecifierSet

from dep_logic.markers import parse_marker
from dep_logic.markers.single import MarkerExpression, _has_exact_specifier
from dep_logic.specifiers import InvalidSpecifier, parse_version_specifier

FULL = len(sys.argv) > 1 and sys.argv[1] == "full"
OPS = ["<", "<=", ">", ">=", "==", "!=", "~="]
found = 0


def report(*args: object) -> None:
    global found
    found += 1
    if found <= 40:
        print("VIOLATION", *args)


def env(v: str) -> dict[str, str]:
    return {"python_full_version": v, "python_version": ".".join(v.split(".")[:2])}


# --------------------------------------------------------------------------------------
# 1. every atom (both orientations): packaging vs evaluate vs specifier view, and the
#    atom rebuilt by from_specifier from that view
# --------------------------------------------------------------------------------------
def hunt_atoms() -> int:
    majors = ("0", "1", "2", "3", "4", "03", "10") if FULL else ("2", "3", "03", "10")
    minors = ("0", "1", "7", "8", "9", "10", "08", "00") if FULL else ("0", "8", "9", "10", "08")
    patches = ("0", "1", "9", "10", "00") if FULL else ("0", "1", "10")
    envs = [
        f"{a}.{b}.{c}"
        for a in ((0, 1, 2, 3, 4, 10) if FULL else (2, 3, 4, 10))
        for b in ((0, 1, 2, 7, 8, 9, 10, 11, 12) if FULL else (0, 7, 8, 9, 10, 11))
        for c in ((0, 1, 2, 9, 10, 11) if FULL else (0, 1, 10))
    ]
    vals: list[str] = []
    for a in majors:
        vals += [a, a + ".*"]
        for b in minors:
            vals += [f"{a}.{b}", f"{a}.{b}.*", f" {a}.{b}", f"{a}.{b} ", f"v{a}.{b}",
                     f"0!{a}.{b}", f"{a}.{b}.0", f"{a}.{b}.0.0", f"{a}.{b}.0.*"]
            for c in patches:
                vals += [f"{a}.{b}.{c}", f"{a}.{b}.{c}.*", f"{a}.{b}.{c}.0", f"{a}.{b}.{c}.1"]
    vals = list(dict.fromkeys(vals))
    n = 0
    for name, op, val, rev in itertools.product(
        ("python_version", "python_full_version"), OPS, vals, (False, True)
    ):
        if "*" in val and op not in ("==", "!="):
            continue  # known family 13
        s = f'"{val}" {op} {name}' if rev else f'{name} {op} "{val}"'
        try:
            pm = Marker(s)
        except Exception:
            continue
        m = parse_marker(s)
        try:
            sp = m.specifier
        except InvalidSpecifier:
            sp = None
        exact = _has_exact_specifier(m)
        for v in envs:
            e = env(v)
            n += 1
            try:
                pv = pm.evaluate(e)
            except Exception as ex:
                pv = type(ex).__name__
            try:
                lv = m.evaluate(e)
            except Exception as ex:
                lv = type(ex).__name__
            if pv != lv:
                report("evaluate", s, "on", v, "packaging", pv, "library", lv)
            if sp is not None and exact and isinstance(lv, bool) and (e[name] in sp) != lv:
                report("specifier view", s, repr(sp), "on", v, "in spec", e[name] in sp, "evaluate", lv)
        if sp is not None and exact:
            back = MarkerExpression.from_specifier(name, sp)
            if back is not None:
                for v in envs:
                    e = env(v)
                    n += 1
                    if back.evaluate(e) != (e[name] in sp):
                        report("from_specifier", s, repr(sp), "->", back, "on", v)
                        break
    return n


# --------------------------------------------------------------------------------------
# 2. atom AND/OR atom (python_version x python_full_version, both orientations):
#    the merged marker (built through the specifier views) and its rendering re-parsed
# --------------------------------------------------------------------------------------
def hunt_merges() -> int:
    envs = [f"{a}.{b}.{c}" for a in (2, 3, 4) for b in (0, 1, 7, 8, 9, 10, 11) for c in (0, 1, 2, 10)]
    E = [env(v) for v in envs]
    vals = ["3", "3.*", "3.0", "3.8", "3.08", "3.8.*", "3.8.0", "3.8.1", "3.8.0.*", "3.9", "3.9.0",
            "3.10", "3.10.*", "4", "4.0", "4.0.0", "3.8.0.0", "2.7", "3.1", "3.7.10"]
    if FULL:
        vals += ["3.8.1.*", "3.8.0.1", "3.9.*"]
    atoms = []
    for name, op, val, rev in itertools.product(
        ("python_version", "python_full_version"), OPS, vals, (False, True)
    ):
        if "*" in val and op not in ("==", "!="):
            continue
        if rev and not FULL and op not in ("<", ">=", "=="):
            continue
        s = f'"{val}" {op} {name}' if rev else f'{name} {op} "{val}"'
        try:
            Marker(s)
            m = parse_marker(s)
            ev = tuple(m.evaluate(e) for e in E)
        except Exception:
            continue
        atoms.append((s, m, ev))
    n = 0
    for (s1, m1, e1), (s2, m2, e2) in itertools.product(atoms, atoms):
        for how in ("and", "or"):
            n += 1
            try:
                r = (m1 & m2) if how == "and" else (m1 | m2)
                got = tuple(r.evaluate(e) for e in E)
                got2 = tuple(parse_marker(str(r)).evaluate(e) for e in E)
            except Exception as ex:
                report("exception", s1, how, s2, type(ex).__name__, ex)
                continue
            exp = tuple((a and b) if how == "and" else (a or b) for a, b in zip(e1, e2))
            if got != exp or got2 != exp:
                i = next(k for k in range(len(E)) if got[k] != exp[k] or got2[k] != exp[k])
                report("merge", s1, how, s2, "->", r, "on", envs[i], "got", got[i], got2[i], "expected", exp[i])
    return n


# --------------------------------------------------------------------------------------
# 3. from_specifier on specifiers produced by &, |, ~ (simple forms recognised from
#    ranges: ==, ~=, !=V, !=X.*), judged by packaging on the source text
# --------------------------------------------------------------------------------------
def hunt_derived(cases: int) -> int:
    rnd = random.Random(11)

    def rv() -> str:
        k = rnd.choice([1, 2, 2, 3, 3])
        parts = [str(rnd.choice([2, 3, 3, 3, 4])), str(rnd.randint(0, 13)), str(rnd.randint(0, 12))]
        return ".".join(parts[:k])

    def rspec() -> str:
        op = rnd.choice(OPS)
        v = rv()
        if op in ("==", "!=") and rnd.random() < 0.3 and v.count(".") < 2:
            v += ".*"
        if op == "~=" and "." not in v:
            v += "." + str(rnd.randint(0, 13))
        return op + v

    n = 0
    for _ in range(cases):
        k = rnd.choice([1, 2, 2, 3])
        strs = [rspec() for _ in range(k)]
        if rnd.random() < 0.5:
            text, alts = ",".join(strs), [",".join(strs)]
        else:
            text, alts = "||".join(strs), strs
        sp = parse_version_specifier(text)
        for name in ("python_version", "python_full_version"):
            m = MarkerExpression.from_specifier(name, sp)
            if m is None:
                continue
            for _ in range(40):
                v = f"{rnd.choice([2, 3, 3, 3, 4])}.{rnd.randint(0, 13)}.{rnd.randint(0, 12)}"
                n += 1
                exp = any(SpecifierSet(a).contains(v, prereleases=True) for a in alts)
                if not (exp == m.evaluate({name: v}) == (v in sp)):
                    report("from_specifier", text, "->", m, "on", v, "packaging", exp,
                           "atom", m.evaluate({name: v}), "in spec", v in sp)
                    break
    return n


if __name__ == "__main__":
    a = hunt_atoms()
    print(f"atoms: {a} checks")
    b = hunt_merges()
    print(f"merges: {b} merged pairs")
    c = hunt_derived(60000 if FULL else 15000)
    print(f"derived specifiers: {c} checks")
    print(f"NEW violations found: {found}")
    sys.exit(1 if found else 0)
