"""C11 hunt: marker <-> specifier bridge for python_version / python_full_version atoms.

Run as:  cd /tmp/wt/C11h && PYTHONPATH=/tmp/wt/C11h/src /venv/bin/python hunt_C11.py [N]

Prints every NEW violation found on the unmodified tree (concrete input, what the
library does, what packaging says), then re-runs the three fuzzers used for the search
(N random cases each, default 3000) and prints how many cases disagreed with the oracle.
Known families (pre/post/dev/local versions, in / not in, ===, post-release upper
bounds, pre-release-only ranges, PEP 440 exclusion rules, ...) are not generated.
"""

from __future__ import annotations

import random
import sys

from packaging.markers import Marker
from packaging.specifiers import SpecifierSet

from dep_logic.markers import parse_marker
from dep_logic.markers.single import MarkerExpression, _has_exact_specifier
from dep_logic.specifiers import parse_version_specifier

N = int(sys.argv[1]) if len(sys.argv) > 1 else 3000


def outcome(f):
    try:
        return f()
    except Exception as e:  # noqa: BLE001
        return f"{type(e).__module__}.{type(e).__name__}: {e}"


# ------------------------------------------------------------------ NEW violation(s)
print("=" * 78)
print("NEW 1: a version atom `name == \"=V\"` is an arbitrary-equality atom in disguise")
print("=" * 78)
print(
    "op and operand are concatenated (f\"{op}{value}\"), so `==` + \"=3.8\" is read as\n"
    "`===3.8` by MarkerExpression._get_specifier.  The guard that keeps `===` atoms out\n"
    "of the specifier algebra (_has_exact_specifier: marker.op == \"===\") does not see it,\n"
    "so combining the atom with another one on the same variable goes through\n"
    "ArbitrarySpecifier.__or__ and raises a bare ValueError out of parse_marker / `|`.\n"
    "packaging parses and evaluates the very same marker without complaint.\n"
)
for text in (
    'python_full_version == "=3.8" or python_full_version >= "3.9"',
    'python_version == "=3.8" or python_version != "3.8"',
    'python_full_version >= "3.9" or python_full_version == "=3.8"',
):
    ref = Marker(text)
    envs = [
        {"python_full_version": v, "python_version": v[:3]}
        for v in ("3.8", "3.8.0", "3.9.1")
    ]
    print("input     :", text)
    print("packaging : parses; evaluates", [ref.evaluate(e) for e in envs],
          "on python_full_version 3.8 / 3.8.0 / 3.9.1")
    print("dep_logic : parse_marker ->", outcome(lambda: str(parse_marker(text))))
    print("expected  : a marker (InvalidMarker at worst), never a bare ValueError")
    print()
atom = parse_marker('python_full_version == "=3.8"')
print("the lone atom:", atom, "| op =", repr(atom.op), "| specifier view =",
      repr(atom.specifier), "| _has_exact_specifier =", _has_exact_specifier(atom))
print("(`python_full_version < \"=3.8\"` is likewise read as `<=3.8`; there packaging has\n"
      " the same quirk, evaluation and specifier view agree, so it is not reported.)\n")

print("-" * 78)
print("Seen but NOT counted (same mechanism as known family 7, operand outside the\n"
      "quantifier): an ordering operator with a wildcard operand falls back to the\n"
      "library's lexicographic string table, packaging 26 answers False:")
m = 'python_full_version >= "3.8.*"'
e = {"python_full_version": "3.9.0", "python_version": "3.9"}
print("  ", m, "on 3.9.0: dep_logic", parse_marker(m).evaluate(e), "| packaging",
      Marker(m).evaluate(e), "| .specifier ->", outcome(lambda: parse_marker(m).specifier))
print()

# ------------------------------------------------------------------ fuzzers (coverage)
GRID = [
    f"{a}.{b}.{c}"
    for a in (0, 2, 3, 4, 5)
    for b in (0, 1, 2, 7, 8, 9, 10, 11)
    for c in (0, 1, 2, 9, 10)
]
ENVS = [{"python_full_version": g, "python_version": g.rsplit(".", 1)[0]} for g in GRID]


def fuzz_atoms() -> tuple[int, int]:
    """atom.evaluate == packaging == (value in atom.specifier), forward and reversed."""
    ops = ["==", "!=", "<", "<=", ">", ">=", "~="]
    vals = ["3", "3.8", "3.8.0", "3.8.1", "3.10", "3.0", "3.0.0", "4", "2.7", "3.8.*",
            "3.*", "3.8.0.*", "3.8.1.*", "03.08", "3.08", "3.8.0.0", "3.10.0", "3.9.12",
            "1!3.8", "0!3.8", "v3.8", " 3.8", "3.8 ", "3.8.00", "3.8.01", "3.8.1.0",
            "3.08.*", "0", "0.0", "0.*", "1!3.*", "3.8.0.0.0.1", "99999999999999999999.1"]
    n = bad = 0
    for name in ("python_version", "python_full_version"):
        for op in ops:
            for v in vals:
                for rev in (False, True):
                    if "*" in v and op not in ("==", "!="):
                        continue  # not an atom of the quantifier (see note above)
                    s = f'"{v}" {op} {name}' if rev else f'{name} {op} "{v}"'
                    try:
                        ref = Marker(s)
                    except Exception:  # noqa: BLE001
                        continue
                    m = parse_marker(s)
                    exact = _has_exact_specifier(m)
                    for env in ENVS:
                        n += 1
                        exp = outcome(lambda: ref.evaluate(env))
                        got = outcome(lambda: m.evaluate(env))
                        if isinstance(exp, str):
                            exp = exp.split(":")[0].rsplit(".", 1)[-1]
                        if isinstance(got, str):
                            got = got.split(":")[0].rsplit(".", 1)[-1]
                        ok = exp == got
                        if ok and exact and not isinstance(got, str):
                            ok = (env[name] in m.specifier) == got
                        if not ok:
                            bad += 1
                            print("  ATOM", s, env[name], "packaging", exp, "lib", got)
                            break
    return n, bad


def fuzz_specifiers(seed: int) -> tuple[int, int, int]:
    """random &,|,~ trees of simple specifiers -> from_specifier -> atom vs packaging."""
    rnd = random.Random(seed)

    def rver() -> str:
        k = rnd.choice([1, 2, 2, 3, 3, 3, 4])
        parts = [rnd.choice([0, 1, 2, 3, 3, 3, 4]), rnd.choice([0, 1, 7, 8, 9, 10, 11]),
                 rnd.choice([0, 0, 1, 2, 10]), rnd.choice([0, 0, 1])][:k]
        v = ".".join(map(str, parts))
        return (rnd.choice(["1!", "0!"]) + v) if rnd.random() < 0.05 else v

    def rsimple() -> str:
        op = rnd.choice(["==", "!=", "<", "<=", ">", ">=", "~=", "==*", "!=*"])
        v = rver()
        if op == "~=" and "." not in v:
            v += ".%d" % rnd.choice([0, 8])
        return op[:2] + v + ".*" if op.endswith("*") else op + v

    def gen(depth: int):
        if depth == 0 or rnd.random() < 0.3:
            s = rsimple()
            ss = SpecifierSet(s)
            return parse_version_specifier(s), (lambda v: ss.contains(v, prereleases=True)), s
        a, fa, sa = gen(depth - 1)
        k = rnd.random()
        if k < 0.15:
            return ~a, (lambda v: not fa(v)), f"~({sa})"
        b, fb, sb = gen(depth - 1)
        if k < 0.6:
            return a & b, (lambda v: fa(v) and fb(v)), f"({sa})&({sb})"
        return a | b, (lambda v: fa(v) or fb(v)), f"({sa})|({sb})"

    atoms = bad = 0
    for _ in range(N):
        spec, f, desc = gen(rnd.choice([1, 2, 2, 3]))
        if any((g in spec) != f(g) for g in GRID):
            bad += 1
            print("  SPEC", desc, "->", spec)
        for name in ("python_full_version", "python_version"):
            m = MarkerExpression.from_specifier(name, spec)
            if m is None:
                continue
            atoms += 1
            again = m if (m.is_any() or m.is_empty()) else parse_marker(str(m))
            for env in ENVS:
                val = env[name]
                r = [m.evaluate(env), again.evaluate(env), f(val)]
                if isinstance(again, MarkerExpression):
                    r.append(val in again.specifier)
                if len(set(r)) != 1:
                    bad += 1
                    print("  FROM", name, desc, "->", spec, "->", m, val, r)
                    break
    return N, atoms, bad


def fuzz_markers(seed: int) -> tuple[int, int]:
    """random and/or trees of python_version / python_full_version atoms vs packaging."""
    rnd = random.Random(seed)

    def rver(name: str) -> str:
        k = rnd.choice([1, 2, 2, 2, 2, 3, 3, 4] if name == "python_version" else [1, 2, 2, 3, 3, 3, 4])
        parts = [rnd.choice([2, 3, 3, 3, 4]), rnd.choice([0, 1, 7, 8, 9, 10, 11]),
                 rnd.choice([0, 0, 0, 1, 2, 10]), rnd.choice([0, 0, 1])][:k]
        v = ".".join(map(str, parts))
        r = rnd.random()
        if r < 0.04:
            v = "0!" + v
        elif r < 0.08:
            v = "v" + v
        elif r < 0.12:
            v = v.replace(".", ".0", 1)
        elif r < 0.15:
            v = " " + v
        elif r < 0.18:
            v = v + " "
        return v

    def atom() -> str:
        name = rnd.choice(["python_version", "python_full_version"])
        op = rnd.choice(["==", "!=", "<", "<=", ">", ">=", "~=", "==*", "!=*"])
        v = rver(name)
        if op == "~=" and "." not in v:
            v = v.strip() + ".8"
        if op.endswith("*"):
            op, v = op[:2], v.strip() + ".*"
        if rnd.random() < 0.15 and op != "~=" and "*" not in v:
            return f'"{v}" {op} {name}'
        return f'{name} {op} "{v}"'

    def expr(d: int) -> str:
        if d == 0 or rnd.random() < 0.35:
            return atom()
        j = rnd.choice([" and ", " or "])
        return "(" + j.join(expr(d - 1) for _ in range(rnd.choice([2, 2, 3]))) + ")"

    n = bad = 0
    for _ in range(N):
        s = expr(rnd.choice([1, 2, 2]))
        try:
            ref = Marker(s)
        except Exception:  # noqa: BLE001
            continue
        n += 1
        m = outcome(lambda: parse_marker(s))
        if isinstance(m, str):
            bad += 1
            print("  PARSE", s, m)
            continue
        s2 = str(m)
        m2 = parse_marker(s2)
        for env in ENVS:
            exp = outcome(lambda: ref.evaluate(env))
            if isinstance(exp, str):
                break  # packaging itself cannot evaluate (e.g. `~= "3"`)
            if not (exp == m.evaluate(env) == m2.evaluate(env)):
                bad += 1
                print("  EVAL", s, "->", s2, env["python_full_version"], exp)
                break
    return n, bad


print("-" * 78)
print("coverage (all on plain releases; oracle = packaging):")
n, bad = fuzz_atoms()
print(f"  single atoms, forward and literal-on-the-left, 33 operand spellings x 7 ops "
      f"x 2 variables: {n} evaluations, {bad} disagreements")
n, atoms, bad = fuzz_specifiers(1)
print(f"  specifier algebra -> from_specifier -> render -> parse: {n} random specifier "
      f"trees, {atoms} atoms produced, {bad} disagreements")
n, bad = fuzz_markers(1)
print(f"  and/or trees of python_version / python_full_version atoms (merging, "
      f"rendering, re-parsing): {n} markers, {bad} disagreements")
