"""Task A for C02: inputs inside the quantifier on which the UNMODIFIED library already
violates "(a & b) / (a | b) evaluate as the conjunction / disjunction of a and b".

Every case is computed live.  For each case we print
  * the two operand markers and the connective,
  * the marker the library returns for `a & b` / `a | b` (and for parse_marker of the joined text),
  * the environment, what the result evaluates to,
  * what the two operands evaluate to with the library itself ("lib sides") and with
    packaging.markers.Marker ("packaging") - the independent oracle.

Run:  cd /tmp/wt/C02f && PYTHONPATH=/tmp/wt/C02f/src /venv/bin/python hunt_C02.py
"""
from __future__ import annotations

from packaging.markers import Marker as PkgMarker

from dep_logic.markers import parse_marker


def env(full: str, **kw: str) -> dict[str, str]:
    e = {
        "python_full_version": full,
        "python_version": ".".join(full.split(".")[:2]),
        "extra": "",
    }
    e.update(kw)
    return e


found = 0


def case(family: str, a: str, op: str, b: str, e: dict[str, str]) -> None:
    global found
    shown = {k: v for k, v in e.items() if k != "extra"}
    pa, pb = PkgMarker(a).evaluate(e), PkgMarker(b).evaluate(e)
    want_pkg = (pa and pb) if op == "and" else (pa or pb)
    try:
        ma, mb = parse_marker(a), parse_marker(b)
        la, lb = ma.evaluate(e), mb.evaluate(e)
        want_lib = (la and lb) if op == "and" else (la or lb)
        result = (ma & mb) if op == "and" else (ma | mb)
        got = result.evaluate(e)
        parsed = parse_marker(f"({a}) {op} ({b})")
        got_parsed = parsed.evaluate(e)
    except Exception as exc:  # noqa: BLE001
        found += 1
        print(f"[{family}] VIOLATION (exception)")
        print(f"    ({a}) {op} ({b})")
        print(f"    library raised {type(exc).__module__}.{type(exc).__name__}: {exc}")
        print(f"    env {shown}: packaging evaluates the operands to {pa}, {pb} -> expected {want_pkg}")
        return
    bad = got != want_lib or got != want_pkg or got_parsed != want_pkg
    if bad:
        found += 1
    print(f"[{family}] {'VIOLATION' if bad else 'ok'}")
    print(f"    ({a}) {op} ({b})")
    print(f"    library result: `{result}` (is_any={result.is_any()}, is_empty={result.is_empty()});"
          f" parse_marker of the joined text: `{parsed}`")
    print(f"    env {shown}: result.evaluate={got}, parsed.evaluate={got_parsed}; "
          f"expected lib sides={want_lib}, packaging={want_pkg}")


# ---------------------------------------------------------------------------------------
# F1. `python_version in / not in "<list>"`: the atom is *evaluated* as a plain substring
# test (so does packaging: "in3.8" is no specifier), but its set view used for merging reads
# the literal as a comma separated list of versions (X -> X.*, X.Y -> X.Y.*, X.Y.Z -> ==X.Y.Z).
# The two readings differ, so merging changes which environments are selected.
# ---------------------------------------------------------------------------------------
F1 = "F1 python_version list: substring evaluation vs version-list set view"
# (a) environment 3.1 is a substring of the element "3.10"
case(F1, 'python_version not in "3.10"', "and", 'python_version < "3.5"', env("3.1.5"))
case(F1, 'python_version not in "3.10"', "or", 'python_version >= "3.5"', env("3.1.5"))
case(F1, 'python_version in "3.10,3.11"', "and", 'python_full_version < "3.2"', env("3.1.5"))
# (b) one-component element "3" is read as 3.*
case(F1, 'python_version in "3.7, 3"', "or", 'python_version >= "3.9"', env("3.8.2"))
case(F1, 'python_version not in "3"', "and", 'python_version < "3.13"', env("3.10.0"))
# (c) three-component element: "3.8" is a substring of "3.8.1"
case(F1, 'python_version in "3.8.1"', "and", 'python_version != "3.8.0"', env("3.8.10"))
# (d) literal on the left
case(F1, '"3.1" in python_version', "and", 'python_version >= "3.10"', env("3.10.2"))

# ---------------------------------------------------------------------------------------
# F2. Lists that are not comma separated (very common in real metadata:
# `python_version in "2.6 2.7 3.2 3.3"`): the atoms are well defined, `&`/`|` (and hence
# parse_marker of the conjunction) raise dep_logic InvalidSpecifier.
# ---------------------------------------------------------------------------------------
F2 = "F2 python_version list with other separators: & / | raise"
case(F2, 'python_version in "3.8 3.9"', "and", 'python_version >= "3.8"', env("3.8.2"))
case(F2, 'python_version not in "3.8 3.9"', "or", 'python_full_version >= "3.8.1"', env("3.8.2"))
case(F2, 'python_version in "3.8,"', "and", 'python_version >= "3.8"', env("3.8.2"))

# ---------------------------------------------------------------------------------------
# F3. Interpreters / kernels whose version is a pre- or post-release (python_full_version
# "3.12.0a1" with python_version "3.12"; platform_release "5.10.0-91" == 5.10.0.post91).
# PEP 440: `<V` excludes pre-releases of V and `>V` excludes post-releases of V, and
# python_version X.Y also covers X.Y.0aN; the range algebra is a pure ordering.
# ---------------------------------------------------------------------------------------
F3 = "F3 pre/post-release valued environment"
case(F3, 'python_full_version >= "3.12"', "or", 'python_version != "3.12"', env("3.12.0a1"))
case(F3, 'python_version >= "3.12"', "and", 'python_full_version == "3.*"', env("3.12.0b1"))
case(F3, 'python_full_version <= "3.11.0rc1"', "and", 'python_version != "3.10.*"', env("3.11.0rc1"))
case(F3, 'python_full_version < "3.8.0"', "or", 'python_full_version >= "3.8.0"', env("3.8.0rc1"))
case(F3, 'python_full_version < "3.8.0"', "or", 'python_full_version == "3.8.0"', env("3.8.0rc1"))
case(F3, 'python_full_version > "3.8.0"', "or", 'python_full_version == "3.8.0"', env("3.8.0.post1"))
case(F3, 'platform_release > "5.10"', "or", 'platform_release == "5.10"', env("3.8.2", platform_release="5.10.0-91"))
case(F3, 'platform_release >= "5.10"', "and", 'platform_release != "5.10"', env("3.8.2", platform_release="5.10-3"))

# ---------------------------------------------------------------------------------------
# F4. Final-release environment: [X.Y.0, X.(Y+1).0.postN) is re-rendered as `~= X.Y.0`
# (RangeSpecifier._simplified_form checks the upper bound for pre-release but not for
# post-release), which loses X.(Y+1).0 itself.
# ---------------------------------------------------------------------------------------
F4 = "F4 `~=` re-rendering with a post-release upper bound"
case(F4, 'python_full_version >= "3.7.0"', "and", 'python_full_version < "3.8.0.post1"', env("3.8.0"))
case(F4, 'python_full_version < "3.8.post0"', "and", 'python_full_version >= "3.7.0"', env("3.8.0"))
case(F4, 'platform_release >= "5.9.0"', "and", 'platform_release < "5.10.0-1"', env("3.8.2", platform_release="5.10.0"))

print()
print(f"{found} violating cases printed")
