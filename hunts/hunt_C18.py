"""Task A: pre-existing violations of property C18 on the UNMODIFIED library.

Run: cd /tmp/wt/C18f && PYTHONPATH=/tmp/wt/C18f/src /venv/bin/python hunt_C18.py
"""
from packaging.utils import parse_wheel_filename

from dep_logic.tags import EnvSpec, Platform
from dep_logic.tags.platform import PlatformError
from dep_logic.tags.tags import parse_wheel_tags

count = 0


def report(kind, inp, observed, expected):
    global count
    count += 1
    print(f"[{count}] {kind}\n    input:    {inp!r}\n    library:  {observed}\n    oracle:   {expected}")


# ---------------------------------------------------------------------------
# 1. Case of the tags.  packaging.tags.Tag lower-cases interpreter, abi and
#    platform, so packaging accepts these names and reports lower-case tags;
#    parse_wheel_tags keeps the case, so wheel_compatibility() sees different
#    tag sets and (for the python and platform tag) returns a different answer.
# ---------------------------------------------------------------------------
envs = {
    "win/cpython": EnvSpec.from_spec(">=3.9", "windows", "cpython"),
    "linux/any": EnvSpec.from_spec(">=3.9", "linux"),
    "noplatform": EnvSpec.from_spec(">=3.9"),
}
for fn in [
    "foo-1.0-CP39-none-any.whl",
    "foo-1.0-PY3-none-any.whl",
    "foo-1.0-py3-none-ANY.whl",
    "foo-1.0-cp39-cp39-Win_AMD64.whl",
    "foo-1.0-py3-none-manylinux_2_17_X86_64.whl",
    "foo-1.0-py3-None-any.whl",
    "foo-1.0-7-Py2.Py3-none-any.whl",
]:
    _, _, _, tags = parse_wheel_filename(fn)  # packaging accepts
    theirs = {(t.interpreter, t.abi, t.platform) for t in tags}
    py, abi, plat = parse_wheel_tags(fn)
    mine = {(a, b, c) for a in py for b in abi for c in plat}
    if mine != theirs:
        report("tag sets differ from packaging (case not normalised)", fn, sorted(mine), sorted(theirs))
    for label, env in envs.items():
        got = env.wheel_compatibility(fn)
        want = env.compatibility(
            sorted({t.interpreter for t in tags}),
            sorted({t.abi for t in tags}),
            sorted({t.platform for t in tags}),
        )
        if got != want:
            report(
                f"wheel_compatibility differs from compatibility() on packaging's tag sets, env {label} {env}",
                fn,
                got,
                want,
            )

# ---------------------------------------------------------------------------
# 2. Documented alias target.  The docstring of Platform.parse documents
#    `windows` as "an alias for `win_amd64`", but the documented target string
#    itself parses to a different (Generic) platform, so the alias and its
#    documented target are not the same platform.  (`windows_amd64` is fine.)
# ---------------------------------------------------------------------------
a, b = Platform.parse("windows"), Platform.parse("win_amd64")
if a != b:
    report(
        "alias `windows` != its documented target `win_amd64`",
        "windows / win_amd64",
        f"{a!r} vs {b!r} (str: {str(a)!r} vs {str(b)!r}; tags {a.compatible_tags} vs {b.compatible_tags})",
        "equal platforms (docstring: '`windows`: an alias for `win_amd64`')",
    )

# ---------------------------------------------------------------------------
# 3. Wrong exception types / broken round trip OUTSIDE the documented families
#    (strictly outside the quantifier of C18, listed for completeness).
# ---------------------------------------------------------------------------
for s in ["foo", "win32", "windows_foo", "macos_14_0_foo", "manylinux_2_17_sparc", "illumos_5_11_x86_64", "openbsd_7_4_x86_64"]:
    try:
        p = Platform.parse(s)
    except PlatformError:
        continue
    except Exception as e:  # noqa: BLE001
        report("(outside quantifier) unsupported platform raises the wrong exception type", s, f"{type(e).__name__}: {e}", "PlatformError")
        continue
for s in ["openbsd_7_x86_64"]:
    p = Platform.parse(s)
    try:
        q = Platform.parse(str(p))
        ok = q == p
        obs = f"{p!r} -> {str(p)!r} -> {q!r}"
    except Exception as e:  # noqa: BLE001
        ok = False
        obs = f"{p!r} -> {str(p)!r} -> {type(e).__name__}: {e}"
    if not ok:
        report("(outside quantifier) Platform.parse(str(p)) != p (OpenBsd.__str__ drops the release)", s, obs, "round trip")

print(f"\n{count} violation(s) printed")
