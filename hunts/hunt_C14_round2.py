"""C14 hunt (unmodified tree): Boolean-algebra laws of & | ~ on specifiers (== of results) and of & |
on markers (evaluate() of both sides in concrete environments; `a & b` / `a | b` also against packaging's
evaluation of "(a) and (b)" / "(a) or (b)").

Run: cd /tmp/wt/C14g && PYTHONPATH=/tmp/wt/C14g/src /venv/bin/python hunt_C14.py [seed] [scale]

Prints every violation found (none were found on the unmodified tree) and the number of cases run.
The known families are kept out of the generators: final-release environments only, no in/not in on the
version variables, no `<X.postN`, no ===, no +local, no pre-release-only ranges, no ordering operators
on plain strings, no deep nesting (a per-case alarm skips the exponential cases).
"""

from __future__ import annotations

import random
import signal
import sys

from packaging.markers import Marker
from packaging.version import Version

from dep_logic.markers import parse_marker as PM
from dep_logic.specifiers import (
    AnySpecifier,
    EmptySpecifier,
    RangeSpecifier,
    UnionSpecifier,
    parse_version_specifier as PS,
)

seed = int(sys.argv[1]) if len(sys.argv) > 1 else 2024
scale = float(sys.argv[2]) if len(sys.argv) > 2 else 1.0
rnd = random.Random(seed)
violations: list[str] = []


class Slow(BaseException):
    pass


def _alarm(*_):
    raise Slow()


signal.signal(signal.SIGALRM, _alarm)


def report(msg: str) -> None:
    if msg not in violations:
        violations.append(msg)
        print("VIOLATION:", msg)


# --------------------------------------------------------------------------- specifiers
def rand_version() -> str:
    epoch = rnd.choice(["", "", "", "1!", "2!"])
    rel = ".".join(str(rnd.choice([0, 0, 1, 2, 3, 10])) for _ in range(rnd.choice([1, 2, 2, 3, 3, 4, 5])))
    suffix = rnd.choice(["", "", "", "", "a1", "b2", "rc1", ".post1", ".dev1", "a1.dev1", ".post1.dev2", "rc2.post3"])
    return epoch + rel + suffix


def spec_atom() -> str:
    k = rnd.random()
    if k < 0.55:
        op = rnd.choice([">", ">=", "<", "<=", "==", "!="])
        v = rand_version()
        while op == "<" and "post" in v:  # known family 3
            v = rand_version()
        return op + v
    v = rand_version()
    stable = str(Version(v).epoch) + "!" + ".".join(map(str, Version(v).release)) if Version(v).epoch else ".".join(map(str, Version(v).release))
    if k < 0.75:
        return rnd.choice(["==", "!="]) + stable + ".*"
    if k < 0.9:
        if len(Version(v).release) < 2:
            v = stable = stable + ".0"
        return "~=" + rnd.choice([v, stable])
    return ""


def rand_spec():
    k = rnd.random()
    if k < 0.03:
        return AnySpecifier()
    if k < 0.06:
        return EmptySpecifier()
    if k < 0.08:
        return RangeSpecifier()
    parts = []
    for _ in range(rnd.choice([1, 1, 1, 2, 2, 3])):
        parts.append(",".join(a for a in (spec_atom() for _ in range(rnd.choice([1, 1, 2, 3]))) if a))
    r = PS("||".join(parts))
    if rnd.random() < 0.2:
        r = ~r
    return r


def spec_laws(n: int) -> int:
    def eq(law, left, right, *inp):
        if not (left == right and right == left and hash(left) == hash(right)):
            report(f"specifier {law}: inputs {[str(i) for i in inp]}: {left!r} != {right!r}")

    for _ in range(n):
        a, b, c = rand_spec(), rand_spec(), rand_spec()
        try:
            eq("a&b == b&a", a & b, b & a, a, b)
            eq("a|b == b|a", a | b, b | a, a, b)
            eq("(a&b)&c == a&(b&c)", (a & b) & c, a & (b & c), a, b, c)
            eq("(a|b)|c == a|(b|c)", (a | b) | c, a | (b | c), a, b, c)
            eq("a&a == a", a & a, a, a)
            eq("a|a == a", a | a, a, a)
            eq("a&(a|b) == a", a & (a | b), a, a, b)
            eq("a|(a&b) == a", a | (a & b), a, a, b)
            eq("a&(b|c) == (a&b)|(a&c)", a & (b | c), (a & b) | (a & c), a, b, c)
            eq("a|(b&c) == (a|b)&(a|c)", a | (b & c), (a | b) & (a | c), a, b, c)
            eq("~~a == a", ~~a, a, a)
            eq("~(a&b) == ~a|~b", ~(a & b), ~a | ~b, a, b)
            eq("~(a|b) == ~a&~b", ~(a | b), ~a & ~b, a, b)
            if not (a & ~a).is_empty():
                report(f"specifier a&~a not empty: {a!r} -> {(a & ~a)!r}")
            if not (a | ~a).is_any():
                report(f"specifier a|~a not universal: {a!r} -> {(a | ~a)!r}")
            for r in (a & b, a | b, ~a):
                if isinstance(r, UnionSpecifier):
                    for p, q in zip(r.ranges, r.ranges[1:]):
                        if not (p.is_strictly_lower(q) and not p.is_adjacent_to(q)):
                            report(f"specifier result not canonical: {a!r}, {b!r} -> {r!r}")
        except Exception as e:  # noqa: BLE001
            report(f"specifier exception {type(e).__name__}: {e} on {a!r}, {b!r}, {c!r}")
    return n


# --------------------------------------------------------------------------- markers
def q(s: str) -> str:
    return '"' + s + '"'


REFLECT = {"<": ">", "<=": ">=", ">": "<", ">=": "<=", "==": "==", "!=": "!=", "in": "in", "not in": "not in"}
STR_VARS = {
    "os_name": ["posix", "nt", "java"],
    "sys_platform": ["linux", "linux2", "lin", "win32", "darwin", "win", "cygwin", ""],
    "platform_machine": ["x86_64", "arm64", "aarch64", "AMD64"],
    "platform_python_implementation": ["CPython", "PyPy"],
    "platform_version": ["#1 SMP", "10.0.19041", "Darwin Kernel Version 21"],
}
PYS = ["2.7.18", "3.0.0", "3.0.1", "3.1.0", "3.7.9", "3.8.0", "3.8.0.1", "3.8.1", "3.8.2", "3.8.10", "3.9.0", "3.9.1", "3.10.0", "3.10.1", "3.11.0", "4.0.0", "4.1.2"]
PV = ["3", "3.0", "3.8", "3.9", "3.10", "3.8.0", "3.8.1", "3.08", "4", "3.8.0.0", "3.9.0", "2.7", "3.1"]
PFV = ["3", "3.8", "3.8.0", "3.8.1", "3.8.2", "3.9", "3.9.0", "3.9.1", "3.10", "3.10.0", "3.10.1", "4.0", "3.8.0.0", "3.8.0.1", "3.8.1.0", "3.0", "3.0.1", "3.1", "1!3.8"]
RELS = ["4.9", "5", "5.0", "5.4", "5.4.0", "5.10", "5.10.0", "5.10.1", "5.11", "5.15.1", "6.0", "6.1.0", "7", "21.6.0", "10", "5.4.0.1"]
RELLIT = ["5", "5.0", "5.4", "5.4.0", "5.10", "5.10.0", "5.10.1", "5.11", "6", "6.0", "6.1", "10", "5.4.0.0", "5.4.0.1", "7.0"]
EXTRA = ["a", "b", "c", "a-b", "A_B", "a.b", "B"]


def version_atom(name, lits, wild, compat):
    r = rnd.random()
    if r < 0.72:
        op = rnd.choice([">", ">=", "<", "<=", "==", "!="])
        v = rnd.choice(lits)
        if rnd.random() < 0.2:
            return f"{q(v)} {REFLECT[op]} {name}"
    elif r < 0.88:
        op, v = rnd.choice(["==", "!="]), rnd.choice(wild)
    else:
        op, v = "~=", rnd.choice(compat)
    return f"{name} {op} {q(v)}"


def marker_atom(kinds) -> str:
    kind = rnd.choice(kinds)
    if kind == "str":
        name = rnd.choice(list(STR_VARS)) if len(kinds) > 1 else "sys_platform"
        vals = STR_VARS[name]
        r = rnd.random()
        if r < 0.65:
            a = (name, rnd.choice(["==", "!="]), q(rnd.choice(vals)))
            return " ".join(a[::-1] if rnd.random() < 0.2 else a)
        if r < 0.85:
            return f'{name} {rnd.choice(["in", "not in"])} {q(" ".join(rnd.sample(vals, min(len(vals), rnd.choice([1, 2, 3])))))}'
        return f'{q(rnd.choice(vals)[: rnd.choice([0, 1, 3, 5])])} {rnd.choice(["in", "not in"])} {name}'
    if kind == "py":
        if rnd.random() < 0.5:
            return version_atom("python_version", PV, ["3.*", "3.8.*", "3.9.*", "3.8.0.*", "4.*", "3.0.*"], ["3.8", "3.9", "3.0", "3.8.0", "3.8.1"])
        return version_atom("python_full_version", PFV, ["3.*", "3.8.*", "3.9.*", "3.8.0.*", "3.8.1.*", "3.10.*"], ["3.8", "3.9", "3.8.0", "3.8.1", "3.9.0", "3.8.0.0", "3.8.0.1"])
    if kind == "rel":
        if rnd.random() < 0.75:
            return version_atom("platform_release", RELLIT, ["5.*", "5.4.*", "5.10.*", "6.*", "5.4.0.*"], ["5.4", "5.10", "5.4.0", "5.10.0", "6.0", "5.4.0.0"])
        return f'implementation_version {rnd.choice([">", ">=", "<", "<=", "==", "!="])} {q(rnd.choice(["3.8.0", "3.8.1", "3.9", "7.3.9"]))}'
    if kind == "extra":
        a = ("extra", rnd.choice(["==", "!="]), q(rnd.choice(EXTRA)))
        return " ".join(a[::-1] if rnd.random() < 0.2 else a)
    if kind == "extras":
        name, vals = rnd.choice([("extras", EXTRA), ("dependency_groups", ["dev", "test", "Dev", "d_v"])])
        return f'{q(rnd.choice(vals))} {rnd.choice(["in", "not in"])} {name}'
    raise AssertionError(kind)


def marker_expr(kinds, depth=0) -> str:
    if depth >= 2 or rnd.random() < 0.42:
        return marker_atom(kinds)
    glue = rnd.choice([" and ", " or "])
    return "(" + glue.join(marker_expr(kinds, depth + 1) for _ in range(rnd.choice([2, 2, 3]))) + ")"


def make_envs(kinds, lock):
    envs = []
    for _ in range(48):
        e: dict = {}
        for k, vs in STR_VARS.items():
            e[k] = rnd.choice(vs + [v[1:4] for v in vs] + ["freebsd13"])
        full = rnd.choice(PYS)
        e["python_full_version"] = full
        e["python_version"] = ".".join(full.split(".")[:2])
        e["platform_release"] = rnd.choice(RELS)
        e["implementation_version"] = rnd.choice(["3.8.0", "3.8.1", "3.9.0", "7.3.9", "3.10.0"])
        if lock:
            e["extras"] = set(rnd.sample(["a", "b", "a-b", "c"], rnd.choice([0, 1, 2])))
            e["dependency_groups"] = set(rnd.sample(["dev", "test", "d-v"], rnd.choice([0, 1, 2])))
        elif rnd.random() < 0.5:
            e["extra"] = rnd.choice(["", "a", "b", "a-b", "c", "A_B"])
        else:
            e["extra"] = set(rnd.sample(["a", "b", "a-b", "c"], rnd.choice([0, 1, 2, 3])))
        envs.append(e)
    return envs


def marker_laws(n: int, kinds, lock=False) -> tuple[int, int]:
    ctx = "lock_file" if lock else "metadata"
    envs = make_envs(kinds, lock)
    done = slow = 0

    def ev(m, e):
        return m.evaluate(e, context=ctx)

    def same(law, left, right, *inp):
        for e in envs:
            if ev(left, e) != ev(right, e):
                used = {k: v for k, v in e.items() if any(k in i for i in inp)}
                report(f"marker {law}: inputs {list(inp)}: {left!r} vs {right!r} differ in {used}")
                return

    def oracle(op, res, sa, sb):
        ref = Marker(f"({sa}) {op} ({sb})")
        for e in envs:
            if isinstance(e.get("extra"), set):
                continue  # packaging takes a single extra only
            if ev(res, e) != ref.evaluate(dict(e), context=ctx):
                used = {k: v for k, v in e.items() if k in sa or k in sb}
                report(f"marker ({sa}) {op} ({sb}) -> {res!r}: library {ev(res, e)}, packaging {not ev(res, e)} in {used}")
                return

    for i in range(n):
        sa, sb, sc = (marker_expr(kinds) for _ in range(3))
        signal.alarm(3)
        try:
            a, b, c = PM(sa), PM(sb), PM(sc)
            oracle("and", a & b, sa, sb)
            oracle("or", a | b, sa, sb)
            same("a&b ~ b&a", a & b, b & a, sa, sb)
            same("a|b ~ b|a", a | b, b | a, sa, sb)
            same("(a&b)&c ~ a&(b&c)", (a & b) & c, a & (b & c), sa, sb, sc)
            same("(a|b)|c ~ a|(b|c)", (a | b) | c, a | (b | c), sa, sb, sc)
            same("a&a ~ a", a & a, a, sa)
            same("a|a ~ a", a | a, a, sa)
            same("a&(a|b) ~ a", a & (a | b), a, sa, sb)
            same("a|(a&b) ~ a", a | (a & b), a, sa, sb)
            same("a&(b|c) ~ (a&b)|(a&c)", a & (b | c), (a & b) | (a & c), sa, sb, sc)
            same("a|(b&c) ~ (a|b)&(a|c)", a | (b & c), (a | b) & (a | c), sa, sb, sc)
            for r in (a & b, a | b):
                same("result ~ parse(str(result))", r, PM(str(r)), sa, sb)
            done += 1
        except Slow:
            slow += 1
        except Exception as e:  # noqa: BLE001
            report(f"marker exception {type(e).__name__}: {e} on {sa!r}, {sb!r}, {sc!r}")
        finally:
            signal.alarm(0)
    return done, slow


if __name__ == "__main__":
    total = spec_laws(int(20000 * scale))
    print(f"specifier triples checked: {total}")
    plan = [
        ("one string variable (grouped atoms, in/not in both ways)", ["str"], False, 1500),
        ("python_version/python_full_version", ["py"], False, 1500),
        ("platform_release/implementation_version", ["rel"], False, 800),
        ("extra (single and several values)", ["extra"], False, 800),
        ("all variables mixed", ["str", "py", "py", "rel", "extra"], False, 400),
        ("lock_file: extras/dependency_groups + others", ["extras", "extras", "str", "py"], True, 300),
    ]
    for title, kinds, lock, n in plan:
        done, slow = marker_laws(int(n * scale), kinds, lock)
        total += done
        print(f"marker triples checked, {title}: {done} (skipped as too slow: {slow})")
    if violations:
        print(f"{len(violations)} violation(s) found")
    else:
        print(f"no C14 violation found in {total} triples (13 laws each for specifiers, 12 law/oracle checks each for markers)")
