"""C14 hunt (third round): Boolean-algebra laws of the operators on the UNMODIFIED tree.

Run:  cd /tmp/wt/C14i && PYTHONPATH=/tmp/wt/C14i/src /venv/bin/python hunt_C14.py [N_random] [N_dense]

Sections
  1. borderline findings (text splicing in MarkerExpression._get_specifier); both use an
     operand that is not a version, so they sit next to known families (13)/(4) and are
     reported as borderline, not as new in-quantifier violations;
  2. exhaustive specifier laws (== on the returned objects, plus hash agreement) over a pool
     of odd version shapes (epochs, dev/pre/post, 1-5 segments, wildcards of several depths,
     `~=` with 2-4 segments, `||` unions, AnySpecifier / RangeSpecifier() / EmptySpecifier);
  3. marker laws over constructor-built / unnormalised objects (MultiMarker(), MarkerUnion(x),
     EqualityMarkerUnion / InequalityMultiMarker with 0, 1, 2 values, reversed atoms,
     from_pkg_marker with the dotted legacy variable names, Any / Empty);
  4. random marker fuzzer with rich atoms (literal on the left, wildcards, ~=, trailing
     zeros, python_version x python_full_version, extra / extras / dependency_groups with
     name normalisation, `in` / `not in` / reversed `in` on string variables,
     implementation_version, platform_release) - laws judged by evaluating both sides on a
     grid of final-release environments, `a & b` / `a | b` also against packaging;
  5. dense fuzzer on one string variable with a tiny value universe (hits the
     EqualityMarkerUnion / InequalityMultiMarker / GenericSpecifier branches the test-suite
     never reaches).
No section printed a violation on the unmodified tree (see the totals printed at the end).
"""

from __future__ import annotations

import itertools
import random
import signal
import sys

from packaging.markers import Marker
from packaging.specifiers import SpecifierSet

from dep_logic.markers import (
    AnyMarker,
    EmptyMarker,
    MarkerExpression,
    MarkerUnion,
    MultiMarker,
    from_pkg_marker,
)
from dep_logic.markers import parse_marker as P
from dep_logic.markers.single import EqualityMarkerUnion, InequalityMultiMarker
from dep_logic.specifiers import (
    AnySpecifier,
    EmptySpecifier,
    RangeSpecifier,
    from_specifierset,
)
from dep_logic.specifiers import parse_version_specifier as S
from dep_logic.utils import OrderedSet

N_RANDOM = int(sys.argv[1]) if len(sys.argv) > 1 else 400
N_DENSE = int(sys.argv[2]) if len(sys.argv) > 2 else 600
total = bad = 0


class TimeOut(Exception):
    pass


def _alarm(*_):
    raise TimeOut()


signal.signal(signal.SIGALRM, _alarm)


def ev(m, env):
    try:
        return m.evaluate(env)
    except Exception as e:  # noqa: BLE001
        return "EXC:" + type(e).__name__


def differ(lhs, rhs, envs):
    for env in envs:
        x, y = ev(lhs, env), ev(rhs, env)
        if x != y:
            return env, x, y
    return None


def marker_laws(a, b, c):
    return {
        "comm&": (lambda: a & b, lambda: b & a),
        "comm|": (lambda: a | b, lambda: b | a),
        "assoc&": (lambda: (a & b) & c, lambda: a & (b & c)),
        "assoc|": (lambda: (a | b) | c, lambda: a | (b | c)),
        "idem&": (lambda: a & a, lambda: a),
        "idem|": (lambda: a | a, lambda: a),
        "absorb&|": (lambda: a & (a | b), lambda: a),
        "absorb|&": (lambda: a | (a & b), lambda: a),
        "dist&|": (lambda: a & (b | c), lambda: (a & b) | (a & c)),
        "dist|&": (lambda: a | (b & c), lambda: (a | b) & (a | c)),
    }


def check_marker_triple(a, b, c, envs, label):
    global total, bad
    for name, (f, g) in marker_laws(a, b, c).items():
        total += 1
        try:
            lhs, rhs = f(), g()
        except TimeOut:
            raise
        except Exception as e:  # noqa: BLE001
            bad += 1
            print(f"VIOLATION {name}: {type(e).__name__}: {e}\n   inputs {label}")
            continue
        d = differ(lhs, rhs, envs)
        if d:
            bad += 1
            print(
                f"VIOLATION {name}\n   inputs {label}\n   library lhs = {lhs} -> {d[1]}\n"
                f"   library rhs = {rhs} -> {d[2]}\n   env = {d[0]}"
            )


# --------------------------------------------------------------------------- 1
print("== 1. borderline findings (operand is not a version; next to families 13 / 4) ==")
env = {"python_version": "3.10", "python_full_version": "3.10.4", "os_name": "posix"}
a = P('python_version < "empty>"')
print(
    'B1  python_version < "empty>": op + value spell the sentinel "<empty>", so its\n'
    f"    specifier is {a.specifier!r} although the atom evaluates {a.evaluate(env)} "
    f"(string fallback; packaging says {Marker(str(a)).evaluate(dict(env, extra=''))})."
)
b = P('python_version >= "99"')
c = P('python_version < "99"')
lhs, rhs = (a & b) & c, a & (b & c)
print(
    f"    associativity of & with b = {b}, c = {c}:\n"
    f"      (a & b) & c = {lhs} -> {ev(lhs, env)}    a & (b & c) = {rhs} -> {ev(rhs, env)}   on {env}\n"
    f"      direct evaluation of a and b and c -> {a.evaluate(env) and b.evaluate(env) and c.evaluate(env)}\n"
    f"    a | b = {a | b} -> library {ev(a | b, env)}; direct a.evaluate or b.evaluate -> "
    f"{a.evaluate(env) or b.evaluate(env)}"
)
try:
    r = P('python_full_version == "=3.8"') | P('python_full_version < "3.0"')
    print("B2  no exception:", r)
except Exception as e:  # noqa: BLE001
    print(
        'B2  python_full_version == "=3.8" | python_full_version < "3.0" raises '
        f"{type(e).__name__}: {e}\n    (op + value spell `===3.8`; the `===` guard in "
        "_has_exact_specifier looks at op only; expected: an unmerged MarkerUnion)"
    )

# --------------------------------------------------------------------------- 2
print("== 2. specifier laws, == on returned objects ==")
texts = [
    "", "<empty>", ">=1", ">1.0", "<2", "<=2.0.0", "==1.5", "!=1.5", "==1.*", "!=1.*",
    "==1.5.*", "!=1.5.0.*", "~=1.5", "~=1.5.2", "~=1.5.2.0", ">=1!0", "<1!2", "==1!1.*",
    "~=1!1.2", ">=1.5rc1", "<1.5.dev3", ">1.5.post2", "<=1.5.0.post2", "==1.5a1",
    "!=1.5.post1", ">=1.5,<1.6", ">1,<2,!=1.5", "!=1,!=2,!=3", "<1||>=2", "==1||==2||==3",
    ">=1.5.0.0.0", "<1.5.0.1", ">=0", "<0", ">=0.dev0", "~=0.0", "==0.*", ">=1,<=1",
    ">=2,<1", "!=1.5.*,!=1.6.*", ">=1.0a1,<1.0", "==1.0.0.0", ">=v1.5", "<=1.5-1",
]  # fmt: skip
specs = [S(t) for t in texts]
specs += [from_specifierset(SpecifierSet(">=1,<3")), RangeSpecifier(), AnySpecifier(), EmptySpecifier()]


def spec_eq(name, lhs, rhs, *inp):
    global total, bad
    total += 1
    if not (lhs == rhs and rhs == lhs):
        bad += 1
        print(f"VIOLATION {name} {[str(i) for i in inp]}: {lhs!r} != {rhs!r}")


for a in specs:
    spec_eq("idem&", a & a, a, a)
    spec_eq("idem|", a | a, a, a)
    spec_eq("involution", ~~a, a, a)
    total += 2
    if not (a & ~a).is_empty():
        bad += 1
        print(f"VIOLATION a & ~a not empty for {a}: {a & ~a!r}")
    if not (a | ~a).is_any():
        bad += 1
        print(f"VIOLATION a | ~a not universal for {a}: {a | ~a!r}")
for a, b in itertools.product(specs, repeat=2):
    spec_eq("comm&", a & b, b & a, a, b)
    spec_eq("comm|", a | b, b | a, a, b)
    spec_eq("absorb&|", a & (a | b), a, a, b)
    spec_eq("absorb|&", a | (a & b), a, a, b)
    spec_eq("deMorgan&", ~(a & b), ~a | ~b, a, b)
    spec_eq("deMorgan|", ~(a | b), ~a & ~b, a, b)
    total += 1
    if a == b and hash(a) != hash(b):
        bad += 1
        print(f"VIOLATION equal objects, different hash: {a!r} {b!r}")
for a, b, c in itertools.product(specs, repeat=3):
    spec_eq("assoc&", (a & b) & c, a & (b & c), a, b, c)
    spec_eq("assoc|", (a | b) | c, a | (b | c), a, b, c)
    spec_eq("dist&|", a & (b | c), (a & b) | (a & c), a, b, c)
    spec_eq("dist|&", a | (b & c), (a | b) & (a | c), a, b, c)
print(f"   {len(specs)} specifiers, running total {total} checks, {bad} violations")

# --------------------------------------------------------------------------- 3
print("== 3. constructor-built / unnormalised marker objects ==")
E = MarkerExpression
pool = [
    AnyMarker(), EmptyMarker(), P(""), P("<empty>"),
    MultiMarker(E("os_name", "==", "nt")), MarkerUnion(E("os_name", "==", "nt")),
    MultiMarker(), MarkerUnion(),
    MultiMarker(E("os_name", "==", "nt"), AnyMarker()),
    MarkerUnion(E("os_name", "==", "nt"), EmptyMarker()),
    MultiMarker(E("os_name", "==", "nt"), E("os_name", "!=", "nt")),
    MarkerUnion(E("os_name", "==", "nt"), E("os_name", "!=", "nt")),
    MultiMarker(MarkerUnion(E("os_name", "==", "nt"), E("sys_platform", "==", "linux")), E("python_version", ">=", "3.8")),
    EqualityMarkerUnion("os_name", OrderedSet(["nt"])),
    EqualityMarkerUnion("os_name", OrderedSet(["nt", "posix"])),
    InequalityMultiMarker("os_name", OrderedSet(["nt"])),
    InequalityMultiMarker("os_name", OrderedSet(["posix", "java"])),
    EqualityMarkerUnion("os_name", OrderedSet([])),
    InequalityMultiMarker("os_name", OrderedSet([])),
    from_pkg_marker(Marker("os.name == 'nt' and python_implementation == 'CPython'")),
    E("os_name", "==", "nt", True), E("python_version", ">=", "3.8", True),
    P('python_version >= "3.8"'), P('python_full_version < "3.9.2"'), P('os_name != "nt"'),
    P('sys_platform == "linux" or os_name == "posix"'), P('extra == "a"'), P('extra != "A"'),
]  # fmt: skip
envs3 = [
    {"os_name": o, "sys_platform": s, "python_version": pv, "python_full_version": pf,
     "extra": x, "platform_python_implementation": "CPython"}
    for o in ["nt", "posix", "java"] for s in ["linux", "win32"]
    for pv, pf in [("3.7", "3.7.9"), ("3.8", "3.8.0"), ("3.9", "3.9.1"), ("3.9", "3.9.2"), ("3.10", "3.10.0")]
    for x in ["", "a", {"a", "b"}]
]  # fmt: skip
for a, b, c in itertools.product(pool, repeat=3):
    if random.Random(hash((id(a), id(b), id(c)))).random() < 0.25:  # a quarter of 21952 triples
        check_marker_triple(a, b, c, envs3, [repr(a), repr(b), repr(c)])
print(f"   running total {total} checks, {bad} violations")

# --------------------------------------------------------------------------- 4
print(f"== 4. random marker fuzzer, {N_RANDOM} triples ==")
rnd = random.Random(20260930)
PYV = ["2.7.18", "3.0.0", "3.1.5", "3.7.0", "3.7.9", "3.8.0", "3.8.1", "3.8.10", "3.9.0",
       "3.9.2", "3.10.0", "3.10.1", "3.11.0", "3.11.9", "3.12.3", "4.0.0", "4.1.2"]  # fmt: skip
envs4 = []
for full in PYV:
    pv = ".".join(full.split(".")[:2])
    for osn, sp, ps in [("posix", "linux", "Linux"), ("nt", "win32", "Windows"), ("posix", "darwin", "Darwin"), ("java", "java1.8", "Java")]:
        for extra in ["", "a", "b-c", {"a", "b-c"}]:
            for impl in [("cpython", "3.8.1", "CPython"), ("pypy", "7.3.11", "PyPy")]:
                for rel in ["5.10.0", "6.1", "4.4.0.1"]:
                    envs4.append({
                        "python_version": pv, "python_full_version": full, "os_name": osn,
                        "sys_platform": sp, "platform_system": ps, "extra": extra,
                        "implementation_name": impl[0], "implementation_version": impl[1],
                        "platform_python_implementation": impl[2], "platform_release": rel,
                        "platform_machine": "x86_64", "platform_version": "#1 SMP",
                        "extras": {"a", "B_c"} if extra else set(),
                        "dependency_groups": {"dev"} if osn == "nt" else set(),
                    })  # fmt: skip
envs4 = random.Random(1).sample(envs4, 220)
pv_vals = ["3", "3.0", "3.7", "3.8", "3.9", "3.10", "3.11", "4", "4.0", "3.8.0", "3.8.1", "3.10.0", "3.08", "2.7", "3.8.0.0"]
pfv_vals = ["3", "3.8", "3.8.0", "3.8.1", "3.8.10", "3.9", "3.9.0", "3.9.2", "3.10", "3.10.0", "3.10.1", "3.11", "4", "4.0.0", "3.7.9", "2.7.18", "3.8.0.0", "3.8.1.0", "0!3.8"]
wild = ["3.*", "3.8.*", "3.10.*", "3.8.0.*", "3.8.1.*", "4.*", "2.*"]
tilde = ["3.8", "3.8.0", "3.8.1", "3.8.0.0", "3.10", "3.9.2", "3.10.0", "2.7", "3.0", "3.8.1.0"]
ops = ["<", "<=", ">", ">=", "==", "!="]
strvars = {
    "os_name": ["posix", "nt", "java", "os"],
    "sys_platform": ["linux", "win32", "darwin", "win", "lin", "java1.8"],
    "platform_system": ["Linux", "Windows", "Darwin", "Java"],
    "implementation_name": ["cpython", "pypy", "py"],
    "platform_machine": ["x86_64", "arm64", "x86"],
    "platform_python_implementation": ["CPython", "PyPy"],
}


def ver_atom(name):
    r = rnd.random()
    vals = pv_vals if name == "python_version" else pfv_vals
    if r < 0.15:
        return f'{name} {rnd.choice(["==", "!="])} "{rnd.choice(wild)}"'
    if r < 0.27:
        return f'{name} ~= "{rnd.choice(tilde)}"'
    if r < 0.45:
        return f'"{rnd.choice(vals)}" {rnd.choice(ops)} {name}'
    return f'{name} {rnd.choice(ops)} "{rnd.choice(vals)}"'


def str_atom():
    name = rnd.choice(list(strvars))
    v = rnd.choice(strvars[name])
    r = rnd.random()
    if r < 0.35:
        return f'{name} == "{v}"'
    if r < 0.6:
        return f'{name} != "{v}"'
    if r < 0.7:
        return f'"{v}" == {name}'
    if r < 0.75:
        return f'"{v}" != {name}'
    if r < 0.82:
        return f'"{v}" in {name}'
    if r < 0.87:
        return f'"{v}" not in {name}'
    vs = " ".join(rnd.sample(strvars[name], 2))
    if r < 0.94:
        return f'{name} in "{vs}"'
    return f'{name} not in "{vs}"'


def extra_atom():
    r = rnd.random()
    v = rnd.choice(["a", "A", "b-c", "B_c", "b.c", "d"])
    if r < 0.35:
        return f'extra == "{v}"'
    if r < 0.6:
        return f'extra != "{v}"'
    if r < 0.7:
        return f'"{v}" == extra'
    if r < 0.8:
        return f'"{v}" in extras'
    if r < 0.9:
        return f'"{v}" not in extras'
    g = rnd.choice(["dev", "Dev", "test"])
    return f'"{g}" in dependency_groups' if r < 0.95 else f'"{g}" not in dependency_groups'


def other_atom():
    if rnd.random() < 0.5:
        return f'implementation_version {rnd.choice(ops)} "{rnd.choice(["3.8", "3.8.1", "7.3", "7.3.11", "3.8.1.0"])}"'
    return f'platform_release {rnd.choice(ops)} "{rnd.choice(["5.10", "5.10.0", "6", "6.1", "4.4.0.1", "4.4"])}"'


def atom4():
    r = rnd.random()
    if r < 0.3:
        return ver_atom("python_version")
    if r < 0.55:
        return ver_atom("python_full_version")
    if r < 0.8:
        return str_atom()
    if r < 0.92:
        return extra_atom()
    return other_atom()


def expr(depth, atom):
    if depth == 0 or rnd.random() < 0.3:
        return atom()
    return rnd.choice([" and ", " or "]).join("(" + expr(depth - 1, atom) + ")" for _ in range(2))


def pk(text, env):
    try:
        return Marker(text).evaluate(env)
    except Exception as e:  # noqa: BLE001
        return "EXC:" + type(e).__name__


timeouts = 0
for _ in range(N_RANDOM):
    ta, tb, tc = expr(rnd.choice([0, 0, 1, 1]), atom4), expr(rnd.choice([0, 1, 1]), atom4), expr(rnd.choice([0, 0, 1]), atom4)
    signal.alarm(8)
    try:
        a, b, c = P(ta), P(tb), P(tc)
        check_marker_triple(a, b, c, envs4, [ta, tb, tc])
        for res, text in ((a & b, f"({ta}) and ({tb})"), (a | b, f"({ta}) or ({tb})")):
            total += 1
            for env in envs4[:60]:
                if isinstance(env["extra"], set):
                    continue  # packaging wants a string for `extra`
                x, y = ev(res, env), pk(text, env)
                if x != y:
                    bad += 1
                    print(f"VIOLATION vs packaging: {text}\n   library {res} -> {x}, packaging -> {y}\n   env {env}")
                    break
    except TimeOut:
        timeouts += 1
    finally:
        signal.alarm(0)
print(f"   running total {total} checks, {bad} violations, {timeouts} timeouts")

# --------------------------------------------------------------------------- 5
print(f"== 5. dense single-variable fuzzer, {N_DENSE} triples ==")
vals5 = ["a", "b", "ab", "c", "", "b a"]
envs5 = [{"sys_platform": x, "os_name": y} for x in ["a", "b", "ab", "c", "abc", "", "d", "b a", "a b"] for y in ["a", "b", "zz"]]


def atom5():
    name = "sys_platform" if rnd.random() < 0.85 else "os_name"
    v = rnd.choice(vals5)
    r = rnd.random()
    if r < 0.3:
        return f'{name} == "{v}"'
    if r < 0.6:
        return f'{name} != "{v}"'
    if r < 0.65:
        return f'"{v}" == {name}'
    if r < 0.7:
        return f'"{v}" != {name}'
    if r < 0.78:
        return f'"{v}" in {name}'
    if r < 0.85:
        return f'"{v}" not in {name}'
    if r < 0.93:
        return f'{name} in "{v}"'
    return f'{name} not in "{v}"'


timeouts = 0
for _ in range(N_DENSE):
    ta, tb, tc = expr(rnd.choice([0, 1, 1, 2]), atom5), expr(rnd.choice([0, 1, 1, 2]), atom5), expr(rnd.choice([0, 1]), atom5)
    signal.alarm(5)
    try:
        check_marker_triple(P(ta), P(tb), P(tc), envs5, [ta, tb, tc])
    except TimeOut:
        timeouts += 1
    finally:
        signal.alarm(0)
print(f"   running total {total} checks, {bad} violations, {timeouts} timeouts")

print(f"TOTAL: {total} checks, {bad} new in-quantifier violations (2 borderline findings listed in section 1)")
