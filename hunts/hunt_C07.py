"""C07 hunt: round-trip violations that the UNMODIFIED library already has.

Run:  cd /tmp/wt/C07f && PYTHONPATH=/tmp/wt/C07f/src /venv/bin/python -W ignore hunt_C07.py

Every finding prints the concrete input, what the library does, and what an
independent oracle says (packaging's Marker on the source text / on str(m), or
evaluating m and parse_marker(str(m)) side by side on one environment).
"""

from __future__ import annotations

import warnings

from packaging.markers import Marker as PkgMarker

from dep_logic.markers import parse_marker as P

warnings.simplefilter("ignore")  # SyntaxWarning from packaging's literal_eval

BASE = {
    "os_name": "posix",
    "sys_platform": "linux",
    "platform_release": "5.4.0",
    "platform_version": "#1 SMP",
    "python_version": "3.10",
    "python_full_version": "3.10.0",
}
found = 0


def header(title: str) -> None:
    print()
    print("=" * 78)
    print(title)
    print("=" * 78)


def try_parse(text: str) -> str:
    out = []
    for label, fn in (("packaging.Marker", PkgMarker), ("parse_marker", P)):
        try:
            fn(text)
            out.append(f"{label}: accepted")
        except Exception as e:  # noqa: BLE001
            out.append(f"{label}: {type(e).__name__}")
    return "; ".join(out)


def roundtrip(desc: str, m, env: dict, source: str | None = None) -> None:
    """Show m vs parse_marker(str(m)) on env (plus packaging verdicts)."""
    global found
    text = str(m)
    print(f"input      : {desc}")
    print(f"str(m)     : {text}")
    try:
        m2 = P(text)
    except Exception as e:  # noqa: BLE001
        print(f"reparse    : {type(e).__name__}  ({try_parse(text)})")
        print("VIOLATION  : str(m) is not a valid marker")
        found += 1
        return
    print(f"reparsed   : {m2}")
    shown = {k: v for k, v in env.items() if k in text}
    a, b = m.evaluate(env), m2.evaluate(env)
    line = f"env {shown}: m.evaluate={a}  parse_marker(str(m)).evaluate={b}"
    line += f"  packaging(str(m))={PkgMarker(text).evaluate(env)}"
    if source is not None:
        line += f"  packaging(source)={PkgMarker(source).evaluate(env)}"
    print(line)
    if a != b:
        print("VIOLATION  : re-parsed marker evaluates differently from m")
        found += 1
    else:
        print("(no difference here)")


# ---------------------------------------------------------------------------
header('1. A literal containing a double quote renders as an invalid marker')
# PEP 508 allows '...' strings containing ".  __str__ always uses "..." quotes.
for src in (
    """platform_version == 'say "hi"'""",
    """os_name == 'a"b' or os_name == 'c'""",  # EqualityMarkerUnion.__str__ too
    """os_name != 'a"b' and os_name != 'c'""",  # InequalityMultiMarker.__str__ too
):
    roundtrip(f"parse_marker({src!r})", P(src), BASE)
    print()

# ---------------------------------------------------------------------------
header("2. A literal containing a backslash changes value or becomes invalid")
# packaging (>= 22) reads the quoted string with ast.literal_eval, so the marker text
# 'a\\nb' denotes the 4-character value a\nb (backslash, n).  __str__ writes the value
# back raw, so the re-parse turns backslash-n into a newline.
src = "platform_version == 'a\\\\nb'"
env = {**BASE, "platform_version": "a\\nb"}
m = P(src)
print(f"(value held by the atom: {m.value!r})")
roundtrip(f"parse_marker({src!r})", m, env, source=src)
print()
src = "platform_version != 'dir\\\\'"  # value ends with one backslash
roundtrip(f"parse_marker({src!r})", P(src), BASE)

# ---------------------------------------------------------------------------
header('3. `"lit" in <version variable>` is merged as if it were `variable in "lit"`')
# _has_exact_specifier() returns True for every reversed in/not in atom, but for
# python_version / python_full_version / platform_release _get_specifier() builds the
# specifier of the FORWARD atom (`"3" not in python_full_version` -> `!=3.0.0`).
# `X | Y` then simplifies to X (unsound); the CNF result m keeps X and Y in different
# clauses, the re-parse distributes and merges `Y & X` to Y: two different markers.
C = P('os_name == "nt"')
D = P('sys_platform == "win32"')
X = P('"3" not in python_full_version')
Y = P('python_full_version == "3.10.0"')
m = ((C | D) & X) | Y
roundtrip(
    '((os_name == "nt" | sys_platform == "win32") & "3" not in python_full_version)'
    ' | python_full_version == "3.10.0"',
    m,
    BASE,
)
print(
    "oracle     : the four operands evaluated directly give "
    f"(({C.evaluate(BASE)} or {D.evaluate(BASE)}) and {X.evaluate(BASE)}) or {Y.evaluate(BASE)}"
    " = True, so it is m that is wrong and the re-parsed text that happens to be right;"
    " either way they differ."
)

# ---------------------------------------------------------------------------
header("4. platform_release that is not a PEP 440 version (e.g. a Linux kernel release)")
# `platform_release != "6.1.0"` is a version comparison and is False when the
# environment value is not a version (packaging agrees); `platform_release not in
# "5.4.0, 6.1.0"` is a substring test and is True.  The library merges
# `!= "6.1.0" and not in "5.4.0, 6.1.0"` into the `not in` atom on re-parse, but m
# (a CNF candidate chosen by union()) still holds both.
A = P('platform_release != "6.1.0"')
B = P('platform_release not in "5.4.0, 6.1.0"')
m = (A & (C | D)) | B
env = {**BASE, "platform_release": "5.15.0-91-generic"}
roundtrip(
    '(platform_release != "6.1.0" & (os_name == "nt" | sys_platform == "win32"))'
    ' | platform_release not in "5.4.0, 6.1.0"',
    m,
    env,
)
print(
    "oracle     : operands evaluated directly (all agree with packaging): "
    f"({A.evaluate(env)} and ({C.evaluate(env)} or {D.evaluate(env)})) or {B.evaluate(env)} = True"
)

# ---------------------------------------------------------------------------
header("5. (adjacent, not counted) legal markers on which & / | / parse_marker raise")
for src in (
    # space separated list: fine as an atom, InvalidSpecifier (not InvalidMarker) once
    # a second python_version atom forces the specifier to be computed
    "python_version in '2.7 3.6' and python_version >= '2.7'",
    "platform_release == '5.4.0-generic' or platform_release == '5.4.0-aws'",
    "'microsoft' in platform_release and platform_release >= '5'",
    "python_version === '3.8' or python_version >= '3.9'",
):
    try:
        r = f"-> {P(src)}"
    except Exception as e:  # noqa: BLE001
        r = f"raises {type(e).__name__}: {e}"
    try:
        PkgMarker(src).evaluate(BASE)
        o = "packaging parses and evaluates it"
    except Exception as e:  # noqa: BLE001
        o = f"packaging: {type(e).__name__}"
    print(f"parse_marker({src!r})\n    {r}\n    oracle: {o}")

print()
print(f"{found} round-trip violations shown")
