"""Hunt for C10 (memoisation is transparent) on the unmodified library.

Differential search: a probe (a small tree of parse_marker / & / | / re-parse of the
rendered result / without_extras / exclude / only) is evaluated

  * cold: every cache emptied first (parse_marker, _merge_single_markers, cnf, dnf; all
    marker objects are then rebuilt, so the per-object lazy caches are fresh too), or -
    in `sub` mode - as the first thing in a fresh interpreter with a random PYTHONHASHSEED;
  * warm: after a random history of other probes drawn from the same small pool of
    marker texts (so operands collide: '3.8' vs '3.8.0' vs '3.8.00' vs '0!3.8',
    literal-on-the-left vs right, quote and whitespace variants, extra names differing
    only by normalisation, results re-rendered by the library), in three random orders.

Compared: str(result), a structural dump (types, fields, `reversed`), the truth table over
33 environments, and the exception type/message when the probe raises. Both sides of the
comparison are the library itself under a different history, which is exactly what the
property quantifies over; no hard-coded expectations.

usage: hunt_C10.py [rounds=40] [sub_probes=20]

Result of the search that was actually run for the report (unmodified tree):
  in-process, general mix : seeds 1,3,4,5,6,63,64   ~46,000 warm probes  0 violations
  in-process, version atoms only (python_version / python_full_version / platform_release,
      epochs, wildcards of depth 1-3, ~= with 2-4 segments, trailing zeros, reversed)
                            seeds 21,22,61,62       ~32,000 warm probes  0 violations
  in-process, string/extra atoms only (==, !=, in, not in both ways round, os.name alias,
      extra / extras / dependency_groups with name normalisation)
                            seeds 31,32             ~12,900 warm probes  0 violations
  in-process, only ==/!=/in/not in on os_name, sys_platform, extra over six literals
      (collisions between EqualityMarkerUnion / InequalityMultiMarker value orders)
                            seeds 7,8               ~25,800 warm probes  0 violations
  fresh interpreters (random hash seeds): 396 general + 300 version + 298 string probes,
      each run once alone and once after 8 history operations        0 violations
No NEW violation of C10 was found; this script re-runs a reduced version of that search
and prints every difference it sees (none expected on the unmodified tree).
"""
from __future__ import annotations

import itertools
import random
import sys
import time

from dep_logic.markers import parse_marker
from dep_logic.markers import single as _single
from dep_logic import utils as _utils
from dep_logic.markers.any import AnyMarker
from dep_logic.markers.empty import EmptyMarker
from dep_logic.markers.multi import MultiMarker
from dep_logic.markers.union import MarkerUnion
from dep_logic.markers.single import (
    EqualityMarkerUnion,
    InequalityMultiMarker,
    MarkerExpression,
)


def clear():
    parse_marker.cache_clear()
    _single._merge_single_markers.cache_clear()
    _utils.cnf.cache_clear()
    _utils.dnf.cache_clear()
    d = getattr(_single, "_parsed_specifiers", None)
    if d is not None:
        d.clear()


VERS = ["3.8", "3.8.0", "3.9", "3.10", "3.10.0", "3.1", "3", "3.0", "3.10.2", "3.9.*", "3.*", "2.7", "4", "3.8.00", "03.8", "1!3.8", "3.8.1.*", "3.8.1.0", "3.8.1", "0!3.8", "3.8.0.0", "5.15.0-generic"]
VOPS = ["==", "!=", "<", "<=", ">", ">=", "~="]
STRVARS = {
    "os_name": ["nt", "posix", "java"],
    "sys_platform": ["linux", "win32", "darwin", "Linux"],
    "platform_machine": ["x86_64", "arm64"],
    "platform_system": ["Linux", "Windows"],
    "implementation_name": ["cpython", "pypy"],
    "platform_python_implementation": ["CPython", "PyPy"],
    "platform_version": ["#1 SMP", "10.0"],
}
EXTRAS = ["foo", "Foo", "foo-bar", "foo_bar", "foo.bar", "bar"]


FOCUS = None


def rnd_atom(r: random.Random) -> str:
    k = r.random()
    if FOCUS == "ver":
        k = k * 0.45
    elif FOCUS == "str":
        k = 0.53 + k * 0.47
    if k < 0.45:
        name = r.choice(["python_version", "python_full_version", "python_version", "platform_release"])
        op = r.choice(VOPS)
        v = r.choice(VERS)
        if "*" in v and op not in ("==", "!="):
            op = r.choice(["==", "!="])
        if op == "~=" and "." not in v:
            v = "3.8"
        if r.random() < 0.25 and op != "~=" and "*" not in v:
            rop = {"<": ">", "<=": ">=", ">": "<", ">=": "<=", "==": "==", "!=": "!="}[op]
            return f'"{v}" {rop} {name}'
        q = r.choice(['"', "'"])
        sp = r.choice([" ", "", "  "])
        return f"{name}{sp}{op}{sp}{q}{v}{q}"
    if k < 0.53:
        name = "implementation_version"
        return f'{name} {r.choice(["==", "!=", ">=", "<"])} "{r.choice(["3.8", "3.8.0", "3.10"])}"'
    if k < 0.80:
        name = r.choice(list(STRVARS))
        v = r.choice(STRVARS[name])
        op = r.choice(["==", "!=", "==", "!=", "in", "not in"])
        if name == "platform_python_implementation" and r.random() < 0.3:
            name = "python_implementation"
        if name in ("os_name", "sys_platform") and r.random() < 0.2:
            name = name.replace("_", ".")
        if r.random() < 0.25:
            return f'"{v}" {op} {name}'
        if op in ("in", "not in"):
            v = r.choice([v, v + " x", "win32 linux", "nt posix"])
        return f'{name} {op} "{v}"'
    if k < 0.93:
        op = r.choice(["==", "!="])
        v = r.choice(EXTRAS)
        if r.random() < 0.2:
            return f'"{v}" {op} extra'
        return f'extra {op} "{v}"'
    name = r.choice(["extras", "dependency_groups"])
    v = r.choice(EXTRAS)
    return f'"{v}" {r.choice(["in", "not in"])} {name}'


def rnd_text(r: random.Random, depth=0) -> str:
    n = r.choice([1, 1, 2, 2, 3])
    parts = []
    for _ in range(n):
        if depth < 1 and r.random() < 0.2:
            parts.append("(" + rnd_text(r, depth + 1) + ")")
        else:
            parts.append(rnd_atom(r))
    out = parts[0]
    for p in parts[1:]:
        out += r.choice([" and ", " or "]) + p
    return out


# expression trees: ("p", text) | ("&", t1, t2) | ("|", t1, t2) | ("re", t) | ("only", t, names) | ("excl", t, name) | ("wo", t)
def rnd_tree(r: random.Random, pool: list[str], depth=0):
    k = r.random()
    if depth >= 2 or k < 0.35:
        return ("p", r.choice(pool))
    if k < 0.62:
        return ("&", rnd_tree(r, pool, depth + 1), rnd_tree(r, pool, depth + 1))
    if k < 0.88:
        return ("|", rnd_tree(r, pool, depth + 1), rnd_tree(r, pool, depth + 1))
    if k < 0.94:
        return ("re", rnd_tree(r, pool, depth + 1))
    if k < 0.96:
        return ("wo", rnd_tree(r, pool, depth + 1))
    if k < 0.98:
        return ("excl", rnd_tree(r, pool, depth + 1), r.choice(["extra", "python_version", "os_name"]))
    return ("only", rnd_tree(r, pool, depth + 1), r.choice([("python_version",), ("python_version", "python_full_version"), ("extra", "os_name")]))


def ev(tree):
    t = tree[0]
    if t == "p":
        return parse_marker(tree[1])
    if t == "&":
        return ev(tree[1]) & ev(tree[2])
    if t == "|":
        return ev(tree[1]) | ev(tree[2])
    if t == "re":
        return parse_marker(str(ev(tree[1])))
    if t == "wo":
        return ev(tree[1]).without_extras()
    if t == "excl":
        return ev(tree[1]).exclude(tree[2])
    if t == "only":
        return ev(tree[1]).only(*tree[2])
    raise AssertionError(t)


def dump(m) -> str:
    if isinstance(m, MarkerExpression):
        return f"E({m.name!r},{m.op!r},{m.value!r},{m.reversed!r})"
    if isinstance(m, EqualityMarkerUnion):
        return f"EQU({m.name!r},{list(m.values)!r})"
    if isinstance(m, InequalityMultiMarker):
        return f"NEM({m.name!r},{list(m.values)!r})"
    if isinstance(m, MultiMarker):
        return "AND[" + ",".join(dump(x) for x in m.markers) + "]"
    if isinstance(m, MarkerUnion):
        return "OR[" + ",".join(dump(x) for x in m.markers) + "]"
    if isinstance(m, AnyMarker):
        return "ANY"
    if isinstance(m, EmptyMarker):
        return "EMPTY"
    return repr(m)


ENVS = []
for pfv in ["3.7.9", "3.8.0", "3.8.5", "3.9.1", "3.10.0", "3.10.2", "3.1.0", "3.0.0", "4.0.0", "2.7.18", "3.11.4"]:
    pv = ".".join(pfv.split(".")[:2])
    for i, (osn, sp, ex) in enumerate([("nt", "win32", "foo"), ("posix", "linux", "foo-bar"), ("java", "darwin", "")]):
        ENVS.append(
            {
                "python_version": pv,
                "python_full_version": pfv,
                "os_name": osn,
                "sys_platform": sp,
                "platform_machine": ["x86_64", "arm64"][i % 2],
                "platform_system": ["Windows", "Linux", "Linux"][i],
                "implementation_name": ["cpython", "pypy", "cpython"][i],
                "platform_python_implementation": ["CPython", "PyPy", "CPython"][i],
                "implementation_version": pfv,
                "platform_version": ["10.0", "#1 SMP", "x"][i],
                "platform_release": ["3.8.0", "3.10", "3.9.1"][i],
                "extra": ex,
                "extras": {ex} if ex else set(),
                "dependency_groups": {"bar"} if i else set(),
            }
        )


class _TO(BaseException):
    pass


def _alarm(*a):
    raise _TO()


import signal

signal.signal(signal.SIGALRM, _alarm)


def observe(tree, with_eval=True):
    try:
        return _observe(tree, with_eval)
    except _TO:
        return None


def _observe(tree, with_eval=True):
    signal.setitimer(signal.ITIMER_REAL, 1.5)
    try:
        m = ev(tree)
    except _TO:
        return None
    except Exception as e:  # noqa
        signal.setitimer(signal.ITIMER_REAL, 0)
        return ("EXC", type(e).__name__, str(e)[:80])
    finally:
        signal.setitimer(signal.ITIMER_REAL, 0)
    s = str(m)
    d = dump(m)
    if not with_eval:
        return (s, d)
    evs = []
    for env in ENVS:
        try:
            evs.append(m.evaluate(dict(env)))
        except Exception as e:  # noqa
            evs.append(type(e).__name__)
    return (s, d, tuple(evs))


CHILD = r"""
import sys, json
sys.path.insert(0, %r)
import hunt_C10 as f
trees = json.loads(sys.stdin.read())
def tup(x):
    return tuple(tup(i) for i in x) if isinstance(x, list) else x
for t in trees[:-1]:
    f.observe(tup(t), with_eval=False)
print(json.dumps(f.observe(tup(trees[-1]))))
"""


def make_pool(r, size):
    pool = [rnd_text(r) for _ in range(size)]
    clear()
    for txt in list(pool):
        try:
            pool.append(str(parse_marker(txt)))  # results re-rendered by the library
        except Exception:
            pass
    return [p for p in pool if p]


def in_process(seed, rounds, focus):
    global FOCUS
    FOCUS = focus
    r = random.Random(seed)
    ncase = nviol = nskip = 0
    for rd in range(rounds):
        pool = make_pool(r, r.choice([4, 6, 8]))
        trees = [rnd_tree(r, pool) for _ in range(r.choice([6, 10, 16]))]
        cold = []
        for t in trees:
            clear()
            cold.append(observe(t))
        for _ in range(3):
            order = list(range(len(trees)))
            r.shuffle(order)
            clear()
            for pos, idx in enumerate(order):
                w = observe(trees[idx])
                ncase += 1
                if w is None or cold[idx] is None:
                    nskip += 1  # exponential blow-up (known family 9): not judged
                    continue
                if w != cold[idx]:
                    nviol += 1
                    print("VIOLATION (in-process) probe:", trees[idx])
                    print("   cold  :", cold[idx][:2])
                    print("   warm  :", w[:2])
                    print("   after :", [trees[j] for j in order[:pos]])
    print(f"in-process focus={focus} seed={seed}: {ncase} warm probes, {nviol} violations, {nskip} skipped (timeouts)")
    return nviol


def run_child(trees, hashseed):
    import json
    import os
    import subprocess

    here = os.path.dirname(os.path.abspath(__file__))
    env = dict(os.environ, PYTHONHASHSEED=str(hashseed))
    p = subprocess.run([sys.executable, "-c", CHILD % here], input=json.dumps(trees),
                       capture_output=True, text=True, env=env, timeout=300)
    if p.returncode != 0:
        return ["CHILDFAIL", p.stderr[-300:]]
    return json.loads(p.stdout)


def fresh_interpreters(seed, n, focus):
    global FOCUS
    FOCUS = focus
    r = random.Random(seed)
    done = nviol = 0
    for _ in range(n):
        pool = make_pool(r, 6)
        hist = [rnd_tree(r, pool) for _ in range(8)]
        probe = rnd_tree(r, pool)
        a = run_child([probe], r.randrange(1, 10**6))
        b = run_child(hist + [probe], r.randrange(1, 10**6))
        if a is None or b is None:
            continue
        done += 1
        if a != b:
            nviol += 1
            print("VIOLATION (fresh interpreter) probe:", probe)
            print("   alone :", a[:2])
            print("   after :", b[:2], hist)
    print(f"fresh-interpreter focus={focus} seed={seed}: {done} probes, {nviol} violations")
    return nviol


def main():
    rounds = int(sys.argv[1]) if len(sys.argv) > 1 else 40
    subs = int(sys.argv[2]) if len(sys.argv) > 2 else 20
    total = 0
    for i, focus in enumerate([None, "ver", "str"]):
        total += in_process(100 + i, rounds, focus)
        total += fresh_interpreters(200 + i, subs, focus)
    if total:
        print(f"{total} violation(s) of C10 found")
    else:
        print("no NEW violation of C10 found (see the module docstring for the areas and case counts)")


if __name__ == "__main__":
    main()
