"""Hunt for violations of C10 (memoisation is transparent) on the unmodified library.

Usage:  cd /tmp/wt/C10i && PYTHONPATH=/tmp/wt/C10i/src /venv/bin/python hunt_C10.py [cases] [seed]

A *history* is a straight-line program whose steps are
    parse(text) | a & b | a | b | re-parse(str(a)) | rebuild(a) | from_specifier(a)
(`rebuild` constructs an equal atom through the MarkerExpression constructor,
`from_specifier` goes through MarkerExpression.from_specifier with the atom's own
specifier: markers that compare equal but were built differently).  The last step is
the probe.  For every program the probe is observed (str(), evaluate() on a grid of
environments in the "metadata" and the "lock_file" context, exceptions included)

  * warm      : after the whole program ran in order,
  * cold      : all caches cleared, only the dependency cone of the probe is run,
  * shuffled  : caches cleared, the whole program in a random topological order,

and the three observations have to coincide (direct evaluation of both sides of the
property's equation: probe after a history == probe alone).

A second, slower check re-runs a fixed batch of programs in fresh interpreters
with different PYTHONHASHSEEDs and compares a digest of all rendered results.

Nothing new was found: the script prints the number of cases and "violations 0".
"""

from __future__ import annotations

import hashlib
import os
import random
import signal
import subprocess
import sys

from dep_logic.markers import parse_marker
from dep_logic.markers.single import MarkerExpression, _merge_single_markers
from dep_logic.utils import cnf, dnf


def _alarm(*_a):
    raise TimeoutError


signal.signal(signal.SIGALRM, _alarm)

VERS = [
    "3", "3.0", "3.7", "3.8", "3.8.0", "3.9", "3.10", "3.10.0", "3.10.1", "3.11",
    "3.11.0.0", "3.8.*", "3.*", "3.8.0.*", "2.7", "0!3.8", "1!3.8", "3.08", "03.8", "3.8.1.2",
]  # fmt: skip
STR = {
    "os_name": ["nt", "posix", "java", ""],
    "sys_platform": ["linux", "win32", "darwin", "lin", 'a"b', "a'b", "a\\b"],
    "platform_machine": ["x86_64", "arm64", "X86_64"],
    "platform_system": ["Linux", "Windows"],
    "platform_python_implementation": ["CPython", "PyPy"],
    "implementation_name": ["cpython", "pypy"],
    "platform_version": ["#1 SMP", "10.0.19041"],
    "implementation_version": ["3.8.0", "3.10", "3.10.0"],
    "platform_release": ["5.10", "5.10.0", "6"],
    "extra": ["a", "A", "b", "a_b", "a-b", "a.b", "A__B"],
}
SETS = {"extras": ["a", "A", "a_b", "a-b"], "dependency_groups": ["dev", "Dev", "d_e"]}


def lit(v: str) -> str:
    if '"' in v:
        return f"'{v}'"
    return '"' + v.replace("\\", "\\\\") + '"'


def atom(rng: random.Random) -> str:
    k = rng.random()
    if k < 0.45:
        name = rng.choice(["python_version", "python_full_version"])
        v = rng.choice(VERS)
        ops = ["==", "!="] if "*" in v else ["==", "!=", "<", "<=", ">", ">=", "~="]
        op = rng.choice(ops)
        if op == "~=" and "." not in v:
            op = ">="
        if rng.random() < 0.2:
            return f"{lit(v)} {op} {name}"
        return f"{name} {op} {lit(v)}"
    if k < 0.55:
        name = rng.choice(list(SETS))
        v = rng.choice(SETS[name])
        return f"{lit(v)} {rng.choice(['in', 'not in'])} {name}"
    name = rng.choice(list(STR))
    v = rng.choice(STR[name])
    if name == "extra":
        op = rng.choice(["==", "!="])
    elif name in ("implementation_version", "platform_release"):
        op = rng.choice(["==", "!=", "<", ">="])
    else:
        op = rng.choice(["==", "!=", "==", "!=", "in", "not in"])
    if rng.random() < 0.2:
        return f"{lit(v)} {op} {name}"
    return f"{name} {op} {lit(v)}"


def text(rng: random.Random, depth: int = 0) -> str:
    if depth > 1 or rng.random() < 0.5:
        return atom(rng)
    j = rng.choice([" and ", " or "])
    parts = [text(rng, depth + 1) for _ in range(rng.randint(2, 3))]
    return j.join(f"({p})" if rng.random() < 0.5 else p for p in parts)


ENVS = []
for pv, pfv in [("3.7", "3.7.3"), ("3.8", "3.8.0"), ("3.8", "3.8.5"), ("3.10", "3.10.0"),
                ("3.10", "3.10.1"), ("3.11", "3.11.4"), ("2.7", "2.7.18"), ("3.0", "3.0.1")]:  # fmt: skip
    for osn, sp, ps in [("nt", "win32", "Windows"), ("posix", "linux", "Linux"), ("java", "lin", "Darwin")]:
        for ex in [["", "a", "a-b"][len(ENVS) % 3]]:
            ENVS.append(
                dict(
                    python_version=pv, python_full_version=pfv, os_name=osn, sys_platform=sp,
                    platform_system=ps, platform_machine="x86_64" if osn == "nt" else "arm64",
                    implementation_name="cpython" if ex else "pypy",
                    platform_python_implementation="CPython" if ex else "PyPy",
                    implementation_version=pfv, platform_release="5.10.0" if ex else "6",
                    platform_version="#1 SMP", extra=ex,
                )
            )  # fmt: skip
LOCK_ENVS = [dict(e, extras={e["extra"]} if e["extra"] else set(), dependency_groups={"dev"}) for e in ENVS[::4]]


def clear() -> None:
    parse_marker.cache_clear()
    _merge_single_markers.cache_clear()
    cnf.cache_clear()
    dnf.cache_clear()
    # (a cache that is not there on the unmodified tree; harmless)
    getattr(MarkerExpression.from_specifier, "cache_clear", lambda: None)()


def step(st, vals):
    kind = st[0]
    if kind == "parse":
        return parse_marker(st[1])
    if kind == "and":
        return vals[st[1]] & vals[st[2]]
    if kind == "or":
        return vals[st[1]] | vals[st[2]]
    if kind == "reparse":
        return parse_marker(str(vals[st[1]]))
    m = vals[st[1]]
    if kind == "rebuild":
        if isinstance(m, MarkerExpression):
            return MarkerExpression(m.name, m.op, m.value, m.reversed)
        return m
    if kind == "fromspec":
        if isinstance(m, MarkerExpression) and not m.reversed:
            try:
                r = MarkerExpression.from_specifier(m.name, m.specifier)
            except Exception:
                return m
            return m if r is None else r
        return m
    raise AssertionError(kind)


def run(prog, order):
    vals = {}
    for i in order:
        vals[i] = step(prog[i], vals)
    return vals


def deps(st):
    return {"parse": ()}.get(st[0], st[1:])


def cone(prog, i):
    need, stack = set(), [i]
    while stack:
        j = stack.pop()
        if j not in need:
            need.add(j)
            stack += list(deps(prog[j]))
    return sorted(need)


def topo_shuffle(prog, rng):
    done, order, todo = set(), [], list(range(len(prog)))
    while todo:
        ready = [i for i in todo if all(d in done for d in deps(prog[i]))]
        i = rng.choice(ready)
        todo.remove(i)
        done.add(i)
        order.append(i)
    return order


def ev(m, env, ctx):
    try:
        return m.evaluate(env, ctx)
    except Exception as e:  # part of the observation
        return type(e).__name__


def observe(m):
    return (
        str(m),
        tuple(ev(m, e, "metadata") for e in ENVS),
        tuple(ev(m, e, "lock_file") for e in LOCK_ENVS),
    )


def gen_prog(rng, lo=3, hi=8):
    prog = []
    for _ in range(rng.randint(lo, hi)):
        k = rng.random()
        n = len(prog)
        if not prog or k < 0.4:
            prog.append(("parse", text(rng)))
        elif k < 0.6:
            prog.append(("and", rng.randrange(n), rng.randrange(n)))
        elif k < 0.8:
            prog.append(("or", rng.randrange(n), rng.randrange(n)))
        elif k < 0.9:
            prog.append(("reparse", rng.randrange(n)))
        elif k < 0.95:
            prog.append(("rebuild", rng.randrange(n)))
        else:
            prog.append(("fromspec", rng.randrange(n)))
    return prog


# hand written sequences: equal-but-differently-built operands, '3.10' vs '3.10.0',
# literal on the left, atoms that only differ in `reversed`, re-rendered results
HAND = [
    [("parse", '"3.8" <= python_version'), ("parse", 'python_version >= "3.8"'), ("parse", 'os_name == "nt"'),
     ("parse", 'sys_platform == "win32"'), ("and", 0, 2), ("and", 4, 3), ("and", 1, 2), ("and", 6, 3)],
    [("parse", '"lin" in sys_platform'), ("parse", 'sys_platform in "lin"'), ("parse", 'os_name == "nt"'),
     ("parse", 'python_version >= "3.8"'), ("and", 0, 2), ("and", 4, 3), ("and", 1, 2), ("and", 6, 3)],
    [("parse", '"lin" in sys_platform'), ("parse", 'sys_platform in "lin"'), ("and", 0, 1), ("or", 0, 1),
     ("and", 1, 0), ("or", 1, 0)],
    [("parse", 'python_version > "3.10" or python_version == "3.10"'),
     ("parse", 'python_version > "3.10.0" or python_version == "3.10.0"')],
    [("parse", 'python_version >= "3.8.0" and python_version < "3.9"'),
     ("parse", 'python_version >= "3.8" and python_version < "3.9.0"')],
    [("parse", 'python_version >= "3.7" and python_full_version ~= "3.8.0"'),
     ("parse", 'python_version >= "3.7" and python_full_version == "3.8.*"')],
    [("parse", 'os_name == "a" or os_name == "b"'), ("parse", 'os_name == "b" or os_name == "a"'),
     ("parse", 'python_version >= "3.8"'), ("parse", 'sys_platform == "linux"'), ("and", 0, 2), ("and", 4, 3),
     ("and", 1, 2), ("and", 6, 3), ("or", 5, 7), ("or", 7, 5)],
    [("parse", 'os_name != "a" and os_name != "b"'), ("parse", 'os_name != "b" and os_name != "a"'),
     ("parse", 'python_version >= "3.8"'), ("parse", 'sys_platform == "linux"'), ("or", 0, 2), ("or", 4, 3),
     ("or", 1, 2), ("or", 6, 3), ("and", 5, 7), ("and", 7, 5)],
    [("parse", 'extra == "a_b"'), ("parse", 'extra == "A-B"'), ("parse", '"a_b" == extra'), ("or", 0, 1),
     ("and", 0, 1), ("or", 2, 0), ("and", 0, 2), ("or", 0, 2)],
    [("parse", 'python_full_version >= "3.10"'), ("parse", 'python_full_version >= "3.10.0"'),
     ("parse", 'python_version >= "3.10"'), ("and", 0, 2), ("and", 1, 2), ("and", 2, 0), ("and", 2, 1),
     ("or", 0, 1), ("or", 1, 0)],
]


def check(prog, rng, stats):
    bad = 0
    for last in {len(prog) - 1} | ({rng.randrange(len(prog))} if stats is None else set()):
        signal.alarm(3)
        try:
            outs = []
            for order in (range(len(prog)), cone(prog, last), topo_shuffle(prog, rng)):
                clear()
                try:
                    outs.append(observe(run(prog, order)[last]))
                except TimeoutError:
                    raise
                except Exception as e:
                    outs.append(("EXC", type(e).__name__))
        except TimeoutError:
            if stats is not None:
                stats["timeouts"] += 1
            continue
        finally:
            signal.alarm(0)
        if not outs[0] == outs[1] == outs[2]:
            bad += 1
            print("VIOLATION (history dependence)")
            print("  program:", prog, "probe step", last)
            for lab, o in zip(("warm", "cold", "shuffled"), outs):
                print(f"  {lab:8}: {o[0]!r}")
    return bad


def hashseed_batch():
    rng = random.Random(7)
    h = hashlib.sha256()
    for _ in range(1500):
        prog = gen_prog(rng, 3, 5)
        # deterministic size cap (a time-out would not be reproducible across runs)
        if sum(st[1].count(" and ") + st[1].count(" or ") + 1 for st in prog if st[0] == "parse") > 6:
            continue
        signal.alarm(120)
        try:
            vals = run(prog, range(len(prog)))
            h.update(repr([str(v) for v in vals.values()]).encode())
        except TimeoutError:
            h.update(b"T")
        except Exception as e:
            h.update(type(e).__name__.encode())
        finally:
            signal.alarm(0)
    print(h.hexdigest())


def main() -> int:
    if sys.argv[1:2] == ["--hashseed-batch"]:
        hashseed_batch()
        return 0
    n = int(sys.argv[1]) if len(sys.argv) > 1 else 1000
    seed = int(sys.argv[2]) if len(sys.argv) > 2 else 1
    rng = random.Random(seed)
    bad = 0
    for prog in HAND:
        bad += check(prog, rng, None)
        for i in range(len(prog)):
            bad += check(prog[: i + 1], rng, None)
    print(f"hand written sequences: {len(HAND)} programs, every prefix/probe position, violations {bad}")
    stats = {"timeouts": 0}
    for _ in range(n):
        bad += check(gen_prog(rng), rng, stats)
    print(f"random histories: cases {n} seed {seed} violations {bad} (skipped as too slow: {stats['timeouts']})")
    procs = [
        subprocess.Popen([sys.executable, __file__, "--hashseed-batch"], env=dict(os.environ, PYTHONHASHSEED=hs),
                         stdout=subprocess.PIPE, text=True)
        for hs in ("0", "1", "4242")
    ]  # fmt: skip
    digests = {p.communicate()[0].strip() for p in procs}
    print("fresh interpreters with PYTHONHASHSEED 0/1/4242, 1500 generated programs (small ones kept) each:", "identical" if len(digests) == 1 else f"DIFFERENT {digests}")
    if len(digests) != 1:
        bad += 1
    print("NEW violations found:", bad)
    return 1 if bad else 0


if __name__ == "__main__":
    sys.exit(main())
