"""Task A hunt for C01 on the unmodified tree.

Judges `&`, `|`, `~` of version specifiers against an independent structural
oracle (membership read from min/max/include_* of the operands) and prints every
violation found.  Run:
    cd /tmp/wt/C01f && PYTHONPATH=/tmp/wt/C01f/src /venv/bin/python hunt_C01.py
"""
from __future__ import annotations

import itertools
import random

from packaging.version import Version

from dep_logic.specifiers import (
    AnySpecifier,
    EmptySpecifier,
    InvalidSpecifier,
    RangeSpecifier,
    UnionSpecifier,
    parse_version_specifier,
)

violations: list[str] = []


def mem(s, v: Version) -> bool:
    if isinstance(s, EmptySpecifier):
        return False
    if isinstance(s, AnySpecifier):
        return True
    if isinstance(s, RangeSpecifier):
        if s.min is not None and (v < s.min or (v == s.min and not s.include_min)):
            return False
        if s.max is not None and (v > s.max or (v == s.max and not s.include_max)):
            return False
        return True
    if isinstance(s, UnionSpecifier):
        return any(mem(r, v) for r in s.ranges)
    raise TypeError(type(s))


def bounds(*specs) -> set[Version]:
    out: set[Version] = set()
    for s in specs:
        rs = (
            s.ranges
            if isinstance(s, UnionSpecifier)
            else [s]
            if isinstance(s, RangeSpecifier)
            else []
        )
        for r in rs:
            out.update(b for b in (r.min, r.max) if b is not None)
    return out


def judge(a, b, probes, label) -> None:
    try:
        results = [
            ("&", a & b, lambda v: mem(a, v) and mem(b, v)),
            ("|", a | b, lambda v: mem(a, v) or mem(b, v)),
            ("~", ~a, lambda v: not mem(a, v)),
        ]
    except Exception as e:  # wrong exception type inside the quantifier
        violations.append(f"{label}: a={a!r} b={b!r}: raised {type(e).__name__}: {e}")
        return
    for name, r, want in results:
        for v in sorted(set(probes) | bounds(a, b, r)):
            if mem(r, v) != want(v):
                violations.append(
                    f"{label}: a={a!r} b={b!r}: a{name}b -> {r!r}; version {v}: "
                    f"library {mem(r, v)}, oracle {want(v)}"
                )
                break


# ---------------------------------------------------------------- area 1
# exhaustive small scope: every range over a 4-point ladder whose members have
# different shapes (1.0 == 1.0.0 spelled both ways, post, epoch), every canonical
# union of <= 3 such ranges, plus Empty / Any / RangeSpecifier(); all ordered pairs.
def area_exhaustive() -> int:
    pts = [Version("1.0"), Version("1.0.post1"), Version("2.0.0.dev1"), Version("1!0.5")]
    alt = {Version("1.0"): Version("1.0.0.0")}  # same value, other spelling
    ends = [(None, False)] + [(p, i) for p in pts for i in (False, True)]
    ranges = []
    for (lo, li), (hi, hj) in itertools.product(ends, ends):
        if lo is not None and hi is not None:
            if lo > hi or (lo == hi and not (li and hj)):
                continue
        ranges.append(RangeSpecifier(min=lo, max=hi, include_min=li, include_max=hj))

    def before(x: RangeSpecifier, y: RangeSpecifier) -> bool:
        if x.max is None or y.min is None:
            return False
        return x.max < y.min or (
            x.max == y.min and not x.include_max and not y.include_min
        )

    unions = []
    for x, y in itertools.product(ranges, ranges):
        if before(x, y):
            unions.append(UnionSpecifier((x, y)))
            for z in ranges:
                if before(y, z):
                    unions.append(UnionSpecifier((x, y, z)))
    specs = [EmptySpecifier(), AnySpecifier(), *ranges, *unions]
    # respell the bounds of the right operand so that equal versions are
    # different objects with different release tuples
    def respell(s):
        def f(v):
            return alt.get(v, v) if v is not None else None

        if isinstance(s, RangeSpecifier):
            return RangeSpecifier(f(s.min), f(s.max), s.include_min, s.include_max)
        if isinstance(s, UnionSpecifier):
            return UnionSpecifier(tuple(respell(r) for r in s.ranges))
        return s

    probes = pts + [Version("0.1"), Version("1.0.post0"), Version("1.5"), Version("2.0"), Version("1!1")]
    n = 0
    for a in specs:
        for b in specs:
            judge(a, respell(b), probes, "exhaustive")
            n += 1
    return n


# ---------------------------------------------------------------- area 2
# random expression trees over parsed texts (all operators of the grammar incl.
# ~=, wildcards, !=, "||", "<empty>", "") with a shape-rich version pool
POOL = [
    "0", "0.dev0", "0a1", "0.1", "0.9", "1", "1.0", "1.0.0", "1.0.dev0", "1.0.dev1",
    "1.0a1", "1.0a1.dev1", "1.0a2", "1.0b1", "1.0rc1", "1.0rc1.post1", "1.0.post0",
    "1.0.post1", "1.0.post1.dev2", "1.0.1", "1.1", "1.1.0.0", "1.2", "1.2.3", "1.2.3.4",
    "1.9", "1.10", "2", "2.0", "2.0.0", "2.0rc2", "2.1", "2.5.1", "3", "3.0.post3",
    "3.7", "3.10", "10.0", "2024.1.1", "1!0", "1!0.dev0", "1!1.0", "1!1.0a1", "1!1.5",
    "1!2", "2!0.1", "2!1.0.post1", "v1.0", "1.0-1", "1.0.RC1", "01.02",
]


def rand_atom(rng: random.Random) -> str:
    k = rng.random()
    v = rng.choice(POOL)
    V = Version(v)
    if k < 0.05:
        return "<empty>"
    if k < 0.08:
        return ""
    if k < 0.5:
        return rng.choice([">", ">=", "<", "<=", "==", "!="]) + v
    if k < 0.6:
        if not (V.pre or V.post is not None or V.dev is not None):
            return rng.choice(["==", "!="]) + v + ".*"
        return "!=" + v
    if k < 0.68:
        return ("~=" if len(V.release) >= 2 else ">=") + v
    return (
        rng.choice([">", ">="]) + v + "," + rng.choice(["<", "<="]) + rng.choice(POOL)
    )


def rand_spec(rng: random.Random, depth: int):
    if depth == 0 or rng.random() < 0.3:
        n = rng.choice([1, 1, 1, 2, 2, 3, 4, 6])
        parts = [rand_atom(rng) for _ in range(n)]
        if n > 1:
            parts = [p for p in parts if p] or [""]
        return parse_version_specifier("||".join(parts))
    op = rng.choice("&|~")
    if op == "~":
        return ~rand_spec(rng, depth - 1)
    a, b = rand_spec(rng, depth - 1), rand_spec(rng, depth - 1)
    return a & b if op == "&" else a | b


def area_random(cases: int) -> int:
    rng = random.Random(20260930)
    probes = sorted({Version(x) for x in POOL})
    for _ in range(cases):
        try:
            a = rand_spec(rng, rng.choice([0, 0, 1, 2, 3]))
            b = rand_spec(rng, rng.choice([0, 0, 1, 2]))
        except InvalidSpecifier:
            continue
        except Exception as e:
            violations.append(f"random: building operands raised {type(e).__name__}: {e}")
            continue
        judge(a, b, probes, "random")
    return cases


# ---------------------------------------------------------------- area 3
# hand-picked corner cases
def area_corners() -> int:
    P = parse_version_specifier
    texts = [
        "", "<empty>", "!=1.0", "!=1.0.0", "==1.0", "==1", "<1||>1", "<=1||>1.0.0",
        ">=1,<1", ">1,<=1", ">=1,<=1", ">2,<1", "~=1!1.0", "==1!1.*", "!=1!1.*",
        "<1!0.dev0", ">=0.dev0", "<0.dev0", "~=0.0", "==0.*", "!=0.*",
        ">=1.0.post0.dev0,<1.0.post0", ">1.0,<1.0.post0.dev0", "==1.0.*,!=1.0.5",
        "!=1,!=2,!=3,!=4", "<1||==1.5||>2,<3||==3.5||>4", "||", ">=1||<2",
        ">=v1.0,<V2", "==1.0-1", "<999999999999999999999999!0",
    ]
    specs = [P(t) for t in texts] + [~EmptySpecifier(), ~P(""), ~P("!=1"), ~~P("!=1")]
    probes = sorted(
        {Version(x) for x in POOL}
        | {Version("1.0.post0.dev0"), Version("0.dev0"), Version("1.5"), Version("3.5")}
    )
    for a in specs:
        for b in specs:
            judge(a, b, probes, "corner")
    return len(specs) ** 2


if __name__ == "__main__":
    n1 = area_exhaustive()
    n2 = area_random(30000)
    n3 = area_corners()
    print(f"checked: exhaustive pairs={n1}, random cases={n2}, corner pairs={n3}")
    if violations:
        print(f"{len(violations)} violation(s):")
        for line in violations[:50]:
            print(" ", line)
    else:
        print("no pre-existing C01 violation found")
