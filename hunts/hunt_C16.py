"""Task A: violations of C16 found on the UNMODIFIED library.

Run: cd /tmp/wt/C16f && PYTHONPATH=/tmp/wt/C16f/src /venv/bin/python hunt_C16.py

Every finding is judged either by packaging (which versions a specifier admits)
or by evaluating both sides of the property on the concrete input.
"""

from __future__ import annotations

from packaging.specifiers import SpecifierSet
from packaging.version import Version

from dep_logic.tags import EnvSpec, Platform
from dep_logic.tags.tags import EnvCompatibility as EC

found = 0


def report(title: str, *lines: str) -> None:
    global found
    found += 1
    print(f"[{found}] {title}")
    for line in lines:
        print("     " + line)


def tags(p: str) -> set[str]:
    return set(Platform.parse(p).compatible_tags)


# --------------------------------------------------------------------------
# 1. Platform ladders: a newer release of the same OS/arch loses tags, and
#    compare() says LOWER_OR_EQUAL although the tag sets are not nested.
# --------------------------------------------------------------------------
for older, newer, note in [
    ("manylinux_2_17_x86_64", "manylinux_3_0_x86_64", "glibc major bump"),
    ("manylinux_2_40_aarch64", "manylinux_3_1_aarch64", "glibc major bump"),
    ("musllinux_1_2_x86_64", "musllinux_2_0_x86_64", "musl major bump"),
    ("macos_10_17_x86_64", "macos_11_0_x86_64", "10.x minor above 16 (not a real macOS)"),
]:
    a, b = EnvSpec.from_spec(">=3.8", older), EnvSpec.from_spec(">=3.8", newer)
    lost = sorted(tags(older) - tags(newer))
    wheel = (["py3"], ["none"], [lost[0]])
    ca, cb = a.compatibility(*wheel), b.compatibility(*wheel)
    cmp_ = a.compare(b)
    if lost and cmp_ == EC.LOWER_OR_EQUAL and ca is not None and cb is None:
        report(
            f"{older} -> {newer} ({note})",
            f"compare(A, B) = {cmp_.name}, compare(B, A) = {b.compare(a).name}",
            f"tags(A) - tags(B) has {len(lost)} entries, e.g. {lost[:3]}",
            f"wheel py3-none-{lost[0]}: A.compatibility = {ca}, B.compatibility = {cb}",
            "expected: tags(A) <= tags(B) and the wheel stays compatible with B",
        )

# --------------------------------------------------------------------------
# 2. OS classes without (major, minor): compare() answers LOWER_OR_EQUAL in
#    both directions although the tag sets are disjoint.
# --------------------------------------------------------------------------
for p1, p2 in [
    ("freebsd_13_x86_64", "freebsd_14_x86_64"),
    ("netbsd_9_x86_64", "netbsd_10_x86_64"),
    ("mingw_x86_64", "cygwin_x86_64"),
]:
    a, b = EnvSpec.from_spec(">=3.8", p1), EnvSpec.from_spec(">=3.8", p2)
    c1, c2 = a.compare(b), b.compare(a)
    t1, t2 = tags(p1), tags(p2)
    if c1 == c2 == EC.LOWER_OR_EQUAL and not (t1 <= t2) and not (t2 <= t1):
        report(
            f"compare({p1}, {p2})",
            f"both directions {c1.name}; tags: {sorted(t1)} vs {sorted(t2)}",
            "expected: INCOMPATIBLE (or nested tag sets)",
        )

# --------------------------------------------------------------------------
# 3. compare() answers for a platform whose tag set cannot even be computed,
#    and Platform.parse raises exceptions that are not PlatformError.
# --------------------------------------------------------------------------
a = EnvSpec.from_spec(">=3.8", "macos_9_0_x86_64")
b = EnvSpec.from_spec(">=3.8", "macos_10_9_x86_64")
try:
    a.compatibility(["py3"], ["none"], ["macosx_10_9_x86_64"])
    raised = None
except Exception as e:  # noqa: BLE001
    raised = e
if raised is not None and a.compare(b) == EC.LOWER_OR_EQUAL:
    report(
        "macos_9_0_x86_64 vs macos_10_9_x86_64",
        f"compare = {a.compare(b).name}, but A.compatibility(...) raises "
        f"{type(raised).__name__}: {raised}",
        "expected: a value (None) or a rejection at parse time; "
        "the same spec with arch arm64 yields a tag list without raising",
    )
for text in ["illumos_5_11_x86_64", "manylinux_2_17_sparc", "macos_12_0_ppc"]:
    try:
        Platform.parse(text)
    except Exception as e:  # noqa: BLE001
        if type(e).__name__ != "PlatformError":
            report(
                f"Platform.parse({text!r})",
                f"raises {type(e).__name__}: {e}",
                "expected: PlatformError (as for 'foo_sparc')",
            )

# --------------------------------------------------------------------------
# 4. requires_python widening across a pre-release boundary.
#    `==X.Y.*` is modelled as [X.Y.0, X.(Y+1).0): pre-releases of X.(Y+1)
#    fall into the cpXY wheel range and are outside `==X.(Y+1).*`.
# --------------------------------------------------------------------------
pool = sorted(
    {
        Version(f"3.{m}{s}")
        for m in range(6, 14)
        for s in ("", ".0", ".1", ".7", ".dev0", "a1", "rc1", ".0rc1", ".post1", ".1.dev0", ".1rc2")
    }
)


def admits(spec: str) -> set[Version]:
    ss = SpecifierSet(spec)
    return {v for v in pool if ss.contains(v, prereleases=True)}


for sa, sb, wheel in [
    ("==3.9.0rc1", "==3.9.*", (["cp38"], ["cp38"], ["any"])),
    ("==3.9.0rc1", ">=3.9.0rc1,!=3.8.*", (["cp38"], ["cp38"], ["any"])),
    (">=3.9.dev0", "!=3.8.*", (["cp38"], ["cp38"], ["any"])),
]:
    A, B = EnvSpec.from_spec(sa), EnvSpec.from_spec(sb)
    va, vb = admits(sa), admits(sb)
    ca, cb = A.compatibility(*wheel), B.compatibility(*wheel)
    if va <= vb and ca is not None and cb is None:
        report(
            f"requires_python {sa!r} -> {sb!r}",
            f"packaging: B admits every pool version A admits "
            f"(A admits {[str(v) for v in sorted(va)][:4]}{'...' if len(va) > 4 else ''})",
            f"wheel {wheel}: A.compatibility = {ca}, B.compatibility = {cb}",
            f"A.compare(B) = {A.compare(B).name}",
            "expected: B keeps the wheel (root cause: A should not get a cp38/py312-only "
            "wheel at all; 3.9.0rc1 is a 3.9 interpreter, and A rejects cp39: "
            f"{EnvSpec.from_spec('==3.9.0rc1').compatibility(['cp39'], ['cp39'], ['any'])})",
        )

# A specifier that admits no version at all still "matches" wheels.
sa = ">=3.9rc1,<3.9"
A = EnvSpec.from_spec(sa)
if not admits(sa) and A.compatibility(["cp38"], ["cp38"], ["any"]) is not None:
    B = EnvSpec.from_spec("==3.7.*")
    report(
        f"requires_python {sa!r} admits nothing (packaging) yet accepts cp38 wheels",
        f"A.compatibility(cp38) = {A.compatibility(['cp38'], ['cp38'], ['any'])}; "
        f"any B (e.g. '==3.7.*' -> {B.compatibility(['cp38'], ['cp38'], ['any'])}) is vacuously wider",
    )

print(f"\n{found} pre-existing violation(s) printed")
