"""C13 hunt (third round): equality / hashing / interchangeability of equal objects.

Run:  cd /tmp/wt/C13i && PYTHONPATH=/tmp/wt/C13i/src /venv/bin/python hunt_C13.py

Prints each finding with the concrete input, what the library answers and what an
independent oracle (packaging, or direct evaluation of both sides) says.

F1, F2: equal objects that differ only in a cached / hidden field and are NOT
        interchangeable.  They need `dataclasses.replace` (or passing the hidden field to
        the constructor, or - for the non-frozen atom - plain attribute assignment): no
        entry point of the library itself builds them.
F3:     the stale duplicate module dep_logic/markers/utils.py still ships the old
        OrderedSet (Set-derived, order-insensitive ==/hash); mixed with the live one it
        gives equal objects with different hashes and a non-transitive ==.
O*:     observations that are either outside the statement (API differences between the
        two universal spellings) or inside an already known family (pre-releases).
"""

from __future__ import annotations

import dataclasses

from packaging.markers import Marker
from packaging.specifiers import SpecifierSet
from packaging.version import Version

from dep_logic.markers import parse_marker
from dep_logic.markers.single import EqualityMarkerUnion, MarkerExpression
from dep_logic.specifiers import (
    AnySpecifier,
    EmptySpecifier,
    GenericSpecifier,
    RangeSpecifier,
    parse_version_specifier,
)

found = 0


def finding(tag: str, text: str) -> None:
    global found
    found += 1
    print(f"[{tag}] {text}")


# --------------------------------------------------------------------------- F1
# An atom whose cached specifier was filled, copied with dataclasses.replace():
# `_specifier` is an init field (compare=False, hash=False), so the copy keeps the
# cache of the ORIGINAL operand.
src = parse_marker('python_version >= "3.8"')
src.specifier  # fills the cache (any earlier `&` / `|` does the same)
stale = dataclasses.replace(src, value="3.6")
fresh = MarkerExpression("python_version", ">=", "3.6")
upper = MarkerExpression("python_version", "<", "3.7")
env = {"python_version": "3.6", "python_full_version": "3.6.9"}
text = 'python_version >= "3.6" and python_version < "3.7"'
oracle = Marker(text).evaluate(env)
if stale == fresh and hash(stale) == hash(fresh):
    r_stale = upper & stale
    # a *different but equal* pair of atoms afterwards: served from the memo
    r_fresh = MarkerExpression("python_version", "<", "3.7") & MarkerExpression(
        "python_version", ">=", "3.6"
    )
    if r_stale.evaluate(env) != oracle or r_fresh.evaluate(env) != oracle:
        finding(
            "F1",
            "x = dataclasses.replace(parse_marker('python_version >= \"3.8\"') [cache filled], value='3.6'); "
            "y = MarkerExpression('python_version','>=','3.6'): x == y and hash(x) == hash(y), "
            f"x._specifier = {stale._specifier!r}; "
            f"(python_version < '3.7') & x -> {r_stale!r}; afterwards the same expression on FRESH atoms "
            f"-> {r_fresh!r} (memo of _merge_single_markers poisoned); "
            f"packaging evaluates {text!r} on python 3.6 to {oracle}, library results evaluate to "
            f"{r_stale.evaluate(env)} / {r_fresh.evaluate(env)}",
        )

# --------------------------------------------------------------------------- F2
r = parse_version_specifier(">=1.0")
r2 = dataclasses.replace(r, min=Version("2.0"))
f = RangeSpecifier(min=Version("2.0"), include_min=True)
if r2 == f and hash(r2) == hash(f) and (("1.5" in r2) != ("1.5" in f) or str(r2) != str(f)):
    finding(
        "F2",
        "x = dataclasses.replace(parse_version_specifier('>=1.0'), min=Version('2.0')); "
        "y = RangeSpecifier(min=Version('2.0'), include_min=True): x == y, hashes equal, but "
        f"str(x) = {str(r2)!r}, str(y) = {str(f)!r}; '1.5' in x = {'1.5' in r2}, '1.5' in y = {'1.5' in f} "
        f"(packaging: SpecifierSet('>=2.0').contains('1.5') = {SpecifierSet('>=2.0').contains('1.5')}); "
        "`simplified` is an init field that is copied and never checked against the bounds",
    )

# --------------------------------------------------------------------------- F3
try:
    from dep_logic.markers.utils import OrderedSet as StaleOrderedSet
    from dep_logic.utils import OrderedSet
except ImportError:
    pass
else:
    n_ab, o_ab, n_ba = OrderedSet(["a", "b"]), StaleOrderedSet(["a", "b"]), OrderedSet(["b", "a"])
    x = EqualityMarkerUnion("os_name", n_ab)
    y = EqualityMarkerUnion("os_name", o_ab)
    z = EqualityMarkerUnion("os_name", n_ba)
    if x == y and hash(x) != hash(y):
        finding(
            "F3",
            "dep_logic.markers.utils (never imported by the package, copy of the pre-fix utils) exports a "
            "second OrderedSet: EqualityMarkerUnion('os_name', utils.OrderedSet(['a','b'])) == "
            "EqualityMarkerUnion('os_name', markers.utils.OrderedSet(['a','b'])) is True, "
            f"hashes equal: {hash(x) == hash(y)}, len(set) = {len({x, y})}; "
            f"transitivity: x == y {x == y}, y == z {y == z}, x == z {x == z} "
            "(z has the live OrderedSet(['b','a']))",
        )

# --------------------------------------------------------------------------- observations
print()
print("observations (not counted as new violations):")
a, b = ~EmptySpecifier(), parse_version_specifier("")
assert a == b and hash(a) == hash(b)
for name in ("to_specifierset", "num_parts", "is_simple"):
    row = []
    for x in (a, b):
        try:
            v = getattr(x, name)
            v = v() if callable(v) else v
            row.append(f"{type(x).__name__}: {v!r}")
        except Exception as e:  # noqa: BLE001
            row.append(f"{type(x).__name__}: {type(e).__name__}")
    print(f"  [O1] equal universal spellings, .{name}: " + " | ".join(row))
g = GenericSpecifier("==", "a")
row = []
for x in (a, b):
    try:
        row.append(f"g & {type(x).__name__} -> {g & x!r}")
    except Exception as e:  # noqa: BLE001
        row.append(f"g & {type(x).__name__} -> {type(e).__name__}")
print("  [O2] string-domain operand with the two universal spellings: " + " | ".join(row))
w, c = parse_version_specifier("==1.*"), parse_version_specifier("~=1.0")
print(
    f"  [O3] (pre-release family, known) {w!r} == {c!r}: {w == c}; contains('1.0a1'): "
    f"{w.contains('1.0a1')} vs {c.contains('1.0a1')}"
)

print()
print(f"{found} finding(s)")
