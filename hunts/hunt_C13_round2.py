"""Hunt for violations of C13 (equality is an equivalence compatible with hashing, and equal
objects are interchangeable as operands) on the UNMODIFIED library.

usage: PYTHONPATH=src python hunt_C13.py [seed [n_specifier_texts [n_marker_texts]]]

Three parts:
  1. targeted probes (the only candidate found: mixed-family `&` / `|` with the two spellings
     of the universal set);
  2. a random sweep over specifier objects: texts with many spellings of the same version
     (trailing zeros, explicit epoch 0, leading zeros, `v` prefix, epochs, wildcards of several
     depths, `~=` with 2..4 segments, `||`), plus results of & | ~; objects are grouped into
     equality classes WITHOUT using hash; every class is checked for symmetry, reflexivity,
     hash agreement, dict/set-key behaviour, same membership on a grid of final releases
     (own oracle on the bounds and through `in`), rendering that parses back to the same set;
     representatives of different classes must be unequal both ways (transitivity); equal x, y
     are exchanged in a&x, x&a, a|x, x|a, ~x and the results must be equal, hash alike and
     denote the same set;
  3. the same for marker objects: every text is built along a second route (packaging Marker ->
     from_pkg_marker, extra parentheses, extra blanks, re-parse of str()), results of & | only
     exclude without_extras; equal objects must hash alike, render alike, evaluate alike on a
     grid of 52 environments (final-release interpreters only) and be interchangeable in
     a&x, x&a, a|x, x|a, only, exclude, without_extras (also compared with the truth table
     computed from direct evaluation of both operands).
The known families (pre-release environments, in/not in on version variables, ===, +local,
post-release upper bounds, pre-release-only ranges, ordering on string variables, ...) are
not generated.
"""
import itertools
import random
import signal
import sys

from packaging.markers import Marker as PM
from packaging.version import Version

from dep_logic.markers import from_pkg_marker, parse_marker
from dep_logic.markers.any import AnyMarker
from dep_logic.markers.empty import EmptyMarker
from dep_logic.specifiers import (
    AnySpecifier,
    EmptySpecifier,
    GenericSpecifier,
    RangeSpecifier,
    UnionSpecifier,
    parse_version_specifier as P,
)


def probes():
    print("== 1. targeted probes")
    new = 0
    A, R = AnySpecifier(), RangeSpecifier()
    assert A == R and R == A and hash(A) == hash(R)
    g = GenericSpecifier("==", "nt")  # what `os_name == "nt"` has as .specifier
    for opname, f in (("g & u", lambda u: g & u), ("u & g", lambda u: u & g), ("g | u", lambda u: g | u), ("u | g", lambda u: u | g)):
        res = []
        for u in (A, R):
            try:
                res.append(repr(f(u)))
            except Exception as e:
                res.append(f"{type(e).__name__}: {e}")
        if res[0] != res[1]:
            if not new:
                print(f"  CANDIDATE (weak): g = {g!r}; AnySpecifier() == RangeSpecifier() and hashes agree, but")
            new += 1
            print(f"     {opname}:  u = AnySpecifier() -> {res[0]}   |   u = RangeSpecifier() -> {res[1]}")
    if new:
        print("     oracle: equal operands must be interchangeable; both are the universal set, so the result")
        print("     should be g (for &) / universal (for |) in both cases. Only reachable by mixing a")
        print("     string-variable specifier with a version specifier by hand; the library never does it.")
    # equal objects that differ in hidden state
    x, y = P("==1.*"), P(">=1.0,<2.0")
    assert x == y and hash(x) == hash(y), "simplified text must not take part in eq/hash"
    x, y = P(">=1.0"), P(">=1.0.0.0")
    assert x == y and hash(x) == hash(y) and len({x, y, P(">=0!1"), P(">=01.0")}) == 1
    m = parse_marker('python_version >= "3.8" and os_name == "nt"')
    h = hash(m)
    (m & parse_marker('python_full_version < "3.10"')), (m | parse_marker('os_name == "posix"'))
    assert hash(m) == h, "attached caches must not change the hash"
    # observations: equal objects whose *form* differs (meaning is the same)
    U1, U2 = P("<1||>=2"), P("<1.0||>=2.0")
    assert U1 == U2 and hash(U1) == hash(U2)
    try:
        t1 = str(U1.to_specifierset())
    except Exception as e:
        t1 = f"{type(e).__name__}: {e}"
    print(f"  OBSERVATION (form only): {U1!r} == {U2!r}, but is_simple() {U1.is_simple()} vs {U2.is_simple()},")
    print(f"     to_specifierset() -> {t1!r} vs {str(U2.to_specifierset())!r}; membership is identical (Version('1') == Version('1.0')).")
    R1, R2 = P(">=1.0,<2"), P(">=1.0.0,<2")
    assert R1 == R2 and hash(R1) == hash(R2)
    print(f"  OBSERVATION (form only): {R1!r} == {R2!r}, num_parts {R1.num_parts} vs {R2.num_parts}; same set.")
    # outside C13, noticed on the way: `~=` on a string variable parses but cannot be combined
    a, b = parse_marker('os_name ~= "1.0"'), parse_marker('os_name == "a"')
    try:
        r = repr(a & b)
    except Exception as e:
        r = f"raises {type(e).__name__}: {e}"
    print(f"  OUTSIDE C13: parse_marker('os_name ~= \"1.0\"') & parse_marker('os_name == \"a\"') {r}")
    print("     (packaging parses the atom and raises UndefinedComparison only on evaluate; `&` / `|` with an")
    print("     unequal atom of the same variable raise dep_logic InvalidSpecifier, x & x works)")
    print(f"  {new} differing operations" if new else "  nothing")
    return new


def spec_sweep(seed, N):
    print(f"== 2. specifier sweep, seed {seed}, {N} texts")
    rnd = random.Random(seed)

    SPELL = {
        "1": ["1", "1.0", "1.0.0", "0!1", "01", "1.0.0.0"],
        "1.1": ["1.1", "1.1.0", "1.01", "0!1.1.0"],
        "1.2": ["1.2", "1.2.0"],
        "2": ["2", "2.0", "2.0.0", "v2"],
        "2.1": ["2.1", "2.1.0"],
        "3": ["3", "3.0", "3.0.0.0"],
        "1!1": ["1!1", "1!1.0", "1!1.0.0"],
        "1!2": ["1!2", "1!2.0"],
        "1!1.1": ["1!1.1", "1!1.1.0"],
        "0.9": ["0.9", "0.9.0"],
        "1.1.1": ["1.1.1", "1.1.1.0"],
    }
    KEYS = list(SPELL)
    GRID = [
        Version(v)
        for v in "0 0.5 0.9 0.9.1 1 1.0.1 1.1 1.1.0.1 1.1.1 1.1.2 1.2 1.2.1 1.9 2 2.0.1 2.1 2.1.1 2.5 3 3.1 4 1!0 1!0.5 1!1 1!1.0.1 1!1.1 1!1.1.5 1!1.2 1!1.9 1!2 1!2.5 1!3 2!0".split()
    ]


    def rv():
        return rnd.choice(SPELL[rnd.choice(KEYS)])


    def atom():
        op = rnd.choice(["<", "<=", ">", ">=", "==", "!=", "~=", "==*", "!=*"])
        v = rv()
        if op == "~=":
            if "." not in v:
                v += ".0"
            return op + v
        if op.endswith("*"):
            return op[:2] + v + ".*"
        return op + v


    def text():
        k = rnd.choice([1, 1, 2, 2, 3])
        s = ",".join(atom() for _ in range(k))
        if rnd.random() < 0.3:
            s += "||" + ",".join(atom() for _ in range(rnd.choice([1, 2])))
        if rnd.random() < 0.1:
            s += "||" + atom()
        return s


    def members(s):
        if isinstance(s, (AnySpecifier,)):
            return frozenset(GRID)
        if isinstance(s, EmptySpecifier):
            return frozenset()
        if isinstance(s, RangeSpecifier):
            out = []
            for v in GRID:
                ok = True
                if s.min is not None:
                    ok &= v > s.min or (v == s.min and s.include_min)
                if s.max is not None:
                    ok &= v < s.max or (v == s.max and s.include_max)
                if ok:
                    out.append(v)
            return frozenset(out)
        assert isinstance(s, UnionSpecifier)
        return frozenset().union(*(members(r) for r in s.ranges))


    def contains_set(s):
        return frozenset(v for v in GRID if str(v) in s)


    bad = []
    pool = [AnySpecifier(), EmptySpecifier(), RangeSpecifier(), ~EmptySpecifier(), ~RangeSpecifier()]
    texts = []
    for _ in range(N):
        t = text()
        try:
            s = P(t)
        except Exception as e:  # noqa
            print("parse error", t, type(e).__name__, e)
            continue
        texts.append(t)
        pool.append(s)
    # derived objects
    base = list(pool)
    for _ in range(N):
        a, b = rnd.choice(base), rnd.choice(base)
        op = rnd.choice("&|~")
        try:
            r = (a & b) if op == "&" else (a | b) if op == "|" else ~a
        except Exception as e:
            bad.append(("op raised", op, str(a), str(b), repr(e)))
            continue
        pool.append(r)

    print("pool", len(pool))
    # group by semantic membership first (eq must refine it)
    checked = 0
    by_hash = {}
    classes = []
    for x in pool:
        for cl in classes:
            if x == cl[0]:
                cl.append(x)
                break
        else:
            classes.append([x])
    print("eq classes", len(classes))
    for cl in classes:
        rep = cl[0]
        for y in cl:
            checked += 1
            if not (y == rep and rep == y and not (y != rep) and not (rep != y)):
                bad.append(("asym", repr(rep), repr(y)))
            if hash(y) != hash(rep):
                bad.append(("hash", repr(rep), repr(y)))
            if y != y:
                bad.append(("irreflexive", repr(y)))
            if members(y) != members(rep):
                bad.append(("eq but different sets", repr(rep), repr(y)))
            if contains_set(y) != contains_set(rep) or contains_set(y) != members(y):
                bad.append(("contains differs", repr(rep), repr(y), sorted(map(str, contains_set(y) ^ members(y)))))
            # rendering parses back to same set
            try:
                back = P(str(y))
                if members(back) != members(y):
                    bad.append(("render", repr(y), repr(back)))
            except Exception as e:
                bad.append(("render raised", repr(y), repr(e)))
            if {rep: 1}.get(y) != 1 or y not in {rep}:
                bad.append(("dict key", repr(rep), repr(y)))
        # transitivity inside class: all pairs
        for a, b in itertools.combinations(cl[:6], 2):
            if not (a == b and b == a):
                bad.append(("intransitive", repr(a), repr(b), repr(rep)))
    # classes must be pairwise unequal both ways
    reps = [c[0] for c in classes]
    for a, b in itertools.combinations(reps[:400], 2):
        if a == b or b == a:
            bad.append(("class merge (intransitive/asym)", repr(a), repr(b)))
    # interchangeability as operands
    for cl in classes:
        if len(cl) < 2:
            continue
        for _ in range(6):
            x, y = rnd.sample(cl, 2)
            a = rnd.choice(pool)
            for name, f in (
                ("a&x", lambda z: a & z),
                ("x&a", lambda z: z & a),
                ("a|x", lambda z: a | z),
                ("x|a", lambda z: z | a),
                ("~x", lambda z: ~z),
            ):
                checked += 1
                try:
                    rx = f(x)
                except Exception as e:
                    rx = ("EXC", type(e).__name__)
                try:
                    ry = f(y)
                except Exception as e:
                    ry = ("EXC", type(e).__name__)
                if isinstance(rx, tuple) or isinstance(ry, tuple):
                    if rx != ry:
                        bad.append(("exc differs", name, repr(a), repr(x), repr(y), rx, ry))
                    continue
                if members(rx) != members(ry):
                    bad.append(("not interchangeable", name, repr(a), repr(x), repr(y), repr(rx), repr(ry)))
                if (rx == ry) != (members(rx) == members(ry)) and False:
                    pass
                if not (rx == ry) or hash(rx) != hash(ry):
                    bad.append(("results unequal", name, repr(a), repr(x), repr(y), repr(rx), repr(ry)))
    print("checked", checked, "bad", len(bad))
    seen = set()
    for b in bad:
        k = b[0]
        if k in seen and True:
            continue
        seen.add(k)
        print(b)
    return len(bad)


def marker_sweep(seed, N):
    print(f"== 3. marker sweep, seed {seed}, {N} texts")
    rnd = random.Random(seed)


    class TO(Exception):
        pass


    def _alarm(*a):
        raise TO()


    signal.signal(signal.SIGALRM, _alarm)


    def timed(f, *a):
        signal.setitimer(signal.ITIMER_REAL, 1.0)
        try:
            return f(*a)
        finally:
            signal.setitimer(signal.ITIMER_REAL, 0)


    PV = ["3.7", "3.8", "3.9", "3.10", "3.8.0", "3", "3.9.0"]
    PFV = ["3.7", "3.8", "3.8.0", "3.8.5", "3.9", "3.9.1", "3.10", "3.10.0", "3"]
    STR = {
        "os_name": ["nt", "posix", "java"],
        "sys_platform": ["linux", "win32", "darwin"],
        "platform_machine": ["x86_64", "arm64"],
        "implementation_name": ["cpython", "pypy"],
        "platform_system": ["Linux", "Windows"],
    }
    EXTRA = ["a", "b", "Foo_Bar", "foo-bar", "foo.bar"]


    def atom():
        k = rnd.random()
        if k < 0.3:
            name = rnd.choice(["python_version", "python_full_version"])
            op = rnd.choice(["<", "<=", ">", ">=", "==", "!=", "~=", "==", ">="])
            v = rnd.choice(PV if name == "python_version" else PFV)
            if op == "~=" and "." not in v:
                v += ".0"
            if op in ("==", "!=") and rnd.random() < 0.2:
                v = v.split(".")[0] + "." + (v.split(".")[1] if "." in v else "0") + ".*"
            if rnd.random() < 0.15 and op != "~=" and "*" not in v:
                from dep_logic.utils import get_reflect_op

                return f'"{v}" {get_reflect_op(op)} {name}'
            return f'{name} {op} "{v}"'
        if k < 0.75:
            name = rnd.choice(list(STR))
            v = rnd.choice(STR[name])
            r = rnd.random()
            if r < 0.6:
                op = rnd.choice(["==", "!="])
                if rnd.random() < 0.15:
                    return f'"{v}" {op} {name}'
                return f'{name} {op} "{v}"'
            if r < 0.8:
                return f'{name} {rnd.choice(["in", "not in"])} "{v} {rnd.choice(STR[name])}"'
            return f'"{v[:3]}" {rnd.choice(["in", "not in"])} {name}'
        if k < 0.9:
            return f'extra {rnd.choice(["==", "!="])} "{rnd.choice(EXTRA)}"'
        if k < 0.95:
            return f'"{rnd.choice(EXTRA)}" {rnd.choice(["in", "not in"])} {rnd.choice(["extras", "dependency_groups"])}'
        name = rnd.choice(["platform_release", "implementation_version"])
        return f'{name} {rnd.choice(["<", ">=", "==", "!="])} "{rnd.choice(["5.10", "5.10.0", "6.1", "3.9.1"])}"'


    def text(d=0):
        r = rnd.random()
        if d >= 2 or r < (0.3 if d == 0 else 0.75):
            return atom()
        k = rnd.choice([2, 2, 3])
        j = rnd.choice([" and ", " or "])
        parts = []
        for _ in range(k):
            t = text(d + 1)
            if (" and " in t or " or " in t):
                t = f"({t})"
            parts.append(t)
        return j.join(parts)


    ENVS = []
    for pfv in ["3.6.9", "3.7.0", "3.7.5", "3.8.0", "3.8.5", "3.8.10", "3.9.0", "3.9.1", "3.10.0", "3.10.4", "3.11.2", "4.0.0", "2.7.18"]:
        pv = ".".join(pfv.split(".")[:2])
        for _ in range(4):
            e = {"python_version": pv, "python_full_version": pfv}
            for n, vs in STR.items():
                e[n] = rnd.choice(vs + ["other"])
            e["platform_release"] = rnd.choice(["5.10.0", "5.9", "6.1.2", "3.9.1"])
            e["implementation_version"] = rnd.choice(["5.10.0", "3.9.1", "3.10.2"])
            e["platform_version"] = "#1 SMP"
            e["platform_python_implementation"] = "CPython"
            ex = rnd.choice([set(), {"a"}, {"b", "foo-bar"}, {"Foo.Bar"}, {"a", "b"}])
            e["extra"] = ex
            e["extras"] = ex
            e["dependency_groups"] = rnd.choice([set(), {"a"}, {"foo_bar"}])
            ENVS.append(e)


    def sem(m):
        out = []
        for e in ENVS:
            try:
                out.append(m.evaluate(e, "lock_file"))
            except Exception as ex:
                out.append(type(ex).__name__)
        return tuple(out)


    bad = []
    pool = [AnyMarker(), EmptyMarker()]
    srcs = []
    timeouts = 0
    for _ in range(N):
        t = text()
        try:
            m = timed(parse_marker, t)
        except TO:
            timeouts += 1
            continue
        except Exception as e:
            bad.append(("parse raised", t, repr(e)))
            continue
        pool.append(m)
        srcs.append(t)
        # a second, independently built spelling
        r = rnd.random()
        try:
            if r < 0.3:
                pool.append(timed(from_pkg_marker, PM(t)))
            elif r < 0.5:
                pool.append(timed(parse_marker, "(" + t + ")"))
            elif r < 0.7:
                pool.append(timed(parse_marker, t.replace(" and ", "  and ").replace(" or ", " or  ")))
            elif r < 0.9 and str(m) not in ("", "<empty>"):
                pool.append(timed(parse_marker, str(m)))
        except TO:
            timeouts += 1
        except Exception as e:
            bad.append(("respell raised", t, repr(e)))
    base = list(pool)
    for _ in range(N):
        a, b = rnd.choice(base), rnd.choice(base)
        op = rnd.choice(["&", "|", "only", "exclude", "wx"])
        try:
            if op == "&":
                r = timed(lambda: a & b)
            elif op == "|":
                r = timed(lambda: a | b)
            elif op == "only":
                r = timed(lambda: a.only(*rnd.sample(["python_version", "os_name", "sys_platform", "extra", "python_full_version"], 2)))
            elif op == "exclude":
                r = timed(lambda: a.exclude(rnd.choice(["python_version", "os_name", "extra"])))
            else:
                r = timed(a.without_extras)
        except TO:
            timeouts += 1
            continue
        except Exception as e:
            bad.append(("op raised", op, str(a), str(b), repr(e)))
            continue
        pool.append(r)

    print("pool", len(pool), "timeouts", timeouts)
    buckets = {}
    classes = []
    # eq classes without trusting hash: bucket by str length to keep it cheap, compare all in bucket
    for x in pool:
        key = (type(x).__name__, len(str(x)))
        for cl in buckets.setdefault(key, []):
            if x == cl[0]:
                cl.append(x)
                break
        else:
            cl = [x]
            buckets[key].append(cl)
            classes.append(cl)
    print("eq classes", len(classes), "multi", sum(1 for c in classes if len({id(o) for o in c}) > 1))
    checked = 0
    for cl in classes:
        rep = cl[0]
        srep = sem(rep)
        for y in cl:
            checked += 1
            if not (y == rep and rep == y and not (y != rep) and not (rep != y) and y == y):
                bad.append(("asym", repr(rep), repr(y)))
            if hash(y) != hash(rep):
                bad.append(("hash", repr(rep), repr(y)))
            if y is not rep and sem(y) != srep:
                bad.append(("eq but evaluate differently", repr(rep), repr(y)))
            if str(y) != str(rep):
                bad.append(("eq but render differently", repr(rep), repr(y)))
            if {rep: 1}.get(y) != 1 or y not in {rep} or y not in [rep]:
                bad.append(("dict key", repr(rep), repr(y)))
    # cross-type / cross-bucket equality (transitivity + symmetry): sample
    reps = [c[0] for c in classes]
    for _ in range(40000):
        a, b = rnd.choice(reps), rnd.choice(reps)
        if a is b:
            continue
        if (a == b) or (b == a):
            bad.append(("cross-class equal", repr(a), repr(b)))
    # interchangeability
    for cl in classes:
        objs = list({id(o): o for o in cl}.values())
        if len(objs) < 2:
            continue
        for _ in range(3):
            x, y = rnd.sample(objs, 2)
            a = rnd.choice(base)
            sa, sx = sem(a), sem(x)
            for name, f, truth in (
                ("a&x", lambda z: a & z, lambda p, q: p and q),
                ("x&a", lambda z: z & a, lambda p, q: p and q),
                ("a|x", lambda z: a | z, lambda p, q: p or q),
                ("x|a", lambda z: z | a, lambda p, q: p or q),
                ("only", lambda z: z.only("python_version", "os_name"), None),
                ("excl", lambda z: z.exclude("os_name"), None),
                ("wx", lambda z: z.without_extras(), None),
            ):
                checked += 1
                try:
                    rx = timed(f, x)
                    ry = timed(f, y)
                except TO:
                    timeouts += 1
                    continue
                except Exception as e:
                    bad.append(("op raised 2", name, str(a), str(x), repr(e)))
                    continue
                if sem(rx) != sem(ry):
                    bad.append(("not interchangeable", name, str(a), repr(x), repr(y), repr(rx), repr(ry)))
                if not (rx == ry) or hash(rx) != hash(ry) or str(rx) != str(ry):
                    bad.append(("results unequal", name, str(a), repr(x), repr(y), repr(rx), repr(ry)))
                if truth is not None and all(isinstance(v, bool) for v in sa + sx):
                    exp = tuple(truth(p, q) for p, q in zip(sa, sx))
                    if sem(rx) != exp:
                        bad.append(("WRONG SEMANTICS (other property)", name, str(a), str(x), repr(rx)))
    print("checked", checked, "bad", len(bad), "timeouts", timeouts)
    seen = {}
    for b in bad:
        k = b[0]
        seen[k] = seen.get(k, 0) + 1
        if seen[k] > (3 if True else 1000):
            continue
        print(b)
    print(seen)
    return len(bad)


if __name__ == "__main__":
    seed = int(sys.argv[1]) if len(sys.argv) > 1 else 1
    n1 = int(sys.argv[2]) if len(sys.argv) > 2 else 2000
    n2 = int(sys.argv[3]) if len(sys.argv) > 3 else 250
    c = probes()
    b1 = spec_sweep(seed, n1)
    b2 = marker_sweep(seed, n2)
    print(f"SUMMARY: {c} weak candidate(s) from probes, {b1} specifier violations, {b2} marker violations")
