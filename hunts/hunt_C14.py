"""Task A: violations of C14 (Boolean-algebra laws) found on the UNMODIFIED library.

Run:  cd /tmp/wt/C14f && PYTHONPATH=/tmp/wt/C14f/src /venv/bin/python hunt_C14.py

Oracle for markers: the truth value of an operator result in an environment must be the
Boolean combination of the operands' own evaluate() in that environment (evaluate() of an
atom is checked against packaging.markers.Marker where packaging can evaluate it), and the
two sides of a law must agree with each other.
"""
from __future__ import annotations

from packaging.markers import Marker as PkgMarker
from packaging.specifiers import SpecifierSet

from dep_logic.markers import parse_marker as M
from dep_logic.specifiers import parse_version_specifier as P

BASE_ENV = {
    "python_full_version": "3.8.0",
    "python_version": "3.8",
    "platform_release": "5.15.0",
    "implementation_version": "3.8.0",
    "os_name": "posix",
    "sys_platform": "linux",
    "platform_system": "Linux",
    "platform_machine": "x86_64",
    "implementation_name": "cpython",
    "platform_python_implementation": "CPython",
    "platform_version": "#1 SMP",
    "extra": "",
}

count = 0


def env(**kw):
    e = dict(BASE_ENV)
    e.update(kw)
    return e


def pkg_eval(text, e):
    try:
        return PkgMarker(text).evaluate(e)
    except Exception as ex:  # packaging cannot evaluate it
        return f"packaging:{type(ex).__name__}"


def report(title, lines):
    global count
    count += 1
    print(f"--- [{count}] {title}")
    for line in lines:
        print("    " + line)


def two_sided(title, law, lhs, rhs, operands, e, note="", expected=None):
    """lhs/rhs are thunks; operands is {name: marker text}."""
    L, R = lhs(), rhs()
    lv, rv = L.evaluate(e), R.evaluate(e)
    ops = {k: (M(v).evaluate(e), pkg_eval(v, e)) for k, v in operands.items()}
    exp = expected(*[ops[k][0] for k in operands]) if expected else None
    if lv != rv or (expected and (lv != exp or rv != exp)):
        report(
            title,
            [f"law: {law}"]
            + [f"{k} = {v!r}   evaluate={ops[k][0]}  packaging={ops[k][1]}" for k, v in operands.items()]
            + [
                f"env: python_full_version={e['python_full_version']!r} python_version={e['python_version']!r} "
                f"platform_release={e['platform_release']!r} os_name={e['os_name']!r}",
                f"lhs -> {str(L)!r} evaluates {lv}",
                f"rhs -> {str(R)!r} evaluates {rv}",
            ]
            + ([f"Boolean combination of the operands' own values: {exp}"] if expected else [])
            + ([note] if note else []),
        )
    else:
        print(f"(no two-sided difference for: {title})")


# ---------------------------------------------------------------------------------------
# 1. A range whose upper bound is a post-release is rendered (and re-parsed) as `~=`:
#    RangeSpecifier._simplified_form only refuses pre-release upper bounds, so
#    [3.7.0, 3.8.0.post1) becomes "~=3.7.0" == [3.7.0, 3.8.0).  The marker operators go
#    through that string (MarkerExpression.from_specifier), so `&` loses the point 3.8.0.
# ---------------------------------------------------------------------------------------
x = M('python_full_version >= "3.8.0"')
y = M('python_full_version >= "3.7.0"')
z = M('python_full_version < "3.8.0.post1"')
two_sided(
    "post-release upper bound collapses to ~= : associativity of & fails (final-release environment)",
    "(x & y) & z  ==  x & (y & z)",
    lambda: (x & y) & z,
    lambda: x & (y & z),
    {"x": 'python_full_version >= "3.8.0"', "y": 'python_full_version >= "3.7.0"', "z": 'python_full_version < "3.8.0.post1"'},
    env(),
    note=f"cause: str(P('>=3.7.0') & P('<3.8.0.post1')) = {str(P('>=3.7.0') & P('<3.8.0.post1'))!r}; "
    f"packaging: SpecifierSet('>=3.7.0,<3.8.0.post1').contains('3.8.0') = {SpecifierSet('>=3.7.0,<3.8.0.post1').contains('3.8.0')}, "
    f"SpecifierSet('~=3.7.0').contains('3.8.0') = {SpecifierSet('~=3.7.0').contains('3.8.0')}",
)

# ---------------------------------------------------------------------------------------
# 2. platform_release is merged as a PEP 440 version, but is evaluated as a plain string
#    when the environment value is not a version (every Linux kernel: 4.19.0-25-generic).
# ---------------------------------------------------------------------------------------
a = M('platform_release >= "4.4"')
b = M('platform_release < "10"')
c = M('os_name == "posix"')
two_sided(
    "platform_release with a non-PEP-440 environment value: distributivity fails",
    "(a | b) & c  ==  (a & c) | (b & c)",
    lambda: (a | b) & c,
    lambda: (a & c) | (b & c),
    {"a": 'platform_release >= "4.4"', "b": 'platform_release < "10"', "c": 'os_name == "posix"'},
    env(platform_release="4.19.0-25-generic"),
    expected=lambda A, B, C: (A or B) and C,
    note="a | b is folded to the universal marker although both are false for this (string-compared) release",
)

# 2b. ... and an atom with a real-world kernel release makes & / | raise
try:
    r = M('platform_release == "5.15.0-91-generic"') & M('platform_release != "5.4"')
    print("(no exception for platform_release literal)", r)
except Exception as ex:
    report(
        "operator raises on atoms that evaluate fine",
        [
            'a = platform_release == "5.15.0-91-generic", b = platform_release != "5.4"',
            f"a.evaluate / b.evaluate (release 5.15.0-91-generic) = "
            f"{M('platform_release == \"5.15.0-91-generic\"').evaluate(env(platform_release='5.15.0-91-generic'))} / "
            f"{M('platform_release != \"5.4\"').evaluate(env(platform_release='5.15.0-91-generic'))}",
            f"a & b raises {type(ex).__name__}: {ex}",
        ],
    )
try:
    r = M('python_full_version >= "3.8.*"') & M('python_full_version < "4"')
    print("(no exception for >= wildcard)", r)
except Exception as ex:
    report(
        "operator raises on an atom that evaluate() accepts (string fallback)",
        [
            'a = python_full_version >= "3.8.*" (a.evaluate(3.9.1) = '
            f"{M('python_full_version >= \"3.8.*\"').evaluate(env(python_full_version='3.9.1', python_version='3.9'))}), "
            'b = python_full_version < "4"',
            f"a & b raises {type(ex).__name__}: {ex}",
        ],
    )

# ---------------------------------------------------------------------------------------
# 3. `in` / `not in` on version variables: merged as a list of versions, evaluated as a
#    substring test (PEP 508).
# ---------------------------------------------------------------------------------------
a = M('python_version not in "3"')
b = M('python_version >= "3.8"')
c = M('python_version < "3.8"')
two_sided(
    "python_version not in \"3\": substring when evaluated, `!=3.*` when merged",
    "a & (b | c)  ==  (a & b) | (a & c)",
    lambda: a & (b | c),
    lambda: (a & b) | (a & c),
    {"a": 'python_version not in "3"', "b": 'python_version >= "3.8"', "c": 'python_version < "3.8"'},
    env(),
)
# ---------------------------------------------------------------------------------------
# 4. Pre-release / local interpreters: python_version X.Y is taken as python_full_version
#    >= X.Y.0, but 3.9.0b1 has python_version 3.9.
# ---------------------------------------------------------------------------------------
a = M('python_version >= "3.9"')
b = M('python_full_version <= "3.9"')
c = M('python_full_version > "3.9"')
two_sided(
    "pre-release interpreter 3.9.0b1 (python_version 3.9)",
    "a & (b | c)  ==  (a & b) | (a & c)",
    lambda: a & (b | c),
    lambda: (a & b) | (a & c),
    {"a": 'python_version >= "3.9"', "b": 'python_full_version <= "3.9"', "c": 'python_full_version > "3.9"'},
    env(python_full_version="3.9.0b1", python_version="3.9"),
)
a = M('"3.8" == python_full_version')
b = M('python_version != "3"')
e = env(python_full_version="3.8.0+local")
ab = a & b
if ab.evaluate(e) != (a.evaluate(e) and b.evaluate(e)):
    report(
        "literal-on-the-left atom is rewritten to the forward form by a merge; differs for a local build",
        [
            'a = "3.8" == python_full_version  (evaluate: '
            f"{a.evaluate(e)}; packaging: {pkg_eval('\"3.8\" == python_full_version', e)}),  b = python_version != \"3\" ({b.evaluate(e)})",
            "env: python_full_version='3.8.0+local'",
            f"a & b -> {str(ab)!r} evaluates {ab.evaluate(e)}; expected {a.evaluate(e) and b.evaluate(e)}",
        ],
    )

# ---------------------------------------------------------------------------------------
# 5. Specifiers: === operands make the operators partial.
# ---------------------------------------------------------------------------------------
arb = P("===1.0")
lines = []
for name, f in [
    ("~(===1.0)", lambda: ~arb),
    ("===1.0 | >=2", lambda: arb | P(">=2")),
    (">=2 & (===1.0 | >=2)   [absorption]", lambda: P(">=2") & (arb | P(">=2"))),
]:
    try:
        lines.append(f"{name} -> {f()!r}")
    except Exception as ex:
        lines.append(f"{name} raises {type(ex).__name__}: {ex}")
if any("raises" in line for line in lines):
    report("ArbitrarySpecifier (reachable via parse_version_specifier) has no complement / union", lines)

print(f"\n{count} violation(s) printed")
