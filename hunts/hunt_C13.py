"""C13 hunt on the unmodified library.

Prints every violation found of "objects that compare equal are interchangeable" (the
equality/hash *laws* themselves held on everything tried, see the report).

Run: cd /tmp/wt/C13f && PYTHONPATH=/tmp/wt/C13f/src /venv/bin/python hunt_C13.py
"""
from __future__ import annotations

from packaging.markers import Marker
from packaging.specifiers import SpecifierSet

from dep_logic.markers import parse_marker
from dep_logic.specifiers import (
    AnySpecifier,
    GenericSpecifier,
    RangeSpecifier,
    parse_version_specifier,
)

violations = 0


def violation(title: str, *lines: str) -> None:
    global violations
    violations += 1
    print(f"[V{violations}] {title}")
    for line in lines:
        print("     " + line)
    print()


def attempt(fn):
    try:
        return fn()
    except Exception as e:  # noqa: BLE001
        return f"raises {type(e).__name__}: {e}"


# ---------------------------------------------------------------------------------
# Family 1: "==X.*", "~=X.0" and ">=X.0,<X+1.0" are parsed to RangeSpecifiers that
# compare equal and hash equal (min, max, include_* are the same; `simplified` is
# excluded from ==/hash) but keep different spellings, and `contains` goes through the
# spelling.  PEP 440: "==1.*" admits 1.0a1 / 1.0.dev0 / 1.0rc1, "~=1.0" (">=1.0,==1.*")
# does not.  So equal objects are not interchangeable.
# ---------------------------------------------------------------------------------
for sx, sy in (("==1.*", "~=1.0"), ("==1.*", ">=1.0,<2.0"), ("==3.8.*", "~=3.8.0"), ("==1!2.*", "~=1!2.0")):
    x, y = parse_version_specifier(sx), parse_version_specifier(sy)
    assert x == y and y == x and hash(x) == hash(y) and len({x, y}) == 1
    for v in ("1.0a1", "1.0.dev0", "1.0rc1", "3.8.0b2", "1!2.0a1"):
        lx, ly = x.contains(v, True), y.contains(v, True)
        ox = SpecifierSet(sx).contains(v, prereleases=True)
        oy = SpecifierSet(sy).contains(v, prereleases=True)
        if lx != ly:
            violation(
                f"parse({sx!r}) == parse({sy!r}) (hash equal, one dict key) but membership of {v} differs",
                f"library : {v} in parse({sx!r}) -> {lx};  {v} in parse({sy!r}) -> {ly}",
                f"oracle  : packaging SpecifierSet({sx!r}) -> {ox};  SpecifierSet({sy!r}) -> {oy}"
                "  (the two specifiers really are different sets, so they must not compare equal"
                " - or, if they compare equal, must not answer differently)",
            )
            break

x, y = parse_version_specifier("==1.*"), parse_version_specifier("~=1.0")
d = {x: "value stored under ==1.*"}
violation(
    "dict/set key collision between different sets",
    f"d = {{parse('==1.*'): ...}}; d[parse('~=1.0')] -> {d[y]!r}",
    "oracle  : SpecifierSet('==1.*') != SpecifierSet('~=1.0') as sets (1.0a1 separates them)",
)

# a op x versus a op y
def members(spec, v: str) -> bool:
    return spec.contains(v, True) if hasattr(spec, "contains") else v in spec


for sa in (">=0.5", "===1.0rc1"):
    a = parse_version_specifier(sa)
    for opname, op in (("&", lambda p, q: p & q), ("|", lambda p, q: p | q)):
        rx, ry = attempt(lambda: op(a, x)), attempt(lambda: op(a, y))
        mx = rx if isinstance(rx, str) else [v for v in ("1.0rc1", "1.5") if members(rx, v)]
        my = ry if isinstance(ry, str) else [v for v in ("1.0rc1", "1.5") if members(ry, v)]
        if mx != my:
            violation(
                f"operand substitution: parse({sa!r}) {opname} x, x in {{'==1.*', '~=1.0'}} (x's compare equal)",
                f"library : with '==1.*' -> {rx}   [members among 1.0rc1, 1.5: {mx}]",
                f"library : with '~=1.0' -> {ry}   [members among 1.0rc1, 1.5: {my}]",
                "expected: the same meaning / the same exception behaviour for equal operands",
            )

# Consequence one level up: atoms whose specifiers compare equal are merged by picking
# one of them (`if result_specifier == marker1.specifier: return marker1`).
m1 = parse_marker('python_full_version == "3.*"')
m2 = parse_marker('python_full_version ~= "3.0"')
assert m1 != m2 and m1.specifier == m2.specifier
env = {"python_full_version": "3.0rc1", "python_version": "3.0"}
for text, got in (
    ('python_full_version == "3.*" and python_full_version ~= "3.0"', m1 & m2),
    ('python_full_version ~= "3.0" or python_full_version == "3.*"', m2 | m1),
):
    lib = got.evaluate(env)
    oracle = Marker(text).evaluate(env)
    if lib != oracle:
        violation(
            f"marker merge relies on specifier equality: {text}",
            f"library : simplifies to [{got}], which evaluates to {lib} at python_full_version=3.0rc1",
            f"oracle  : packaging Marker({text!r}).evaluate(...) -> {oracle}",
        )

# ---------------------------------------------------------------------------------
# Borderline (cross-domain): the two spellings of the universal set compare equal and
# hash equal, but only AnySpecifier() can be combined with a string-valued
# GenericSpecifier; RangeSpecifier() raises TypeError.  The library itself never mixes
# the two domains, so this is reported separately.
# ---------------------------------------------------------------------------------
g = GenericSpecifier("==", "linux")
ra, rr = attempt(lambda: g & AnySpecifier()), attempt(lambda: g & RangeSpecifier())
assert AnySpecifier() == RangeSpecifier() and hash(AnySpecifier()) == hash(RangeSpecifier())
if str(ra) != str(rr):
    print("[borderline] AnySpecifier() == RangeSpecifier(), but as operands of a GenericSpecifier:")
    print(f"     GenericSpecifier('==','linux') & AnySpecifier()   -> {ra}")
    print(f"     GenericSpecifier('==','linux') & RangeSpecifier() -> {rr}")
    print()

print(f"{violations} violations printed")
