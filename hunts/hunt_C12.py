"""Pre-existing violations of C12 found on the unmodified tree.

For every case: the marker text, the operation, what the library returns, and the
evaluation of the marker / of the result in a witness environment, with packaging's
Marker(text).evaluate(env) as the independent oracle for the marker's meaning.

C12 requires: env satisfies m  ==>  env satisfies m.only(names); and only()/exclude()
must return a marker (not raise) for a marker that parse_marker accepted.

Root cause of most of them: only()/exclude() re-normalise through of(), which brings
together atoms that never met while the marker was built (they lived in different
alternatives), and the atom-merging code is unsound for these atom kinds. The same
merges are reachable without only()/exclude() by writing the two atoms next to each
other, so they are shared with the parse/and/or properties; C12 is where they hide.
"""
from __future__ import annotations

from packaging.markers import Marker

from dep_logic.markers import parse_marker

IMPLICATION_CASES = [
    # (text, op, args, witness env)
    # 1. ">" / ">=" merged with "== X.Y.*": the wildcard matches pre-releases of X.Y.0, the merged ">= X.Y.0" does not
    ('os_name == "nt" and python_full_version > "3.9.2" or python_full_version == "3.9.*"',
     "only", ("python_full_version",),
     {"python_full_version": "3.9.0rc1", "python_version": "3.9", "os_name": "posix"}),
    # 2. literal-on-the-left "in" on a version-like variable is a substring test, but is merged as a version list
    ('"5.1" in platform_release and os_name == "nt" or platform_release >= "5.0" and os_name == "posix"',
     "only", ("platform_release",),
     {"platform_release": "4.5.1", "os_name": "nt"}),
    ('"3.1" in python_version and os_name == "nt" or python_version < "3.2" and os_name == "posix"',
     "only", ("python_version",),
     {"python_version": "3.11", "python_full_version": "3.11.0", "os_name": "nt"}),
    ('"3.1" not in python_version and os_name == "nt" or python_version >= "3.2" and os_name == "posix"',
     "only", ("python_version",),
     {"python_version": "3.11", "python_full_version": "3.11.0", "os_name": "posix"}),
    # 3. forward "in" on python_full_version: evaluated as substring of the literal, merged as "== 3.8.0.0 or == 3.9.0.0"
    ('python_full_version == "3.8" and os_name == "nt" or python_full_version in "3.8, 3.9" and os_name == "posix"',
     "only", ("python_full_version",),
     {"python_full_version": "3.8.0", "python_version": "3.8", "os_name": "nt"}),
    ('python_full_version != "3.8" and os_name == "nt" or python_full_version not in "3.8" and os_name == "posix"',
     "only", ("python_full_version",),
     {"python_full_version": "3.8.0", "python_version": "3.8", "os_name": "posix"}),
    # 4. platform_release of a real Linux kernel is not a PEP 440 version: the reversed atom falls back to
    #    string comparison (True), the forward atom it is merged into answers False
    ('platform_release == "3.8" and os_name == "nt" or "3.8" < platform_release and os_name == "posix"',
     "only", ("platform_release",),
     {"platform_release": "5.10.0-generic", "os_name": "posix"}),
    # 5. local version in the environment (e.g. a patched interpreter "3.9.2+local")
    ('python_full_version < "3.9.2" and os_name == "nt" or "3.9.2" < python_full_version and os_name == "posix"',
     "only", ("python_full_version",),
     {"python_full_version": "3.9.2+local", "python_version": "3.9", "os_name": "posix"}),
]

EXCEPTION_CASES = [
    # parse_marker accepts all of these and evaluate() works on them, only()/exclude() raise
    ('python_full_version == "3.8" and os_name == "nt" or python_full_version === "3.9.2" and os_name == "posix"',
     "only", ("python_full_version",), {"python_full_version": "3.9.2", "python_version": "3.9", "os_name": "posix"}),
    ('python_version < "3.8" and os_name == "nt" or python_version === "3.9" and os_name == "posix"',
     "exclude", ("os_name",), {"python_full_version": "3.9.2", "python_version": "3.9", "os_name": "posix"}),
    ('platform_release >= "5.10.0-generic" and os_name == "nt" or platform_release >= "5.0" and os_name == "posix"',
     "only", ("platform_release",), {"platform_release": "5.4.0", "os_name": "posix"}),
    ('platform_release >= "5.10.0-generic" and os_name == "nt" or platform_release >= "5.0" and os_name == "posix"',
     "exclude", ("os_name",), {"platform_release": "5.4.0", "os_name": "posix"}),
]


def main() -> None:
    n = 0
    for text, op, args, env in IMPLICATION_CASES:
        m = parse_marker(text)
        r = getattr(m, op)(*args)
        mv, rv, pv = m.evaluate(env), r.evaluate(env), Marker(text).evaluate(env)
        bad = mv and not rv
        n += bad
        label = "ok       "
        if bad:
            label = "VIOLATION" if pv else "VIOLATION (by the library's own evaluate(); packaging evaluates the text to False in this env)"
        print(f"{label} m = {text}")
        print(f"          m.{op}{args} = {r}")
        print(f"          env = {env}")
        print(f"          m.evaluate(env) = {mv} (packaging on the text: {pv}); result.evaluate(env) = {rv}"
              f"   -> expected the result to be True wherever m is")
    for text, op, args, env in EXCEPTION_CASES:
        m = parse_marker(text)
        mv, pv = m.evaluate(env), Marker(text).evaluate(env)
        try:
            r = getattr(m, op)(*args)
        except Exception as e:  # noqa: BLE001
            n += 1
            print(f"VIOLATION m = {text}")
            print(f"          parse_marker ok, m.evaluate(env) = {mv} (packaging: {pv}) for env = {env}")
            print(f"          m.{op}{args} raised {type(e).__name__}: {e}   -> expected a marker, not an exception")
        else:
            print(f"ok        m = {text}; m.{op}{args} = {r}")
    print(f"{n} violations")


if __name__ == "__main__":
    main()
