"""Hunt for C09 violations on the unmodified tree.

Exhaustive over the property's quantifier (it is finite), plus scores through
EnvSpec.compatibility / wheel_compatibility, parse round trips, repeated /
interleaved access (caches), and a few probes just outside the quantifier.

Run: cd /tmp/wt/C09g && PYTHONPATH=/tmp/wt/C09g/src /venv/bin/python hunt_C09.py
"""
from __future__ import annotations

import itertools
import random
import sys
from unittest import mock

import packaging._manylinux as _ml
import packaging._musllinux as _mu
import packaging.tags as ptags

from dep_logic.tags import EnvSpec, os as dos
from dep_logic.tags.platform import Arch, Platform, PlatformError

LINUX_ARCHS = ["x86_64", "aarch64", "armv7l", "ppc64le", "ppc64", "s390x", "riscv64"]
LEGACY = {5: "manylinux1", 12: "manylinux2010", 17: "manylinux2014"}

violations: list[str] = []
outside: list[str] = []
ncases = 0


def is_fat(tag: str) -> bool:
    return tag.rsplit("_", 1)[-1].startswith("fat")


def nofat(tags):
    return [t for t in tags if not is_fat(t)]


# ---------------------------------------------------------------- rule oracle
def rule_manylinux(minor: int, arch: str) -> list[str]:
    floor = 5 if arch in ("x86_64", "i686") else 17
    out = []
    k = minor
    while k >= floor:
        out.append(f"manylinux_2_{k}_{arch}")
        if k in LEGACY:
            out.append(f"{LEGACY[k]}_{arch}")
        k -= 1
    out.append(f"linux_{arch}")
    return out


def rule_musllinux(minor: int, arch: str) -> set[str]:
    return {f"linux_{arch}"} | {f"musllinux_1_{k}_{arch}" for k in range(1, minor + 1)}


def rule_macos(major: int, minor: int, arch: str) -> list[str]:
    fmts = (
        ["x86_64", "intel", "universal2", "universal"]
        if arch == "x86_64"
        else ["arm64", "universal2"]
    )
    out = []
    if major == 10:
        assert arch == "x86_64"
        for m in range(minor, 3, -1):
            out += [f"macosx_10_{m}_{f}" for f in fmts]
        return out
    for M in range(major, 10, -1):
        out += [f"macosx_{M}_0_{f}" for f in fmts]
    for m in range(16, 3, -1):
        if arch == "x86_64":
            out += [f"macosx_10_{m}_{f}" for f in fmts]
        else:
            out.append(f"macosx_10_{m}_universal2")
    return out


# ----------------------------------------------------------- packaging oracle
def pk_manylinux(minor: int, arch: str) -> list[str]:
    with mock.patch.object(_ml, "_get_glibc_version", lambda: (2, minor)), \
         mock.patch.object(_ml, "_have_compatible_abi", lambda exe, archs: True):
        _ml._is_compatible  # noqa: B018
        tags = list(_ml.platform_tags([arch]))
    return tags + [f"linux_{arch}"]


def pk_musllinux(minor: int, arch: str) -> set[str]:
    with mock.patch.object(_mu, "_get_musl_version", lambda exe: _mu._MuslVersion(1, minor)):
        tags = set(_mu.platform_tags([arch]))
    tags.discard(f"musllinux_1_0_{arch}")  # property: 1 <= K
    return tags | {f"linux_{arch}"}


def pk_macos(major: int, minor: int, arch: str) -> list[str]:
    return nofat(ptags.mac_platforms((major, minor), arch))


# ------------------------------------------------------------------- checking
def check_platform(p: Platform, expect, desc: str, ordered: bool) -> None:
    global ncases
    ncases += 1
    try:
        got = nofat(p.compatible_tags)
    except Exception as e:  # noqa: BLE001
        violations.append(f"{desc}: compatible_tags raised {type(e).__name__}: {e}")
        return
    if ordered:
        if got != list(expect):
            violations.append(f"{desc}: library {got} != oracle {list(expect)}")
    else:
        if set(got) != set(expect) or len(got) != len(set(got)):
            violations.append(f"{desc}: library {sorted(got)} != oracle {sorted(expect)}")
    # score through EnvSpec: every accepted tag is compatible, score strictly
    # decreasing along the list, `any` lowest; foreign tags rejected.
    env = EnvSpec.from_spec(">=3.8", None, None)
    env = EnvSpec(env.requires_python, p, None)
    full = p.compatible_tags
    prev = None
    for t in full:
        ncases += 1
        c = env.compatibility(["py3"], ["none"], [t])
        if c is None:
            violations.append(f"{desc}: accepted tag {t} scored None")
            continue
        if prev is not None and not c[3] < prev:
            violations.append(f"{desc}: score of {t} = {c[3]} not below previous {prev}")
        prev = c[3]
        # upper-cased wheel tag reads the same
        c2 = env.wheel_compatibility(f"x-1-py3-none-{t.upper()}.whl")
        if c2 != c:
            violations.append(f"{desc}: upper-cased {t} -> {c2} != {c}")
    cany = env.compatibility(["py3"], ["none"], ["any"])
    if cany is None or (prev is not None and not cany[3] < prev) or cany[3] <= 0:
        violations.append(f"{desc}: any scored {cany}, last platform score {prev}")


def foreign_tags(arch_of_p: str):
    """Tags that must never be accepted unless the oracle lists them."""
    cands = []
    for a in LINUX_ARCHS + ["i686", "x86", "arm64", "amd64", "armv8l", "loongarch64"]:
        for k in (0, 1, 4, 5, 6, 11, 12, 16, 17, 18, 28, 34, 50, 51):
            cands.append(f"manylinux_2_{k}_{a}")
        cands += [f"manylinux1_{a}", f"manylinux2010_{a}", f"manylinux2014_{a}", f"linux_{a}"]
        for k in range(0, 7):
            cands.append(f"musllinux_1_{k}_{a}")
        cands.append(f"manylinux_1_17_{a}")
        cands.append(f"manylinux_3_0_{a}")
        cands.append(f"musllinux_2_1_{a}")
    for M, m in [(10, 0), (10, 3), (10, 4), (10, 9), (10, 16), (10, 17), (11, 0), (11, 1),
                 (12, 0), (12, 3), (14, 0), (14, 2), (30, 0), (31, 0), (9, 0)]:
        for f in ("x86_64", "arm64", "intel", "universal", "universal2", "i386", "ppc", "ppc64", "aarch64"):
            cands.append(f"macosx_{M}_{m}_{f}")
    cands += ["win32", "win_amd64", "win_arm64", "win_ia64", "win64", "windows_amd64", ""]
    return cands


FOREIGN = foreign_tags("")


def check_foreign(p: Platform, accept: set[str], desc: str) -> None:
    global ncases
    env = EnvSpec(EnvSpec.from_spec(">=3.8").requires_python, p, None)
    for t in FOREIGN:
        ncases += 1
        c = env.compatibility(["py3"], ["none"], [t])
        if (c is not None) != (t in accept):
            violations.append(f"{desc}: tag {t!r} library={'accept' if c else 'reject'} oracle={'accept' if t in accept else 'reject'}")


def main() -> None:
    global ncases
    # ---- manylinux
    for arch in LINUX_ARCHS:
        for minor in range(5, 51):
            r, k = rule_manylinux(minor, arch), pk_manylinux(minor, arch)
            assert r == k, (arch, minor, r, k)
            for how, p in (
                ("ctor", Platform(dos.Manylinux(2, minor), Arch(arch))),
                ("parse", Platform.parse(f"manylinux_2_{minor}_{arch}")),
            ):
                d = f"manylinux_2_{minor}_{arch} [{how}]"
                check_platform(p, r, d, ordered=True)
                check_foreign(p, set(r), d)
    # ---- musllinux
    for arch in LINUX_ARCHS:
        for minor in range(1, 6):
            r, k = rule_musllinux(minor, arch), pk_musllinux(minor, arch)
            assert r == k, (arch, minor, r, k)
            for how, p in (
                ("ctor", Platform(dos.Musllinux(1, minor), Arch(arch))),
                ("parse", Platform.parse(f"musllinux_1_{minor}_{arch}")),
            ):
                d = f"musllinux_1_{minor}_{arch} [{how}]"
                check_platform(p, r, d, ordered=False)
                check_foreign(p, r, d)
    # ---- macOS
    mac = [(10, m, "x86_64") for m in range(4, 17)]
    for M in range(11, 31):
        for m in (0, 1, 3, 7):
            mac += [(M, m, "x86_64"), (M, m, "arm64")]
    for M, m, arch in mac:
        r, k = rule_macos(M, m, arch), pk_macos(M, m, arch)
        assert r == k, (M, m, arch)
        for how, p in (
            ("ctor", Platform(dos.Macos(M, m), Arch.parse(arch))),
            ("parse", Platform.parse(f"macos_{M}_{m}_{arch}")),
        ):
            d = f"macos_{M}_{m}_{arch} [{how}]"
            check_platform(p, r, d, ordered=True)
            check_foreign(p, set(r), d)
    # ---- windows
    for name, arch, tag in (("x86", Arch.X86, "win32"), ("amd64", Arch.X86_64, "win_amd64"),
                            ("arm64", Arch.Aarch64, "win_arm64"), ("i686", Arch.X86, "win32"),
                            ("x86_64", Arch.X86_64, "win_amd64"), ("aarch64", Arch.Aarch64, "win_arm64")):
        for how, p in (("ctor", Platform(dos.Windows(), arch)), ("parse", Platform.parse(f"windows_{name}"))):
            d = f"windows_{name} [{how}]"
            check_platform(p, [tag], d, ordered=True)
            check_foreign(p, {tag}, d)
    # ---- aliases
    for alias, exp in (("linux", rule_manylinux(17, "x86_64")), ("windows", ["win_amd64"]),
                       ("macos", rule_macos(14, 0, "arm64")), ("macos_arm64", rule_macos(14, 0, "arm64")),
                       ("macos_x86_64", rule_macos(14, 0, "x86_64"))):
        check_platform(Platform.parse(alias), exp, f"alias {alias}", ordered=True)
    check_platform(Platform.parse("alpine"), rule_musllinux(2, "x86_64"), "alias alpine", ordered=False)

    # ---- str() round trip keeps the tag list
    for arch in LINUX_ARCHS:
        for minor in (5, 12, 17, 28, 50):
            p = Platform(dos.Manylinux(2, minor), Arch(arch))
            ncases += 1
            if Platform.parse(str(p)).compatible_tags != p.compatible_tags:
                violations.append(f"str round trip changes tags for {p}")
    for M, m, arch in mac:
        p = Platform(dos.Macos(M, m), Arch.parse(arch))
        ncases += 1
        if Platform.parse(str(p)).compatible_tags != p.compatible_tags:
            violations.append(f"str round trip changes tags for {p}")
    for arch in (Arch.X86, Arch.X86_64, Arch.Aarch64):
        p = Platform(dos.Windows(), arch)
        ncases += 1
        try:
            q = Platform.parse(str(p))
            if q.compatible_tags != p.compatible_tags:
                violations.append(f"str round trip changes tags for {p}: {q.compatible_tags}")
        except Exception as e:  # noqa: BLE001
            violations.append(f"Platform.parse(str({p!r})) raised {type(e).__name__}: {e}")

    # ---- multi-tag wheels: score is the best (max) of the tags, as packaging
    # would pick the first matching supported tag.  Random platform-tag sets.
    rng = random.Random(9)
    plats = [Platform(dos.Manylinux(2, rng.randint(5, 50)), Arch(rng.choice(LINUX_ARCHS))) for _ in range(40)]
    plats += [Platform(dos.Macos(M, m), Arch.parse(a)) for M, m, a in rng.sample(mac, 40)]
    for p in plats:
        env = EnvSpec(EnvSpec.from_spec(">=3.8").requires_python, p, None)
        full = [*p.compatible_tags, "any"]
        for _ in range(150):
            ncases += 1
            n = rng.randint(1, 4)
            tags = [rng.choice(full + FOREIGN) for _ in range(n)]
            c = env.compatibility(["py3"], ["none"], tags)
            idx = [full.index(t) for t in tags if t in full]
            if not idx:
                if c is not None:
                    violations.append(f"{p}: tags {tags} accepted but none is supported")
                continue
            if c is None or c[3] != len(full) - min(idx):
                violations.append(f"{p}: tags {tags} -> {c}, expected platform score {len(full) - min(idx)}")
            # better wheels (earlier tag) must score strictly higher
            # and the filename route agrees with the list route
            fn = "pkg-1.0-py3-none-" + ".".join(tags) + ".whl"
            if all(t for t in tags):
                c2 = env.wheel_compatibility(fn)
                if c2 != c:
                    violations.append(f"{p}: {fn} -> {c2} but list route {c}")

    # ---- cache / order of earlier operations: tag lists are stable under
    # repeated access and under interleaved access from equal instances
    for _ in range(200):
        ncases += 1
        arch = rng.choice(LINUX_ARCHS)
        minor = rng.randint(5, 50)
        a = Platform(dos.Manylinux(2, minor), Arch(arch))
        b = Platform(dos.Manylinux(2, minor), Arch(arch))
        t1 = list(a.compatible_tags)
        EnvSpec(EnvSpec.from_spec(">=3.8").requires_python, a, None).compatibility(["py3"], ["none"], ["any"])
        if list(a.compatible_tags) != t1 or list(b.compatible_tags) != t1 or hash(a) != hash(b) or a != b:
            violations.append(f"unstable tags for manylinux_2_{minor}_{arch}")

    # ---- probes just outside the quantifier (reported separately)
    def probe(desc, fn, expect_desc, ok):
        try:
            r = fn()
            res = repr(r)
        except Exception as e:  # noqa: BLE001
            r = e
            res = f"{type(e).__name__}: {e}"
        if not ok(r):
            outside.append(f"{desc}: library -> {res}; expected {expect_desc}")

    pk_i686 = pk_manylinux(17, "i686")
    probe("Platform.parse('manylinux_2_17_i686').compatible_tags",
          lambda: Platform.parse("manylinux_2_17_i686").compatible_tags,
          f"packaging says {pk_i686[:2]} ... (arch spelled i686)", lambda r: r == pk_i686)
    probe("Platform.parse('freebsd_13_x86_64').compatible_tags",
          lambda: Platform.parse("freebsd_13_x86_64").compatible_tags,
          "['freebsd_13_x86_64'] (sysconfig platform, normalised)", lambda r: r == ["freebsd_13_x86_64"])
    probe("Platform.parse('illumos_5_11_x86_64')",
          lambda: Platform.parse("illumos_5_11_x86_64"),
          "a Platform or PlatformError", lambda r: isinstance(r, (Platform, PlatformError)))
    for bad in ("manylinux_2_17_foo", "windows_foo", "foo", "macos_14_0_i386"):
        probe(f"Platform.parse({bad!r})", lambda bad=bad: Platform.parse(bad),
              "PlatformError", lambda r: isinstance(r, (Platform, PlatformError)))
    probe("Platform(Manylinux(2,17), Arch.LoongArch64).compatible_tags",
          lambda: Platform(dos.Manylinux(2, 40), Arch.LoongArch64).compatible_tags,
          "packaging: manylinux_2_40..2_17 + manylinux2014 + linux_loongarch64",
          lambda r: r == pk_manylinux(40, "loongarch64"))
    probe("Platform(Macos(10,3), X86_64).compatible_tags", lambda: Platform(dos.Macos(10, 3), Arch.X86_64).compatible_tags,
          "[]", lambda r: r == [])
    probe("Platform(Macos(9,0), X86_64).compatible_tags", lambda: Platform(dos.Macos(9, 0), Arch.X86_64).compatible_tags,
          "[] or PlatformError", lambda r: r == [] or isinstance(r, PlatformError))
    probe("Platform(Musllinux(1,0), x86_64)", lambda: Platform(dos.Musllinux(1, 0), Arch.X86_64).compatible_tags,
          "['linux_x86_64']", lambda r: r == ["linux_x86_64"])

    print(f"cases run: {ncases}")
    print(f"violations inside the quantifier: {len(violations)}")
    for v in violations[:50]:
        print("  VIOLATION", v)
    print(f"observations outside the quantifier: {len(outside)}")
    for v in outside:
        print("  OUTSIDE", v)


if __name__ == "__main__":
    main()
