"""Shared oracle for property C09 (independent of the library's code)."""
from __future__ import annotations

import contextlib
from unittest import mock

LINUX_ARCHS = ["x86_64", "aarch64", "armv7l", "ppc64le", "ppc64", "s390x", "riscv64"]
MAC_ARCHS = ["x86_64", "arm64"]
WIN = {"x86": "win32", "amd64": "win_amd64", "arm64": "win_arm64"}
LEGACY = {5: "manylinux1", 12: "manylinux2010", 17: "manylinux2014"}


def is_fat(tag: str) -> bool:
    return tag.startswith("macosx_") and tag.rsplit("_", 1)[1].startswith("fat")


def oracle_manylinux(minor: int, arch: str) -> list[str]:
    """PEP 600 / 513 / 571 / 599, newest first; linux_<arch> appended last
    (position of linux_<arch> is a known finding, we only keep it out of the way)."""
    floor = 5 if arch in ("x86_64", "i686") else 17
    out = []
    k = minor
    while k >= floor:
        out.append(f"manylinux_2_{k}_{arch}")
        if k in LEGACY:
            out.append(f"{LEGACY[k]}_{arch}")
        k -= 1
    out.append(f"linux_{arch}")
    return out


def oracle_musllinux(minor: int, arch: str) -> set[str]:
    return {f"linux_{arch}"} | {f"musllinux_1_{k}_{arch}" for k in range(1, minor + 1)}


def oracle_macos(major: int, minor: int, arch: str) -> list[str]:
    """macOS rules, newest first, fat* left out."""
    x86 = arch == "x86_64"
    fmts = ["x86_64", "intel", "universal2", "universal"] if x86 else ["arm64", "universal2"]
    out = []
    if major == 10:
        assert x86
        for m in range(minor, 3, -1):
            out += [f"macosx_10_{m}_{f}" for f in fmts]
        return out
    for M in range(major, 10, -1):
        out += [f"macosx_{M}_0_{f}" for f in fmts]
    for m in range(16, 3, -1):
        out += [f"macosx_10_{m}_{f}" for f in (fmts if x86 else ["universal2"])]
    return out


@contextlib.contextmanager
def _stub_glibc(minor):
    from packaging import _manylinux

    with mock.patch.object(_manylinux, "_get_glibc_version", lambda: (2, minor)), \
            mock.patch.object(_manylinux, "_have_compatible_abi", lambda exe, archs: True), \
            mock.patch.object(_manylinux, "_is_compatible", lambda arch, v: True):
        yield


def packaging_manylinux(minor: int, arch: str) -> list[str]:
    from packaging import _manylinux

    with _stub_glibc(minor):
        return list(_manylinux.platform_tags([arch]))


def packaging_musllinux(minor: int, arch: str) -> list[str]:
    from packaging import _musllinux

    with mock.patch.object(
        _musllinux, "_get_musl_version", lambda exe: _musllinux._MuslVersion(1, minor)
    ):
        return list(_musllinux.platform_tags([arch]))


def packaging_macos(major: int, minor: int, arch: str) -> list[str]:
    from packaging import tags

    return [t for t in tags.mac_platforms((major, minor), arch) if not is_fat(t)]


def all_targets():
    """(platform string for Platform.parse, kind, oracle list-or-set) over the quantifier."""
    for arch in LINUX_ARCHS:
        for k in range(5, 51):
            yield f"manylinux_2_{k}_{arch}", "manylinux", (k, arch)
        for k in range(1, 6):
            yield f"musllinux_1_{k}_{arch}", "musllinux", (k, arch)
    for k in range(4, 17):
        yield f"macos_10_{k}_x86_64", "macos", (10, k, "x86_64")
    for M in range(11, 31):
        for m in (0, 1, 3, 7):
            for arch in MAC_ARCHS:
                yield f"macos_{M}_{m}_{arch}", "macos", (M, m, arch)
    for a in WIN:
        yield f"windows_{a}", "windows", (a,)


def universe() -> list[str]:
    """Candidate wheel platform tags, including near misses."""
    u = {"any"}
    for arch in LINUX_ARCHS + ["i686", "x86", "arm64", "amd64"]:
        u.add(f"linux_{arch}")
        for k in range(0, 53):
            u.add(f"manylinux_2_{k}_{arch}")
            u.add(f"manylinux_1_{k}_{arch}")
            u.add(f"manylinux_3_{k}_{arch}")
        for k in range(0, 8):
            u.add(f"musllinux_1_{k}_{arch}")
            u.add(f"musllinux_2_{k}_{arch}")
        for l in ("manylinux1", "manylinux2010", "manylinux2014", "manylinux2", "manylinux2024"):
            u.add(f"{l}_{arch}")
    for fmt in ("x86_64", "arm64", "universal2", "universal", "intel", "i386", "ppc", "aarch64"):
        for k in range(0, 19):
            u.add(f"macosx_10_{k}_{fmt}")
        for M in range(9, 33):
            for m in (0, 1, 3):
                u.add(f"macosx_{M}_{m}_{fmt}")
    u |= {"win32", "win_amd64", "win_arm64", "win_x86_64", "win_x86", "win_ia64", "win64", "windows_amd64"}
    return sorted(u)


# --------------------------------------------------------------------------- hunt
def main() -> int:
    import copy
    import pickle

    from dep_logic.tags import EnvSpec
    from dep_logic.tags import os as dos
    from dep_logic.tags.platform import Arch, Platform

    findings: list[str] = []
    ncases = 0
    U = universe()

    def lib_arch(a):
        return Arch.parse(a)

    for text, kind, args in all_targets():
        p = Platform.parse(text)
        # second construction route: raw constructors
        if kind == "manylinux":
            q = Platform(dos.Manylinux(2, args[0]), lib_arch(args[1]))
        elif kind == "musllinux":
            q = Platform(dos.Musllinux(1, args[0]), lib_arch(args[1]))
        elif kind == "macos":
            q = Platform(dos.Macos(args[0], args[1]), lib_arch(args[2]))
        else:
            q = Platform(dos.Windows(), lib_arch(args[0]))
        if p != q or hash(p) != hash(q):
            findings.append(f"parse({text!r}) = {p!r} != constructed {q!r}")
        if Platform.parse(str(p)) != p:
            findings.append(f"str/parse round trip: {text!r} -> {str(p)!r} -> {Platform.parse(str(p))!r}")
        got = [t for t in p.compatible_tags if not is_fat(t)]
        if len(set(p.compatible_tags)) != len(p.compatible_tags):
            findings.append(f"{text}: duplicate tags")
        if kind == "manylinux":
            want = oracle_manylinux(*args)
            pk = packaging_manylinux(*args) + [f"linux_{args[1]}"]
            if want != pk:
                findings.append(f"ORACLES DISAGREE {text}")
            ok = got == want
        elif kind == "musllinux":
            want = oracle_musllinux(*args)
            pk = set(packaging_musllinux(*args)) - {f"musllinux_1_0_{args[1]}"} | {f"linux_{args[1]}"}
            if want != pk:
                findings.append(f"ORACLES DISAGREE {text}")
            ok = set(got) == want
        elif kind == "macos":
            want = oracle_macos(*args)
            if want != packaging_macos(*args):
                findings.append(f"ORACLES DISAGREE {text}")
            ok = got == want
        else:
            want = [WIN[args[0]]]
            ok = got == want
        ncases += 1
        if not ok:
            findings.append(f"{text}: compatible_tags={got[:6]}.. oracle={list(want)[:6]}..")
        # fourth component of compatibility, via several entry points
        wantl = list(want) if not isinstance(want, set) else None
        specs = [
            EnvSpec.from_spec(">=3.8", text),
            EnvSpec.from_spec(">=3.8", text, "cpython"),
            EnvSpec.from_spec(**EnvSpec.from_spec(">=3.8", text, "cpython").as_dict()),
            copy.deepcopy(EnvSpec.from_spec(">=3.8", text)),
            pickle.loads(pickle.dumps(EnvSpec.from_spec(">=3.8", text))),
        ]
        for si, spec in enumerate(specs):
            tags = U if si == 0 else U[:: 7]
            scores = {}
            for t in tags:
                ncases += 1
                c = spec.compatibility(["py3"], ["none"], [t])
                c2 = spec.wheel_compatibility(f"a-1-py3-none-{t}.whl")
                if c != c2:
                    findings.append(f"{text}: compatibility {c} != wheel_compatibility {c2} for {t}")
                accepted = c is not None
                if is_fat(t):
                    continue
                exp = t == "any" or t in want
                if accepted != exp:
                    findings.append(f"{text}: tag {t}: accepted={accepted} oracle={exp}")
                if accepted:
                    scores[t] = c[3]
            if wantl is not None:
                # order: newest first == strictly decreasing score along the oracle list; any is last
                seq = [scores[t] for t in wantl if t in scores]
                if any(a <= b for a, b in zip(seq, seq[1:])):
                    findings.append(f"{text}: scores not strictly decreasing along packaging order")
                if "any" in scores and seq and scores["any"] >= min(seq):
                    findings.append(f"{text}: any does not score lowest")
        # multi-tag wheels: the best tag wins, whatever the order of the compressed set
        spec = specs[0]
        if wantl and len(wantl) > 3:
            import itertools
            import random

            rnd = random.Random(hash(text) & 0xFFFF)
            for _ in range(20):
                ncases += 1
                ts = rnd.sample(wantl, 3) + rnd.sample(U, 2)
                rnd.shuffle(ts)
                c = spec.compatibility(["py3"], ["none"], ts)
                best = max(
                    (spec.compatibility(["py3"], ["none"], [t]) for t in ts),
                    key=lambda x: (x is not None, x),
                )
                if c != best:
                    findings.append(f"{text}: multi-tag {ts}: {c} != best single {best}")

    # --- observations outside the quantifier / hygiene ------------------------------
    notes: list[str] = []
    # (a) the list handed out by compatible_tags is the cached object itself
    p = Platform.parse("manylinux_2_17_x86_64")
    spec = EnvSpec.from_spec(">=3.8", "manylinux_2_17_x86_64")
    before = spec.compatibility(["py3"], ["none"], ["manylinux2014_x86_64"])
    lst = spec.platform.compatible_tags
    lst.sort()  # a caller sorting "its" list for display
    after = spec.compatibility(["py3"], ["none"], ["manylinux2014_x86_64"])
    lst2 = Platform.parse("manylinux_2_17_x86_64").compatible_tags
    notes.append(
        "aliasing: Platform.compatible_tags returns the cached list object; after a caller sorts it, "
        f"compatibility(manylinux2014_x86_64) changes {before} -> {after} on the same EnvSpec "
        f"(fresh Platform unaffected: {lst2[:2]}). Frozen dataclass, mutable cached state."
    )
    # (b) i686 linux: tags spelled with the enum value 'x86'
    p = Platform.parse("manylinux_2_17_i686")
    notes.append(
        f"outside quantifier (arch i686): Platform.parse('manylinux_2_17_i686').compatible_tags[:2] = "
        f"{p.compatible_tags[:2]} + {p.compatible_tags[-1]!r}; packaging: "
        f"{packaging_manylinux(17, 'i686')[:2]} + 'linux_i686' (no wheel is ever tagged *_x86)"
    )
    # (c) documented example strings of Platform.parse
    for s in ("win_amd64", "linux_x86_64", "macosx_10_9_x86_64", "win32", "manylinux2014_x86_64"):
        try:
            r = Platform.parse(s)
            notes.append(f"Platform.parse({s!r}) -> {r!r} tags {r.compatible_tags}")
        except Exception as e:  # noqa: BLE001
            notes.append(f"Platform.parse({s!r}) raises {type(e).__name__}: {e}")
    # (d) wrong exception type for unknown arch on the versioned branch
    for s in ("manylinux_2_17_sparc", "windows_ia64", "foo_sparc"):
        try:
            Platform.parse(s)
        except Exception as e:  # noqa: BLE001
            notes.append(f"Platform.parse({s!r}) raises {type(e).__name__}")
    # (e) musllinux order (outside the claim: order is only claimed for manylinux/macOS)
    p = Platform.parse("musllinux_1_3_x86_64")
    notes.append(f"musllinux order: lib {p.compatible_tags} vs packaging {packaging_musllinux(3, 'x86_64')}")

    print(f"cases run: {ncases}")
    print(f"NEW violations inside the quantifier: {len(findings)}")
    for f in findings[:40]:
        print("  VIOLATION:", f)
    print("observations (outside the quantifier or hygiene):")
    for n in notes:
        print("  -", n)
    return 0


if __name__ == "__main__":
    raise SystemExit(main())
