"""Hunt for violations of C09 on the unmodified tree.

Run: cd /tmp/wt/C09i && PYTHONPATH=/tmp/wt/C09i/src /venv/bin/python hunt_C09.py

Oracles:
  * rule_oracle(): written from PEP 600 / 656 / the macOS rules in the property text
  * packaging.tags with its probes stubbed (sysconfig.get_platform, glibc / musl version,
    ELF ABI check, platform.system, platform.mac_ver, 32-bit flag)
"""

from __future__ import annotations

import contextlib
import itertools
import platform as _platform
import sys
import sysconfig
from collections import Counter
from unittest import mock

import packaging
import packaging._manylinux as ML
import packaging._musllinux as MU
import packaging.tags as T

from dep_logic.tags import EnvSpec, Platform, PlatformError
from dep_logic.tags import os as dos
from dep_logic.tags.platform import Arch
from dep_logic.specifiers import parse_version_specifier

LINUX_ARCHS = ["x86_64", "aarch64", "armv7l", "ppc64le", "ppc64", "s390x", "riscv64"]
findings: list[str] = []
cases = Counter()


def report(kind: str, text: str) -> None:
    findings.append(f"[{kind}] {text}")


# --------------------------------------------------------------------------- oracles
def rule_oracle(p: Platform) -> list[str]:
    """Independent statement of the standards (newest first; linux_<arch> position left
    out of the order comparison, it is compared separately)."""
    o, a = p.os, p.arch.value
    if isinstance(o, dos.Manylinux):
        floor = 5 if a in ("x86_64", "i686") else 17
        legacy = {5: "manylinux1", 12: "manylinux2010", 17: "manylinux2014"}
        out = []
        k = o.minor
        while k >= floor:
            out.append(f"manylinux_2_{k}_{a}")
            if k in legacy:
                out.append(f"{legacy[k]}_{a}")
            k -= 1
        return out + [f"linux_{a}"]
    if isinstance(o, dos.Musllinux):
        return [f"musllinux_1_{k}_{a}" for k in range(o.minor, 0, -1)] + [f"linux_{a}"]
    if isinstance(o, dos.Macos):
        a = "arm64" if p.arch is Arch.Aarch64 else "x86_64"
        fm = ["arm64", "universal2"] if a == "arm64" else ["x86_64", "intel", "universal2", "universal"]
        rel = []
        if o.major >= 11:
            rel += [(m, 0) for m in range(o.major, 10, -1)]
            rel += [(10, m) for m in range(16, 3, -1)]
        else:
            rel += [(10, m) for m in range(o.minor, 3, -1)]
        out = []
        for M, m in rel:
            for f in fm:
                if f == "arm64" and M < 11:
                    continue
                out.append(f"macosx_{M}_{m}_{f}")
        return out
    if isinstance(o, dos.Windows):
        return [{"x86": "win32", "x86_64": "win_amd64", "aarch64": "win_arm64"}[p.arch.value]]
    raise AssertionError(p)


@contextlib.contextmanager
def stub_linux(arch: str, glibc=None, musl=None, bits32=False):
    with contextlib.ExitStack() as st:
        st.enter_context(mock.patch.object(sysconfig, "get_platform", lambda: f"linux-{arch}"))
        st.enter_context(mock.patch.object(_platform, "system", lambda: "Linux"))
        st.enter_context(mock.patch.object(ML, "_get_glibc_version", lambda: glibc or (-1, -1)))
        st.enter_context(mock.patch.object(ML, "_have_compatible_abi", lambda exe, archs: True))
        st.enter_context(
            mock.patch.object(MU, "_get_musl_version", lambda exe: MU._MuslVersion(*musl) if musl else None)
        )
        # the 32-bit flag is bound as a default argument of _linux_platforms
        st.enter_context(mock.patch.object(T._linux_platforms, "__defaults__", (bits32,)))
        yield


def packaging_linux(arch: str, glibc=None, musl=None) -> list[str]:
    with stub_linux(arch, glibc, musl):
        return list(T._linux_platforms(is_32bit=False))


def scores(p: Platform, tags: list[str]) -> dict[str, int | None]:
    env = EnvSpec(parse_version_specifier(">=3.8"), p, None)
    out = {}
    for t in tags:
        c = env.compatibility(["py3"], ["none"], [t])
        out[t] = None if c is None else c[3]
    return out


# --------------------------------------------------------------------------- 1. exhaustive
def all_platforms():
    for k in range(5, 51):
        for a in LINUX_ARCHS:
            yield Platform(dos.Manylinux(2, k), Arch(a))
    for k in range(1, 6):
        for a in LINUX_ARCHS:
            yield Platform(dos.Musllinux(1, k), Arch(a))
    for k in range(4, 17):
        yield Platform(dos.Macos(10, k), Arch.X86_64)
    for M in range(11, 31):
        for m in range(0, 10):
            for a in (Arch.X86_64, Arch.Aarch64):
                yield Platform(dos.Macos(M, m), a)
    for a in (Arch.X86, Arch.X86_64, Arch.Aarch64):
        yield Platform(dos.Windows(), a)


def section_exhaustive():
    diff_kinds: dict[str, list[str]] = {}

    def note(kind, example):
        diff_kinds.setdefault(kind, []).append(example)

    for p in all_platforms():
        cases["platform lists"] += 1
        lib = list(p.compatible_tags)
        assert len(lib) == len(set(lib)), ("duplicate tags", p)
        rule = rule_oracle(p)
        o = p.os
        if isinstance(o, dos.Manylinux):
            pk = packaging_linux(p.arch.value, glibc=(2, o.minor))
        elif isinstance(o, dos.Musllinux):
            pk = packaging_linux(p.arch.value, musl=(1, o.minor))
        elif isinstance(o, dos.Macos):
            pk = list(T.mac_platforms((o.major, o.minor), "arm64" if p.arch is Arch.Aarch64 else "x86_64"))
        else:
            pk = rule  # statically specified, no packaging generator

        # (a) library vs the rule oracle, fat* ignored as the property text says
        lib_nofat = [t for t in lib if "_fat" not in t]
        if isinstance(o, dos.Musllinux):
            if set(lib_nofat) != set(rule):
                note("rule-set", f"{p}: {sorted(set(lib_nofat) ^ set(rule))}")
        elif lib_nofat != rule:
            note("rule-order/set", f"{p}: lib={lib_nofat[:4]}.. rule={rule[:4]}..")

        # (b) library vs packaging: set
        extra = [t for t in lib if t not in pk]
        missing = [t for t in pk if t not in lib]
        for t in extra:
            note("lib claims, packaging does not: " + t.split("_")[-1 if "fat" in t else 0], f"{p}: {t}")
        for t in missing:
            key = "fat3" if t.endswith("fat3") else ("musllinux_1_0" if "musllinux_1_0" in t else t)
            note("packaging claims, lib does not: " + key, f"{p}: {t}")
        # (c) order among common tags
        common_lib = [t for t in lib if t in pk]
        common_pk = [t for t in pk if t in lib]
        if common_lib != common_pk:
            wo = [t for t in common_lib if not t.startswith("linux_")]
            wo_pk = [t for t in common_pk if not t.startswith("linux_")]
            if wo == wo_pk:
                note(
                    f"order: linux_<arch> is {'first' if common_pk[0].startswith('linux_') else 'last'} in packaging "
                    f"{packaging.__version__}, {'first' if common_lib[0].startswith('linux_') else 'last'} in the library "
                    f"({type(o).__name__})",
                    str(p),
                )
            else:
                note(f"order of non-linux tags differs ({type(o).__name__})", str(p))

        # (d) scores follow the list order, `any` strictly last, unknown tags rejected
        sc = scores(p, lib + ["any", "bogus_tag"])
        cases["score checks"] += len(sc)
        seq = [sc[t] for t in lib] + [sc["any"]]
        assert all(isinstance(s, int) for s in seq), (p, sc)
        assert all(x > y for x, y in zip(seq, seq[1:])), ("scores not strictly decreasing", p)
        assert sc["bogus_tag"] is None

    for kind, ex in sorted(diff_kinds.items()):
        report("exhaustive", f"{kind}: {len(ex)} occurrences, e.g. {ex[0]}")


# --------------------------------------------------------------------------- 2. concrete packaging-26 divergences
def section_concrete():
    # 2a. preference of linux_<arch> relative to manylinux (list order == score)
    p = Platform.parse("manylinux_2_28_x86_64")
    env = EnvSpec.from_spec(">=3.9", "manylinux_2_28_x86_64", "cpython")
    a = env.wheel_compatibility("pkg-1.0-cp39-abi3-linux_x86_64.whl")
    b = env.wheel_compatibility("pkg-1.0-cp39-abi3-manylinux_2_28_x86_64.whl")
    pk = packaging_linux("x86_64", glibc=(2, 28))
    lib_pref = "linux_x86_64" if a[3] > b[3] else "manylinux_2_28_x86_64"
    pk_pref = "linux_x86_64" if pk.index("linux_x86_64") < pk.index("manylinux_2_28_x86_64") else "manylinux_2_28_x86_64"
    cases["concrete"] += 1
    if lib_pref != pk_pref:
        report(
            "NEW?",
            f"EnvSpec(>=3.9, manylinux_2_28_x86_64): platform score linux_x86_64={a[3]}, manylinux_2_28_x86_64={b[3]} "
            f"-> library prefers {lib_pref}; packaging {packaging.__version__} _linux_platforms() yields {pk[:2]}.. "
            f"-> prefers {pk_pref} (the statement says the order is 'exactly as packaging.tags orders it')",
        )
    # 2b. fat32 / fat3
    p = Platform.parse("macos_12_0_x86_64")
    pk = list(T.mac_platforms((12, 0), "x86_64"))
    for t in ("macosx_10_9_fat32", "macosx_10_9_fat3", "macosx_10_9_fat64"):
        cases["concrete"] += 1
        lib_has, pk_has = t in p.compatible_tags, t in pk
        if lib_has != pk_has or lib_has:
            report(
                "NOTE",
                f"macos_12_0_x86_64 tag {t}: library accepts={lib_has}, packaging {packaging.__version__} accepts={pk_has}, "
                "property text says legacy fat* formats are not claimed",
            )


# --------------------------------------------------------------------------- 3. Platform.current() under stubs
def section_current():
    def current_vs_packaging(desc, ctx):
        cases["Platform.current"] += 1
        with ctx:
            try:
                lib = Platform.current()
                lib_tags = list(lib.compatible_tags)
            except Exception as e:  # noqa: BLE001
                lib, lib_tags = f"{type(e).__name__}: {e}", None
            pk = list(T.platform_tags())
        if lib_tags is None:
            report("current()", f"{desc}: library raises {lib}; packaging gives {pk[:3]}..")
        elif set(lib_tags) != set(pk):
            d1 = [t for t in lib_tags if t not in pk][:3]
            d2 = [t for t in pk if t not in lib_tags][:3]
            report("current()", f"{desc}: Platform.current()={lib}; only-lib={d1} only-packaging={d2}")
        elif [t for t in lib_tags if not t.startswith(("linux_", "musllinux"))] != [
            t for t in pk if not t.startswith(("linux_", "musllinux"))
        ]:
            report("current()", f"{desc}: same set, different order of manylinux/macOS tags")

    for a in LINUX_ARCHS + ["i686", "armv8l", "loongarch64"]:
        current_vs_packaging(f"linux-{a}, glibc 2.31", stub_linux(a, glibc=(2, 31)))
    current_vs_packaging("linux-x86_64 32-bit interpreter, glibc 2.31", stub_linux("x86_64", glibc=(2, 31), bits32=True))
    for a in ("x86_64", "aarch64"):
        current_vs_packaging(f"linux-{a}, musl 1.2", stub_linux(a, musl=(1, 2)))

    @contextlib.contextmanager
    def stub_mac(ver, machine):
        with contextlib.ExitStack() as st:
            st.enter_context(mock.patch.object(sysconfig, "get_platform", lambda: f"macosx-11.0-{machine}"))
            st.enter_context(mock.patch.object(_platform, "system", lambda: "Darwin"))
            st.enter_context(mock.patch.object(_platform, "mac_ver", lambda: (ver, ("", "", ""), machine)))
            yield

    for ver, m in [("14.5", "arm64"), ("14.5.1", "x86_64"), ("11.0", "arm64"), ("10.15.7", "x86_64"), ("26.0", "arm64"), ("12.3", "x86_64")]:
        current_vs_packaging(f"macOS {ver} {m}", stub_mac(ver, m))

    @contextlib.contextmanager
    def stub_win(plat):
        with contextlib.ExitStack() as st:
            st.enter_context(mock.patch.object(sysconfig, "get_platform", lambda: plat))
            st.enter_context(mock.patch.object(_platform, "system", lambda: "Windows"))
            yield

    for plat in ("win-amd64", "win32", "win-arm64"):
        current_vs_packaging(f"windows {plat}", stub_win(plat))


# --------------------------------------------------------------------------- 4. parse entry point
def section_parse():
    # every spelling of an in-quantifier platform must give the same tags
    spellings = {
        "manylinux_2_17_x86_64": ["linux", "manylinux_2_17_amd64", "manylinux_02_017_x86_64"],
        "manylinux_2_31_aarch64": ["manylinux_2_31_arm64"],
        "musllinux_1_2_x86_64": ["alpine", "musllinux_1_2_amd64"],
        "macos_14_0_arm64": ["macos", "macos_arm64", "macos_14_0_aarch64"],
        "macos_14_0_x86_64": ["macos_x86_64", "macos_14_0_amd64"],
        "windows_amd64": ["windows", "windows_x86_64"],
        "windows_x86": ["windows_i686", "windows_i386"],
        "windows_arm64": ["windows_aarch64"],
    }
    for canon, alts in spellings.items():
        base = Platform.parse(canon)
        assert str(base) == canon and Platform.parse(str(base)) == base
        for s in alts:
            cases["parse"] += 1
            q = Platform.parse(s)
            if q != base or q.compatible_tags != base.compatible_tags or hash(q) != hash(base):
                report("parse", f"{s!r} -> {q} differs from {canon}")
    for p in all_platforms():
        cases["parse"] += 1
        q = Platform.parse(str(p))
        assert q == p and q.compatible_tags == p.compatible_tags, p
        e = EnvSpec(parse_version_specifier(">=3.9"), p, None)
        d = e.as_dict()
        e2 = EnvSpec.from_spec(d["requires_python"], d["platform"])
        assert e2 == e and hash(e2) == hash(e), p
    for s in ("win32", "", "windows_", "macosx_10_9_x86_64", "win_amd64"):
        cases["parse"] += 1
        try:
            q = Platform.parse(s)
            if s == "win_amd64":
                report(
                    "NOTE (generic family, docstring example)",
                    f"Platform.parse({s!r}) -> {q!r}, tags {q.compatible_tags} (docstring names win_amd64 as an example input)",
                )
        except PlatformError:
            pass
        except Exception as e:  # noqa: BLE001
            report("NOTE wrong exception type", f"Platform.parse({s!r}) raises {type(e).__name__}({e}) instead of PlatformError")


# --------------------------------------------------------------------------- 5. sequences / aliasing
def section_sequences():
    p = Platform.parse("manylinux_2_17_x86_64")
    before = list(p.compatible_tags)
    env = EnvSpec.from_spec(">=3.9", "manylinux_2_17_x86_64")
    for t in before + ["any"] * 3:
        env.compatibility(["py3"], ["none"], [t, "any"])
    cases["sequence"] += 1
    assert list(env.platform.compatible_tags) == before, "cache mutated by evaluation"
    # multi-tag wheels: best tag wins regardless of position
    import random

    rnd = random.Random(9)
    for p in rnd.sample(list(all_platforms()), 120):
        tags = list(p.compatible_tags) + ["any", "bogus"]
        sc = scores(p, tags)
        env = EnvSpec(parse_version_specifier(">=3.8"), p, None)
        for _ in range(30):
            cases["multi-tag"] += 1
            sub = rnd.sample(tags, rnd.randint(1, min(4, len(tags))))
            got = env.compatibility(["py3"], ["none"], sub)
            want = max((sc[t] for t in sub if sc[t] is not None), default=None)
            assert (got is None and want is None) or got[3] == want, (p, sub, got, want)
            name = f"x-1-py3-none-{'.'.join(sub)}.whl"
            assert env.wheel_compatibility(name) == got


if __name__ == "__main__":
    section_exhaustive()
    section_concrete()
    section_current()
    section_parse()
    section_sequences()
    print(f"packaging {packaging.__version__}; cases run: {dict(cases)} (total {sum(cases.values())})")
    for f in findings:
        print(f)
    if not findings:
        print("no divergence found")
