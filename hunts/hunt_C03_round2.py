"""Hunt round 3 for C03 (marker evaluation agrees with packaging) on the UNMODIFIED tree.

No truth-value disagreement was found for marker texts over the well-defined atom
classes with ordinary string / set / frozenset environments (see the report for the
areas and case counts).  The only deviations found sit on the fringe of the quantifier
(unusual-but-legal environment value types, degenerate atoms); they are printed below
with the library's answer and packaging's answer side by side.

Run: cd /tmp/wt/C03i && PYTHONPATH=/tmp/wt/C03i/src /venv/bin/python hunt_C03.py
"""
from packaging.markers import Marker, default_environment

from dep_logic.markers import parse_marker


def both(text, env, context="metadata"):
    full = dict(default_environment())
    full.update(env)
    out = []
    for impl in (parse_marker(text), Marker(text)):
        try:
            out.append(repr(impl.evaluate(dict(full), context=context)))
        except Exception as exc:  # noqa: BLE001
            out.append(f"raises {type(exc).__name__}: {exc}")
    return out


def show(title, text, env, context):
    lib, pkg = both(text, env, context)
    flag = "DIFFERS" if lib != pkg else "agrees"
    print(f"[{flag}] {title}\n    marker   : {text}\n    env      : {env!r} (context={context})\n"
          f"    dep_logic: {lib}\n    packaging: {pkg}\n")


print("== F1 (new, minor): set-valued extras / dependency_groups given as a collections.abc.Set "
      "that is not set/frozenset (packaging's Environment type is AbstractSet[str]) ==")
show("dict keys view as extras", '"a" in extras', {"extras": {"a": 1, "b": 2}.keys()}, "lock_file")
show("dict keys view as dependency_groups", '"dev" not in dependency_groups',
     {"dependency_groups": {"test": None}.keys()}, "lock_file")
show("control: frozenset", '"a" in extras', {"extras": frozenset({"A"})}, "lock_file")

print("== F2 (fringe: degenerate ==/!= atoms on extras/dependency_groups with a STRING value; "
      "PEP 685 normalisation is lost once two such atoms merge into an Equality/Inequality union) ==")
show("single atom normalises", '"a" == dependency_groups', {"dependency_groups": "A"}, "lock_file")
show("two atoms merged into EqualityMarkerUnion do not",
     '"a" == dependency_groups or "b" == dependency_groups', {"dependency_groups": "A"}, "lock_file")
show("two atoms merged into InequalityMultiMarker do not",
     '"a" != extras and "b" != extras', {"extras": "A"}, "lock_file")

print("== F3 (fringe: environment lacks a key; and/or short-circuit hides packaging's "
      "UndefinedEnvironmentName) ==")
show("extras atom in metadata context", 'python_version == "2.0" and "x" in extras', {}, "metadata")
show("extra atom in requirement context", 'os_name == "no-such-os" and extra == "x"', {}, "requirement")
