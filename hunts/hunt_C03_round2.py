"""C03 hunt: inputs on which the UNMODIFIED library disagrees with packaging's Marker.evaluate.

Run: cd /tmp/wt/C03g && PYTHONPATH=/tmp/wt/C03g/src /venv/bin/python hunt_C03.py

Only findings outside the nine known families are listed. Each line shows the marker, the
environment / context, what dep_logic returns and what packaging (the oracle) returns.
"""
from packaging.markers import Marker

from dep_logic.markers import parse_marker

BASE = {"python_version": "3.9", "python_full_version": "3.9.1"}


def run(text, env, context="metadata"):
    def call(f):
        try:
            return repr(f())
        except BaseException as e:  # noqa: BLE001
            return f"raises {type(e).__name__}: {str(e)[:70]}"

    lib = call(lambda: parse_marker(text).evaluate(dict(env), context))
    ref = call(lambda: Marker(text).evaluate(dict(env), context))
    flag = "VIOLATION" if lib != ref else "agree    "
    print(f"  {flag} {text!r} env={env} ctx={context}\n      dep_logic: {lib}\n      packaging: {ref}")
    return lib != ref


n = 0
print("N1. `extra` with any operator other than == / != hits `assert self.op in ('==', '!=')`")
print("    (AssertionError instead of a truth value; under `python -O` the assert vanishes and")
print("    every such atom is evaluated as `!=`).")
for t, e in [
    ('extra in "foo,bar"', {"extra": "foo"}),
    ('extra not in "foo,bar"', {"extra": "foo"}),
    ('"test" in extra', {"extra": "tests"}),
    ('"test" not in extra', {"extra": "docs"}),
    ('os_name == "posix" and extra in "foo bar"', {"extra": "bar", "os_name": "posix"}),
]:
    n += run(t, {**BASE, **e})

print("N2. set-valued extras / dependency_groups given as anything but a builtin `set`")
print("    (packaging documents AbstractSet and itself uses frozenset() as the lock_file default):")
print("    `isinstance(rhs, set)` is False, so normalize_name() is applied to the container -> TypeError.")
for t, e in [
    ('"foo" in extras', {"extras": frozenset({"Foo"})}),
    ('"foo" not in dependency_groups', {"dependency_groups": frozenset({"bar"})}),
    ('"foo" in extras or os_name == "nt"', {"extras": {"foo": 1}.keys(), "os_name": "nt"}),
]:
    n += run(t, {**BASE, **e}, "lock_file")

print("N3. ordering operator with a literal on the left of a set-valued variable: TypeError")
print("    (str < set) where packaging answers False (relative of known family 7, but a crash).")
for t in ['"foo" < extras', '"foo" >= dependency_groups']:
    n += run(t, {**BASE, "extras": {"foo"}, "dependency_groups": {"foo"}}, "lock_file")

print("N4. ordering operator on a VERSION variable whose literal is not a PEP 440 version:")
print("    Specifier() is invalid, the fallback compares strings lexicographically, packaging's")
print("    fallback table answers `==` for <=/>= and False for </> (same table as family 7, but the")
print("    variable is python_version / platform_release, not a plain string variable).")
for t, e in [
    ('platform_release >= "5.10.0-generic"', {"platform_release": "5.10.1"}),
    ('platform_release > "3.9_0"', {"platform_release": "4.0.0"}),
    ('python_version >= "3.8.*"', {}),
    ('python_full_version < "3.x"', {}),
]:
    n += run(t, {**BASE, **e})

print("N5. python_version / python_full_version atoms are merged as if the two variables were")
print("    consistent; an environment that overrides only one of them (the other then comes from")
print("    the running interpreter) or sets them inconsistently is evaluated differently.")
for t, e in [
    ('python_version >= "3.8" or python_full_version >= "3.8.0"', {"python_version": "2.7"}),
    ('python_version >= "3.8" and python_full_version >= "3.8.0"', {"python_version": "3.9", "python_full_version": "3.7.0"}),
]:
    n += run(t, e)

print("N6. wrong exception type / wrong moment (both sides fail, listed for completeness):")
for t, e, c in [
    ('extras == "foo"', {"extras": {"foo"}}, "lock_file"),  # AssertionError vs UndefinedComparison
    ('os_name ~= "a" and os_name == "b"', {}, "metadata"),  # dep_logic InvalidSpecifier at PARSE time
]:
    run(t, {**BASE, **e}, c)

print(f"\n{n} violating evaluations shown (N1-N5)")
