"""Hunt script for property C03 (marker evaluation agrees with packaging).

Run as:  cd /tmp/wt/C03j && PYTHONPATH=/tmp/wt/C03j/src /venv/bin/python hunt_C03.py

Prints every NEW violation found on the unmodified library: the marker text, the
environment, what dep_logic returns and what packaging (the oracle) returns.

V1  The `reversed` flag is forgotten by EqualityMarkerUnion / InequalityMultiMarker.
    `"a" == extras` / `"a" != extras` (literal on the left, set-valued variable) are
    legal for packaging: a string never equals a set, so they evaluate to False / True.
    dep_logic agrees on the single atom, but as soon as two such atoms are merged into
    an EqualityMarkerUnion / InequalityMultiMarker and that object is reduced back to
    one value (`replace()`), the atom is rebuilt as the FORWARD atom `extras == "a"`,
    whose evaluation asserts that the variable is a string: AssertionError (TypeError
    under `python -O`) where packaging returns a truth value.

V2  (marginal: an atom with a variable on BOTH sides is hardly "well-defined")
    `extra == os_name`: packaging compares the (normalised) extra with the raw text
    "os_name" and never normalises that text, dep_logic normalises it to "os-name".
"""

from __future__ import annotations

from packaging.markers import Marker, default_environment

from dep_logic.markers import parse_marker

BASE = default_environment()
BASE.update(python_version="3.9", python_full_version="3.9.1")


def run(text: str, env: dict, **kw) -> bool:
    e = dict(BASE)
    e.update(env)
    try:
        expected = Marker(text).evaluate(e, **kw)
    except Exception as exc:  # pragma: no cover
        expected = f"raises {type(exc).__name__}: {exc}"
    try:
        parsed = parse_marker(text)
        got = parsed.evaluate(e, **kw)
    except Exception as exc:
        got = f"raises {type(exc).__name__}: {exc}"
        parsed = parse_marker(text)
    if got != expected:
        print(f"VIOLATION  marker : {text}")
        print(f"           env    : {env} {kw}")
        print(f"           parsed : {parsed!r}")
        print(f"           dep_logic -> {got}")
        print(f"           packaging -> {expected}")
        return True
    return False


def main() -> None:
    found = 0
    lock = {"context": "lock_file"}
    print("== V1: literal-on-the-left ==/!= on a set-valued variable loses its operand order")
    cases = [
        # sanity: the single atoms agree
        ('"a" == extras', {"extras": {"a"}}),
        ('"a" != extras', {"extras": {"a"}}),
        # merged and reduced back to one value
        ('("a" == extras or "b" == extras) and "b" != extras', {"extras": {"a"}}),
        ('("a" != extras and "b" != extras) or "a" == extras', {"extras": {"a"}}),
        ('("a" == extras or "b" == extras) and "a" in extras', {"extras": {"a"}}),
        ('"c" != extras and ("a--b" != extras or "A-B" in extras)', {"extras": frozenset({"a"})}),
        (
            '("dev" != dependency_groups and "b" != dependency_groups) or "b" == dependency_groups',
            {"dependency_groups": {"dev"}},
        ),
    ]
    for text, env in cases:
        found += run(text, env, **lock)

    print("== V2 (marginal): variable on both sides of `extra`")
    found += run("extra == os_name", {"extra": "os.name"})
    found += run("extra != python_version", {"extra": "python_version"})

    print(f"{found} violating inputs printed")


if __name__ == "__main__":
    main()
