import DepLogic.Model.Codec
import DepLogic.Model.Tags
import DepLogic.Model.MarkerCodec
import DepLogic.Model.MarkerText
/-
  Line-protocol interpreter over the executable model.
  One operation per input line (TAB separated), one answer line per operation.
  `lake env lean --run Driver.lean < ops.txt`
-/
open DepLogic DepLogic.Codec DepLogic.SpecParse DepLogic.MarkerCodec

def bad : String := "bad-op"

def showB (b : Bool) : String := if b then "T" else "F"

def withSpec (s : String) (k : Spec Ver → String) : String :=
  match parseSpec s with | some x => k x | none => bad

def withGSpec (op v : String) (k : GSpec → String) : String :=
  match GOp.ofString? op with | some o => k ⟨o, v⟩ | none => bad

def parseImpl : String → Option (Option Impl)
  | "-" => some none
  | "cpython" => some (some ⟨.cpython, false⟩)
  | "cpython+nogil" => some (some ⟨.cpython, true⟩)
  | "pypy" => some (some ⟨.pypy, false⟩)
  | "pyston" => some (some ⟨.pyston, false⟩)
  | _ => none

def parsePlatOpt (s : String) : Option (Option Platform) :=
  if s == "-" then some none
  else match parsePlatform s with | .ok p => some (some p) | .error _ => none

def withEnv (rp pl im : String) (k : EnvSpec → String) : String :=
  match parseSpec rp, parsePlatOpt pl, parseImpl im with
  | some r, some p, some i => k { requiresPython := r, platform := p, impl := i }
  | _, _, _ => bad

def showScore (x : Nat × Nat × Nat) : String := s!"{x.1},{x.2.1},{x.2.2}"

def dotList (s : String) : List String := if s.isEmpty then [] else s.splitOn "."

def showChars (l : List (List Char)) : String := ".".intercalate (l.map String.ofList)

def fuelA : Nat := 60
def fuelB : Nat := 100

def withExpr (e : String) (k : Expr → String) : String :=
  match parseExpr (e.splitOn " ") with
  | some (x, []) => k x
  | _ => bad

def handle (fields : List String) : String :=
  match fields with
  -- string specifiers (C19)
  | ["g.and", o1, v1, o2, v2] =>
    withGSpec o1 v1 fun a => withGSpec o2 v2 fun b =>
      match a.and b with | none => "NI" | some r => showGRes r
  | ["g.or", o1, v1, o2, v2] =>
    withGSpec o1 v1 fun a => withGSpec o2 v2 fun b =>
      match a.or b with | none => "NI" | some r => showGRes r
  | ["g.inv", o1, v1] => withGSpec o1 v1 fun a => showGRes (.spec a.invert)
  | ["g.in", o1, v1, c] => withGSpec o1 v1 fun a => showB (a.contains c)
  | ["g.rin", "E", c] => showB (GRes.empty.contains c)
  | ["g.rin", "A", c] => showB (GRes.any.contains c)
  -- version specifiers (C01, C05, C13, C14)
  | ["s.and", a, b] => withSpec a fun x => withSpec b fun y => showSpec (x.and y)
  | ["s.or", a, b] => withSpec a fun x => withSpec b fun y =>
      match x.or y with | some r => showSpec r | none => "crash"
  | ["s.inv", a] => withSpec a fun x => showSpec x.invert
  | ["s.eq", a, b] => withSpec a fun x => withSpec b fun y => showB (x.beq y)
  | ["s.isempty", a] => withSpec a fun x => showB x.isEmpty
  | ["s.isany", a] => withSpec a fun x => showB x.isAny
  | ["s.canon", a] => withSpec a fun x => showB (decide x.Canon)
  | ["s.mem", a, v] => withSpec a fun x =>
      match parseVer v with | some w => showB (decide (x.mem w)) | none => bad
  -- text layer (C06, C04, C17)
  | ["t.parse", txt] =>
      match parseAltsText txt with
      | none => "undecodable"
      | some alts => match parseAlts alts with | some r => showSpec r | none => "crash"
  | ["t.str", a] => withSpec a fun x => showSText x.str
  | ["t.simple", a] => withSpec a fun x => showB x.isSimple
  | ["t.contains", a, v] => withSpec a fun x =>
      match parseVer v with
      | some w => (match x.containsFinal w with | some b => showB b | none => "invalid")
      | none => bad
  | ["t.match", c, v] =>
      match parseClauseL c.toList, parseVer v with
      | some cl, some w => match Pep440.matchesFinal cl w with | some b => showB b | none => "invalid"
      | _, _ => bad
  -- tags (C08, C09, C16, C18)
  | ["p.parse", t] =>
      match parsePlatform t with
      | .ok p => "ok\t" ++ p.str
      | .error .valueError => "raise:ValueError"
      | .error .typeError => "raise:TypeError"
      | .error .platformError => "raise:PlatformError"
  | ["p.tags", t] =>
      match parsePlatform t with
      | .ok p => (match compatibleTags p with
          | some l => ",".intercalate (l.map PTag.str)
          | none => "raise:PlatformError")
      | .error .valueError => "raise:ValueError"
      | .error .typeError => "raise:TypeError"
      | .error .platformError => "raise:PlatformError"
  | ["w.parse", f] =>
      match parseWheelTags f.toList with
      | .ok (a, b, c) => "ok\t" ++ showChars a ++ "\t" ++ showChars b ++ "\t" ++ showChars c
      | .error .badExtension => "raise:InvalidWheelFilename:ext"
      | .error .badPartCount => "raise:InvalidWheelFilename:parts"
  | ["e.evalpy", rp, im, py, abi] => withEnv rp "-" im fun e =>
      match evaluatePython e py abi with | none => "none" | some x => showScore x
  | ["e.compat", rp, pl, im, py, abi, plat] => withEnv rp pl im fun e =>
      match compatibility e (dotList py) (dotList abi) (dotList plat) with
      | .error => "raise:PlatformError"
      | .none => "none"
      | .score x p => showScore x ++ "," ++ toString p
  | ["e.compare", rp1, pl1, im1, rp2, pl2, im2] =>
      withEnv rp1 pl1 im1 fun a => withEnv rp2 pl2 im2 fun b =>
        match compare a b with
        | .incompatible => "INCOMPATIBLE" | .lowerOrEqual => "LOWER_OR_EQUAL" | .higher => "HIGHER"
  -- marker literals (C07): what `_quote` writes, what packaging reads
  | ["q.quote", v] => enc (M.quoteS (dec v))
  | ["q.read", t] =>
      match Quote.readLiteral (dec t).toList with
      | some (v, rest) => "ok\t" ++ enc (String.ofList v) ++ "\t" ++ enc (String.ofList rest)
      | none => "none"
  | ["q.marker", t] =>
      match MText.readFullMarker (dec t).toList with
      | some its => "ok\t" ++ showItem (.group its)
      | none => "none"
  | ["q.atom", t] =>
      match MText.readAtom (dec t).toList with
      | some (it, rest) => "ok\t" ++ showItem it ++ "\t" ++ enc (String.ofList rest)
      | none => "none"
  -- markers (C02, C03, C07, C10, C11, C12, C13, C14, C15)
  | ["m.expr", e] => withExpr e fun x =>
      match x.run fuelA, x.run fuelB with
      | some a, some b =>
        let sa := showM a
        if sa != showM b then "out-of-fuel" else sa ++ "\t" ++ a.str
      | _, _ => "unmodelled"
  | ["m.tokens", e] => withExpr e fun x =>
      match x.run fuelB with
      | some a => showItem (.group (M.items a))
      | none => "unmodelled"
  | ["m.eval", e, env] => withExpr e fun x =>
      match x.run fuelB with
      | some a =>
        (match a.eval (parseEnv env) with | some true => "T" | some false => "F" | none => "raise")
      | none => "unmodelled"
  | ["m.eq", e1, e2] => withExpr e1 fun x => withExpr e2 fun y =>
      match x.run fuelB, y.run fuelB with
      | some a, some b => showB (M.beq a b)
      | _, _ => "unmodelled"
  | ["m.spec", name, op, value, rev] =>
      match MOp.ofString? (dec op) with
      | none => bad
      | some o =>
        match getSpecifier (dec name) o (dec value) (rev == "t") with
        | some (.ver s) => showSpec s
        | some (.gen g) => "G\t" ++ g.op.str ++ "\t" ++ g.value
        | none => "unmodelled"
  | ["m.fromspec", name, sp] => withSpec sp fun s =>
      match M.fromSpecifier (dec name) (.ver s) with
      | none => "None"
      | some m => showM m ++ "\t" ++ m.str
  | ["v.le", a, b] =>
      match parseVer a, parseVer b with
      | some x, some y => showB (decide (LinPre.le x y))
      | _, _ => bad
  | ["v.str", a] => match parseVer a with | some x => x.str | none => bad
  | _ => bad

partial def loop (h : IO.FS.Stream) (out : IO.FS.Stream) : IO Unit := do
  let line ← h.getLine
  if line.isEmpty then return ()
  let l := if line.endsWith "\n" then (line.dropEnd 1).toString else line
  out.putStrLn (handle (l.splitOn "\t"))
  loop h out

def main : IO Unit := do
  let out ← IO.getStdout
  loop (← IO.getStdin) out
  out.flush
