import DepLogic.Model.Codec
/-
  Line-protocol interpreter over the executable model.
  One operation per input line (TAB separated), one answer line per operation.
  `lake env lean --run Driver.lean < ops.txt`
-/
open DepLogic DepLogic.Codec

def bad : String := "bad-op"

def showB (b : Bool) : String := if b then "T" else "F"

def withSpec (s : String) (k : Spec Ver → String) : String :=
  match parseSpec s with | some x => k x | none => bad

def withGSpec (op v : String) (k : GSpec → String) : String :=
  match GOp.ofString? op with | some o => k ⟨o, v⟩ | none => bad

def handle (fields : List String) : String :=
  match fields with
  -- string specifiers (C19)
  | ["g.and", o1, v1, o2, v2] =>
    withGSpec o1 v1 fun a => withGSpec o2 v2 fun b =>
      match a.and b with | none => "NI" | some r => showGRes r
  | ["g.or", o1, v1, o2, v2] =>
    withGSpec o1 v1 fun a => withGSpec o2 v2 fun b =>
      match a.or b with | none => "NI" | some r => showGRes r
  | ["g.inv", o1, v1] => withGSpec o1 v1 fun a => showGRes (.spec a.invert)
  | ["g.in", o1, v1, c] => withGSpec o1 v1 fun a => showB (a.contains c)
  | ["g.rin", "E", c] => showB (GRes.empty.contains c)
  | ["g.rin", "A", c] => showB (GRes.any.contains c)
  -- version specifiers (C01, C05, C13, C14)
  | ["s.and", a, b] => withSpec a fun x => withSpec b fun y => showSpec (x.and y)
  | ["s.or", a, b] => withSpec a fun x => withSpec b fun y =>
      match x.or y with | some r => showSpec r | none => "crash"
  | ["s.inv", a] => withSpec a fun x => showSpec x.invert
  | ["s.eq", a, b] => withSpec a fun x => withSpec b fun y => showB (x.beq y)
  | ["s.isempty", a] => withSpec a fun x => showB x.isEmpty
  | ["s.isany", a] => withSpec a fun x => showB x.isAny
  | ["s.canon", a] => withSpec a fun x => showB (decide x.Canon)
  | ["s.mem", a, v] => withSpec a fun x =>
      match parseVer v with | some w => showB (decide (x.mem w)) | none => bad
  -- text layer (C06, C04, C17)
  | ["t.parse", txt] =>
      match parseAltsText txt with
      | none => "undecodable"
      | some alts => match parseAlts alts with | some r => showSpec r | none => "crash"
  | ["t.str", a] => withSpec a fun x => showSText x.str
  | ["t.simple", a] => withSpec a fun x => showB x.isSimple
  | ["t.contains", a, v] => withSpec a fun x =>
      match parseVer v with
      | some w => (match x.containsFinal w with | some b => showB b | none => "invalid")
      | none => bad
  | ["t.match", c, v] =>
      match parseClauseL c.toList, parseVer v with
      | some cl, some w => match Pep440.matchesFinal cl w with | some b => showB b | none => "invalid"
      | _, _ => bad
  | ["v.le", a, b] =>
      match parseVer a, parseVer b with
      | some x, some y => showB (decide (LinPre.le x y))
      | _, _ => bad
  | ["v.str", a] => match parseVer a with | some x => x.str | none => bad
  | _ => bad

partial def loop (h : IO.FS.Stream) (out : IO.FS.Stream) : IO Unit := do
  let line ← h.getLine
  if line.isEmpty then return ()
  let l := if line.endsWith "\n" then (line.dropEnd 1).toString else line
  out.putStrLn (handle (l.splitOn "\t"))
  loop h out

def main : IO Unit := do
  let out ← IO.getStdout
  loop (← IO.getStdin) out
  out.flush
