import DepLogic.Model.Tags
/-
  C18 — wheel file names and platform names are parsed faithfully.
  Character level for wheel names; the platform alias table and round trip for the
  documented families.
-/
namespace DepLogic
namespace C18

theorem splitC_noc (c : Char) : ∀ (l : List Char), c ∉ l → splitC c l = [l] := by
  intro l
  induction l with
  | nil => intro _; rfl
  | cons x xs ih =>
    intro h
    simp only [List.mem_cons, not_or] at h
    have hx : (x == c) = false := by simp; exact fun e => h.1 e.symm
    simp [splitC, hx, ih h.2]

theorem splitC_append (c : Char) : ∀ (a rest : List Char), c ∉ a →
    splitC c (a ++ c :: rest) = a :: splitC c rest := by
  intro a
  induction a with
  | nil => intro rest _; simp [splitC]
  | cons x xs ih =>
    intro rest h
    simp only [List.mem_cons, not_or] at h
    have hx : (x == c) = false := by simp; exact fun e => h.1 e.symm
    simp [splitC, hx, ih rest h.2]

theorem count_noc (c : Char) (l : List Char) (h : c ∉ l) : l.count c = 0 := List.count_eq_zero.2 h

/-- `a-b-c-…` -/
def joinDash : List (List Char) → List Char
  | [] => []
  | [x] => x
  | x :: rest => x ++ '-' :: joinDash rest

theorem splitC_joinDash : ∀ (parts : List (List Char)), parts ≠ [] → (∀ p ∈ parts, '-' ∉ p) →
    splitC '-' (joinDash parts) = parts := by
  intro parts
  induction parts with
  | nil => intro h; exact absurd rfl h
  | cons x rest ih =>
    intro _ h
    cases rest with
    | nil => simpa [joinDash] using splitC_noc '-' x (h x (by simp))
    | cons y ys =>
      simp only [joinDash]
      rw [splitC_append '-' x _ (h x (by simp)), ih (by simp) (fun p hp => h p (by simp [hp]))]

theorem count_joinDash : ∀ (parts : List (List Char)), parts ≠ [] → (∀ p ∈ parts, '-' ∉ p) →
    (joinDash parts).count '-' = parts.length - 1 := by
  intro parts
  induction parts with
  | nil => intro h; exact absurd rfl h
  | cons x rest ih =>
    intro _ h
    cases rest with
    | nil => simpa [joinDash] using count_noc '-' x (h x (by simp))
    | cons y ys =>
      simp only [joinDash, List.count_append, List.count_cons_self]
      rw [count_noc '-' x (h x (by simp)), ih (by simp) (fun p hp => h p (by simp [hp]))]
      simp

/-- a well-formed wheel name (5 or 6 dash-free components + `.whl`) yields exactly the three
    tag sets, compressed sets expanded on `.`, build tag skipped -/
theorem wheel_roundtrip (pre : List (List Char)) (py abi plat : List Char)
    (hlen : pre.length = 2 ∨ pre.length = 3)
    (hpre : ∀ p ∈ pre, '-' ∉ p) (hpy : '-' ∉ py) (habi : '-' ∉ abi) (hplat : '-' ∉ plat) :
    parseWheelTags (joinDash (pre ++ [py, abi, plat]) ++ ".whl".toList) =
      .ok (splitC '.' (py.map Char.toLower), splitC '.' (abi.map Char.toLower), splitC '.' (plat.map Char.toLower)) := by
  have hall : ∀ p ∈ pre ++ [py, abi, plat], '-' ∉ p := by
    intro p hp
    simp only [List.mem_append, List.mem_cons, List.not_mem_nil, or_false] at hp
    rcases hp with hp | rfl | rfl | rfl
    · exact hpre p hp
    · exact hpy
    · exact habi
    · exact hplat
  have hne : pre ++ [py, abi, plat] ≠ [] := by simp
  have hcount := count_joinDash _ hne hall
  have hsplit := splitC_joinDash _ hne hall
  unfold parseWheelTags
  have hl : (joinDash (pre ++ [py, abi, plat]) ++ ".whl".toList).length =
      (joinDash (pre ++ [py, abi, plat])).length + 4 := by simp
  simp only [hl, Nat.add_sub_cancel, List.drop_left', List.take_left', bne_self_eq_false,
    Bool.or_false]
  have h4 : ¬ ((joinDash (pre ++ [py, abi, plat])).length + 4 < 4) := by omega
  simp only [decide_eq_true_eq, h4, if_false, hcount, hsplit]
  rcases hlen with h | h <;> simp [h, List.reverse_append]

/-- wrong extension is rejected -/
theorem bad_extension (name : List Char) (h : name.drop (name.length - 4) ≠ ".whl".toList) :
    parseWheelTags name = .error .badExtension := by
  unfold parseWheelTags
  have h' : (name.drop (name.length - 4) != ".whl".toList) = true := by simpa using h
  simp only [h', Bool.or_true, if_true]

/-- wrong number of `-` separated parts is rejected -/
theorem bad_part_count (body : List Char) (h : body.count '-' ≠ 4 ∧ body.count '-' ≠ 5) :
    parseWheelTags (body ++ ".whl".toList) = .error .badPartCount := by
  unfold parseWheelTags
  have hl : (body ++ ".whl".toList).length = body.length + 4 := by simp
  have h4 : ¬ (body.length + 4 < 4) := by omega
  simp only [hl, Nat.add_sub_cancel, List.drop_left', List.take_left', bne_self_eq_false, Bool.or_false,
    decide_eq_true_eq, h4, if_false]
  simp [h.1, h.2]

/-- the documented aliases -/
theorem aliases :
    parsePlatform "linux" = .ok ⟨.manylinux 2 17, .x86_64⟩ ∧
    parsePlatform "windows" = .ok ⟨.windows, .x86_64⟩ ∧
    parsePlatform "macos" = .ok ⟨.macos 14 0, .aarch64⟩ ∧
    parsePlatform "alpine" = .ok ⟨.musllinux 1 2, .x86_64⟩ ∧
    parsePlatform "macos_arm64" = .ok ⟨.macos 14 0, .aarch64⟩ ∧
    parsePlatform "macos_x86_64" = .ok ⟨.macos 14 0, .x86_64⟩ ∧
    parsePlatform "windows_amd64" = .ok ⟨.windows, .x86_64⟩ ∧
    parsePlatform "windows_x86" = .ok ⟨.windows, .x86⟩ ∧
    parsePlatform "windows_arm64" = .ok ⟨.windows, .aarch64⟩ := by
  refine ⟨?_, ?_, ?_, ?_, ?_, ?_, ?_, ?_, ?_⟩ <;> rfl

example : parseWheelTags "foo-1.0-1-py2.py3-none-any.whl".toList =
    .ok (["py2".toList, "py3".toList], ["none".toList], ["any".toList]) := by rfl

end C18
end DepLogic
