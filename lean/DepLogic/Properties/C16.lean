import DepLogic.Properties.C09
import DepLogic.Properties.C08
/-
  C16 — widening a target never loses wheels; `compare()` is consistent with tag inclusion.
-/
namespace DepLogic
namespace C16
open Spec LinPre

section generic
variable {α : Type} [LinPre α]

theorem Range.and_isNone_comm (s o : Range α) : (s.and o).isNone = (o.and s).isNone := by
  have tot := @LinPre.le_total α _
  have tr := @LinPre.le_trans α _
  have rf := @LinPre.le_refl α _
  rcases s with ⟨smin, smax, si, sa, st⟩
  rcases o with ⟨omin, omax, oi, oa, ot⟩
  cases smin <;> cases smax <;> cases omin <;> cases omax <;>
    simp [Range.and, Range.isSuperset, Range.allowsLower, Range.allowsHigher, Range.isStrictlyLower] <;>
    grind (splits := 80)

theorem andProduct_isEmpty (xs ys : List (Range α)) :
    (andProduct xs ys).isEmpty = true ↔ ∀ a ∈ xs, ∀ b ∈ ys, (a.and b).isNone = true := by
  unfold andProduct
  rw [List.isEmpty_iff]
  constructor
  · intro h a ha b hb
    cases hab : a.and b with
    | none => rfl
    | some r =>
      have : r ∈ xs.flatMap fun a => ys.filterMap fun b => a.and b :=
        List.mem_flatMap.2 ⟨a, ha, List.mem_filterMap.2 ⟨b, hb, hab⟩⟩
      rw [h] at this; simp at this
  · intro h
    apply List.eq_nil_iff_forall_not_mem.2
    intro r hr
    obtain ⟨a, ha, hr⟩ := List.mem_flatMap.1 hr
    obtain ⟨b, hb, hab⟩ := List.mem_filterMap.1 hr
    have := h a ha b hb
    simp [hab] at this

theorem andProduct_isEmpty_comm (xs ys : List (Range α)) :
    (andProduct xs ys).isEmpty = (andProduct ys xs).isEmpty := by
  have key : ∀ (xs ys : List (Range α)), (andProduct xs ys).isEmpty = true → (andProduct ys xs).isEmpty = true := by
    intro xs ys h
    rw [andProduct_isEmpty] at h ⊢
    intro b hb a ha
    rw [Range.and_isNone_comm]
    exact h a ha b hb
  cases h1 : (andProduct xs ys).isEmpty <;> cases h2 : (andProduct ys xs).isEmpty <;> simp
  · have := key ys xs h2; simp [h1] at this
  · have := key xs ys h1; simp [h2] at this

/-- the emptiness test used by `compare` and `_evaluate_python` does not depend on operand order -/
theorem and_isEmpty_comm (a b : Spec α) : (a.and b).isEmpty = (b.and a).isEmpty := by
  cases a with
  | empty => cases b <;> simp [Spec.and, isEmpty]
  | any => cases b <;> simp [Spec.and, isEmpty]
  | range r =>
    cases b with
    | empty => simp [Spec.and, isEmpty]
    | any => simp [Spec.and, isEmpty]
    | range o =>
      have := Range.and_isNone_comm r o
      simp only [Spec.and]
      cases h1 : r.and o <;> cases h2 : o.and r <;> simp [h1, h2, isEmpty] at this ⊢
    | union ys yt => simp only [Spec.and]
  | union xs xt =>
    cases b with
    | empty => simp [Spec.and, isEmpty]
    | any => simp [Spec.and, isEmpty]
    | range o => simp only [Spec.and]
    | union ys yt =>
      simp only [Spec.and, fromRanges_isEmpty]
      exact andProduct_isEmpty_comm xs ys

theorem Range.beq_refl (r : Range α) : r.beq r = true := by
  have rf := @LinPre.le_refl α _
  rcases r with ⟨mn, mx, i, a, t⟩
  cases mn <;> cases mx <;> simp [Range.beq, rf]

theorem Range.beq_symm (r o : Range α) : r.beq o = o.beq r := by
  rcases r with ⟨mn, mx, i, a, t⟩
  rcases o with ⟨mn', mx', i', a', t'⟩
  cases mn <;> cases mx <;> cases mn' <;> cases mx' <;> simp [Range.beq] <;> grind

theorem beq_refl (s : Spec α) : s.beq s = true := by
  cases s with
  | empty => rfl
  | any => rfl
  | range r => exact Range.beq_refl r
  | union rs t =>
    simp only [Spec.beq, beq_self_eq_true, Bool.true_and]
    induction rs with
    | nil => rfl
    | cons r rest ih => simp [List.zip, List.all_cons, Range.beq_refl, ih]

theorem zip_all_symm (xs ys : List (Range α)) :
    ((xs.zip ys).all fun p => p.1.beq p.2) = ((ys.zip xs).all fun p => p.1.beq p.2) := by
  induction xs generalizing ys with
  | nil => cases ys <;> simp
  | cons x xs ih =>
    cases ys with
    | nil => simp
    | cons y ys => simp [List.zip_cons_cons, List.all_cons, Range.beq_symm x y, ih ys]

theorem beq_symm (a b : Spec α) : a.beq b = b.beq a := by
  cases a <;> cases b <;> simp [Spec.beq, isAny, Range.beq_symm]
  rename_i xs _ ys _
  rw [zip_all_symm xs ys]
  congr 1
  by_cases h : xs.length = ys.length
  · rw [h]
  · have h' : ¬ ys.length = xs.length := fun e => h e.symm
    have e1 : (xs.length == ys.length) = false := by simpa using h
    have e2 : (ys.length == xs.length) = false := by simpa using h'
    rw [e1, e2]

/-- widening requires_python never loses a wheel – on a dense version line (for the PEP 440
    order itself gap ranges are a recorded known finding, as for C05) -/
theorem widen_keeps [C05.DenseUnbounded α] (w A B : Spec α) (hw : Canon w) (hA : Canon A) (_hB : Canon B)
    (hsub : ∀ v, A.mem v → B.mem v) (h : (w.and A).isEmpty = false) : (w.and B).isEmpty = false := by
  obtain ⟨v, hv⟩ := C05.canon_nonempty _ (and_canon w A hw hA) h
  have hv' := (Spec.and_mem w A v).1 hv
  cases he : (w.and B).isEmpty with
  | false => rfl
  | true => exact absurd ⟨v, hv'.1, hsub v hv'.2⟩ (C05.isEmpty_sound w B he)

/-- the same for ANY order of bounds (PEP 440 included), over cuts: a requires_python that admits at
    least the same positions keeps every accepted wheel -/
theorem widen_keeps_cuts (a0 : α) (w A B : Spec α) (hw : Canon w) (hA : Canon A) (hB : Canon B)
    (hsub : ∀ x s, A.memC x s → B.memC x s) (h : (w.and A).isEmpty = false) : (w.and B).isEmpty = false := by
  cases he : (w.and B).isEmpty with
  | false => rfl
  | true =>
    exfalso
    have hnone := (C05.isEmpty_exact_cuts a0 _ (and_canon w B hw hB)).1 he
    have : (w.and A).isEmpty = true := by
      apply (C05.isEmpty_exact_cuts a0 _ (and_canon w A hw hA)).2
      intro x s hm
      have := (Spec.and_memC w A x s).1 hm
      exact hnone x s ((Spec.and_memC w B x s).2 ⟨this.1, hsub x s this.2⟩)
    rw [h] at this; cases this

/-- in particular: widening by `|` (the way a requires_python is widened) never loses a wheel -/
theorem widen_or_keeps (a0 : α) (w A C B : Spec α) (hw : Canon w) (hA : Canon A) (hC : Canon C)
    (hor : A.or C = some B) (h : (w.and A).isEmpty = false) : (w.and B).isEmpty = false := by
  obtain ⟨B', hB', cB, mB⟩ := Spec.or_memC A C hA hC
  rw [hor] at hB'; cases hB'
  exact widen_keeps_cuts a0 w A B hw hA cB (fun x s hm => (mB x s).2 (Or.inl hm)) h

end generic

/-! ### `compare` -/

theorem envBeq_refl (a : EnvSpec) : a.beq a = true := by simp [EnvSpec.beq, beq_refl]

theorem envBeq_symm (a b : EnvSpec) : a.beq b = b.beq a := by
  simp only [EnvSpec.beq, beq_symm a.requiresPython b.requiresPython]
  congr 2 <;> simp [eq_comm]

/-- reflexive: a spec compares LOWER_OR_EQUAL with itself -/
theorem compare_refl (a : EnvSpec) : compare a a = .lowerOrEqual := by simp [compare, envBeq_refl]

theorem sameClass_symm (p q : Os) : p.sameClass q = q.sameClass p := by
  cases p <;> cases q <;> first | rfl | (simp only [Os.sameClass]; exact Bool.eq_iff_iff.mpr ⟨fun h => by simpa using (of_decide_eq_true (by simpa using h) : _ = _).symm, fun h => by simpa using (of_decide_eq_true (by simpa using h) : _ = _).symm⟩)

theorem implClash_symm (a b : Option Impl) : implClash a b = implClash b a := by
  cases a <;> cases b <;> simp [implClash]
  rename_i x y
  by_cases h : x = y
  · simp [h]
  · have h' : ¬ y = x := fun e => h e.symm
    simp [h, h']

theorem platCompare_incompatible_symm (p q : Platform) :
    platCompare p q = .incompatible → platCompare q p = .incompatible := by
  unfold platCompare
  rw [sameClass_symm q.os p.os]
  by_cases ha : p.arch = q.arch
  · simp only [ha, bne_self_eq_false, Bool.false_eq_true, if_false]
    by_cases hc : p.os.sameClass q.os = true
    · simp only [hc, Bool.not_true, Bool.false_eq_true, if_false]
      have hno : ∀ x y : Option (Nat × Nat), (x = none ∨ y = none) →
          (match x, y with
            | some (a1, a2), some (b1, b2) => if a1 < b1 || (a1 == b1 && a2 ≤ b2) then EnvCompat.lowerOrEqual else .higher
            | _, _ => if p.os = q.os then .lowerOrEqual else .incompatible) = .incompatible →
          (match y, x with
            | some (a1, a2), some (b1, b2) => if a1 < b1 || (a1 == b1 && a2 ≤ b2) then EnvCompat.lowerOrEqual else .higher
            | _, _ => if q.os = p.os then .lowerOrEqual else .incompatible) = .incompatible := by
        intro x y hxy h
        have hne : ¬ p.os = q.os := by
          intro e
          cases x <;> cases y <;> simp [e] at h hxy
        have hne' : ¬ q.os = p.os := fun e => hne e.symm
        cases x <;> cases y <;> simp [hne'] at hxy ⊢
      cases hm : p.os.majorMinor? <;> cases hn : q.os.majorMinor? <;> intro h
      · exact hno none none (Or.inl rfl) h
      · rename_i v; exact hno none (some v) (Or.inl rfl) h
      · rename_i v; exact hno (some v) none (Or.inr rfl) h
      · simp only at h
        split at h <;> cases h
    · simp [hc]
  · have ha' : ¬ q.arch = p.arch := fun e => ha e.symm
    simp [ha, ha']

/-- symmetric on INCOMPATIBLE -/
theorem compare_incompatible_symm (a b : EnvSpec) :
    compare a b = .incompatible ↔ compare b a = .incompatible := by
  have key : ∀ a b : EnvSpec, compare a b = .incompatible → compare b a = .incompatible := by
    intro a b h
    unfold compare at h ⊢
    rw [envBeq_symm b a, and_isEmpty_comm b.requiresPython a.requiresPython, implClash_symm b.impl a.impl]
    by_cases h1 : a.beq b = true
    · simp [h1] at h
    · simp only [h1, Bool.false_eq_true, if_false] at h ⊢
      by_cases h2 : (a.requiresPython.and b.requiresPython).isEmpty = true
      · simp [h2]
      · simp only [h2, Bool.false_eq_true, if_false] at h ⊢
        by_cases h3 : implClash a.impl b.impl = true
        · simp [h3]
        · simp only [h3, Bool.false_eq_true, if_false] at h ⊢
          cases hp : a.platform <;> cases hq : b.platform <;> simp [hp, hq] at h ⊢
          exact platCompare_incompatible_symm _ _ h
  exact ⟨key a b, key b a⟩

/-- never HIGHER in both directions -/
theorem compare_not_higher_both (a b : EnvSpec) : ¬ (compare a b = .higher ∧ compare b a = .higher) := by
  rintro ⟨h1, h2⟩
  unfold compare at h1 h2
  rw [envBeq_symm b a, and_isEmpty_comm b.requiresPython a.requiresPython, implClash_symm b.impl a.impl] at h2
  by_cases hb : a.beq b = true
  · simp [hb] at h1
  · simp only [hb, Bool.false_eq_true, if_false] at h1 h2
    by_cases he : (a.requiresPython.and b.requiresPython).isEmpty = true
    · simp [he] at h1
    · simp only [he, Bool.false_eq_true, if_false] at h1 h2
      by_cases hi : implClash a.impl b.impl = true
      · simp [hi] at h1
      · simp only [hi, Bool.false_eq_true, if_false] at h1 h2
        cases hp : a.platform <;> cases hq : b.platform <;> simp [hp, hq] at h1 h2
        rename_i p q
        unfold platCompare at h1 h2
        rw [sameClass_symm q.os p.os] at h2
        by_cases ha : p.arch = q.arch
        · simp only [ha, bne_self_eq_false, Bool.false_eq_true, if_false] at h1 h2
          by_cases hc : p.os.sameClass q.os = true
          · simp only [hc, Bool.not_true, Bool.false_eq_true, if_false] at h1 h2
            cases hm : p.os.majorMinor? <;> cases hn : q.os.majorMinor? <;> rw [hm, hn] at h1 h2
            · simp only at h1; split at h1 <;> cases h1
            · simp only at h1; split at h1 <;> cases h1
            · simp only at h1; split at h1 <;> cases h1
            · rename_i x y
              obtain ⟨a1, a2⟩ := x
              obtain ⟨b1, b2⟩ := y
              simp only at h1 h2
              split at h1
              · cases h1
              · split at h2
                · cases h2
                · rename_i g1 g2
                  simp at g1 g2
                  omega
          · simp [hc] at h1
        · simp [ha] at h1

/-- whenever `compare` answers LOWER_OR_EQUAL for two manylinux targets of the same architecture,
    every tag of the first is a tag of the second (the nestedness claim, manylinux family) -/
theorem manylinux_nested (major m1 m2 : Nat) (arch : Arch) (f : Nat) (hf : arch.minManylinuxMinor = some f)
    (h1 : f ≤ m1 + 1) (h12 : m1 ≤ m2) (l1 l2 : List PTag)
    (e1 : compatibleTags ⟨.manylinux major m1, arch⟩ = some l1)
    (e2 : compatibleTags ⟨.manylinux major m2, arch⟩ = some l2) : ∀ t ∈ l1, t ∈ l2 := by
  intro t ht
  obtain ⟨l1', e1', hm1⟩ := C09.manylinux_tags major m1 arch f hf h1 t
  obtain ⟨l2', e2', hm2⟩ := C09.manylinux_tags major m2 arch f hf (by omega) t
  rw [e1] at e1'; cases e1'
  rw [e2] at e2'; cases e2'
  rcases hm1.1 ht with h | ⟨K, hK1, hK2, hK3⟩
  · exact hm2.2 (Or.inl h)
  · exact hm2.2 (Or.inr ⟨K, hK1, by omega, hK3⟩)

end C16
end DepLogic
