import DepLogic.Proofs.TextInv
/-
  C04, the `contains()` path — `RangeSpecifier.contains` / `UnionSpecifier.contains` render the
  object and ask packaging (`SpecifierSet(str(self)).contains(v)`).  For every nice object
  (canonical, cached texts right, plain final bounds — what the operators build from parsed
  leaves) and every final release `v`, that answer is exactly the structural membership:
  `contains_exact`.  It combines C06's round trip (the rendered clauses re-parse to an `==`
  object) with C04's leaf theorem (a clause matches `v` iff `v` is inside the bounds built from it).
  Without niceness this is false: known finding D4a is a `contains()` that disagrees with `in`.
-/
namespace DepLogic
namespace C04
open LinPre Spec C06

/-- a clause the parser accepts has a PEP 440 meaning on every final candidate -/
theorem matches_some (c : Clause Ver) (s : Spec Ver) (h : fromClause c = some s) (v : Ver) :
    ∃ b, Pep440.matchesFinal c v = some b := by
  rcases c with ⟨op, w, wild⟩
  cases op <;> cases wild <;> first | exact ⟨_, rfl⟩ | skip
  all_goals
    simp only [fromClause, Option.map_eq_some_iff, Ver.nextSeries] at h
    obtain ⟨mx, hmx, _⟩ := h
    have hlen : ¬ w.release.length < 2 := by
      intro hl
      have : w.release.length - 1 = 0 := by omega
      simp [this] at hmx
    simp only [Pep440.matchesFinal, hlen, if_false]
    exact ⟨_, rfl⟩

/-- a comma list of clauses: all match iff the version is in the parsed set -/
theorem allMatch_fss (v : Ver) (hv : v.isFinal = true) : ∀ (cs : List (Clause Ver)) (acc : Spec Ver) (ab : Bool),
    (ab = true ↔ acc.mem v) → ∀ s,
    cs.foldl (fun acc c => acc.bind fun a => (fromClause c).map fun s => a.and s) (some acc) = some s →
    ∃ b, cs.foldl (fun acc c => acc.bind fun a => (Pep440.matchesFinal c v).map fun b => a && b) (some ab) = some b ∧
      (b = true ↔ s.mem v)
  | [], acc, ab, hab, s, h => by
    simp only [List.foldl_nil, Option.some.injEq] at h; subst h
    exact ⟨ab, rfl, hab⟩
  | c :: rest, acc, ab, hab, s, h => by
    simp only [List.foldl_cons, Option.bind_some] at h ⊢
    cases hfc : fromClause c with
    | none =>
      rw [hfc] at h
      simp only [Option.map_none] at h
      have : ∀ l : List (Clause Ver), l.foldl (fun (acc : Option (Spec Ver)) c => acc.bind fun a => (fromClause c).map fun s => a.and s) none = none := by
        intro l; induction l with
        | nil => rfl
        | cons _ _ ih => simpa using ih
      rw [this] at h; cases h
    | some sc =>
      rw [hfc] at h
      simp only [Option.map_some] at h
      obtain ⟨bc, hbc⟩ := matches_some c sc hfc v
      rw [hbc]
      simp only [Option.map_some]
      have hleaf := leaf_exact c v hv sc bc hfc hbc
      exact allMatch_fss v hv rest (acc.and sc) (ab && bc)
        (by rw [Bool.and_eq_true, Spec.and_mem, hab, hleaf]) s h

theorem any_mem (v : Ver) : (Spec.range ({} : Range Ver)).mem v := by simp [Spec.mem, Range.mem]

/-- `RangeSpecifier.contains(v)` is membership, for a range that round-trips -/
theorem range_contains_exact (r : Range Ver) (v : Ver) (hv : v.isFinal = true)
    (hrt : RoundTrips (.range r)) : r.containsFinal v = some (decide (r.mem v)) := by
  obtain ⟨s', hparse, hb, _⟩ := hrt
  simp only [Spec.str, parse_one_alt] at hparse
  unfold fromSpecifierSet at hparse
  obtain ⟨b, hb1, hb2⟩ := allMatch_fss v hv r.strClauses (.range {}) true (by simp [any_mem]) s' hparse
  unfold Range.containsFinal Pep440.allMatch
  rw [hb1]
  congr 1
  rw [Bool.eq_iff_iff, hb2, decide_eq_true_iff]
  exact C05.eq_sound s' (.range r) hb v

theorem fold_or_contains (v : Ver) : ∀ (rs : List (Range Ver)) (acc : Bool),
    (∀ r ∈ rs, r.containsFinal v = some (decide (r.mem v))) →
    rs.foldl (fun acc r => acc.bind fun a => (r.containsFinal v).map fun b => a || b) (some acc) =
      some (acc || decide (∃ r ∈ rs, r.mem v))
  | [], acc, _ => by simp
  | r :: rest, acc, h => by
    simp only [List.foldl_cons, Option.bind_some, h r (by simp), Option.map_some]
    rw [fold_or_contains v rest _ (fun x hx => h x (by simp [hx]))]
    congr 1
    rw [Bool.eq_iff_iff]
    simp only [Bool.or_eq_true, decide_eq_true_iff, List.mem_cons, exists_eq_or_imp]
    exact or_assoc

/-- **`result.contains(v)` is `v in result`** for every nice object and every final release -/
theorem contains_exact (s : Spec Ver) (hn : Nice s) (v : Ver) (hv : v.isFinal = true) :
    s.containsFinal v = some (decide (s.mem v)) := by
  cases s with
  | empty => simp [Spec.containsFinal, Spec.mem]; rfl
  | any => simp [Spec.containsFinal, Spec.mem]; rfl
  | range r =>
    exact range_contains_exact r v hv (nice_roundtrips _ hn)
  | union rs t =>
    have hr : ∀ r ∈ rs, r.containsFinal v = some (decide (r.mem v)) := by
      intro r hrm
      apply range_contains_exact r v hv
      apply range_roundtrip r (hn.canon.2.1 r hrm) (hn.text.1 r hrm)
      intro _ mn mx _ hmax _
      exact ((boundsIn_union FinalV rs t hn.finalBounds r hrm).2 mx hmax).post
    simp only [Spec.containsFinal, Spec.mem]
    rw [fold_or_contains v rs false hr]
    simp

end C04
end DepLogic
