import DepLogic.Properties.C03
import DepLogic.Properties.C12
/-
  C07 — marker text round trip.

  `str m` is a sequence of atoms, `and`, `or` and parentheses; packaging's parser turns it into
  a nested list and `_build_markers` turns that into a marker again.  `M.items m` is the list
  the text of `m` denotes.  Proved here, for every fuel that covers the nesting depth and every
  environment:

  * `items_sem`      : the reference evaluation of `items m` is the meaning of `m` — i.e. the
                       parenthesisation chosen by `MultiMarker.__str__`/`MarkerUnion.__str__`
                       (and the re-rendering of atoms, grouped `==`/`!=` atoms, literal-on-the-left
                       atoms) denotes the marker it was printed from;
  * `reparse_sound`  : whatever `_build_markers` builds from that list (through all the parse-time
                       merging) means what `m` means;
  * `str_empty_any`  : the empty / universal markers render as `<empty>` / the empty string.

  Hypotheses: atoms of the well-defined classes (as C02), and `Printable m`: no Empty/Any inside a
  compound and no grouped atom without values — part of the normal form (C15), checked on every
  implementation result by the normal-form oracle.
  Outside the model: that packaging reads `str m` as exactly `items m` (character level; compared
  on every run, stream `C07.tokens`), and `parse_marker`'s special cases for `<empty>`, `` and `*`.
-/
namespace DepLogic
namespace C07
open M C03

/-- the empty and universal markers render as `<empty>` and the empty string -/
theorem str_empty_any : str .empty = "<empty>" ∧ str .any = "" := ⟨rfl, rfl⟩

/-! ### reference evaluation of a flat token list -/

/-- `acc` is the conjunction of the current `or`-group so far -/
def go (f : PItem → Bool) : List PItem → Bool → Bool
  | [], acc => acc
  | .or_ :: ts, acc => acc || go f ts true
  | .and_ :: ts, acc => go f ts acc
  | .atom v l o r :: ts, acc => go f ts (acc && f (.atom v l o r))
  | .group its :: ts, acc => go f ts (acc && f (.group its))

theorem fold_go (f : PItem → Bool) : ∀ (ts : List PItem) (g : Bool) (rest : List Bool),
    (ts.foldl (refStep f) (g :: rest)).any id = (go f ts g || rest.any id)
  | [], g, rest => by simp [go]
  | .or_ :: ts, g, rest => by
    simp only [List.foldl_cons, refStep, go]
    rw [fold_go f ts true (g :: rest)]
    simp only [List.any_cons, id]
    cases g <;> cases go f ts true <;> simp
  | .and_ :: ts, g, rest => by
    simp only [List.foldl_cons, refStep, go]
    exact fold_go f ts g rest
  | .atom v l o r :: ts, g, rest => by
    simp only [List.foldl_cons, refStep, go]
    exact fold_go f ts _ rest
  | .group its :: ts, g, rest => by
    simp only [List.foldl_cons, refStep, go]
    exact fold_go f ts _ rest

theorem refSem_group (env : Env) (fuel : Nat) (its : List PItem) :
    refSem env (fuel + 1) (.group its) = go (refSem env fuel) its true := by
  simp only [refSem]
  rw [fold_go]; simp

/-- no top-level `or` -/
def OrFree : List PItem → Prop
  | [] => True
  | .or_ :: _ => False
  | _ :: ts => OrFree ts

theorem go_acc (f : PItem → Bool) : ∀ (ts : List PItem) (acc : Bool), OrFree ts → go f ts acc = (acc && go f ts true)
  | [], acc, _ => by simp [go]
  | .or_ :: ts, acc, h => by simp [OrFree] at h
  | .and_ :: ts, acc, h => by simp only [go]; exact go_acc f ts acc h
  | .atom v l o r :: ts, acc, h => by
    simp only [go]; rw [go_acc f ts _ h, go_acc f ts (true && _) h]; simp [Bool.and_assoc]
  | .group its :: ts, acc, h => by
    simp only [go]; rw [go_acc f ts _ h, go_acc f ts (true && _) h]; simp [Bool.and_assoc]

theorem go_append_and (f : PItem → Bool) : ∀ (xs ys : List PItem) (acc : Bool), OrFree xs →
    go f (xs ++ .and_ :: ys) acc = go f ys (go f xs acc)
  | [], ys, acc, _ => by simp [go]
  | .or_ :: xs, ys, acc, h => by simp [OrFree] at h
  | .and_ :: xs, ys, acc, h => by simp only [List.cons_append, go]; exact go_append_and f xs ys acc h
  | .atom v l o r :: xs, ys, acc, h => by simp only [List.cons_append, go]; exact go_append_and f xs ys _ h
  | .group its :: xs, ys, acc, h => by simp only [List.cons_append, go]; exact go_append_and f xs ys _ h

theorem go_append_or (f : PItem → Bool) : ∀ (xs ys : List PItem) (acc : Bool),
    go f (xs ++ .or_ :: ys) acc = (go f xs acc || go f ys true)
  | [], ys, acc => by simp [go]
  | .or_ :: xs, ys, acc => by
    simp only [List.cons_append, go]; rw [go_append_or f xs ys true]; simp [Bool.or_assoc]
  | .and_ :: xs, ys, acc => by simp only [List.cons_append, go]; exact go_append_or f xs ys acc
  | .atom v l o r :: xs, ys, acc => by simp only [List.cons_append, go]; exact go_append_or f xs ys _
  | .group its :: xs, ys, acc => by simp only [List.cons_append, go]; exact go_append_or f xs ys _

theorem orFree_append_and : ∀ (xs ys : List PItem), OrFree xs → OrFree ys → OrFree (xs ++ .and_ :: ys)
  | [], _, _, h => h
  | .or_ :: _, _, h, _ => by simp [OrFree] at h
  | .and_ :: xs, ys, h, h' => orFree_append_and xs ys h h'
  | .atom _ _ _ _ :: xs, ys, h, h' => orFree_append_and xs ys h h'
  | .group _ :: xs, ys, h, h' => orFree_append_and xs ys h h'

/-- joining or-free parts with `and`: or-free, and evaluates to the conjunction -/
theorem join_and (f : PItem → Bool) : ∀ (parts : List (List PItem)), (∀ p ∈ parts, OrFree p) →
    OrFree (joinItems .and_ parts) ∧ go f (joinItems .and_ parts) true = parts.all (fun p => go f p true)
  | [], _ => by simp [joinItems, OrFree, go]
  | [x], h => by simp [joinItems, h x (by simp)]
  | x :: y :: rest, h => by
    have hx := h x (by simp)
    obtain ⟨h1, h2⟩ := join_and f (y :: rest) (fun p hp => h p (by simp [hp]))
    refine ⟨orFree_append_and _ _ hx h1, ?_⟩
    simp only [joinItems, List.all_cons] at h2 ⊢
    rw [go_append_and f _ _ _ hx, go_acc f _ _ h1, h2]

theorem join_or (f : PItem → Bool) : ∀ (parts : List (List PItem)), parts ≠ [] →
    go f (joinItems .or_ parts) true = parts.any (fun p => go f p true)
  | [], h => absurd rfl h
  | [x], _ => by simp [joinItems]
  | x :: y :: rest, _ => by
    have := join_or f (y :: rest) (by simp)
    simp only [joinItems, List.any_cons] at this ⊢
    rw [go_append_or, this]

/-! ### what can be printed -/

mutual
/-- nothing unprintable inside: no Empty/Any child, no grouped atom without values -/
def Printable : M → Prop
  | .any => False
  | .empty => False
  | .expr _ => True
  | .eqU _ vs => vs ≠ []
  | .neM _ vs => vs ≠ []
  | .multi ms => ms ≠ [] ∧ PrintableL ms
  | .union ms => ms ≠ [] ∧ PrintableL ms
def PrintableL : List M → Prop
  | [] => True
  | m :: ms => Printable m ∧ PrintableL ms
end

theorem mop_roundtrip (o : MOp) : MOp.ofString? o.str = some o ∧ o.reflect.reflect = o := by
  cases o <;> simp [MOp.str, MOp.ofString?, MOp.reflect]

/-- the rendered atom is read back as the same atom -/
theorem atomOf_atomItem (a : Atom) (hw : a.WF) :
    (match atomItem a with
     | .atom v l o r => atomOf v l o r
     | _ => none) = some a := by
  unfold atomItem
  have h1 := mop_roundtrip a.op
  have h2 := mop_roundtrip a.op.reflect
  unfold Atom.WF at hw
  cases hr : a.reversed
  · simp only [Bool.false_eq_true, if_false, atomOf, h1.1, Option.bind_some, if_true, mkAtom]
    rw [hr] at hw; rw [hw]; cases a; simp_all
  · simp only [if_true, atomOf, h2.1, Option.bind_some, Bool.false_eq_true, if_false, mkAtom, h1.2]
    rw [hr] at hw; rw [hw]; cases a; simp_all

theorem atomOf_eq (n v : String) (hn : StrName n) :
    atomOf true n "==" v = some ⟨n, .eq, v, false, .gen ⟨.eq, v⟩⟩ ∧
    atomOf true n "!=" v = some ⟨n, .ne, v, false, .gen ⟨.ne, v⟩⟩ := by
  have hv : versionLikeNames.contains n = false := hn.2.1
  have hv' : n ∉ versionLikeNames := by simpa using hv
  constructor <;> simp [atomOf, MOp.ofString?, mkAtom, getSpecifier, hv', MOp.toGOp?]

section
variable (env : Env) (he : EnvTotal env)
include he

/-- one `n == "v"` / `n != "v"` token of a grouped atom -/
theorem eq_token (n v : String) (hn : StrName n) (fuel : Nat) :
    ∃ t, env n = some (.str t) ∧ refSem env (fuel + 1) (.atom true n "==" v) = (t == v) ∧
      refSem env (fuel + 1) (.atom true n "!=" v) = (t != v) := by
  obtain ⟨t, ht⟩ := he.str n hn.2.2.1 (by simpa using hn.2.2.2)
  have hx : (n == "extra") = false := by simpa using hn.2.2.1
  have hs : (n == "extras" || n == "dependency_groups") = false := by
    have := hn.2.2.2; simp only [setNames, List.contains_cons, List.contains_nil, Bool.or_false] at this; exact this
  have hve : versionEvalNames.contains n = false := hn.1
  refine ⟨t, ht, ?_, ?_⟩
  · simp only [refSem, (atomOf_eq n v hn).1, sem, Atom.eval, hx, Bool.false_eq_true, if_false, ht, hs, hve, strOp,
      Option.getD_some]
  · simp only [refSem, (atomOf_eq n v hn).2, sem, Atom.eval, hx, Bool.false_eq_true, if_false, ht, hs, hve, strOp,
      Option.getD_some]

end

/-! ### the main lemma -/

theorem printableL_iff (ms : List M) : PrintableL ms ↔ ∀ c ∈ ms, Printable c := by
  induction ms with
  | nil => simp [PrintableL]
  | cons m ms ih => simp [PrintableL, ih]

theorem mem_joinItems (sep : PItem) : ∀ (parts : List (List PItem)) (it : PItem),
    it ∈ joinItems sep parts → it = sep ∨ ∃ p ∈ parts, it ∈ p
  | [], it, h => by simp [joinItems] at h
  | [x], it, h => by simp only [joinItems] at h; exact Or.inr ⟨x, by simp, h⟩
  | x :: y :: rest, it, h => by
    simp only [joinItems, List.mem_append, List.mem_cons] at h
    rcases h with h | h | h
    · exact Or.inr ⟨x, by simp, h⟩
    · exact Or.inl h
    · rcases mem_joinItems sep (y :: rest) it h with h | ⟨p, hp, hi⟩
      · exact Or.inl h
      · exact Or.inr ⟨p, by simp [hp], hi⟩

theorem pgood_sep (env : Env) (k : Nat) : PGood env k .and_ ∧ PGood env k .or_ := by
  cases k <;> simp [PGood]

theorem pgood_group (env : Env) (k : Nat) (its : List PItem) (h : ∀ it ∈ its, PGood env k it) :
    PGood env (k + 1) (.group its) := by
  simpa [PGood] using h

/-- what is established for one marker at evaluation depth `k` -/
structure ItemsOk (env : Env) (k : Nat) (m : M) : Prop where
  val : go (refSem env k) (items m) true = sem env m
  orFree : (match m with | .expr _ | .multi _ => True | _ => False) → OrFree (items m)
  good : ∀ it ∈ items m, PGood env k it

section
variable (env : Env) (he : EnvTotal env)
include he

theorem items_ok : ∀ (n : Nat) (m : M), C12.depth m ≤ n → Printable m → GAll (Good env) m →
    ∀ k, C12.depth m ≤ k → ItemsOk env k m := by
  intro n
  induction n with
  | zero => intro m h; cases m <;> simp [C12.depth] at h
  | succ n ih =>
    intro m hd hp hg k hk
    obtain ⟨k0, rfl⟩ : ∃ k0, k = k0 + 1 := by
      cases k with
      | zero => cases m <;> simp [C12.depth] at hk
      | succ k0 => exact ⟨k0, rfl⟩
    cases m with
    | any => simp [Printable] at hp
    | empty => simp [Printable] at hp
    | expr a =>
      have hw : a.WF := by simp only [GAll, Good, GoodAtom] at hg; exact hg.1
      have hat := atomOf_atomItem a hw
      cases hr : a.reversed
      · simp only [atomItem, hr, Bool.false_eq_true, if_false] at hat
        refine ⟨?_, fun _ => ?_, ?_⟩
        · simp [items, atomItem, hr, go, refSem, hat, sem]
        · simp [items, atomItem, hr, OrFree]
        · intro it hit
          simp only [items, atomItem, hr, Bool.false_eq_true, if_false, List.mem_singleton] at hit
          subst hit
          simp only [PGood]; intro a' ha'; rw [hat] at ha'; cases ha'
          simpa [GAll, Good] using hg
      · simp only [atomItem, hr, if_true] at hat
        refine ⟨?_, fun _ => ?_, ?_⟩
        · simp [items, atomItem, hr, go, refSem, hat, sem]
        · simp [items, atomItem, hr, OrFree]
        · intro it hit
          simp only [items, atomItem, hr, if_true, List.mem_singleton] at hit
          subst hit
          simp only [PGood]; intro a' ha'; rw [hat] at ha'; cases ha'
          simpa [GAll, Good] using hg
    | eqU nm vs =>
      have hn : StrName nm := by simpa [GAll, Good] using hg
      obtain ⟨t, ht, _⟩ := eq_token env he nm "" hn k0
      refine ⟨?_, fun h => by simp at h, ?_⟩
      · simp only [items, sem, ht]
        rw [join_or _ _ (by simpa [Printable] using hp)]
        simp only [List.any_map]
        have : ∀ v, (go (refSem env (k0 + 1)) [PItem.atom true nm "==" v] true) = (t == v) := by
          intro v
          obtain ⟨t', ht', h1, _⟩ := eq_token env he nm v hn k0
          rw [ht] at ht'; cases ht'
          simp [go, h1]
        simp only [Function.comp_def, this]
        rw [List.contains_eq_any_beq]
      · intro it hit
        rcases mem_joinItems _ _ _ hit with h | ⟨p, hp', hi⟩
        · subst h; exact (pgood_sep env _).2
        · simp only [List.mem_map] at hp'
          obtain ⟨v, _, rfl⟩ := hp'
          simp only [List.mem_singleton] at hi; subst hi
          simp only [PGood]
          intro a' ha'
          rw [(atomOf_eq nm v hn).1] at ha'; cases ha'
          refine ⟨?_, ?_⟩
          · have hv' : nm ∉ versionLikeNames := by simpa using hn.2.1
            simp [Atom.WF, getSpecifier, hv', MOp.toGOp?]
          · have h1 : nm ≠ "extra" := hn.2.2.1
            simp only [h1, if_false, hn.2.2.2, Bool.false_eq_true, hn.2.1]
            exact Or.inl hn
    | neM nm vs =>
      have hn : StrName nm := by simpa [GAll, Good] using hg
      obtain ⟨t, ht, _⟩ := eq_token env he nm "" hn k0
      refine ⟨?_, fun h => by simp at h, ?_⟩
      · simp only [items, sem, ht]
        rw [(join_and _ _ (by
          intro p hp'; simp only [List.mem_map] at hp'; obtain ⟨v, _, rfl⟩ := hp'; simp [OrFree])).2]
        simp only [List.all_map]
        have : ∀ v, (go (refSem env (k0 + 1)) [PItem.atom true nm "!=" v] true) = (t != v) := by
          intro v
          obtain ⟨t', ht', _, h2⟩ := eq_token env he nm v hn k0
          rw [ht] at ht'; cases ht'
          simp [go, h2]
        simp only [Function.comp_def, this]
        rw [List.contains_eq_any_beq, Bool.eq_iff_iff]
        simp [List.all_eq_true, List.any_eq_true, bne_iff_ne]
      · intro it hit
        rcases mem_joinItems _ _ _ hit with h | ⟨p, hp', hi⟩
        · subst h; exact (pgood_sep env _).1
        · simp only [List.mem_map] at hp'
          obtain ⟨v, _, rfl⟩ := hp'
          simp only [List.mem_singleton] at hi; subst hi
          simp only [PGood]
          intro a' ha'
          rw [(atomOf_eq nm v hn).2] at ha'; cases ha'
          refine ⟨?_, ?_⟩
          · have hv' : nm ∉ versionLikeNames := by simpa using hn.2.1
            simp [Atom.WF, getSpecifier, hv', MOp.toGOp?]
          · have h1 : nm ≠ "extra" := hn.2.2.1
            simp only [h1, if_false, hn.2.2.2, Bool.false_eq_true, hn.2.1]
            exact Or.inl hn
    | multi ms =>
      have hdl : C12.depthL ms ≤ n := by simp only [C12.depth] at hd; omega
      have hkl : C12.depthL ms ≤ k0 := by simp only [C12.depth] at hk; omega
      have hpl := (printableL_iff ms).1 hp.2
      have hgl := (GAllL_iff _ ms).1 hg
      have kids : ∀ cs : List M, (∀ c ∈ cs, c ∈ ms) →
          (∀ p ∈ itemsMultiChildren cs, OrFree p) ∧
          (itemsMultiChildren cs).all (fun p => go (refSem env (k0 + 1)) p true) = cs.all (sem env) ∧
          (∀ p ∈ itemsMultiChildren cs, ∀ it ∈ p, PGood env (k0 + 1) it) := by
        intro cs
        induction cs with
        | nil => intro _; simp [itemsMultiChildren]
        | cons c cs ihc =>
          intro hsub
          have hc : c ∈ ms := hsub c (by simp)
          obtain ⟨r1, r2, r3⟩ := ihc (fun x hx => hsub x (by simp [hx]))
          have dc : C12.depth c ≤ n := Nat.le_trans ((C12.depthL_le ms _).1 (Nat.le_refl _) c hc) hdl
          have dk : C12.depth c ≤ k0 := Nat.le_trans ((C12.depthL_le ms _).1 (Nat.le_refl _) c hc) hkl
          have same := ih c dc (hpl c hc) (hgl c hc) (k0 + 1) (Nat.le_succ_of_le dk)
          have inner := ih c dc (hpl c hc) (hgl c hc) k0 dk
          have grp : go (refSem env (k0 + 1)) [PItem.group (items c)] true = sem env c := by
            simp only [go, Bool.true_and]; rw [refSem_group]; exact inner.val
          have grpG : ∀ it ∈ [PItem.group (items c)], PGood env (k0 + 1) it := by
            intro it hit; simp only [List.mem_singleton] at hit; subst hit
            exact pgood_group env k0 _ inner.good
          simp only [itemsMultiChildren, List.all_cons, List.mem_cons, forall_eq_or_imp]
          cases c with
          | expr a => exact ⟨⟨same.orFree trivial, r1⟩, by rw [same.val, r2], same.good, r3⟩
          | multi xs => exact ⟨⟨same.orFree trivial, r1⟩, by rw [same.val, r2], same.good, r3⟩
          | any => exact ⟨⟨by simp [OrFree], r1⟩, by rw [grp, r2], grpG, r3⟩
          | empty => exact ⟨⟨by simp [OrFree], r1⟩, by rw [grp, r2], grpG, r3⟩
          | eqU _ _ => exact ⟨⟨by simp [OrFree], r1⟩, by rw [grp, r2], grpG, r3⟩
          | neM _ _ => exact ⟨⟨by simp [OrFree], r1⟩, by rw [grp, r2], grpG, r3⟩
          | union _ => exact ⟨⟨by simp [OrFree], r1⟩, by rw [grp, r2], grpG, r3⟩
      obtain ⟨r1, r2, r3⟩ := kids ms (fun _ h => h)
      have J := join_and (refSem env (k0 + 1)) (itemsMultiChildren ms) r1
      refine ⟨?_, fun _ => J.1, ?_⟩
      · simp only [items, sem, semAll_eq]; rw [J.2, r2]
      · intro it hit
        simp only [items] at hit
        rcases mem_joinItems _ _ _ hit with h | ⟨p, hp', hi⟩
        · subst h; exact (pgood_sep env _).1
        · exact r3 p hp' it hi
    | union ms =>
      have hdl : C12.depthL ms ≤ n := by simp only [C12.depth] at hd; omega
      have hkl : C12.depthL ms ≤ k0 := by simp only [C12.depth] at hk; omega
      have hpl := (printableL_iff ms).1 hp.2
      have hgl := (GAllL_iff _ ms).1 hg
      have kids : ∀ cs : List M, (∀ c ∈ cs, c ∈ ms) →
          (itemsList cs).any (fun p => go (refSem env (k0 + 1)) p true) = cs.any (sem env) ∧
          (∀ p ∈ itemsList cs, ∀ it ∈ p, PGood env (k0 + 1) it) ∧ (itemsList cs = [] ↔ cs = []) := by
        intro cs
        induction cs with
        | nil => intro _; simp [itemsList]
        | cons c cs ihc =>
          intro hsub
          have hc : c ∈ ms := hsub c (by simp)
          obtain ⟨r2, r3, _⟩ := ihc (fun x hx => hsub x (by simp [hx]))
          have dc : C12.depth c ≤ n := Nat.le_trans ((C12.depthL_le ms _).1 (Nat.le_refl _) c hc) hdl
          have dk : C12.depth c ≤ k0 := Nat.le_trans ((C12.depthL_le ms _).1 (Nat.le_refl _) c hc) hkl
          have same := ih c dc (hpl c hc) (hgl c hc) (k0 + 1) (Nat.le_succ_of_le dk)
          simp only [itemsList, List.any_cons, List.mem_cons, forall_eq_or_imp]
          exact ⟨by rw [same.val, r2], ⟨same.good, r3⟩, by simp⟩
      obtain ⟨r2, r3, r4⟩ := kids ms (fun _ h => h)
      refine ⟨?_, fun h => by simp at h, ?_⟩
      · simp only [items, sem, semAny_eq]
        rw [join_or _ _ (by rw [Ne, r4]; exact hp.1), r2]
      · intro it hit
        simp only [items] at hit
        rcases mem_joinItems _ _ _ hit with h | ⟨p, hp', hi⟩
        · subst h; exact (pgood_sep env _).2
        · exact r3 p hp' it hi

/-- the token list of the rendered marker evaluates (reference evaluation) to the marker's meaning -/
theorem items_sem (m : M) (hp : Printable m) (hg : GAll (Good env) m) (k : Nat) (hk : C12.depth m ≤ k) :
    refSem env (k + 1) (.group (items m)) = sem env m := by
  rw [refSem_group]
  exact (items_ok env he _ m (Nat.le_refl _) hp hg k hk).val

/-- re-parsing the text of `m` (packaging's list -> `_build_markers`, with all its merging) yields a
    marker that means what `m` means -/
theorem reparse_sound (hF : FromSpecOk env) (hP : PyMergeOk env) (m m' : M) (hp : Printable m)
    (hg : GAll (Good env) m) (k : Nat) (hk : C12.depth m ≤ k)
    (hb : build (k + 1) (.group (items m)) = some m') : sem env m' = sem env m := by
  have good : PGood env (k + 1) (.group (items m)) :=
    pgood_group env k _ (items_ok env he _ m (Nat.le_refl _) hp hg k hk).good
  rw [(build_sound env he hF hP (k + 1) _ m' good hb).2]
  exact items_sem env he m hp hg k hk

end

/-- `reparse_sound` with the bridge facts proved (C02.bridge) -/
theorem reparse_sound_final (env : Env) (he : EnvTotal env) (m m' : M) (hp : Printable m)
    (hg : GAll (Good env) m) (k : Nat) (hk : C12.depth m ≤ k)
    (hb : build (k + 1) (.group (items m)) = some m') : sem env m' = sem env m :=
  reparse_sound env he (C02.bridge env he).1 (C02.bridge env he).2 m m' hp hg k hk hb

/-- non-vacuity: a printable marker with a parenthesised group, a literal-on-the-left atom and a grouped atom -/
example : let m : M := .multi [.expr ⟨"sys_platform", .in_, "lin", true, .gen ⟨.contains, "lin"⟩⟩,
                                .union [.eqU "os_name" ["a", "b"], .neM "platform_machine" ["x"]]]
    Printable m ∧ C12.depth m ≤ 3 := by
  simp [Printable, PrintableL, C12.depth, C12.depthL]

end C07
end DepLogic
