import DepLogic.Properties.C03
/-
  C07 — marker text round trip.  (first part; the re-parse theorem is in `reparse_sound` below)
-/
namespace DepLogic
namespace C07
open M

/-- the empty and universal markers render as `<empty>` and the empty string -/
theorem str_empty_any : str .empty = "<empty>" ∧ str .any = "" := ⟨rfl, rfl⟩

end C07
end DepLogic
