import DepLogic.Model.Tags
/-
  C09 — platform tag sets and preference order follow PEP 600 / PEP 656 / the macOS rules.
  Structured tags (`PTag`); `PTag.str` is what the code appends.  For every minor/major,
  not only those of the grid.
-/
namespace DepLogic
namespace C09

theorem downFrom_mem (lo : Nat) : ∀ (cnt hi x : Nat), cnt ≤ hi →
    (x ∈ downFrom lo cnt hi ↔ (hi - cnt < x ∧ x ≤ hi)) := by
  intro cnt
  induction cnt with
  | zero => intro hi x _; simp [downFrom]
  | succ n ih =>
    intro hi x h
    simp only [downFrom, List.mem_cons]
    rw [ih (hi - 1) x (by omega)]
    omega

/-- `range(hi, lo, -1)` -/
theorem rangeDown_mem (hi lo x : Nat) : x ∈ rangeDown hi lo ↔ (lo < x ∧ x ≤ hi) := by
  unfold rangeDown
  rw [downFrom_mem lo (hi - lo) hi x (by omega)]
  omega

theorem downFrom_sorted (lo : Nat) : ∀ (cnt hi : Nat), cnt ≤ hi →
    (downFrom lo cnt hi).Pairwise (· > ·) := by
  intro cnt
  induction cnt with
  | zero => intro hi _; simp [downFrom]
  | succ n ih =>
    intro hi h
    simp only [downFrom, List.pairwise_cons]
    refine ⟨?_, ih (hi - 1) (by omega)⟩
    intro y hy
    have := (downFrom_mem lo n (hi - 1) y (by omega)).1 hy
    omega

/-- manylinux: exactly `manylinux_M_K` for floor ≤ K ≤ minor, plus the legacy alias of K -/
theorem manylinuxLoop_mem (major : Nat) (arch : Arch) : ∀ (cnt hi : Nat) (t : PTag), cnt ≤ hi + 1 →
    (t ∈ manylinuxLoop major arch cnt hi ↔
      ∃ K, hi + 1 - cnt ≤ K ∧ K ≤ hi ∧ (t = .manylinux major K arch ∨ t ∈ legacyFor K arch)) := by
  intro cnt
  induction cnt with
  | zero => intro hi t _; simp [manylinuxLoop]; intro K h1 h2; omega
  | succ n ih =>
    intro hi t h
    simp only [manylinuxLoop, List.cons_append, List.mem_cons, List.mem_append]
    by_cases hn : n = 0
    · subst hn
      simp only [manylinuxLoop, List.not_mem_nil, or_false]
      constructor
      · rintro (h1 | h1)
        · exact ⟨hi, by omega, by omega, Or.inl h1⟩
        · exact ⟨hi, by omega, by omega, Or.inr h1⟩
      · rintro ⟨K, h1, h2, h3⟩
        have : K = hi := by omega
        subst this
        exact h3
    · rw [ih (hi - 1) t (by omega)]
      constructor
      · rintro (h1 | h1 | ⟨K, h1, h2, h3⟩)
        · exact ⟨hi, by omega, by omega, Or.inl h1⟩
        · exact ⟨hi, by omega, by omega, Or.inr h1⟩
        · exact ⟨K, by omega, by omega, h3⟩
      · rintro ⟨K, h1, h2, h3⟩
        by_cases hK : K = hi
        · subst hK
          rcases h3 with h3 | h3
          · exact Or.inl h3
          · exact Or.inr (Or.inl h3)
        · exact Or.inr (Or.inr ⟨K, by omega, by omega, h3⟩)

/-- the tag set of a manylinux target (statement of C09, first clause) -/
theorem manylinux_tags (major minor : Nat) (arch : Arch) (f : Nat) (hf : arch.minManylinuxMinor = some f)
    (hle : f ≤ minor + 1) (t : PTag) :
    (∃ l, compatibleTags ⟨.manylinux major minor, arch⟩ = some l ∧
      (t ∈ l ↔ (t = .linux arch ∨
        ∃ K, f ≤ K ∧ K ≤ minor ∧ (t = .manylinux major K arch ∨ t ∈ legacyFor K arch)))) := by
  refine ⟨_, by simp [compatibleTags, hf]; rfl, ?_⟩
  simp only [List.mem_append, List.mem_cons, List.not_mem_nil, or_false]
  rw [manylinuxLoop_mem major arch (minor + 1 - f) minor t (by omega)]
  have : minor + 1 - (minor + 1 - f) = f := by omega
  rw [this]
  constructor
  · rintro (h | h)
    · exact Or.inr h
    · exact Or.inl h
  · rintro (h | h)
    · exact Or.inr h
    · exact Or.inl h

/-- preference key: newest glibc first, the legacy alias directly after its PEP 600 twin,
    `linux_<arch>` last -/
def mlKey : PTag → Nat
  | .manylinux _ K _ => 2 * K + 2
  | .legacy "1" _ => 2 * 5 + 1
  | .legacy "2010" _ => 2 * 12 + 1
  | .legacy "2014" _ => 2 * 17 + 1
  | _ => 0

theorem legacyFor_key (K : Nat) (arch : Arch) : ∀ t ∈ legacyFor K arch, mlKey t = 2 * K + 1 := by
  intro t ht
  unfold legacyFor at ht
  by_cases h1 : K = 12
  · subst h1; simp at ht; subst ht; rfl
  · by_cases h2 : K = 17
    · subst h2; simp at ht; subst ht; rfl
    · by_cases h3 : K = 5
      · subst h3; simp at ht; subst ht; rfl
      · simp [h1, h2, h3] at ht

theorem legacyFor_length (K : Nat) (arch : Arch) : (legacyFor K arch).length ≤ 1 := by
  unfold legacyFor
  by_cases h1 : K = 12 <;> by_cases h2 : K = 17 <;> by_cases h3 : K = 5 <;> simp [h1, h2, h3] <;> omega

/-- the manylinux part of the list is strictly decreasing in the preference key -/
theorem manylinuxLoop_sorted (major : Nat) (arch : Arch) : ∀ (cnt hi : Nat), cnt ≤ hi + 1 →
    (manylinuxLoop major arch cnt hi).Pairwise (fun a b => mlKey a > mlKey b) := by
  intro cnt
  induction cnt with
  | zero => intro hi _; simp [manylinuxLoop]
  | succ n ih =>
    intro hi h
    simp only [manylinuxLoop, List.cons_append]
    rw [List.pairwise_cons, List.pairwise_append]
    have hrest : ∀ y ∈ manylinuxLoop major arch n (hi - 1), mlKey y ≤ 2 * hi := by
      intro y hy
      by_cases hn : n = 0
      · subst hn; simp [manylinuxLoop] at hy
      · obtain ⟨K, h1, h2, h3⟩ := (manylinuxLoop_mem major arch n (hi - 1) y (by omega)).1 hy
        rcases h3 with rfl | h3
        · simp [mlKey]; omega
        · rw [legacyFor_key K arch y h3]; omega
    refine ⟨?_, ?_, ih (hi - 1) (by omega), ?_⟩
    · intro y hy
      simp only [List.mem_append] at hy
      rcases hy with hy | hy
      · rw [legacyFor_key hi arch y hy]; simp [mlKey]
      · have := hrest y hy
        have h1 : mlKey (.manylinux major hi arch) = 2 * hi + 2 := rfl
        omega
    · have hl := legacyFor_length hi arch
      match hlf : legacyFor hi arch with
      | [] => simp
      | [_] => simp
      | _ :: _ :: _ => rw [hlf] at hl; simp at hl
    · intro a ha b hb
      rw [legacyFor_key hi arch a ha]
      have := hrest b hb
      omega

/-- musllinux: `linux_<arch>` and `musllinux_M_K` for 1 ≤ K ≤ minor -/
theorem musllinux_tags (major minor : Nat) (arch : Arch) (t : PTag) :
    ∃ l, compatibleTags ⟨.musllinux major minor, arch⟩ = some l ∧
      (t ∈ l ↔ (t = .linux arch ∨ ∃ K, 1 ≤ K ∧ K ≤ minor ∧ t = .musllinux major K arch)) := by
  refine ⟨_, rfl, ?_⟩
  simp only [List.mem_cons, List.mem_map, List.mem_range]
  constructor
  · rintro (h | ⟨i, hi, rfl⟩)
    · exact Or.inl h
    · exact Or.inr ⟨i + 1, by omega, by omega, rfl⟩
  · rintro (h | ⟨K, h1, h2, rfl⟩)
    · exact Or.inl h
    · exact Or.inr ⟨K - 1, by omega, by congr; omega⟩

/-- macOS on Apple silicon (target major ≥ 11): every yearly release up to the target as
    arm64/universal2, and universal2 back to 10.4 -/
theorem macos_arm64_tags (major minor : Nat) (t : PTag) :
    ∃ l, compatibleTags ⟨.macos major minor, .aarch64⟩ = some l ∧
      (t ∈ l ↔ ((∃ M, 11 ≤ M ∧ M ≤ major ∧ (t = .macosx M 0 "arm64" ∨ t = .macosx M 0 "universal2")) ∨
                (∃ j, 4 ≤ j ∧ j ≤ 16 ∧ t = .macosx 10 j "universal2"))) := by
  refine ⟨_, rfl, ?_⟩
  simp only [List.mem_append, List.mem_flatMap, List.mem_map, rangeDown_mem, Arch.macFormats,
    List.mem_cons, List.not_mem_nil, or_false]
  constructor
  · rintro (⟨M, ⟨h1, h2⟩, f, hf, rfl⟩ | ⟨j, ⟨h1, h2⟩, rfl⟩)
    · rcases hf with rfl | rfl
      · exact Or.inl ⟨M, by omega, h2, Or.inl rfl⟩
      · exact Or.inl ⟨M, by omega, h2, Or.inr rfl⟩
    · exact Or.inr ⟨j, by omega, h2, rfl⟩
  · rintro (⟨M, h1, h2, h3⟩ | ⟨j, h1, h2, rfl⟩)
    · rcases h3 with rfl | rfl
      · exact Or.inl ⟨M, ⟨by omega, h2⟩, "arm64", Or.inl rfl, rfl⟩
      · exact Or.inl ⟨M, ⟨by omega, h2⟩, "universal2", Or.inr rfl, rfl⟩
    · exact Or.inr ⟨j, ⟨by omega, h2⟩, rfl⟩

/-- macOS 10.x on Intel: every 10.j for 4 ≤ j ≤ minor in every binary format of the arch -/
theorem macos10_x86_64_tags (minor : Nat) (t : PTag) :
    ∃ l, compatibleTags ⟨.macos 10 minor, .x86_64⟩ = some l ∧
      (t ∈ l ↔ ∃ j f, 4 ≤ j ∧ j ≤ minor ∧ f ∈ Arch.x86_64.macFormats ∧ t = .macosx 10 j f) := by
  refine ⟨_, rfl, ?_⟩
  simp only [List.mem_flatMap, List.mem_map, rangeDown_mem]
  constructor
  · rintro ⟨j, ⟨h1, h2⟩, f, hf, rfl⟩
    exact ⟨j, f, by omega, h2, hf, rfl⟩
  · rintro ⟨j, f, h1, h2, hf, rfl⟩
    exact ⟨j, ⟨by omega, h2⟩, f, hf, rfl⟩

/-- macOS ≥ 11 on Intel -/
theorem macos11_x86_64_tags (major minor : Nat) (h : 11 ≤ major) (t : PTag) :
    ∃ l, compatibleTags ⟨.macos major minor, .x86_64⟩ = some l ∧
      (t ∈ l ↔ ∃ f, f ∈ Arch.x86_64.macFormats ∧
        ((∃ M, 11 ≤ M ∧ M ≤ major ∧ t = .macosx M 0 f) ∨ (∃ j, 4 ≤ j ∧ j ≤ 16 ∧ t = .macosx 10 j f))) := by
  have h10 : (major == 10) = false := by simp; omega
  refine ⟨_, by simp [compatibleTags, h10, h]; rfl, ?_⟩
  simp only [List.mem_append, List.mem_flatMap, List.mem_map, rangeDown_mem]
  constructor
  · rintro (⟨M, ⟨h1, h2⟩, f, hf, rfl⟩ | ⟨j, ⟨h1, h2⟩, f, hf, rfl⟩)
    · exact ⟨f, hf, Or.inl ⟨M, by omega, h2, rfl⟩⟩
    · exact ⟨f, hf, Or.inr ⟨j, by omega, h2, rfl⟩⟩
  · rintro ⟨f, hf, (⟨M, h1, h2, rfl⟩ | ⟨j, h1, h2, rfl⟩)⟩
    · exact Or.inl ⟨M, ⟨by omega, h2⟩, f, hf, rfl⟩
    · exact Or.inr ⟨j, ⟨by omega, h2⟩, f, hf, rfl⟩

/-- Windows -/
theorem windows_tags :
    compatibleTags ⟨.windows, .x86⟩ = some [.win "win32"] ∧
    compatibleTags ⟨.windows, .x86_64⟩ = some [.win "win_amd64"] ∧
    compatibleTags ⟨.windows, .aarch64⟩ = some [.win "win_arm64"] := ⟨rfl, rfl, rfl⟩

example : (compatibleTags ⟨.manylinux 2 18, .aarch64⟩).map (·.map PTag.str) =
    some ["manylinux_2_18_aarch64", "manylinux_2_17_aarch64", "manylinux2014_aarch64", "linux_aarch64"] := by decide

end C09
end DepLogic
