import DepLogic.Properties.C07Text
/-
  C07, marker text with parentheses — units (an atom, or a parenthesised sequence) joined by ` and ` / ` or `, nested
  to any depth: the model of packaging's parser reads the characters back as the corresponding nested token list
  (`nested_text`).  `C07.seq_text` is the paren-free special case.
-/
namespace DepLogic
namespace C07
open Quote MText M

mutual
/-- a unit of marker text: an atom, or `( first op u op u ... )` -/
inductive U where
  | atom (a : Atom)
  | group (first : U) (tl : TL)
/-- `op u op u ...` -/
inductive TL where
  | nil
  | cons (isAnd : Bool) (u : U) (tl : TL)
end

mutual
def U.text : U → List Char
  | .atom a => atomStrL a
  | .group f tl => '(' :: (f.text ++ (tl.text ++ [')']))
def TL.text : TL → List Char
  | .nil => []
  | .cons b u tl => opText b ++ (u.text ++ tl.text)
end

mutual
def U.item : U → PItem
  | .atom a => atomItem a
  | .group f tl => .group (f.item :: tl.items)
def TL.items : TL → List PItem
  | .nil => []
  | .cons b u tl => opItem b :: u.item :: tl.items
end

mutual
def U.size : U → Nat
  | .atom _ => 1
  | .group f tl => f.size + tl.size + 2
def TL.size : TL → Nat
  | .nil => 0
  | .cons _ u tl => u.size + tl.size + 1
end

mutual
def U.Ok : U → Prop
  | .atom a => a.name.toList ∈ canonNames
  | .group f tl => f.Ok ∧ tl.Ok
def TL.Ok : TL → Prop
  | .nil => True
  | .cons _ u tl => u.Ok ∧ tl.Ok
end

/-- what may follow a sequence: the end of the text or a closing parenthesis -/
def Closes (rest : List Char) : Prop := rest = [] ∨ ∃ r, rest = ')' :: r

theorem closes_head (rest : List Char) (h : Closes rest) : ∀ c ∈ rest.head?, isVarChar c = false := by
  rcases h with rfl | ⟨r, rfl⟩
  · simp
  · intro c hc; simp at hc; subst hc; decide

theorem closes_noBool (rest : List Char) (h : Closes rest) : readBoolOp (skipWs rest) = none ∧ skipWs rest = rest := by
  rcases h with rfl | ⟨r, rfl⟩
  · simp [skipWs, readBoolOp]
  · have : skipWs (')' :: r) = ')' :: r := skipWs_cons _ _ (by decide)
    rw [this]; simp [readBoolOp]

theorem tl_head (tl : TL) (rest : List Char) (h : Closes rest) : ∀ c ∈ (tl.text ++ rest).head?, isVarChar c = false := by
  cases tl with
  | nil => simpa [TL.text] using closes_head rest h
  | cons b u t =>
    intro c hc
    have : (TL.text (.cons b u t) ++ rest).head? = some ' ' := by
      cases b <;> simp [TL.text, opText]
    rw [this] at hc
    simp only [Option.mem_def, Option.some.injEq] at hc
    subst hc; decide

theorem U.text_head : ∀ (u : U), u.Ok → ∃ c t, u.text = c :: t ∧ isWs c = false
  | .atom a, hok => by
    obtain ⟨c, t, h1, h2, _⟩ := atomStrL_head a hok
    exact ⟨c, t, h1, h2⟩
  | .group f tl, _ => ⟨'(', _, rfl, by decide⟩

theorem skipWs_utext (u : U) (hok : u.Ok) (r : List Char) :
    skipWs (u.text ++ r) = u.text ++ r ∧ skipWs (' ' :: (u.text ++ r)) = u.text ++ r := by
  obtain ⟨c, t, h1, h2⟩ := U.text_head u hok
  have : skipWs (u.text ++ r) = u.text ++ r := by rw [h1]; exact skipWs_cons _ _ h2
  exact ⟨this, by rw [skipWs_space, this]⟩

mutual
theorem U.read : ∀ (u : U), u.Ok → ∀ (f : Nat) (rest : List Char), u.size ≤ f →
    (∀ c ∈ rest.head?, isVarChar c = false) →
    readMAtom (f + 1) (u.text ++ rest) = some (u.item, skipWs rest) ∧
    readMAtom (f + 1) (' ' :: (u.text ++ rest)) = some (u.item, skipWs rest)
  | .atom a, hok, f, rest, _, hr => readMAtom_atom f a rest hok hr
  | .group first tl, hok, f, rest, hf, _ => by
    obtain ⟨hok1, hok2⟩ := hok
    simp only [U.size] at hf
    obtain ⟨f2, rfl⟩ : ∃ f2, f = f2 + 2 := ⟨f - 2, by omega⟩
    have htext : U.text (.group first tl) ++ rest = '(' :: (first.text ++ (tl.text ++ ')' :: rest)) := by
      simp [U.text, List.append_assoc]
    have hcl : Closes (')' :: rest) := Or.inr ⟨rest, rfl⟩
    have h1 := (U.read first hok1 f2 (tl.text ++ ')' :: rest) (by omega) (tl_head tl _ hcl)).1
    have h2 := TL.read tl hok2 (f2 + 1) [first.item] (')' :: rest) (by omega) hcl
    have key : ∀ s, skipWs s = '(' :: (first.text ++ (tl.text ++ ')' :: rest)) →
        readMAtom (f2 + 2 + 1) s = some (U.item (.group first tl), skipWs rest) := by
      intro s hs
      rw [readMAtom, hs]
      simp only
      rw [(skipWs_utext first hok1 _).1, readMarker, h1]
      simp only
      rw [h2]
      simp only
      rw [skipWs_cons ')' rest (by decide)]
      simp [U.item]
    refine ⟨key _ ?_, key _ ?_⟩
    · rw [htext]; exact skipWs_cons _ _ (by decide)
    · rw [htext, skipWs_space]; exact skipWs_cons _ _ (by decide)
theorem TL.read : ∀ (tl : TL), tl.Ok → ∀ (f : Nat) (acc : List PItem) (rest : List Char), tl.size < f → Closes rest →
    readMore f acc (skipWs (tl.text ++ rest)) = some (acc.reverse ++ tl.items, rest)
  | .nil, _, f, acc, rest, hf, hcl => by
    obtain ⟨f1, rfl⟩ : ∃ f1, f = f1 + 1 := ⟨f - 1, by omega⟩
    obtain ⟨hb, hs⟩ := closes_noBool rest hcl
    simp only [TL.text, List.nil_append]
    rw [readMore, hb, hs]
    simp [TL.items]
  | .cons b u tl, hok, f, acc, rest, hf, hcl => by
    obtain ⟨hok1, hok2⟩ := hok
    simp only [TL.size] at hf
    obtain ⟨f2, rfl⟩ : ∃ f2, f = f2 + 2 := ⟨f - 2, by omega⟩
    have htext : TL.text (.cons b u tl) ++ rest = opText b ++ (u.text ++ (tl.text ++ rest)) := by
      simp [TL.text, List.append_assoc]
    have h1 := (U.read u hok1 f2 (tl.text ++ rest) (by omega) (tl_head tl _ hcl)).2
    have h2 := TL.read tl hok2 (f2 + 1) (u.item :: opItem b :: acc) rest (by omega) hcl
    rw [htext, skipWs_opText, readMore, readBoolOp_op]
    simp only
    rw [h1]
    simp only
    rw [h2]
    simp [TL.items]
end

mutual
theorem U.size_le : ∀ (u : U), u.size ≤ u.text.length
  | .atom a => by
    simp only [U.size, U.text, atomStrL]
    split <;> simp <;> omega
  | .group f tl => by
    have := U.size_le f
    have := TL.size_le tl
    simp only [U.size, U.text, List.length_cons, List.length_append, List.length_nil]
    omega
theorem TL.size_le : ∀ (tl : TL), tl.size ≤ tl.text.length
  | .nil => by simp [TL.size]
  | .cons b u tl => by
    have := U.size_le u
    have := TL.size_le tl
    have : 1 ≤ (opText b).length := by cases b <;> simp [opText]
    simp only [TL.size, TL.text, List.length_append]
    omega
end

/-- **marker text with parentheses**: a unit followed by `op unit op unit ...`, nested to any depth, is read by
    the model of packaging's parser as the corresponding nested token list -/
theorem nested_text (first : U) (tl : TL) (h1 : first.Ok) (h2 : tl.Ok) :
    readFullMarker (first.text ++ tl.text) = some (first.item :: tl.items) := by
  unfold readFullMarker
  have hs1 := U.size_le first
  have hs2 := TL.size_le tl
  obtain ⟨k, hk, hk1, hk2⟩ : ∃ k, 2 * (first.text ++ tl.text).length + 2 = k + 2 ∧ first.size ≤ k ∧ tl.size < k + 1 := by
    refine ⟨2 * (first.text ++ tl.text).length, rfl, ?_, ?_⟩ <;> simp only [List.length_append] <;> omega
  rw [hk, readMarker]
  have hcl : Closes [] := Or.inl rfl
  have e1 := (U.read first h1 k (tl.text ++ []) hk1 (tl_head tl [] hcl)).1
  have e2 := TL.read tl h2 (k + 1) [first.item] [] hk2 hcl
  simp only [List.append_nil] at e1 e2
  rw [e1]
  simp only
  rw [e2]
  simp

end C07
end DepLogic
