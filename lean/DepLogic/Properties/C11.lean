import DepLogic.Proofs.MarkerSingles
import DepLogic.Properties.C04
/-
  C11 — the marker <-> specifier bridge preserves meaning for Python-version atoms.

  `coherent_plain`: for a (variable-on-the-left) comparison / `~=` / wildcard atom on a
  version-like variable, the specifier view `_get_specifier` builds admits the environment's
  (final) version exactly when `_evaluate` (packaging's `Specifier(op+value).contains`) is true.
  The proof goes through C04's leaf theorem (bounds built by `_from_pkg_specifier` = PEP 440
  clause semantics, every operator) and C01 (`RangeSpecifier() & s` admits what `s` admits).

  Hypothesis `LexOne`: the two readers of the text `op value` — `parse_version_specifier`
  (split on `||` and `,`, strip, then packaging) and `Specifier(...)` on the stripped value —
  see the same single clause `c`.  That is a statement about character-level lexing
  (`str.split`, `str.strip`), which is modelled (Model/SpecParse.lean) and exercised by the
  correspondence run, not proved; for any concrete atom it is checked by evaluation.

  This discharges, for such atoms, the `Coherent` conjunct of `GoodAtom` that C02/C03/C12/C14
  assume.  Still hypotheses there (decided differentially, streams `C11.*`): `FromSpecOk`
  (specifier -> atom) and `PyMergeOk` (python_version/python_full_version normalisation),
  literal-on-the-left atoms, and `in`/`not in` lists.
-/
namespace DepLogic
namespace C11
open M LinPre

/-- both readers of `op value` see the one clause `c` -/
structure LexOne (a : Atom) (c : Clause Ver) : Prop where
  set : SpecParse.parseAltsText (a.op.str ++ a.value) = some [.clauses [c]]
  one : SpecParse.parseClauseL (a.op.str ++ trimS a.value).toList = some c

/-! ### the lexing hypothesis holds for "clean" values (no `,`, `|`, blank) -/

theorem splitOnChar_none (c : Char) : ∀ l : List Char, c ∉ l → SpecParse.splitOnChar c l = [l]
  | [], _ => rfl
  | x :: xs, h => by
    have hx : (x == c) = false := by
      simp only [List.mem_cons, not_or] at h; exact beq_eq_false_iff_ne.mpr (fun e => h.1 e.symm)
    have := splitOnChar_none c xs (by simp only [List.mem_cons, not_or] at h; exact h.2)
    simp [SpecParse.splitOnChar, hx, this]

theorem splitOnBars_none : ∀ l : List Char, '|' ∉ l → SpecParse.splitOnBars l = [l]
  | [], _ => rfl
  | x :: xs, h => by
    simp only [List.mem_cons, not_or] at h
    have ih := splitOnBars_none xs h.2
    unfold SpecParse.splitOnBars
    split
    · rename_i heq; cases heq
    · rename_i heq; cases heq; exact absurd rfl h.1
    · rename_i heq; cases heq; simp [ih]

theorem dropWhile_none (l : List Char) (h : ' ' ∉ l) : l.dropWhile (· == ' ') = l := by
  cases l with
  | nil => rfl
  | cons x xs =>
    simp only [List.mem_cons, not_or] at h
    have : (x == ' ') = false := beq_eq_false_iff_ne.mpr (fun e => h.1 e.symm)
    simp [List.dropWhile, this]

theorem trimL_none (l : List Char) (h : ' ' ∉ l) : SpecParse.trimL l = l := by
  unfold SpecParse.trimL
  rw [dropWhile_none l h, dropWhile_none l.reverse (by simpa using h), List.reverse_reverse]

def Clean (l : List Char) : Prop := ',' ∉ l ∧ '|' ∉ l ∧ ' ' ∉ l

theorem opStr_clean (op : MOp) (h : op ≠ .in_ ∧ op ≠ .notIn) : Clean op.str.toList := by
  cases op <;> simp_all [Clean, MOp.str]

theorem lexOne_of_clean (a : Atom) (c : Clause Ver) (hop : a.op ≠ .in_ ∧ a.op ≠ .notIn) (hv : Clean a.value.toList)
    (hp : SpecParse.parseClauseL (a.op.str.toList ++ a.value.toList) = some c) : LexOne a c := by
  have ho := opStr_clean a.op hop
  have hcl : Clean (a.op.str.toList ++ a.value.toList) := by
    simp only [Clean, List.mem_append, not_or] at *
    exact ⟨⟨ho.1, hv.1⟩, ⟨ho.2.1, hv.2.1⟩, ⟨ho.2.2, hv.2.2⟩⟩
  constructor
  · simp only [SpecParse.parseAltsText, String.toList_append]
    rw [splitOnBars_none _ hcl.2.1]
    have hne : (a.op.str.toList ++ a.value.toList == "<empty>".toList) = false := by
      cases h : (a.op.str.toList ++ a.value.toList == "<empty>".toList)
      · rfl
      · rw [beq_iff_eq] at h; rw [h] at hp
        have : SpecParse.parseClauseL "<empty>".toList = none := by decide
        rw [this] at hp; cases hp
    have hnil : (a.op.str.toList ++ a.value.toList).isEmpty = false := by
      cases h : a.op.str.toList ++ a.value.toList
      · rw [h] at hp
        have : SpecParse.parseClauseL [] = none := by decide
        rw [this] at hp; cases hp
      · rfl
    simp only [List.map_cons, List.map_nil, hne, Bool.false_eq_true, if_false, trimL_none _ hcl.2.2, hnil,
      splitOnChar_none ',' _ hcl.1, hp]
    simp
  · have : trimS a.value = a.value := by
      simp only [trimS, trimL_none _ hv.2.2, String.ofList_toList]
    rw [this, String.toList_append]; exact hp

theorem any_and_mem (s : Spec Ver) (v : Ver) : ((Spec.range {}).and s).mem v ↔ s.mem v := by
  rw [Spec.and_mem]
  simp [Spec.mem, Range.mem]

theorem specContains_eq (op : MOp) (h : op ≠ .in_ ∧ op ≠ .notIn) (rhs lhs : String) (c : Clause Ver)
    (hc : SpecParse.parseClauseL (op.str ++ trimS rhs).toList = some c) (v : Ver)
    (hv : SpecParse.parseVer (trimS lhs) = some v) (hf : v.isFinal = true) :
    specContains op rhs lhs =
      (match Pep440.matchesFinal c { release := [0] } with
       | none => none
       | some _ => some (Pep440.matchesFinal c v)) := by
  cases op <;> simp_all [specContains] <;> (cases Pep440.matchesFinal c { release := [0] } <;> rfl)

theorem coherent_plain (env : Env) (a : Atom) (c : Clause Ver) (hw : a.WF)
    (hn : versionLikeNames.contains a.name = true) (hop : a.op ≠ .in_ ∧ a.op ≠ .notIn)
    (hr : a.reversed = false) (hl : LexOne a c)
    (t : String) (v : Ver) (ht : env a.name = some (.str t))
    (hv : SpecParse.parseVer (trimS t) = some v) (hf : v.isFinal = true) :
    a.Coherent env := by
  -- the specifier view
  have hne : (a.op == MOp.in_ || a.op == MOp.notIn) = false := by
    cases hop' : a.op <;> simp_all
  unfold Atom.WF getSpecifier at hw
  simp only [hn, Bool.not_true, Bool.false_eq_true, if_false, hne] at hw
  simp only [parseSpecOpt, SpecParse.parseSpecString, hl.set, Option.map_some] at hw
  -- parseAlts [.clauses [c]] = fromSpecifierSet [c]
  simp only [parseAlts, List.foldl_nil, parseAlt, fromSpecifierSet, List.foldl_cons, Option.bind_some] at hw
  cases hfc : fromClause c with
  | none => simp [hfc] at hw
  | some s0 =>
    simp only [hfc, Option.map_some] at hw
    have hspec : a.spec = .ver ((Spec.range {}).and s0) := by
      simp only [Option.map_some, Option.some.injEq] at hw; exact hw.symm
    -- the evaluation
    have hvn : versionEvalNames.contains a.name = true := by
      simp only [versionLikeNames, List.contains_cons, List.contains_nil, Bool.or_false, Bool.or_eq_true, beq_iff_eq] at hn
      rcases hn with h | h | h <;> simp [versionEvalNames, h]
    have hnx : (a.name == "extra") = false := by
      simp only [versionLikeNames, List.contains_cons, List.contains_nil, Bool.or_false, Bool.or_eq_true, beq_iff_eq] at hn
      rcases hn with h | h | h <;> simp [h]
    have hns : (a.name == "extras" || a.name == "dependency_groups") = false := by
      simp only [versionLikeNames, List.contains_cons, List.contains_nil, Bool.or_false, Bool.or_eq_true, beq_iff_eq] at hn
      rcases hn with h | h | h <;> simp [h]
    unfold Atom.Coherent
    rw [hspec, holds_ver, envVer, ht]
    simp only [hv]
    simp only [sem, Atom.eval, hnx, Bool.false_eq_true, if_false, ht, hns, hr, hvn, if_true]
    rw [specContains_eq a.op hop a.value t c hl.one v hv hf]
    cases hm0 : Pep440.matchesFinal c { release := [0] } with
    | none =>
      -- `~=N`: then `fromClause` would have failed too
      exfalso
      rcases c with ⟨op, w, wild⟩
      cases op <;> cases wild <;> simp [Pep440.matchesFinal] at hm0
      all_goals
        simp only [fromClause, Option.map_eq_some_iff, Ver.nextSeries] at hfc
        obtain ⟨mx, hmx, _⟩ := hfc
        have : w.release.length - 1 = 0 := by omega
        simp [this] at hmx
    | some _ =>
      simp only
      cases hm : Pep440.matchesFinal c v with
      | none =>
        exfalso
        rcases c with ⟨op, w, wild⟩
        cases op <;> cases wild <;> simp [Pep440.matchesFinal] at hm hm0
        all_goals omega
      | some b =>
        have := C04.leaf_exact c v hf s0 b hfc hm
        simp only [Option.getD_some]
        rw [Bool.eq_iff_iff, this, decide_eq_true_iff, any_and_mem]

/-- the specifier view of a variable-on-the-left atom with a clean value is exact -/
theorem coherent_clean (env : Env) (a : Atom) (c : Clause Ver) (hw : a.WF)
    (hn : versionLikeNames.contains a.name = true) (hop : a.op ≠ .in_ ∧ a.op ≠ .notIn)
    (hr : a.reversed = false) (hcl : Clean a.value.toList)
    (hp : SpecParse.parseClauseL (a.op.str.toList ++ a.value.toList) = some c)
    (t : String) (v : Ver) (ht : env a.name = some (.str t))
    (hv : SpecParse.parseVer (trimS t) = some v) (hf : v.isFinal = true) : a.Coherent env :=
  coherent_plain env a c hw hn hop hr (lexOne_of_clean a c hop hcl hp) t v ht hv hf

/-! ### literal-on-the-left atoms -/

/-- the written operator of a reversed atom, as a clause operator -/
def cReflect : COp → COp
  | .lt => .gt | .le => .ge | .gt => .lt | .ge => .le | o => o

/-- lexing facts for a reversed atom in an environment whose value for the variable is `t`:
    `_evaluate` reads `Specifier(written_op + t)` and parses the literal as the candidate -/
structure LexRev (a : Atom) (t : String) (cop : COp) (w v : Ver) : Prop where
  view : LexOne a ⟨cop, w, false⟩
  op : a.op = MOp.ofCOp cop
  notCompat : cop ≠ .compat
  envClause : SpecParse.parseClauseL (a.op.reflect.str ++ trimS t).toList = some ⟨cReflect cop, v, false⟩
  literal : SpecParse.parseVer (trimS a.value) = some w

/-- `"3.8" < python_version` and friends: evaluating with the environment's value as the
    specifier and the literal as the candidate agrees with the atom's specifier view
    (final versions on both sides; ordering and equality operators) -/
theorem coherent_reversed (env : Env) (a : Atom) (cop : COp) (w v : Ver) (hw : a.WF)
    (hn : versionLikeNames.contains a.name = true) (hr : a.reversed = true)
    (t : String) (ht : env a.name = some (.str t)) (hl : LexRev a t cop w v)
    (hv : SpecParse.parseVer (trimS t) = some v) (hf : v.isFinal = true) (hwf : w.isFinal = true) :
    a.Coherent env := by
  have hopn : a.op ≠ .in_ ∧ a.op ≠ .notIn := by
    rw [hl.op]; cases cop <;> simp [MOp.ofCOp]
  have hne : (a.op == MOp.in_ || a.op == MOp.notIn) = false := by
    cases hop' : a.op <;> simp_all
  -- the specifier view, as in `coherent_plain`
  unfold Atom.WF getSpecifier at hw
  simp only [hn, Bool.not_true, Bool.false_eq_true, if_false, hne] at hw
  simp only [parseSpecOpt, SpecParse.parseSpecString, hl.view.set, Option.map_some] at hw
  simp only [parseAlts, List.foldl_nil, parseAlt, fromSpecifierSet, List.foldl_cons, Option.bind_some] at hw
  cases hfc : fromClause (⟨cop, w, false⟩ : Clause Ver) with
  | none => simp [hfc] at hw
  | some s0 =>
    simp only [hfc, Option.map_some] at hw
    have hspec : a.spec = .ver ((Spec.range {}).and s0) := by
      simp only [Option.map_some, Option.some.injEq] at hw; exact hw.symm
    have hvn : versionEvalNames.contains a.name = true := by
      simp only [versionLikeNames, List.contains_cons, List.contains_nil, Bool.or_false, Bool.or_eq_true, beq_iff_eq] at hn
      rcases hn with h | h | h <;> simp [versionEvalNames, h]
    have hnx : (a.name == "extra") = false := by
      simp only [versionLikeNames, List.contains_cons, List.contains_nil, Bool.or_false, Bool.or_eq_true, beq_iff_eq] at hn
      rcases hn with h | h | h <;> simp [h]
    have hns : (a.name == "extras" || a.name == "dependency_groups") = false := by
      simp only [versionLikeNames, List.contains_cons, List.contains_nil, Bool.or_false, Bool.or_eq_true, beq_iff_eq] at hn
      rcases hn with h | h | h <;> simp [h]
    have hopr : a.op.reflect ≠ .in_ ∧ a.op.reflect ≠ .notIn := by
      rw [hl.op]; cases cop <;> simp [MOp.ofCOp, MOp.reflect]
    unfold Atom.Coherent
    rw [hspec, holds_ver, envVer, ht]
    simp only [hv]
    simp only [sem, Atom.eval, hnx, Bool.false_eq_true, if_false, ht, hns, hr, hvn, if_true]
    rw [specContains_eq a.op.reflect hopr t a.value _ hl.envClause w hl.literal hwf]
    have hm0 : ∃ b0, Pep440.matchesFinal ⟨cReflect cop, v, false⟩ { release := [0] } = some b0 := by
      have hnc := hl.notCompat
      cases cop <;> first | exact absurd rfl hnc | exact ⟨_, rfl⟩
    obtain ⟨b0, hb0⟩ := hm0
    simp only [hb0]
    -- the view side through C04
    have hmv : ∃ b, Pep440.matchesFinal ⟨cop, w, false⟩ v = some b := by
      have hnc := hl.notCompat
      cases cop <;> first | exact absurd rfl hnc | exact ⟨_, rfl⟩
    obtain ⟨b, hb⟩ := hmv
    have hview := C04.leaf_exact ⟨cop, w, false⟩ v hf s0 b hfc hb
    have hdual : Pep440.matchesFinal ⟨cReflect cop, v, false⟩ w = some b := by
      have hnc := hl.notCompat
      rw [← hb]
      cases cop
      case compat => exact absurd rfl hnc
      case eq =>
        simp only [Pep440.matchesFinal, cReflect, Option.some.injEq, decide_eq_decide]
        exact And.comm
      case ne =>
        simp only [Pep440.matchesFinal, cReflect, Option.some.injEq, Bool.not_eq_eq_eq_not, Bool.not_not, decide_eq_decide]
        exact And.comm
      all_goals rfl
    rw [hdual]
    simp only [Option.getD_some]
    rw [Bool.eq_iff_iff, hview, decide_eq_true_iff, any_and_mem]

/-- non-vacuity: `python_full_version ~= "3.8.1"` is well-formed and lexes to one clause -/
example : let a : Atom := ⟨"python_full_version", .compat, "3.8.1", false,
      .ver (.range { min := some { release := [3, 8, 1] }, max := some { release := [3, 9, 0] }, incMin := true,
                     text := some ⟨.compat, { release := [3, 8, 1] }, false⟩ })⟩
    LexOne a ⟨.compat, { release := [3, 8, 1] }, false⟩ := by
  constructor <;> decide

end C11
end DepLogic
