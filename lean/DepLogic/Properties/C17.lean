import DepLogic.Model.SpecText
/-
  C17 — the specifier parser accepts exactly PEP 440 specifier sets (plus `||`, `<empty>`).

  Which *strings* packaging's `SpecifierSet` accepts is packaging's (trusted, exercised by the
  differential stream).  What is proved here is the part dep-logic adds on top: once a clause
  is accepted, the translation to a range never fails (the defect repaired by the `fix:`
  "compute wildcard and compatible-release bounds from the parsed version").
-/
namespace DepLogic
namespace C17

/-- what packaging's grammar guarantees about an accepted clause -/
def ValidClause (c : Clause Ver) : Prop :=
  1 ≤ c.ver.release.length ∧ (c.op = .compat → 2 ≤ c.ver.release.length)

theorem nextSeries_isSome (v : Ver) (n : Nat) (h1 : 1 ≤ n) (h2 : 1 ≤ v.release.length) :
    (v.nextSeries n).isSome = true := by
  unfold Ver.nextSeries
  cases h : (v.release.take n).reverse with
  | nil =>
    have h' := congrArg List.length h
    simp only [List.length_reverse, List.length_take, List.length_nil] at h'
    omega
  | cons a l => simp

/-- `_from_pkg_specifier` is total on every accepted clause: no ValueError / IndexError /
    InvalidVersion can escape `parse_version_specifier` or `from_specifierset`. -/
theorem fromClause_total (c : Clause Ver) (h : ValidClause c) : (fromClause c).isSome = true := by
  obtain ⟨h1, h2⟩ := h
  rcases c with ⟨op, v, w⟩
  simp only at h1 h2
  have hw : (v.nextSeries v.release.length).isSome = true := nextSeries_isSome v _ h1 h1
  cases op <;> cases w <;> simp [fromClause, hw] <;>
    exact nextSeries_isSome v _ (by have := h2 rfl; omega) h1

/-- whole comma lists: the fold of `&` never fails either (`Spec.and` is total) -/
theorem fromSpecifierSet_total (cs : List (Clause Ver)) (h : ∀ c ∈ cs, ValidClause c) :
    (fromSpecifierSet cs).isSome = true := by
  unfold fromSpecifierSet
  suffices H : ∀ (acc : Option (Spec Ver)), acc.isSome = true →
      (cs.foldl (fun acc c => acc.bind fun a => (fromClause c).map fun s => a.and s) acc).isSome = true from
    H _ rfl
  induction cs with
  | nil => intro acc h; simpa using h
  | cons c rest ih =>
    intro acc hacc
    simp only [List.foldl_cons]
    apply ih (fun c' hc' => h c' (by simp [hc']))
    obtain ⟨a, rfl⟩ := Option.isSome_iff_exists.1 hacc
    obtain ⟨s, hs⟩ := Option.isSome_iff_exists.1 (fromClause_total c (h c (by simp)))
    simp [hs]

example : ValidClause { op := .compat, ver := { epoch := 1, release := [2, 3] } } := by
  simp [ValidClause]
example : fromClause { op := .eq, ver := { epoch := 1, release := [2] }, wild := true } =
    some (.range { min := some { epoch := 1, release := [2, 0] }, max := some { epoch := 1, release := [3, 0] },
                   incMin := true, incMax := false,
                   text := some { op := .eq, ver := { epoch := 1, release := [2] }, wild := true } }) := by
  decide

end C17
end DepLogic
