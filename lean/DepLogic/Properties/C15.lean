import DepLogic.Proofs.MarkerEngineStep
/-
  C15 — marker results are in normal form.

  PARTIAL.  The full statement (every result of parse/&/|/only/exclude is empty, universal, a
  single marker, or a compound with >= 2 distinct children none of which is empty, universal
  or a compound of the same kind) is an invariant through the `while old != new` fixpoints of
  `MultiMarker.of`/`MarkerUnion.of`, `union_simplify`/`intersect_simplify`, cnf/dnf and the
  least-complexity choice in `union()`.  The loops are modelled with fuel, and for a run that
  exhausts its fuel the statement is false of the model, so it cannot be a theorem "for every
  fuel" the way C02's soundness is; a proof would need a termination measure for the Python
  loops, which we do not have.  What is proved, for every fuel and every operand list:

  * `flatten_nodup` / `mkMulti_nodup` / `mkUnion_nodup`: the constructors never keep two equal
    children (`flatten_items`' `if item not in flattened`), whatever they are given;
  * `multiOf_exit` / `unionOfList_exit`: `of` returns EmptyMarker/AnyMarker, or one of the
    markers of its final list, or the constructor applied to a final list with >= 2 entries
    none of which is the absorbing element — never a raw zero- or one-element list;
  * `and_neutral` / `or_neutral`: Empty/Any operands are absorbed or dropped by `&`/`|`
    themselves (the result is the other operand or the absorbing element, unchanged);
  * `and_single_shape` / `or_single_shape` (with `singleAnd_pair_distinct`, `singleOr_pair_distinct`,
    `flatten_pair`): `&` / `|` of two single markers is either the one marker the merge tables
    produce or a compound of exactly the two operands, which are then different single markers —
    never a one-child compound (what defect D23 violated).

  * FULL normal form for flat operands, for EVERY fuel: `multiOf_flat` / `unionOfList_flat`
    (`MultiMarker.of` / `MarkerUnion.of` over single markers return Empty, Any, one of them, or a
    compound of >= 2 different single markers — the loops only ever hold single markers, so this does
    not depend on convergence), and through the public operators: `and_flat` (`a & b` for flat
    conjunctions: atoms, grouped atoms, conjunctions of them) and `or_flat` (`a | b` for flat
    disjunctions), fuel >= 6; the dispatch goes through `intersection`/`dnf` resp. `union()`/`cnf`,
    `unwrapSingletons` and the least-complexity choice (`dnf_flat`, `cnf_flat`, `unionOfList_one`,
    `multiOf_one`, `intersection_flat`, `unionOf_flat`).

  The remaining obligation (mixed operands: disjunctions of conjunctions and deeper — no same-kind
  nesting and no neutral child inside the final list there) is decided on every run by the
  normal-form oracle on the implementation's results and by the structural correspondence of those
  results with this model (streams `C15.expr`, `C15.raw`).
-/
namespace DepLogic
namespace C15
open M

/-- later entries are not `==` to earlier ones -/
def NoDup : List M → Prop
  | [] => True
  | x :: xs => memB x xs = false ∧ NoDup xs

/-- `NoDup` read from the back: appending an entry not `in` the list -/
theorem nodup_append_one (acc : List M) (x : M) (h : NoDup acc) (hx : memB x acc = false) : NoDup (acc ++ [x]) := by
  induction acc with
  | nil => simp [NoDup, memB]
  | cons y ys ih =>
    simp only [memB, List.any_cons, Bool.or_eq_false_iff] at hx
    simp only [List.cons_append, NoDup]
    refine ⟨?_, ih h.2 (by simpa [memB] using hx.2)⟩
    have h1 := h.1
    simp only [memB, List.any_append, List.any_cons, List.any_nil, Bool.or_false, Bool.or_eq_false_iff] at h1 ⊢
    exact ⟨h1, by rw [beq_symm]; exact hx.1⟩

theorem addNew_nodup (acc : List M) (x : M) (h : NoDup acc) : NoDup (addNew acc x) := by
  unfold addNew
  split
  · exact h
  · rename_i hm
    exact nodup_append_one acc x h (by simpa using hm)

theorem foldl_addNew_nodup (xs acc : List M) (h : NoDup acc) : NoDup (xs.foldl addNew acc) := by
  induction xs generalizing acc with
  | nil => exact h
  | cons x xs ih => exact ih _ (addNew_nodup acc x h)

/-- `flatten_items` never keeps two equal entries -/
theorem flatten_nodup (b : Bool) : ∀ (fuel : Nat) (items acc : List M), NoDup acc → NoDup (flattenInto b fuel items acc) := by
  intro fuel
  induction fuel with
  | zero => intro items acc ha; simp only [flattenInto]; exact foldl_addNew_nodup items acc ha
  | succ n _ =>
    intro items acc ha
    simp only [flattenInto]
    induction items generalizing acc with
    | nil => exact ha
    | cons item rest ihr =>
      simp only [List.foldl_cons]
      apply ihr
      cases b <;> cases item <;>
        first
          | exact addNew_nodup acc _ ha
          | exact foldl_addNew_nodup _ acc ha

theorem mkMulti_nodup (fuel : Nat) (ms : List M) : ∃ l, mkMulti fuel ms = .multi l ∧ NoDup l :=
  ⟨_, rfl, flatten_nodup true fuel ms [] trivial⟩

theorem mkUnion_nodup (fuel : Nat) (ms : List M) : ∃ l, mkUnion fuel ms = .union l ∧ NoDup l :=
  ⟨_, rfl, flatten_nodup false fuel ms [] trivial⟩

/-- the four ways `MultiMarker.of` returns -/
theorem multiOf_exit (fuel : Nat) (ms : List M) :
    multiOf (fuel + 1) ms = .empty ∨ multiOf (fuel + 1) ms = .any ∨
    (∃ new x, multiLoop fuel [] (flattenInto true fuel ms []) = some new ∧ new = [x] ∧ multiOf (fuel + 1) ms = x) ∨
    (∃ new, multiLoop fuel [] (flattenInto true fuel ms []) = some new ∧ 2 ≤ new.length ∧
      new.any isEmpty = false ∧ multiOf (fuel + 1) ms = mkMulti fuel new) := by
  simp only [multiOf]
  cases h : multiLoop fuel [] (flattenInto true fuel ms []) with
  | none => simp
  | some new =>
    simp only
    by_cases he : new.any isEmpty = true
    · simp [he]
    · simp only [he, Bool.false_eq_true, if_false]
      match new, he with
      | [], _ => simp
      | [x], _ => simp
      | a :: b :: rest, he =>
        right; right; right
        exact ⟨_, rfl, by simp, by simpa using he, rfl⟩

/-- the four ways `MarkerUnion.of` returns -/
theorem unionOfList_exit (fuel : Nat) (ms : List M) :
    unionOfList (fuel + 1) ms = .any ∨ unionOfList (fuel + 1) ms = .empty ∨
    (∃ new x, unionLoop fuel [] (flattenInto false fuel ms []) = some new ∧ new = [x] ∧ unionOfList (fuel + 1) ms = x) ∨
    (∃ new, unionLoop fuel [] (flattenInto false fuel ms []) = some new ∧ 2 ≤ new.length ∧
      new.any isAny = false ∧ unionOfList (fuel + 1) ms = mkUnion fuel new) := by
  simp only [unionOfList]
  cases h : unionLoop fuel [] (flattenInto false fuel ms []) with
  | none => simp
  | some new =>
    simp only
    by_cases he : new.any isAny = true
    · simp [he]
    · simp only [he, Bool.false_eq_true, if_false]
      match new, he with
      | [], _ => simp
      | [x], _ => simp
      | a :: b :: rest, he =>
        right; right; right
        exact ⟨_, rfl, by simp, by simpa using he, rfl⟩

/-- `&` with a neutral or absorbing operand returns the other operand / the absorbing element itself -/
theorem and_neutral (fuel : Nat) (a : M) :
    M.and (fuel + 1) .any a = a ∧ M.and (fuel + 1) .empty a = .empty ∧
    (a.isSingle = true → M.and (fuel + 1) a .any = a ∧ M.and (fuel + 1) a .empty = .empty) := by
  refine ⟨by simp [M.and], by simp [M.and], ?_⟩
  intro h; cases a <;> simp [isSingle] at h <;> simp [M.and]

theorem or_neutral (fuel : Nat) (a : M) :
    M.or (fuel + 1) .empty a = a ∧ M.or (fuel + 1) .any a = .any ∧
    (a.isSingle = true → M.or (fuel + 1) a .empty = a ∧ M.or (fuel + 1) a .any = .any) := by
  refine ⟨by simp [M.or], by simp [M.or], ?_⟩
  intro h; cases a <;> simp [isSingle] at h <;> simp [M.or]

/-! ### the single-marker layer: `&` / `|` of two single markers never builds a one-child compound

  (Exactly what defect D23 violated: after the `fix:` 4fb0145 an atom whose specifier view is not exact
  was not merged with itself any more, `MultiMarker(m, m)` de-duplicated, and the result had one child.
  With the idempotent branch of `_merge_single_markers` (a389c12) the pair handed to the constructor is
  always two different markers.) -/

theorem singleAnd_pair_distinct (x y p q : M) (hx : x.isSingle = true) (hy : y.isSingle = true)
    (h : singleAnd x y = .pair p q) : beq p q = false ∧ p.isSingle = true ∧ q.isSingle = true := by
  cases x <;> simp [isSingle] at hx <;> cases y <;> simp [isSingle] at hy <;>
    simp only [singleAnd] at h
  · -- atom, atom
    rename_i a b
    cases hm : mergeSingle a b true with
    | some m => simp [hm] at h
    | none =>
      simp only [hm, SRes.pair.injEq] at h
      obtain ⟨rfl, rfl⟩ := h
      refine ⟨?_, rfl, rfl⟩
      unfold mergeSingle at hm
      by_cases hb : a.beq b = true
      · simp [hb] at hm
      · simpa [beq] using hb
  all_goals
    (repeat' split at h) <;> (try cases h) <;> simp_all [beq, isSingle]

theorem singleOr_pair_distinct (x y p q : M) (hx : x.isSingle = true) (hy : y.isSingle = true)
    (h : singleOr x y = .pair p q) : beq p q = false ∧ p.isSingle = true ∧ q.isSingle = true := by
  cases x <;> simp [isSingle] at hx <;> cases y <;> simp [isSingle] at hy <;>
    simp only [singleOr] at h
  · rename_i a b
    cases hm : mergeSingle a b false with
    | some m => simp [hm] at h
    | none =>
      simp only [hm, SRes.pair.injEq] at h
      obtain ⟨rfl, rfl⟩ := h
      refine ⟨?_, rfl, rfl⟩
      unfold mergeSingle at hm
      by_cases hb : a.beq b = true
      · simp [hb] at hm
      · simpa [beq] using hb
  all_goals
    (repeat' split at h) <;> (try cases h) <;> simp_all [beq, isSingle]

/-- two different single markers survive the constructor as exactly two children -/
theorem flatten_pair (b : Bool) (fuel : Nat) (p q : M) (hp : p.isSingle = true) (hq : q.isSingle = true)
    (hpq : beq p q = false) : flattenInto b (fuel + 1) [p, q] [] = [p, q] := by
  have hqp : beq q p = false := by rw [beq_symm]; exact hpq
  cases b <;> cases p <;> simp [isSingle] at hp <;> cases q <;> simp [isSingle] at hq <;>
    simp [flattenInto, addNew, memB, hqp]

/-- `a & b` for single markers: `_merge`d into one marker, or a conjunction of exactly the two, distinct -/
theorem and_single_shape (fuel : Nat) (a b : M) (ha : a.isSingle = true) (hb : b.isSingle = true) :
    (∃ m, singleAnd a b = .done m ∧ M.and (fuel + 2) a b = m) ∨
    (∃ p q, singleAnd a b = .pair p q ∧ M.and (fuel + 2) a b = .multi [p, q] ∧ beq p q = false ∧
      p.isSingle = true ∧ q.isSingle = true) := by
  cases hs : singleAnd a b with
  | done m =>
    left
    refine ⟨m, rfl, ?_⟩
    cases a <;> simp [isSingle] at ha <;> cases b <;> simp [isSingle] at hb <;> simp [M.and, hs]
  | pair p q =>
    right
    obtain ⟨hpq, hp, hq⟩ := singleAnd_pair_distinct a b p q ha hb hs
    refine ⟨p, q, rfl, ?_, hpq, hp, hq⟩
    have : M.and (fuel + 2) a b = mkMulti (fuel + 1) [p, q] := by
      cases a <;> simp [isSingle] at ha <;> cases b <;> simp [isSingle] at hb <;> simp [M.and, hs]
    rw [this, mkMulti, flatten_pair true fuel p q hp hq hpq]

theorem or_single_shape (fuel : Nat) (a b : M) (ha : a.isSingle = true) (hb : b.isSingle = true) :
    (∃ m, singleOr a b = .done m ∧ M.or (fuel + 2) a b = m) ∨
    (∃ p q, singleOr a b = .pair p q ∧ M.or (fuel + 2) a b = .union [p, q] ∧ beq p q = false ∧
      p.isSingle = true ∧ q.isSingle = true) := by
  cases hs : singleOr a b with
  | done m =>
    left
    refine ⟨m, rfl, ?_⟩
    cases a <;> simp [isSingle] at ha <;> cases b <;> simp [isSingle] at hb <;> simp [M.or, hs]
  | pair p q =>
    right
    obtain ⟨hpq, hp, hq⟩ := singleOr_pair_distinct a b p q ha hb hs
    refine ⟨p, q, rfl, ?_, hpq, hp, hq⟩
    have : M.or (fuel + 2) a b = mkUnion (fuel + 1) [p, q] := by
      cases a <;> simp [isSingle] at ha <;> cases b <;> simp [isSingle] at hb <;> simp [M.or, hs]
    rw [this, mkUnion, flatten_pair false fuel p q hp hq hpq]

/-! ### flat operand lists: `MultiMarker.of` / `MarkerUnion.of` over single markers, for EVERY fuel

  When every operand is a single marker the fixpoint loops only ever hold single markers (what is
  replaced is single, what is appended comes from the operands), so the normal form of the result does
  not depend on the loop having converged: no termination measure is needed. -/

def AllSingle (l : List M) : Prop := ∀ x ∈ l, x.isSingle = true

/-- the normal form C15 names, for a compound over single markers -/
def FlatNF (isAnd : Bool) (r : M) : Prop :=
  r = .empty ∨ r = .any ∨ r.isSingle = true ∨
  ∃ l, r = (if isAnd then .multi l else .union l) ∧ 2 ≤ l.length ∧ NoDup l ∧ AllSingle l

theorem allSingle_nil : AllSingle [] := by intro x hx; cases hx

theorem allSingle_append_one (l : List M) (x : M) (h : AllSingle l) (hx : x.isSingle = true) : AllSingle (l ++ [x]) := by
  intro y hy
  rcases List.mem_append.1 hy with h1 | h1
  · exact h y h1
  · simp at h1; rw [h1]; exact hx

theorem addNew_allSingle (acc : List M) (x : M) (h : AllSingle acc) (hx : x.isSingle = true) : AllSingle (addNew acc x) := by
  unfold addNew; split
  · exact h
  · exact allSingle_append_one acc x h hx

theorem foldl_addNew_allSingle (xs acc : List M) (hx : AllSingle xs) (ha : AllSingle acc) :
    AllSingle (xs.foldl addNew acc) := by
  induction xs generalizing acc with
  | nil => exact ha
  | cons x xs ih =>
    exact ih _ (fun y hy => hx y (List.mem_cons_of_mem _ hy)) (addNew_allSingle acc x ha (hx x (List.mem_cons_self ..)))

/-- on single markers `flatten_items` has nothing to splice -/
theorem flatten_singles (b : Bool) (fuel : Nat) (items acc : List M) (hi : AllSingle items) :
    flattenInto b fuel items acc = items.foldl addNew acc := by
  cases fuel with
  | zero => rfl
  | succ n =>
    simp only [flattenInto]
    induction items generalizing acc with
    | nil => rfl
    | cons x xs ih =>
      have hx := hi x (List.mem_cons_self ..)
      have hxs : AllSingle xs := fun y hy => hi y (List.mem_cons_of_mem _ hy)
      cases b <;> cases x <;> simp [isSingle] at hx <;> simp only [List.foldl_cons] <;> exact ih _ hxs

theorem flatten_allSingle (b : Bool) (fuel : Nat) (items : List M) (hi : AllSingle items) :
    AllSingle (flattenInto b fuel items []) := by
  rw [flatten_singles b fuel items [] hi]
  exact foldl_addNew_allSingle items [] hi allSingle_nil

/-- nothing is dropped from a duplicate-free list -/
theorem foldl_addNew_id (l acc : List M) (h : NoDup (acc ++ l)) : l.foldl addNew acc = acc ++ l := by
  induction l generalizing acc with
  | nil => simp
  | cons x xs ih =>
    simp only [List.foldl_cons]
    have hx : memB x acc = false := by
      induction acc with
      | nil => simp [memB]
      | cons a as iha =>
        simp only [List.cons_append, NoDup] at h
        have h1 := h.1
        simp only [memB, List.any_append, List.any_cons, Bool.or_eq_false_iff] at h1
        have := iha h.2
        simp only [memB, List.any_cons, Bool.or_eq_false_iff] at this ⊢
        exact ⟨by rw [beq_symm]; exact h1.2.1, this⟩
    have : addNew acc x = acc ++ [x] := by simp [addNew, hx]
    rw [this, ih (acc ++ [x]) (by simpa using h)]
    simp

theorem mk_flat (b : Bool) (fuel : Nat) (l : List M) (hs : AllSingle l) (hd : NoDup l) :
    flattenInto b fuel l [] = l := by
  rw [flatten_singles b fuel l [] hs, foldl_addNew_id l [] (by simpa using hd)]
  simp

theorem setAt_allSingle : ∀ (l : List M) (i : Nat) (m : M), AllSingle l → m.isSingle = true → AllSingle (setAt l i m)
  | [], _, _, _, _ => by simp [setAt]; exact allSingle_nil
  | x :: xs, 0, m, hl, hm => by
    intro y hy
    simp only [setAt, List.mem_cons] at hy
    rcases hy with rfl | hy
    · exact hm
    · exact hl y (List.mem_cons_of_mem _ hy)
  | x :: xs, i + 1, m, hl, hm => by
    intro y hy
    simp only [setAt, List.mem_cons] at hy
    rcases hy with rfl | hy
    · exact hl _ (List.mem_cons_self ..)
    · exact setAt_allSingle xs i m (fun z hz => hl z (List.mem_cons_of_mem _ hz)) hm y hy

theorem scan_allSingle (f : M → Step) (hf : ∀ mark m, mark.isSingle = true → f mark = .replace m → m.isSingle = true) :
    ∀ (whole : List M) (i : Nat) (rest new' : List M), AllSingle whole → AllSingle rest →
      scan f whole i rest = some (some new') → AllSingle new'
  | _, _, [], _, _, _, h => by simp [scan] at h
  | whole, i, mark :: rest, new', hw, hr, h => by
    simp only [scan] at h
    cases hfm : f mark with
    | next =>
      rw [hfm] at h
      exact scan_allSingle f hf whole (i + 1) rest new' hw (fun y hy => hr y (List.mem_cons_of_mem _ hy)) h
    | replace m =>
      rw [hfm] at h
      simp only [Option.some.injEq] at h
      subst h
      exact setAt_allSingle whole i m hw (hf mark m (hr mark (List.mem_cons_self ..)) hfm)
    | abort => rw [hfm] at h; cases h

theorem decideWith_single (isAnd : Bool) (combine : M → M → M) (simplify : M → M → Option M) (marker mark m : M)
    (hm : mark.isSingle = true) (h : decideWith isAnd combine simplify mark marker = .replace m) : m.isSingle = true := by
  unfold decideWith at h
  rw [if_pos hm] at h
  simp only at h
  by_cases c1 : (if isAnd = true then (combine mark marker).isEmpty else (combine mark marker).isAny) = true
  · rw [if_pos c1] at h; cases h
  · rw [if_neg c1] at h
    by_cases c2 : (combine mark marker).isSingle = true
    · rw [if_pos c2] at h; cases h; exact c2
    · rw [if_neg c2] at h; cases h

/-- one step of the `for marker in old_markers` loop keeps the state a duplicate-free list of single markers -/
theorem passStep_inv (isAnd : Bool) (combine : M → M → M) (simplify : M → M → Option M) (fuel : Nat)
    (new : List M) (marker : M) (hn : AllSingle new) (hd : NoDup new) (hm : marker.isSingle = true) :
    ∀ out, passStep isAnd (decideWith isAnd combine simplify) (fun l => flattenInto isAnd fuel l []) (some new) marker = some out →
      AllSingle out ∧ NoDup out := by
  intro out h
  simp only [passStep] at h
  by_cases hmem : memB marker new = true
  · rw [if_pos hmem] at h; cases h; exact ⟨hn, hd⟩
  · rw [if_neg hmem] at h
    by_cases hskip : (if isAnd = true then marker.isAny else marker.isEmpty) = true
    · rw [if_pos hskip] at h; cases h; exact ⟨hn, hd⟩
    · rw [if_neg hskip] at h
      cases hs : scan (fun mark => decideWith isAnd combine simplify mark marker) new 0 new with
      | none => rw [hs] at h; cases h
      | some r =>
        rw [hs] at h
        cases r with
        | some new' =>
          simp only [Option.some.injEq] at h
          subst h
          have h1 := scan_allSingle (fun mark => decideWith isAnd combine simplify mark marker)
            (fun mark m hmk hr => decideWith_single isAnd combine simplify marker mark m hmk hr) new 0 new new' hn hn hs
          exact ⟨flatten_allSingle isAnd fuel new' h1, flatten_nodup isAnd fuel new' [] trivial⟩
        | none =>
          simp only [Option.some.injEq] at h
          subst h
          exact ⟨allSingle_append_one new marker hn hm, nodup_append_one new marker hd (by simpa using hmem)⟩

theorem pass_inv (isAnd : Bool) (combine : M → M → M) (simplify : M → M → Option M) (fuel : Nat) :
    ∀ (old st out : List M), AllSingle old → AllSingle st → NoDup st →
      old.foldl (passStep isAnd (decideWith isAnd combine simplify) (fun l => flattenInto isAnd fuel l [])) (some st) = some out →
      AllSingle out ∧ NoDup out
  | [], st, out, _, hs, hd, h => by simp at h; subst h; exact ⟨hs, hd⟩
  | m :: rest, st, out, ho, hs, hd, h => by
    simp only [List.foldl_cons] at h
    cases hst : passStep isAnd (decideWith isAnd combine simplify) (fun l => flattenInto isAnd fuel l []) (some st) m with
    | none =>
      rw [hst] at h
      have : ∀ l : List M, l.foldl (passStep isAnd (decideWith isAnd combine simplify) (fun l => flattenInto isAnd fuel l [])) none = none := by
        intro l; induction l with
        | nil => rfl
        | cons _ _ ih => simpa [passStep] using ih
      rw [this] at h; cases h
    | some st' =>
      rw [hst] at h
      obtain ⟨h1, h2⟩ := passStep_inv isAnd combine simplify fuel st m hs hd (ho m (List.mem_cons_self ..)) st' hst
      exact pass_inv isAnd combine simplify fuel rest st' out (fun y hy => ho y (List.mem_cons_of_mem _ hy)) h1 h2 h

theorem multiPass_inv (fuel : Nat) (old out : List M) (ho : AllSingle old) (hd : NoDup old)
    (h : multiPass fuel old = some out) : AllSingle out ∧ NoDup out := by
  cases fuel with
  | zero => simp [multiPass] at h; subst h; exact ⟨ho, hd⟩
  | succ n =>
    simp only [multiPass] at h
    exact pass_inv true (M.and n) (intersectSimplify n) n old [] out ho allSingle_nil trivial h

theorem unionPass_inv (fuel : Nat) (old out : List M) (ho : AllSingle old) (hd : NoDup old)
    (h : unionPass fuel old = some out) : AllSingle out ∧ NoDup out := by
  cases fuel with
  | zero => simp [unionPass] at h; subst h; exact ⟨ho, hd⟩
  | succ n =>
    simp only [unionPass] at h
    exact pass_inv false (M.or n) (unionSimplify n) n old [] out ho allSingle_nil trivial h

theorem multiLoop_inv : ∀ (fuel : Nat) (old new out : List M), AllSingle new → NoDup new →
    multiLoop fuel old new = some out → AllSingle out ∧ NoDup out
  | 0, _, new, out, hs, hd, h => by simp [multiLoop] at h; subst h; exact ⟨hs, hd⟩
  | fuel + 1, old, new, out, hs, hd, h => by
    simp only [multiLoop] at h
    split at h
    · cases h; exact ⟨hs, hd⟩
    · cases hp : multiPass fuel new with
      | none => simp [hp] at h
      | some new' =>
        simp only [hp] at h
        obtain ⟨h1, h2⟩ := multiPass_inv fuel new new' hs hd hp
        exact multiLoop_inv fuel new new' out h1 h2 h

theorem unionLoop_inv : ∀ (fuel : Nat) (old new out : List M), AllSingle new → NoDup new →
    unionLoop fuel old new = some out → AllSingle out ∧ NoDup out
  | 0, _, new, out, hs, hd, h => by simp [unionLoop] at h; subst h; exact ⟨hs, hd⟩
  | fuel + 1, old, new, out, hs, hd, h => by
    simp only [unionLoop] at h
    split at h
    · cases h; exact ⟨hs, hd⟩
    · cases hp : unionPass fuel new with
      | none => simp [hp] at h
      | some new' =>
        simp only [hp] at h
        obtain ⟨h1, h2⟩ := unionPass_inv fuel new new' hs hd hp
        exact unionLoop_inv fuel new new' out h1 h2 h

/-- **C15 for flat conjunctions, every fuel**: `MultiMarker.of` over single markers returns Empty, Any, one of
    them, or a conjunction of at least two different single markers — whether or not the loop converged -/
theorem multiOf_flat (fuel : Nat) (ms : List M) (hs : AllSingle ms) : FlatNF true (multiOf (fuel + 1) ms) := by
  have h0s := flatten_allSingle true fuel ms hs
  have h0d := flatten_nodup true fuel ms [] trivial
  simp only [multiOf]
  cases hl : multiLoop fuel [] (flattenInto true fuel ms []) with
  | none => left; rfl
  | some new =>
    obtain ⟨h1, h2⟩ := multiLoop_inv fuel [] _ new h0s h0d hl
    simp only
    split
    · left; rfl
    · match new, h1, h2 with
      | [], _, _ => right; left; rfl
      | [m], h1, _ => right; right; left; exact h1 m (List.mem_cons_self ..)
      | a :: b :: rest, h1, h2 =>
        right; right; right
        refine ⟨a :: b :: rest, ?_, by simp, h2, h1⟩
        simp only [mkMulti, if_true]
        rw [mk_flat true fuel _ h1 h2]

/-- **C15 for flat disjunctions, every fuel** -/
theorem unionOfList_flat (fuel : Nat) (ms : List M) (hs : AllSingle ms) : FlatNF false (unionOfList (fuel + 1) ms) := by
  have h0s := flatten_allSingle false fuel ms hs
  have h0d := flatten_nodup false fuel ms [] trivial
  simp only [unionOfList]
  cases hl : unionLoop fuel [] (flattenInto false fuel ms []) with
  | none => right; left; rfl
  | some new =>
    obtain ⟨h1, h2⟩ := unionLoop_inv fuel [] _ new h0s h0d hl
    simp only
    split
    · right; left; rfl
    · match new, h1, h2 with
      | [], _, _ => left; rfl
      | [m], h1, _ => right; right; left; exact h1 m (List.mem_cons_self ..)
      | a :: b :: rest, h1, h2 =>
        right; right; right
        refine ⟨a :: b :: rest, ?_, by simp, h2, h1⟩
        simp only [mkUnion, Bool.false_eq_true, if_false]
        rw [mk_flat false fuel _ h1 h2]

/-! ### closure: `&` on flat conjunctions, `|` on flat disjunctions (the public operators, fuel ≥ 6) -/

theorem atom_beq_refl (a : Atom) : a.beq a = true := by simp [Atom.beq]

mutual
theorem mbeq_refl : ∀ (x : M), beq x x = true
  | .any | .empty => rfl
  | .expr a => by simp [beq, atom_beq_refl]
  | .eqU _ _ | .neM _ _ => by simp [beq, setEq]
  | .multi a => by simp only [beq]; exact mbeqList_refl a
  | .union a => by simp only [beq]; exact mbeqList_refl a
theorem mbeqList_refl : ∀ (xs : List M), beqList xs xs = true
  | [] => rfl
  | x :: xs => by simp only [beqList, Bool.and_eq_true]; exact ⟨mbeq_refl x, mbeqList_refl xs⟩
end

theorem dnf_single (f : Nat) (x : M) (hx : x.isSingle = true) : dnf f x = x := by
  cases f <;> cases x <;> simp [isSingle] at hx <;> simp [dnf]

theorem cnf_single (f : Nat) (x : M) (hx : x.isSingle = true) : cnf f x = x := by
  cases f <;> cases x <;> simp [isSingle] at hx <;> simp [cnf]

theorem unionChildren_single (x : M) (hx : x.isSingle = true) : unionChildren x = [x] := by
  cases x <;> simp [isSingle] at hx <;> rfl

theorem multiChildren_single (x : M) (hx : x.isSingle = true) : multiChildren x = [x] := by
  cases x <;> simp [isSingle] at hx <;> rfl

theorem product_singletons : ∀ (l : List M), product (l.map fun x => [x]) = [l]
  | [] => rfl
  | x :: xs => by simp [product, product_singletons xs]

theorem map_dnf_singles (f : Nat) : ∀ (l : List M), AllSingle l →
    (l.map (dnf f)).map unionChildren = l.map fun x => [x]
  | [], _ => rfl
  | x :: xs, h => by
    have hx := h x (List.mem_cons_self ..)
    simp only [List.map_cons, dnf_single f x hx, unionChildren_single x hx]
    rw [map_dnf_singles f xs (fun y hy => h y (List.mem_cons_of_mem _ hy))]

theorem map_cnf_singles (f : Nat) : ∀ (l : List M), AllSingle l →
    (l.map (cnf f)).map multiChildren = l.map fun x => [x]
  | [], _ => rfl
  | x :: xs, h => by
    have hx := h x (List.mem_cons_self ..)
    simp only [List.map_cons, cnf_single f x hx, multiChildren_single x hx]
    rw [map_cnf_singles f xs (fun y hy => h y (List.mem_cons_of_mem _ hy))]

/-- `dnf` of a flat conjunction is `MarkerUnion.of(MultiMarker.of(*children))` -/
theorem dnf_flat (g : Nat) (l : List M) (hs : AllSingle l) :
    dnf (g + 1) (.multi l) = unionOfList g [multiOf g l] := by
  simp only [dnf, map_dnf_singles g l hs, product_singletons, List.map_cons, List.map_nil]

theorem cnf_flat (g : Nat) (l : List M) (hs : AllSingle l) :
    cnf (g + 1) (.union l) = multiOf g [unionOfList g l] := by
  simp only [cnf, map_cnf_singles g l hs, product_singletons, List.map_cons, List.map_nil]

theorem memB_nil (x : M) : memB x [] = false := rfl

/-- `MarkerUnion.of(m)` of one marker that is not itself a union is that marker -/
theorem unionOfList_one (f : Nat) (r : M) (hr : r.isUnion = false) : unionOfList (f + 3) [r] = r := by
  cases r with
  | union _ => simp [isUnion] at hr
  | empty =>
    cases f <;>
      simp [unionOfList, unionLoop, unionPass, flattenInto, addNew, memB_nil, passStep, beqList, isEmpty]
  | any =>
    simp [unionOfList, unionLoop, unionPass, flattenInto, addNew, memB_nil, passStep, scan, beqList, isEmpty, isAny, beq]
  | expr a =>
    simp [unionOfList, unionLoop, unionPass, flattenInto, addNew, memB_nil, passStep, scan, beqList, isEmpty, isAny, beq, atom_beq_refl]
  | eqU n vs =>
    simp [unionOfList, unionLoop, unionPass, flattenInto, addNew, memB_nil, passStep, scan, beqList, isEmpty, isAny, beq, setEq]
  | neM n vs =>
    simp [unionOfList, unionLoop, unionPass, flattenInto, addNew, memB_nil, passStep, scan, beqList, isEmpty, isAny, beq, setEq]
  | multi l =>
    simp [unionOfList, unionLoop, unionPass, flattenInto, addNew, memB_nil, passStep, scan, beqList, isEmpty, isAny, beq, mbeqList_refl]

theorem multiOf_one (f : Nat) (r : M) (hr : r.isMulti = false) : multiOf (f + 3) [r] = r := by
  cases r with
  | multi _ => simp [isMulti] at hr
  | any =>
    cases f <;>
      simp [multiOf, multiLoop, multiPass, flattenInto, addNew, memB_nil, passStep, beqList, isAny]
  | empty =>
    simp [multiOf, multiLoop, multiPass, flattenInto, addNew, memB_nil, passStep, scan, beqList, isEmpty, isAny, beq]
  | expr a =>
    simp [multiOf, multiLoop, multiPass, flattenInto, addNew, memB_nil, passStep, scan, beqList, isEmpty, isAny, beq, atom_beq_refl]
  | eqU n vs =>
    simp [multiOf, multiLoop, multiPass, flattenInto, addNew, memB_nil, passStep, scan, beqList, isEmpty, isAny, beq, setEq]
  | neM n vs =>
    simp [multiOf, multiLoop, multiPass, flattenInto, addNew, memB_nil, passStep, scan, beqList, isEmpty, isAny, beq, setEq]
  | union l =>
    simp [multiOf, multiLoop, multiPass, flattenInto, addNew, memB_nil, passStep, scan, beqList, isEmpty, isAny, beq, mbeqList_refl]

/-- empty, universal or one single marker: what the merge tables return -/
def Atomic (m : M) : Prop := m = .empty ∨ m = .any ∨ m.isSingle = true

theorem eqReplace_atomic (n : String) (vals : List String) : Atomic (eqReplace n vals) := by
  match vals with
  | [] => left; rfl
  | [v] => right; right; rfl
  | _ :: _ :: _ => right; right; rfl

theorem neReplace_atomic (n : String) (vals : List String) : Atomic (neReplace n vals) := by
  match vals with
  | [] => right; left; rfl
  | [v] => right; right; rfl
  | _ :: _ :: _ => right; right; rfl

theorem fromSpecifier_atomic (name : String) (sp : ASpec) (m : M) (h : fromSpecifier name sp = some m) : Atomic m := by
  unfold fromSpecifier at h
  by_cases h1 : sp.isAny = true
  · rw [if_pos h1] at h; cases h; right; left; rfl
  · rw [if_neg h1] at h
    by_cases h2 : sp.isEmpty = true
    · rw [if_pos h2] at h; cases h; left; rfl
    · rw [if_neg h2] at h
      cases sp with
      | gen g =>
        simp only [Option.bind_eq_some_iff, Option.map_eq_some_iff] at h
        obtain ⟨_, _, a, _, rfl⟩ := h
        right; right; rfl
      | ver v =>
        simp only at h
        split at h
        · cases h
        · simp only [Option.bind_eq_some_iff, Option.map_eq_some_iff] at h
          obtain ⟨_, _, a, _, rfl⟩ := h
          right; right; rfl

theorem mergeSingle_atomic (a b : Atom) (isAnd : Bool) (m : M) (h : mergeSingle a b isAnd = some m) : Atomic m := by
  unfold mergeSingle at h
  by_cases hb : a.beq b = true
  · rw [if_pos hb] at h; cases h; right; right; rfl
  · rw [if_neg hb] at h
    split at h
    · unfold mergeSingleCore mergePythonVersion at h
      (repeat' split at h) <;> (try cases h) <;>
        first
          | (right; right; rfl)
          | exact fromSpecifier_atomic _ _ _ h
    · cases h

theorem singleAnd_done_atomic (x y m : M) (h : singleAnd x y = .done m) : Atomic m := by
  cases x <;> cases y <;> simp only [singleAnd] at h <;> (try cases h)
  case expr.expr a b =>
    cases hm : mergeSingle a b true with
    | some r => simp only [hm, SRes.done.injEq] at h; subst h; exact mergeSingle_atomic a b true r hm
    | none => simp [hm] at h
  all_goals
    (repeat' split at h) <;> (try cases h) <;>
      first
        | exact eqReplace_atomic _ _
        | exact neReplace_atomic _ _
        | (left; rfl)
        | (right; left; rfl)
        | (right; right; rfl)

theorem singleOr_done_atomic (x y m : M) (h : singleOr x y = .done m) : Atomic m := by
  cases x <;> cases y <;> simp only [singleOr] at h <;> (try cases h)
  case expr.expr a b =>
    cases hm : mergeSingle a b false with
    | some r => simp only [hm, SRes.done.injEq] at h; subst h; exact mergeSingle_atomic a b false r hm
    | none => simp [hm] at h
  all_goals
    (repeat' split at h) <;> (try cases h) <;>
      first
        | exact eqReplace_atomic _ _
        | exact neReplace_atomic _ _
        | (left; rfl)
        | (right; left; rfl)
        | (right; right; rfl)

theorem atomic_flatNF (b : Bool) (m : M) (h : Atomic m) : FlatNF b m := by
  rcases h with h | h | h
  · exact Or.inl h
  · exact Or.inr (Or.inl h)
  · exact Or.inr (Or.inr (Or.inl h))

/-- a flat conjunction: a single marker, or a MultiMarker over single markers -/
def FlatConj (m : M) : Prop := m.isSingle = true ∨ ∃ l, m = .multi l ∧ AllSingle l
/-- a flat disjunction -/
def FlatDisj (m : M) : Prop := m.isSingle = true ∨ ∃ l, m = .union l ∧ AllSingle l

theorem flatNF_notUnion (r : M) (h : FlatNF true r) : r.isUnion = false := by
  rcases h with rfl | rfl | h | ⟨l, rfl, _⟩
  · rfl
  · rfl
  · cases r <;> simp [isSingle] at h <;> rfl
  · rfl

theorem flatNF_notMulti (r : M) (h : FlatNF false r) : r.isMulti = false := by
  rcases h with rfl | rfl | h | ⟨l, rfl, _⟩
  · rfl
  · rfl
  · cases r <;> simp [isSingle] at h <;> rfl
  · rfl

/-- the constructor flattens flat conjunctions into single markers -/
theorem flatten_flatConj (g : Nat) : ∀ (items acc : List M), (∀ x ∈ items, FlatConj x) → AllSingle acc →
    AllSingle (flattenInto true (g + 1) items acc) := by
  intro items
  simp only [flattenInto]
  induction items with
  | nil => intro acc _ ha; exact ha
  | cons x xs ih =>
    intro acc hi ha
    simp only [List.foldl_cons]
    apply ih _ (fun y hy => hi y (List.mem_cons_of_mem _ hy))
    rcases hi x (List.mem_cons_self ..) with hx | ⟨l, rfl, hl⟩
    · cases x <;> simp [isSingle] at hx <;> exact addNew_allSingle acc _ ha (by simp [isSingle])
    · exact foldl_addNew_allSingle _ acc (flatten_allSingle true g l hl) ha

theorem flatten_flatDisj (g : Nat) : ∀ (items acc : List M), (∀ x ∈ items, FlatDisj x) → AllSingle acc →
    AllSingle (flattenInto false (g + 1) items acc) := by
  intro items
  simp only [flattenInto]
  induction items with
  | nil => intro acc _ ha; exact ha
  | cons x xs ih =>
    intro acc hi ha
    simp only [List.foldl_cons]
    apply ih _ (fun y hy => hi y (List.mem_cons_of_mem _ hy))
    rcases hi x (List.mem_cons_self ..) with hx | ⟨l, rfl, hl⟩
    · cases x <;> simp [isSingle] at hx <;> exact addNew_allSingle acc _ ha (by simp [isSingle])
    · exact foldl_addNew_allSingle _ acc (flatten_allSingle false g l hl) ha

/-- `intersection(a, b)` of two flat conjunctions is in normal form -/
theorem intersection_flat (f : Nat) (a b : M) (ha : FlatConj a) (hb : FlatConj b) :
    FlatNF true (intersection (f + 5) [a, b]) := by
  simp only [intersection, mkMulti]
  have hL := flatten_flatConj (f + 3) [a, b] [] (by
    intro x hx; simp only [List.mem_cons, List.mem_nil_iff, or_false] at hx; rcases hx with rfl | rfl <;> assumption) allSingle_nil
  rw [dnf_flat (f + 3) _ hL]
  have hr := multiOf_flat (f + 2) _ hL
  rw [unionOfList_one f _ (flatNF_notUnion _ hr)]
  exact hr

/-- **C15 for `&` on flat conjunctions** (atoms, grouped atoms, conjunctions of them), every fuel ≥ 6 -/
theorem and_flat (f : Nat) (a b : M) (ha : FlatConj a) (hb : FlatConj b) : FlatNF true (M.and (f + 6) a b) := by
  rcases ha with ha | ⟨la, rfl, hla⟩
  · rcases hb with hb | ⟨lb, rfl, hlb⟩
    · -- two single markers
      rcases and_single_shape (f + 4) a b ha hb with ⟨m, hs, hm⟩ | ⟨p, q, _, hm, hpq, hp, hq⟩
      · rw [hm]
        exact atomic_flatNF true m (singleAnd_done_atomic a b m hs)
      · rw [hm]
        right; right; right
        refine ⟨[p, q], by simp, by simp, ?_, ?_⟩
        · simp [NoDup, memB, hpq]
        · intro x hx; simp only [List.mem_cons, List.mem_nil_iff, or_false] at hx; rcases hx with rfl | rfl <;> assumption
    · -- single & conjunction: MultiMarker.__rand__
      have : M.and (f + 6) a (.multi lb) = intersection (f + 5) [.multi lb, a] := by
        cases a <;> simp [isSingle] at ha <;> simp [M.and]
      rw [this]
      exact intersection_flat f _ _ (Or.inr ⟨lb, rfl, hlb⟩) (Or.inl ha)
  · have : M.and (f + 6) (.multi la) b = intersection (f + 5) [.multi la, b] := by simp [M.and]
    rw [this]
    exact intersection_flat f _ _ (Or.inr ⟨la, rfl, hla⟩) hb

theorem unwrap_union (k : Nat) (l : List M) (hl : AllSingle l) :
    unwrapSingletons (k + 1) (.union l) = .union l ∨ ∃ x, l = [x] ∧ unwrapSingletons (k + 1) (.union l) = x := by
  match l, hl with
  | [], _ => left; rfl
  | [x], hl =>
    right
    refine ⟨x, rfl, ?_⟩
    have hx := hl x (List.mem_cons_self ..)
    simp only [unwrapSingletons]
    cases k <;> cases x <;> simp [isSingle] at hx <;> simp [unwrapSingletons]
  | _ :: _ :: _, _ => left; rfl

/-- `union(a, b)` of two non-empty flat disjunctions is in normal form -/
theorem unionOf_flat (f : Nat) (a b : M) (ha : FlatDisj a) (hb : FlatDisj b) (hae : a.isEmpty = false) (hbe : b.isEmpty = false) :
    FlatNF false (unionOf (f + 5) [a, b]) := by
  simp only [unionOf, List.filter_cons, List.filter_nil, hae, hbe, Bool.not_false, if_true, mkUnion]
  have hL := flatten_flatDisj (f + 3) [a, b] [] (by
    intro x hx; simp only [List.mem_cons, List.mem_nil_iff, or_false] at hx; rcases hx with rfl | rfl <;> assumption) allSingle_nil
  generalize flattenInto false (f + 3 + 1) [a, b] [] = L at hL
  rcases unwrap_union (f + 4) L hL with hu | ⟨x, rfl, hu⟩
  · rw [hu, cnf_flat (f + 3) L hL]
    have hr := unionOfList_flat (f + 2) L hL
    rw [multiOf_one f _ (flatNF_notMulti _ hr)]
    simp only [flatNF_notMulti _ hr, Bool.not_false, if_true]
    exact hr
  · rw [hu]
    have hx := hL x (List.mem_cons_self ..)
    rw [cnf_single _ x hx]
    have : x.isMulti = false := by cases x <;> simp [isSingle] at hx <;> rfl
    simp only [this, Bool.not_false, if_true]
    exact Or.inr (Or.inr (Or.inl hx))

/-- **C15 for `|` on flat disjunctions**, every fuel ≥ 6 -/
theorem or_flat (f : Nat) (a b : M) (ha : FlatDisj a) (hb : FlatDisj b) : FlatNF false (M.or (f + 6) a b) := by
  rcases ha with ha | ⟨la, rfl, hla⟩
  · rcases hb with hb | ⟨lb, rfl, hlb⟩
    · rcases or_single_shape (f + 4) a b ha hb with ⟨m, hs, hm⟩ | ⟨p, q, _, hm, hpq, hp, hq⟩
      · rw [hm]
        exact atomic_flatNF false m (singleOr_done_atomic a b m hs)
      · rw [hm]
        right; right; right
        refine ⟨[p, q], by simp, by simp, ?_, ?_⟩
        · simp [NoDup, memB, hpq]
        · intro x hx; simp only [List.mem_cons, List.mem_nil_iff, or_false] at hx; rcases hx with rfl | rfl <;> assumption
    · have : M.or (f + 6) a (.union lb) = unionOf (f + 5) [.union lb, a] := by
        cases a <;> simp [isSingle] at ha <;> simp [M.or]
      rw [this]
      exact unionOf_flat f _ _ (Or.inr ⟨lb, rfl, hlb⟩) (Or.inl ha) rfl (by cases a <;> simp [isSingle] at ha <;> rfl)
  · have : M.or (f + 6) (.union la) b = unionOf (f + 5) [.union la, b] := by simp [M.or]
    rw [this]
    have hbe : b.isEmpty = false := by
      rcases hb with hb | ⟨lb, rfl, _⟩
      · cases b <;> simp [isSingle] at hb <;> rfl
      · rfl
    exact unionOf_flat f _ _ (Or.inr ⟨la, rfl, hla⟩) hb rfl hbe

theorem exclude_single (f : Nat) (c : M) (name : String) (hc : c.isSingle = true)
    (hne : (c.singleName? == some name) = false) : exclude f c name = c := by
  cases f with
  | zero => rfl
  | succ n => cases c <;> simp [isSingle] at hc <;> simp only [exclude] <;> simp [hne]

theorem exclude_multi_eq (f : Nat) (l : List M) (name : String) :
    exclude (f + 1) (.multi l) name = multiOf f (l.filterMap fun c =>
      if c.isSingle && c.singleName? == some name then none
      else
        let e := exclude f c name
        if e.isEmpty then none else some e) := rfl

/-- `exclude()` / `without_extras()` on a flat conjunction stays in normal form (every fuel ≥ 2) -/
theorem exclude_flat_multi (f : Nat) (l : List M) (name : String) (hl : AllSingle l) :
    FlatNF true (exclude (f + 2) (.multi l) name) := by
  rw [exclude_multi_eq]
  apply multiOf_flat
  intro x hx
  simp only [List.mem_filterMap] at hx
  obtain ⟨c, hc, hcx⟩ := hx
  have hcs := hl c hc
  by_cases hcond : (c.isSingle && c.singleName? == some name) = true
  · rw [if_pos hcond] at hcx; cases hcx
  · rw [if_neg hcond] at hcx
    have hne : (c.singleName? == some name) = false := by
      simp only [hcs, Bool.true_and] at hcond
      simpa using hcond
    simp only [exclude_single (f + 1) c name hcs hne] at hcx
    have : c.isEmpty = false := by cases c <;> simp [isSingle] at hcs <;> rfl
    simp only [this, Bool.false_eq_true, if_false, Option.some.injEq] at hcx
    rw [← hcx]; exact hcs

theorem exclude_union_eq (f : Nat) (l : List M) (name : String) :
    exclude (f + 1) (.union l) name =
      (let kept := l.filterMap fun c =>
         if c.isSingle && c.singleName? == some name then none else some (exclude f c name)
       if kept.isEmpty then .any else unionOfList f kept) := rfl

/-- the same for a flat disjunction -/
theorem exclude_flat_union (f : Nat) (l : List M) (name : String) (hl : AllSingle l) :
    FlatNF false (exclude (f + 2) (.union l) name) := by
  rw [exclude_union_eq]
  simp only
  split
  · right; left; rfl
  · apply unionOfList_flat
    intro x hx
    simp only [List.mem_filterMap] at hx
    obtain ⟨c, hc, hcx⟩ := hx
    have hcs := hl c hc
    by_cases hcond : (c.isSingle && c.singleName? == some name) = true
    · rw [if_pos hcond] at hcx; cases hcx
    · rw [if_neg hcond] at hcx
      have hne : (c.singleName? == some name) = false := by
        simp only [hcs, Bool.true_and] at hcond
        simpa using hcond
      simp only [exclude_single (f + 1) c name hcs hne, Option.some.injEq] at hcx
      rw [← hcx]; exact hcs

/-! non-vacuity: concrete flat operands, and what the model computes for them -/

def atomA : M := .expr ⟨"os_name", .eq, "a", false, .gen ⟨.eq, "a"⟩⟩
def atomB : M := .expr ⟨"sys_platform", .ne, "b", false, .gen ⟨.ne, "b"⟩⟩
def atomC : M := .expr ⟨"platform_machine", .eq, "c", false, .gen ⟨.eq, "c"⟩⟩

example : FlatConj (.multi [atomA, atomB]) ∧ FlatConj atomC :=
  ⟨Or.inr ⟨_, rfl, by intro x hx; simp at hx; rcases hx with rfl | rfl <;> rfl⟩, Or.inl rfl⟩

example : beq (M.and 8 (.multi [atomA, atomB]) atomC) (.multi [atomA, atomB, atomC]) = true := by decide
example : beq (M.or 8 (.union [atomA, atomB]) atomC) (.union [atomA, atomB, atomC]) = true := by decide
example : beq (M.and 8 (.multi [atomA, atomB]) atomA) (.multi [atomA, atomB]) = true := by decide

end C15
end DepLogic
