import DepLogic.Proofs.MarkerEngineStep
/-
  C15 — marker results are in normal form.

  PARTIAL.  The full statement (every result of parse/&/|/only/exclude is empty, universal, a
  single marker, or a compound with >= 2 distinct children none of which is empty, universal
  or a compound of the same kind) is an invariant through the `while old != new` fixpoints of
  `MultiMarker.of`/`MarkerUnion.of`, `union_simplify`/`intersect_simplify`, cnf/dnf and the
  least-complexity choice in `union()`.  The loops are modelled with fuel, and for a run that
  exhausts its fuel the statement is false of the model, so it cannot be a theorem "for every
  fuel" the way C02's soundness is; a proof would need a termination measure for the Python
  loops, which we do not have.  What is proved, for every fuel and every operand list:

  * `flatten_nodup` / `mkMulti_nodup` / `mkUnion_nodup`: the constructors never keep two equal
    children (`flatten_items`' `if item not in flattened`), whatever they are given;
  * `multiOf_exit` / `unionOfList_exit`: `of` returns EmptyMarker/AnyMarker, or one of the
    markers of its final list, or the constructor applied to a final list with >= 2 entries
    none of which is the absorbing element — never a raw zero- or one-element list;
  * `and_neutral` / `or_neutral`: Empty/Any operands are absorbed or dropped by `&`/`|`
    themselves (the result is the other operand or the absorbing element, unchanged).

  The remaining obligation (no same-kind nesting and no neutral child inside the final list)
  is decided on every run by the normal-form oracle on the implementation's results and by the
  structural correspondence of those results with this model (streams `C15.expr`, `C15.raw`).
-/
namespace DepLogic
namespace C15
open M

/-- later entries are not `==` to earlier ones -/
def NoDup : List M → Prop
  | [] => True
  | x :: xs => memB x xs = false ∧ NoDup xs

/-- `NoDup` read from the back: appending an entry not `in` the list -/
theorem nodup_append_one (acc : List M) (x : M) (h : NoDup acc) (hx : memB x acc = false) : NoDup (acc ++ [x]) := by
  induction acc with
  | nil => simp [NoDup, memB]
  | cons y ys ih =>
    simp only [memB, List.any_cons, Bool.or_eq_false_iff] at hx
    simp only [List.cons_append, NoDup]
    refine ⟨?_, ih h.2 (by simpa [memB] using hx.2)⟩
    have h1 := h.1
    simp only [memB, List.any_append, List.any_cons, List.any_nil, Bool.or_false, Bool.or_eq_false_iff] at h1 ⊢
    exact ⟨h1, by rw [beq_symm]; exact hx.1⟩

theorem addNew_nodup (acc : List M) (x : M) (h : NoDup acc) : NoDup (addNew acc x) := by
  unfold addNew
  split
  · exact h
  · rename_i hm
    exact nodup_append_one acc x h (by simpa using hm)

theorem foldl_addNew_nodup (xs acc : List M) (h : NoDup acc) : NoDup (xs.foldl addNew acc) := by
  induction xs generalizing acc with
  | nil => exact h
  | cons x xs ih => exact ih _ (addNew_nodup acc x h)

/-- `flatten_items` never keeps two equal entries -/
theorem flatten_nodup (b : Bool) : ∀ (fuel : Nat) (items acc : List M), NoDup acc → NoDup (flattenInto b fuel items acc) := by
  intro fuel
  induction fuel with
  | zero => intro items acc ha; simp only [flattenInto]; exact foldl_addNew_nodup items acc ha
  | succ n _ =>
    intro items acc ha
    simp only [flattenInto]
    induction items generalizing acc with
    | nil => exact ha
    | cons item rest ihr =>
      simp only [List.foldl_cons]
      apply ihr
      cases b <;> cases item <;>
        first
          | exact addNew_nodup acc _ ha
          | exact foldl_addNew_nodup _ acc ha

theorem mkMulti_nodup (fuel : Nat) (ms : List M) : ∃ l, mkMulti fuel ms = .multi l ∧ NoDup l :=
  ⟨_, rfl, flatten_nodup true fuel ms [] trivial⟩

theorem mkUnion_nodup (fuel : Nat) (ms : List M) : ∃ l, mkUnion fuel ms = .union l ∧ NoDup l :=
  ⟨_, rfl, flatten_nodup false fuel ms [] trivial⟩

/-- the four ways `MultiMarker.of` returns -/
theorem multiOf_exit (fuel : Nat) (ms : List M) :
    multiOf (fuel + 1) ms = .empty ∨ multiOf (fuel + 1) ms = .any ∨
    (∃ new x, multiLoop fuel [] (flattenInto true fuel ms []) = some new ∧ new = [x] ∧ multiOf (fuel + 1) ms = x) ∨
    (∃ new, multiLoop fuel [] (flattenInto true fuel ms []) = some new ∧ 2 ≤ new.length ∧
      new.any isEmpty = false ∧ multiOf (fuel + 1) ms = mkMulti fuel new) := by
  simp only [multiOf]
  cases h : multiLoop fuel [] (flattenInto true fuel ms []) with
  | none => simp
  | some new =>
    simp only
    by_cases he : new.any isEmpty = true
    · simp [he]
    · simp only [he, Bool.false_eq_true, if_false]
      match new, he with
      | [], _ => simp
      | [x], _ => simp
      | a :: b :: rest, he =>
        right; right; right
        exact ⟨_, rfl, by simp, by simpa using he, rfl⟩

/-- the four ways `MarkerUnion.of` returns -/
theorem unionOfList_exit (fuel : Nat) (ms : List M) :
    unionOfList (fuel + 1) ms = .any ∨ unionOfList (fuel + 1) ms = .empty ∨
    (∃ new x, unionLoop fuel [] (flattenInto false fuel ms []) = some new ∧ new = [x] ∧ unionOfList (fuel + 1) ms = x) ∨
    (∃ new, unionLoop fuel [] (flattenInto false fuel ms []) = some new ∧ 2 ≤ new.length ∧
      new.any isAny = false ∧ unionOfList (fuel + 1) ms = mkUnion fuel new) := by
  simp only [unionOfList]
  cases h : unionLoop fuel [] (flattenInto false fuel ms []) with
  | none => simp
  | some new =>
    simp only
    by_cases he : new.any isAny = true
    · simp [he]
    · simp only [he, Bool.false_eq_true, if_false]
      match new, he with
      | [], _ => simp
      | [x], _ => simp
      | a :: b :: rest, he =>
        right; right; right
        exact ⟨_, rfl, by simp, by simpa using he, rfl⟩

/-- `&` with a neutral or absorbing operand returns the other operand / the absorbing element itself -/
theorem and_neutral (fuel : Nat) (a : M) :
    M.and (fuel + 1) .any a = a ∧ M.and (fuel + 1) .empty a = .empty ∧
    (a.isSingle = true → M.and (fuel + 1) a .any = a ∧ M.and (fuel + 1) a .empty = .empty) := by
  refine ⟨by simp [M.and], by simp [M.and], ?_⟩
  intro h; cases a <;> simp [isSingle] at h <;> simp [M.and]

theorem or_neutral (fuel : Nat) (a : M) :
    M.or (fuel + 1) .empty a = a ∧ M.or (fuel + 1) .any a = .any ∧
    (a.isSingle = true → M.or (fuel + 1) a .empty = a ∧ M.or (fuel + 1) a .any = .any) := by
  refine ⟨by simp [M.or], by simp [M.or], ?_⟩
  intro h; cases a <;> simp [isSingle] at h <;> simp [M.or]

end C15
end DepLogic
