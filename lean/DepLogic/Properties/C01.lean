import DepLogic.Proofs.SpecTheorems
import DepLogic.Model.Version
/-
  C01 — Version-specifier `&`, `|`, `~` compute exact set intersection, union, complement.

  Stated for an arbitrary linear preorder of bounds (so: whatever the shape of the versions
  used as bounds), then instantiated at PEP 440 versions.
-/
namespace DepLogic
namespace C01
open Spec
variable {α : Type} [LinPre α]

/-- Specifiers obtainable from leaves (parsed clauses) and previous results of the operators. -/
inductive Reach (Leaf : Spec α → Prop) : Spec α → Prop where
  | leaf {s} : Leaf s → Reach Leaf s
  | and {a b} : Reach Leaf a → Reach Leaf b → Reach Leaf (a.and b)
  | or {a b r} : Reach Leaf a → Reach Leaf b → a.or b = some r → Reach Leaf r
  | invert {a} : Reach Leaf a → Reach Leaf a.invert

/-- Every reachable specifier is in the canonical shape (shared with C05). -/
theorem reach_canon {Leaf : Spec α → Prop} (hleaf : ∀ s, Leaf s → Canon s) {s : Spec α}
    (h : Reach Leaf s) : Canon s := by
  induction h with
  | leaf h => exact hleaf _ h
  | and _ _ iha ihb => exact and_canon _ _ iha ihb
  | or _ _ hr iha ihb =>
    obtain ⟨r', h1, h2, _⟩ := or_spec _ _ iha ihb
    rw [hr] at h1; cases h1; exact h2
  | invert _ ih => exact invert_canon _ ih

/-- `a & b` admits exactly the versions admitted by both – for *all* specifier objects. -/
theorem and_exact (a b : Spec α) (v : α) : (a.and b).mem v ↔ (a.mem v ∧ b.mem v) :=
  Spec.and_mem a b v

/-- `a | b` never crashes on canonical operands and admits exactly the versions admitted by either. -/
theorem or_exact (a b : Spec α) (ha : Canon a) (hb : Canon b) :
    ∃ r, a.or b = some r ∧ ∀ v, r.mem v ↔ (a.mem v ∨ b.mem v) := by
  obtain ⟨r, h1, _, h3⟩ := or_spec a b ha hb
  exact ⟨r, h1, h3⟩

/-- `~a` admits exactly the versions not admitted by `a`. -/
theorem invert_exact (a : Spec α) (ha : Canon a) (v : α) : (a.invert).mem v ↔ ¬ a.mem v :=
  Spec.invert_mem a ha v

/-- The property as stated: for everything reachable from canonical leaves. -/
theorem main {Leaf : Spec α → Prop} (hleaf : ∀ s, Leaf s → Canon s) {a b : Spec α}
    (ha : Reach Leaf a) (hb : Reach Leaf b) :
    (∀ v, (a.and b).mem v ↔ (a.mem v ∧ b.mem v)) ∧
    (∃ r, a.or b = some r ∧ ∀ v, r.mem v ↔ (a.mem v ∨ b.mem v)) ∧
    (∀ v, (a.invert).mem v ↔ ¬ a.mem v) :=
  ⟨and_exact a b, or_exact a b (reach_canon hleaf ha) (reach_canon hleaf hb),
   invert_exact a (reach_canon hleaf ha)⟩

/-- Instance at PEP 440 versions (any shape: pre/post/dev/epoch, any release length). -/
theorem main_pep440 {Leaf : Spec Ver → Prop} (hleaf : ∀ s, Leaf s → Canon s) {a b : Spec Ver}
    (ha : Reach Leaf a) (hb : Reach Leaf b) :
    (∀ v, (a.and b).mem v ↔ (a.mem v ∧ b.mem v)) ∧
    (∃ r, a.or b = some r ∧ ∀ v, r.mem v ↔ (a.mem v ∨ b.mem v)) ∧
    (∀ v, (a.invert).mem v ↔ ¬ a.mem v) := main hleaf ha hb

/-! non-vacuity: concrete canonical operands with bounds of mixed shape -/
def exA : Spec Ver := .union
  [{ max := some { release := [1, 0] } },
   { min := some { release := [1, 0, 0] }, max := some { release := [2], pre := some (.rc, 1) }, incMax := true }] none
def exB : Spec Ver := .range { min := some { release := [0, 9], post := some 1 }, incMin := true,
                               max := some { epoch := 1, release := [0] } }
example : Canon exA ∧ Canon exB := by decide
example : exA.and exB = .union
  [{ min := some { release := [0, 9], post := some 1 }, incMin := true, max := some { release := [1, 0] } },
   { min := some { release := [1, 0, 0] }, max := some { release := [2], pre := some (.rc, 1) }, incMax := true }] none := by
  decide
example : (exA.invert).mem { release := [1] } := by decide

end C01
end DepLogic
