import DepLogic.Model.Pep440
import DepLogic.Proofs.SpecTheorems
/-
  C04 — specifier membership agrees with PEP 440 through the whole algebra (final releases).

  Shape of the argument: (1) leaf lemma: for a final `v`, PEP 440 matching of a clause equals
  interval membership in `fromClause c`; (2) C01: `&`, `|`, `~` are exact on intervals;
  (3) the rendered text of a result matches exactly its interval members (C06's lemmas).
  This file has (1) for the ordered / equality operators and (2) lifted to expression trees;
  the wildcard / compatible-release leaves and (3) are `_partial` work in progress
  (see DESIGN.md section 6/C04) – the differential streams cover them meanwhile.
-/
namespace DepLogic
namespace C04
open LinPre Spec

/-- clauses whose translation involves no release arithmetic -/
def Plain (c : Clause Ver) : Prop := c.wild = false ∧ c.op ≠ .compat

/-- leaf lemma, plain operators: PEP 440 matching = interval membership, for every candidate -/
theorem leaf_exact_plain (c : Clause Ver) (h : Plain c) (v : Ver) :
    ∃ s b, fromClause c = some s ∧ Pep440.matchesFinal c v = some b ∧ (b = true ↔ s.mem v) := by
  have tot := @LinPre.le_total Ver _
  rcases c with ⟨op, w, wild⟩
  obtain ⟨h1, h2⟩ := h
  simp only at h1 h2
  subst h1
  cases op <;> simp [fromClause, Pep440.matchesFinal, Spec.mem, Range.mem] at h2 ⊢ <;> grind

/-- expression trees over leaves -/
inductive Tree where
  | leaf (s : Spec Ver)
  | and (a b : Tree)
  | or (a b : Tree)
  | not (a : Tree)

/-- evaluation by the library's operators (`none` = `|` crashed) -/
def Tree.interp : Tree → Option (Spec Ver)
  | .leaf s => some s
  | .and a b => a.interp.bind fun x => b.interp.map fun y => x.and y
  | .or a b => a.interp.bind fun x => b.interp.bind fun y => x.or y
  | .not a => a.interp.map Spec.invert

/-- the same Boolean combination of the leaves' memberships -/
def Tree.sem (v : Ver) : Tree → Prop
  | .leaf s => s.mem v
  | .and a b => a.sem v ∧ b.sem v
  | .or a b => a.sem v ∨ b.sem v
  | .not a => ¬ a.sem v

def Tree.LeavesCanon : Tree → Prop
  | .leaf s => Canon s
  | .and a b => a.LeavesCanon ∧ b.LeavesCanon
  | .or a b => a.LeavesCanon ∧ b.LeavesCanon
  | .not a => a.LeavesCanon

/-- through the whole algebra: the result of any expression admits exactly the Boolean
    combination of what its leaves admit, and the evaluation never crashes -/
theorem tree_exact (t : Tree) (h : t.LeavesCanon) :
    ∃ r, t.interp = some r ∧ Canon r ∧ ∀ v, r.mem v ↔ t.sem v := by
  induction t with
  | leaf s => exact ⟨s, rfl, h, fun _ => Iff.rfl⟩
  | and a b iha ihb =>
    obtain ⟨x, hx, cx, mx⟩ := iha h.1
    obtain ⟨y, hy, cy, my⟩ := ihb h.2
    refine ⟨x.and y, by simp [Tree.interp, hx, hy], and_canon x y cx cy, fun v => ?_⟩
    rw [Spec.and_mem, mx, my]; rfl
  | or a b iha ihb =>
    obtain ⟨x, hx, cx, mx⟩ := iha h.1
    obtain ⟨y, hy, cy, my⟩ := ihb h.2
    obtain ⟨r, hr, cr, mr⟩ := or_spec x y cx cy
    refine ⟨r, by simp [Tree.interp, hx, hy, hr], cr, fun v => ?_⟩
    rw [mr, mx, my]; rfl
  | not a iha =>
    obtain ⟨x, hx, cx, mx⟩ := iha h
    refine ⟨x.invert, by simp [Tree.interp, hx], invert_canon x cx, fun v => ?_⟩
    rw [invert_mem x cx, mx]; rfl

end C04
end DepLogic
