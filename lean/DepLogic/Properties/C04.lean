import DepLogic.Model.Pep440
import DepLogic.Proofs.SpecTheorems
import DepLogic.Proofs.VersionOrder
/-
  C04 — specifier membership agrees with PEP 440 through the whole algebra (final releases).

  Shape of the argument: (1) leaf lemma: for a final `v`, PEP 440 matching of a clause equals
  interval membership in `fromClause c`; (2) C01: `&`, `|`, `~` are exact on intervals;
  (3) the rendered text of a result matches exactly its interval members (C06's lemmas).
  This file has (1) for the ordered / equality operators and (2) lifted to expression trees;
  the wildcard / compatible-release leaves and (3) are `_partial` work in progress
  (see DESIGN.md section 6/C04) – the differential streams cover them meanwhile.
-/
namespace DepLogic
namespace C04
open LinPre Spec

/-- clauses whose translation involves no release arithmetic -/
def Plain (c : Clause Ver) : Prop := c.wild = false ∧ c.op ≠ .compat

/-- leaf lemma, plain operators: PEP 440 matching = interval membership, for every candidate -/
theorem leaf_exact_plain (c : Clause Ver) (h : Plain c) (v : Ver) :
    ∃ s b, fromClause c = some s ∧ Pep440.matchesFinal c v = some b ∧ (b = true ↔ s.mem v) := by
  have tot := @LinPre.le_total Ver _
  rcases c with ⟨op, w, wild⟩
  obtain ⟨h1, h2⟩ := h
  simp only at h1 h2
  subst h1
  cases op <;> simp [fromClause, Pep440.matchesFinal, Spec.mem, Range.mem] at h2 ⊢ <;> grind

theorem le_iff_lt_or_eqv (a b : Ver) : le a b ↔ (lt a b ∨ eqv a b) := by
  have tot := @LinPre.le_total Ver _
  constructor
  · intro h
    by_cases h2 : le b a
    · exact Or.inr ⟨h, h2⟩
    · exact Or.inl h2
  · rintro (h | h)
    · rcases tot a b with h' | h'
      · exact h'
      · exact absurd h' h
    · exact h.1

theorem leaf_wild_eq (w v : Ver) (hv : v.isFinal = true) (s : Spec Ver) (b : Bool)
    (hs : fromClause ⟨.eq, w, true⟩ = some s) (hb : Pep440.matchesFinal ⟨.eq, w, true⟩ v = some b) :
    b = true ↔ s.mem v := by
  simp only [fromClause, Option.map_eq_some_iff] at hs
  obtain ⟨hi, hhi, rfl⟩ := hs
  simp only [Pep440.matchesFinal, Option.some.injEq] at hb
  subst hb
  rw [← VOrd.wild_mem w v hi hv hhi]
  simp only [Spec.mem, Range.mem, le_iff_lt_or_eqv]
  simp

theorem leaf_wild_ne (w v : Ver) (hv : v.isFinal = true) (s : Spec Ver) (b : Bool)
    (hs : fromClause ⟨.ne, w, true⟩ = some s) (hb : Pep440.matchesFinal ⟨.ne, w, true⟩ v = some b) :
    b = true ↔ s.mem v := by
  have tot := @LinPre.le_total Ver _
  simp only [fromClause, Option.map_eq_some_iff] at hs
  obtain ⟨hi, hhi, rfl⟩ := hs
  simp only [Pep440.matchesFinal, Option.some.injEq] at hb
  subst hb
  have := VOrd.wild_mem w v hi hv hhi
  simp only [Bool.not_eq_true', Spec.mem, Range.mem, List.mem_cons, List.not_mem_nil, or_false,
    exists_eq_or_imp, exists_eq_left]
  rw [← Bool.not_eq_true, ← this, le_iff_lt_or_eqv]
  simp only [lt, eqv]
  grind

theorem leaf_compat (w v : Ver) (wild : Bool) (hv : v.isFinal = true) (s : Spec Ver) (b : Bool)
    (hs : fromClause ⟨.compat, w, wild⟩ = some s) (hb : Pep440.matchesFinal ⟨.compat, w, wild⟩ v = some b) :
    b = true ↔ s.mem v := by
  simp only [fromClause, Option.map_eq_some_iff] at hs
  obtain ⟨hi, hhi, rfl⟩ := hs
  simp only [Pep440.matchesFinal] at hb
  split at hb
  · simp at hb
  · rename_i hlen
    simp only [Option.some.injEq] at hb
    subst hb
    have := VOrd.compat_mem w v hi hv (by omega) hhi
    simp only [Bool.and_eq_true, decide_eq_true_eq]
    rw [← this]
    simp only [Spec.mem, Range.mem, le_iff_lt_or_eqv]
    simp

/-- **leaf lemma, all operators**: on a final-release candidate, PEP 440 matching of a clause
    (ordered comparison, `==`/`!=`, prefix matching for `.*`, `~=`) is interval membership in the
    range(s) `_from_pkg_specifier` builds -/
theorem leaf_exact (c : Clause Ver) (v : Ver) (hv : v.isFinal = true) (s : Spec Ver) (b : Bool)
    (hs : fromClause c = some s) (hb : Pep440.matchesFinal c v = some b) : b = true ↔ s.mem v := by
  have tot := @LinPre.le_total Ver _
  rcases c with ⟨op, w, wild⟩
  cases op <;> cases wild <;>
    first
      | exact leaf_wild_eq w v hv s b hs hb
      | exact leaf_wild_ne w v hv s b hs hb
      | exact leaf_compat w v _ hv s b hs hb
      | (simp only [fromClause, Pep440.matchesFinal, Option.some.injEq] at hs hb
         subst hs hb
         simp [Spec.mem, Range.mem]
         try grind)

/-- expression trees over leaves -/
inductive Tree where
  | leaf (s : Spec Ver)
  | and (a b : Tree)
  | or (a b : Tree)
  | not (a : Tree)

/-- evaluation by the library's operators (`none` = `|` crashed) -/
def Tree.interp : Tree → Option (Spec Ver)
  | .leaf s => some s
  | .and a b => a.interp.bind fun x => b.interp.map fun y => x.and y
  | .or a b => a.interp.bind fun x => b.interp.bind fun y => x.or y
  | .not a => a.interp.map Spec.invert

/-- the same Boolean combination of the leaves' memberships -/
def Tree.sem (v : Ver) : Tree → Prop
  | .leaf s => s.mem v
  | .and a b => a.sem v ∧ b.sem v
  | .or a b => a.sem v ∨ b.sem v
  | .not a => ¬ a.sem v

def Tree.LeavesCanon : Tree → Prop
  | .leaf s => Canon s
  | .and a b => a.LeavesCanon ∧ b.LeavesCanon
  | .or a b => a.LeavesCanon ∧ b.LeavesCanon
  | .not a => a.LeavesCanon

/-- through the whole algebra: the result of any expression admits exactly the Boolean
    combination of what its leaves admit, and the evaluation never crashes -/
theorem tree_exact (t : Tree) (h : t.LeavesCanon) :
    ∃ r, t.interp = some r ∧ Canon r ∧ ∀ v, r.mem v ↔ t.sem v := by
  induction t with
  | leaf s => exact ⟨s, rfl, h, fun _ => Iff.rfl⟩
  | and a b iha ihb =>
    obtain ⟨x, hx, cx, mx⟩ := iha h.1
    obtain ⟨y, hy, cy, my⟩ := ihb h.2
    refine ⟨x.and y, by simp [Tree.interp, hx, hy], and_canon x y cx cy, fun v => ?_⟩
    rw [Spec.and_mem, mx, my]; rfl
  | or a b iha ihb =>
    obtain ⟨x, hx, cx, mx⟩ := iha h.1
    obtain ⟨y, hy, cy, my⟩ := ihb h.2
    obtain ⟨r, hr, cr, mr⟩ := or_spec x y cx cy
    refine ⟨r, by simp [Tree.interp, hx, hy, hr], cr, fun v => ?_⟩
    rw [mr, mx, my]; rfl
  | not a iha =>
    obtain ⟨x, hx, cx, mx⟩ := iha h
    refine ⟨x.invert, by simp [Tree.interp, hx], invert_canon x cx, fun v => ?_⟩
    rw [invert_mem x cx, mx]; rfl

end C04
end DepLogic
