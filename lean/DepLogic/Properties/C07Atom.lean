import DepLogic.Model.MarkerText
import DepLogic.Properties.C07Quote
/-
  C07, one atom as text — for EVERY atom over the environment-variable names (every operator, either operand order,
  every string value), packaging's `_parse_marker_item` reads the text `MarkerExpression.__str__` writes back as the
  atom's own (lhs, op, rhs) triple: `atom_text`.  With `C07.items_sem` / `reparse_sound` (token list -> marker) this
  closes the atom level of the text round trip down to characters; `and` / `or` / parentheses between atoms remain
  differential.
-/
namespace DepLogic
namespace C07
open Quote MText M

/-- the names `MarkerExpression.name` takes (packaging has already replaced the deprecated spellings) -/
def canonNames : List (List Char) := varNames

/-- what the proof needs of a name, as a Boolean so that the table is checked by evaluation -/
def nameOk (n : List Char) : Bool :=
  (match n with | c :: _ => !isWs c && c != '"' && c != '\'' | [] => false) &&
  n.all isVarChar && varNames.contains n && (aliases.lookup n).isNone

theorem canon_ok : ∀ n ∈ canonNames, nameOk n = true := by decide

theorem span_stop (p : Char → Bool) (n : List Char) (x : Char) (r : List Char) (hn : ∀ c ∈ n, p c = true) (hx : p x = false) :
    (n ++ x :: r).takeWhile p = n ∧ (n ++ x :: r).dropWhile p = x :: r := by
  induction n with
  | nil => simp [hx]
  | cons c cs ih =>
    have hc := hn c (by simp)
    have := ih (fun y hy => hn y (by simp [hy]))
    simp [hc, this.1, this.2]

theorem span_all (p : Char → Bool) (n : List Char) (hn : ∀ c ∈ n, p c = true) :
    n.takeWhile p = n ∧ n.dropWhile p = [] := by
  induction n with
  | nil => simp
  | cons c cs ih =>
    have hc := hn c (by simp)
    have := ih (fun y hy => hn y (by simp [hy]))
    simp [hc, this.1, this.2]

theorem span_stop_end (p : Char → Bool) (n rest : List Char) (hn : ∀ c ∈ n, p c = true)
    (hr : ∀ c ∈ rest.head?, p c = false) :
    (n ++ rest).takeWhile p = n ∧ (n ++ rest).dropWhile p = rest := by
  cases rest with
  | nil => simpa using span_all p n hn
  | cons x r => exact span_stop p n x r hn (hr x (by simp))

theorem skipWs_cons (c : Char) (r : List Char) (h : isWs c = false) : skipWs (c :: r) = c :: r := by
  simp [skipWs, List.dropWhile, h]

theorem skipWs_space (r : List Char) : skipWs (' ' :: r) = skipWs r := by
  simp [skipWs, List.dropWhile, isWs]

/-- reading a name that is followed by something that is not a name character -/
theorem readVar_name (n rest : List Char) (hok : nameOk n = true) (hr : ∀ c ∈ rest.head?, isVarChar c = false) :
    readVar (n ++ rest) = some (true, n, rest) := by
  unfold nameOk at hok
  simp only [Bool.and_eq_true, List.all_eq_true] at hok
  obtain ⟨⟨⟨hhead, hv⟩, hmem⟩, hal⟩ := hok
  obtain ⟨ht, hdrop⟩ := span_stop_end isVarChar n rest hv hr
  cases n with
  | nil => simp at hhead
  | cons c cs =>
    simp only [Bool.and_eq_true, Bool.not_eq_true', bne_iff_ne, ne_eq] at hhead
    obtain ⟨⟨_, hq1⟩, hq2⟩ := hhead
    have hq : (decide (c = '"') || decide (c = '\'')) = false := by simp [hq1, hq2]
    have hnone : aliases.lookup (c :: cs) = none := by simpa using hal
    unfold readVar
    simp only [List.cons_append, hq, Bool.false_eq_true, if_false]
    rw [show c :: (cs ++ rest) = (c :: cs) ++ rest from rfl, ht, hdrop, hnone]
    simp only [Option.getD_none]
    rw [if_pos hmem]

/-- reading a quoted literal -/
theorem readVar_lit (v rest : List Char) : readVar (quoteL v ++ rest) = some (false, v, rest) := by
  obtain ⟨q, body, hshape, hq, _, _⟩ := quote_shape v
  have hr := read_quote v rest
  rw [hshape] at hr ⊢
  unfold readVar
  have hq' : (decide (q = '"') || decide (q = '\'')) = true := by rcases hq with rfl | rfl <;> decide
  simp only [List.cons_append, hq', if_true]
  simp only [List.cons_append] at hr
  rw [hr]
  rfl

/-- the first character of a written literal is a quote, not a blank -/
theorem quoteL_head (v : List Char) : ∃ q r, quoteL v = q :: r ∧ isWs q = false := by
  obtain ⟨q, body, hshape, hq, _, _⟩ := quote_shape v
  refine ⟨q, body ++ [q], by simpa using hshape, ?_⟩
  rcases hq with rfl | rfl <;> decide

/-- every operator text is read back, when a blank follows it -/
theorem readOp_str (op : MOp) (r : List Char) : readOp (op.str.toList ++ ' ' :: r) = some (op.str.toList, ' ' :: r) := by
  cases op <;> simp [MOp.str, readOp, isWord, isWs, skipWs, List.dropWhile]

theorem opStr_head (op : MOp) : ∃ c r, op.str.toList = c :: r ∧ isWs c = false := by
  cases op <;> exact ⟨_, _, rfl, by decide⟩

/-- **one atom as text**: for every atom over the environment-variable names — every operator, either operand
    order, every string value — packaging's `_parse_marker_item` reads what `MarkerExpression.__str__` writes as
    the atom's own (lhs, op, rhs), provided the text after the atom does not continue a name -/
theorem atom_text (a : Atom) (rest : List Char) (hn : a.name.toList ∈ canonNames)
    (hrest : ∀ c ∈ rest.head?, isVarChar c = false) :
    readAtom (atomStrL a ++ rest) = some (atomItem a, skipWs rest) := by
  have hok := canon_ok _ hn
  have hnameHead : ∃ c r, a.name.toList = c :: r ∧ isWs c = false := by
    have h := hok
    unfold nameOk at h
    cases hl : a.name.toList with
    | nil => rw [hl] at h; simp at h
    | cons c r =>
      rw [hl] at h
      simp only [Bool.and_eq_true, Bool.not_eq_true'] at h
      exact ⟨c, r, rfl, h.1.1.1.1.1⟩
  have skip1 : ∀ (x r : List Char), (∃ c t, x = c :: t ∧ isWs c = false) → skipWs (x ++ r) = x ++ r := by
    rintro x r ⟨c, t, rfl, hc⟩; exact skipWs_cons _ _ hc
  have skip2 : ∀ (x r : List Char), (∃ c t, x = c :: t ∧ isWs c = false) → skipWs (' ' :: (x ++ r)) = x ++ r := by
    intro x r hx; rw [skipWs_space]; exact skip1 x r hx
  unfold atomItem readAtom
  by_cases hrev : a.reversed = true
  · -- "lit" op name
    have hshape : atomStrL a ++ rest =
        quoteL a.value.toList ++ (' ' :: (a.op.reflect.str.toList ++ (' ' :: (a.name.toList ++ rest)))) := by
      simp [atomStrL, hrev, List.append_assoc]
    rw [hshape, skip1 _ _ (quoteL_head _), readVar_lit]
    simp only
    rw [skip2 _ _ (opStr_head _), readOp_str]
    simp only
    rw [skip2 _ _ hnameHead, readVar_name _ _ hok hrest]
    simp [hrev]
  · -- name op "lit"
    have hrev' : a.reversed = false := by simpa using hrev
    have hshape : atomStrL a ++ rest =
        a.name.toList ++ (' ' :: (a.op.str.toList ++ (' ' :: (quoteL a.value.toList ++ rest)))) := by
      simp [atomStrL, hrev', List.append_assoc]
    rw [hshape, skip1 _ _ hnameHead, readVar_name _ _ hok (by simp [isVarChar, isWord])]
    simp only
    rw [skip2 _ _ (opStr_head _), readOp_str]
    simp only
    rw [skip2 _ _ (quoteL_head _), readVar_lit]
    simp [hrev']

/-- `Atom.str` is `atomStrL` on characters (so the theorem is about the string the model's `__str__` builds) -/
theorem atomStr_toList (a : Atom) : a.str.toList = atomStrL a := by
  unfold Atom.str atomStrL quoteS
  by_cases h : a.reversed = true <;> simp [h, String.toList_append]

/-- non-vacuity: `"3.8" <= python_version` and `os_name == "a\"b"` -/
example : readAtom (atomStrL ⟨"os_name", .eq, "a\"b", false, .gen ⟨.eq, "a\"b"⟩⟩ ++ " and x".toList) =
    some (.atom true "os_name" "==" "a\"b", "and x".toList) := by
  rw [atom_text _ _ (by decide) (by decide)]; rfl

end C07
end DepLogic
