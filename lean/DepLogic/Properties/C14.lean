import DepLogic.Properties.C02
import DepLogic.Properties.C01
/-
  C14 — Boolean-algebra laws.

  Markers: the laws hold up to equivalence (both sides are satisfied by the same environments).
  They are corollaries of C02's soundness theorems, for every fuel, all markers over good atoms.

  Specifiers: every law is proved here as equality of the ADMITTED SETS (`*_mem`), for all
  specifier objects over any linear preorder of bounds.  The property asks for more — equality
  of the returned objects; that needs uniqueness of the canonical form, which is false for
  PEP 440 bounds in general (the order is not dense: known finding G1), so object equality is
  decided by the correspondence run (model `Spec.beq` vs Python `==` on the same triples) and
  by the law oracle on the implementation, not by a theorem.  `*_mem` theorems are PARTIAL
  with respect to the statement in that sense.
-/
namespace DepLogic
namespace C14
open M

section markers
variable (env : Env) (he : EnvTotal env) (hF : FromSpecOk env) (hP : PyMergeOk env) (fuel : Nat)
include he hF hP

private theorem A (a b : M) (ha : GAll (Good env) a) (hb : GAll (Good env) b) :
    GAll (Good env) (M.and fuel a b) ∧ sem env (M.and fuel a b) = (sem env a && sem env b) :=
  C02.and_sound env he hF hP fuel a b ha hb
private theorem O (a b : M) (ha : GAll (Good env) a) (hb : GAll (Good env) b) :
    GAll (Good env) (M.or fuel a b) ∧ sem env (M.or fuel a b) = (sem env a || sem env b) :=
  C02.or_sound env he hF hP fuel a b ha hb

theorem and_comm (a b : M) (ha : GAll (Good env) a) (hb : GAll (Good env) b) :
    sem env (M.and fuel a b) = sem env (M.and fuel b a) := by
  rw [(A env he hF hP fuel a b ha hb).2, (A env he hF hP fuel b a hb ha).2, Bool.and_comm]

theorem or_comm (a b : M) (ha : GAll (Good env) a) (hb : GAll (Good env) b) :
    sem env (M.or fuel a b) = sem env (M.or fuel b a) := by
  rw [(O env he hF hP fuel a b ha hb).2, (O env he hF hP fuel b a hb ha).2, Bool.or_comm]

theorem and_assoc (a b c : M) (ha : GAll (Good env) a) (hb : GAll (Good env) b) (hc : GAll (Good env) c) :
    sem env (M.and fuel (M.and fuel a b) c) = sem env (M.and fuel a (M.and fuel b c)) := by
  have h1 := A env he hF hP fuel a b ha hb
  have h2 := A env he hF hP fuel b c hb hc
  rw [(A env he hF hP fuel _ c h1.1 hc).2, (A env he hF hP fuel a _ ha h2.1).2, h1.2, h2.2, Bool.and_assoc]

theorem or_assoc (a b c : M) (ha : GAll (Good env) a) (hb : GAll (Good env) b) (hc : GAll (Good env) c) :
    sem env (M.or fuel (M.or fuel a b) c) = sem env (M.or fuel a (M.or fuel b c)) := by
  have h1 := O env he hF hP fuel a b ha hb
  have h2 := O env he hF hP fuel b c hb hc
  rw [(O env he hF hP fuel _ c h1.1 hc).2, (O env he hF hP fuel a _ ha h2.1).2, h1.2, h2.2, Bool.or_assoc]

theorem and_idem (a : M) (ha : GAll (Good env) a) : sem env (M.and fuel a a) = sem env a := by
  rw [(A env he hF hP fuel a a ha ha).2, Bool.and_self]

theorem or_idem (a : M) (ha : GAll (Good env) a) : sem env (M.or fuel a a) = sem env a := by
  rw [(O env he hF hP fuel a a ha ha).2, Bool.or_self]

theorem absorb_and_or (a b : M) (ha : GAll (Good env) a) (hb : GAll (Good env) b) :
    sem env (M.and fuel a (M.or fuel a b)) = sem env a := by
  have h1 := O env he hF hP fuel a b ha hb
  rw [(A env he hF hP fuel a _ ha h1.1).2, h1.2]; cases sem env a <;> simp

theorem absorb_or_and (a b : M) (ha : GAll (Good env) a) (hb : GAll (Good env) b) :
    sem env (M.or fuel a (M.and fuel a b)) = sem env a := by
  have h1 := A env he hF hP fuel a b ha hb
  rw [(O env he hF hP fuel a _ ha h1.1).2, h1.2]; cases sem env a <;> simp

theorem and_or_distrib (a b c : M) (ha : GAll (Good env) a) (hb : GAll (Good env) b) (hc : GAll (Good env) c) :
    sem env (M.and fuel a (M.or fuel b c)) = sem env (M.or fuel (M.and fuel a b) (M.and fuel a c)) := by
  have h1 := O env he hF hP fuel b c hb hc
  have h2 := A env he hF hP fuel a b ha hb
  have h3 := A env he hF hP fuel a c ha hc
  rw [(A env he hF hP fuel a _ ha h1.1).2, (O env he hF hP fuel _ _ h2.1 h3.1).2, h1.2, h2.2, h3.2, Bool.and_or_distrib_left]

theorem or_and_distrib (a b c : M) (ha : GAll (Good env) a) (hb : GAll (Good env) b) (hc : GAll (Good env) c) :
    sem env (M.or fuel a (M.and fuel b c)) = sem env (M.and fuel (M.or fuel a b) (M.or fuel a c)) := by
  have h1 := A env he hF hP fuel b c hb hc
  have h2 := O env he hF hP fuel a b ha hb
  have h3 := O env he hF hP fuel a c ha hc
  rw [(O env he hF hP fuel a _ ha h1.1).2, (A env he hF hP fuel _ _ h2.1 h3.1).2, h1.2, h2.2, h3.2, Bool.or_and_distrib_left]

end markers

section specs
open Spec
variable {α : Type} [LinPre α]

theorem spec_and_comm_mem (a b : Spec α) (v : α) : (a.and b).mem v ↔ (b.and a).mem v := by
  rw [C01.and_exact, C01.and_exact]; exact And.comm

theorem spec_and_assoc_mem (a b c : Spec α) (v : α) : ((a.and b).and c).mem v ↔ (a.and (b.and c)).mem v := by
  simp only [C01.and_exact]; exact _root_.and_assoc

theorem spec_and_idem_mem (a : Spec α) (v : α) : (a.and a).mem v ↔ a.mem v := by
  rw [C01.and_exact]; exact and_self_iff

/-- `|` laws, on canonical operands (every reachable specifier is canonical: `C01.reach_canon`) -/
theorem spec_or_comm_mem (a b : Spec α) (ha : Canon a) (hb : Canon b) :
    ∃ r s, a.or b = some r ∧ b.or a = some s ∧ ∀ v, r.mem v ↔ s.mem v := by
  obtain ⟨r, h1, h2⟩ := C01.or_exact a b ha hb
  obtain ⟨s, h3, h4⟩ := C01.or_exact b a hb ha
  exact ⟨r, s, h1, h3, fun v => by rw [h2, h4]; exact Or.comm⟩

theorem spec_or_idem_mem (a : Spec α) (ha : Canon a) : ∃ r, a.or a = some r ∧ ∀ v, r.mem v ↔ a.mem v := by
  obtain ⟨r, h1, h2⟩ := C01.or_exact a a ha ha
  exact ⟨r, h1, fun v => by rw [h2]; exact or_self_iff⟩

theorem spec_absorb_mem (a b : Spec α) (ha : Canon a) (hb : Canon b) :
    ∃ r, a.or b = some r ∧ ∀ v, (a.and r).mem v ↔ a.mem v := by
  obtain ⟨r, h1, h2⟩ := C01.or_exact a b ha hb
  refine ⟨r, h1, fun v => ?_⟩
  rw [C01.and_exact, h2]
  exact ⟨fun h => h.1, fun h => ⟨h, Or.inl h⟩⟩

theorem spec_distrib_mem (a b c : Spec α) (hb : Canon b) (hc : Canon c) :
    ∃ r, b.or c = some r ∧ ∀ v, (a.and r).mem v ↔ ((a.and b).mem v ∨ (a.and c).mem v) := by
  obtain ⟨r, h1, h2⟩ := C01.or_exact b c hb hc
  refine ⟨r, h1, fun v => ?_⟩
  simp only [C01.and_exact, h2]
  exact and_or_left

theorem spec_invert_involution_mem (a : Spec α) (ha : Canon a) (v : α) : (a.invert.invert).mem v ↔ a.mem v := by
  rw [C01.invert_exact _ (invert_canon _ ha), C01.invert_exact _ ha]
  exact Decidable.not_not

theorem spec_de_morgan_and_mem (a b : Spec α) (ha : Canon a) (hb : Canon b) (v : α) :
    ((a.and b).invert).mem v ↔ (a.invert.mem v ∨ b.invert.mem v) := by
  rw [C01.invert_exact _ (and_canon _ _ ha hb), C01.and_exact, C01.invert_exact _ ha, C01.invert_exact _ hb]
  exact Classical.not_and_iff_not_or_not

theorem spec_complement_mem (a : Spec α) (ha : Canon a) (v : α) :
    ¬ (a.and a.invert).mem v ∧ ∃ r, a.or a.invert = some r ∧ r.mem v := by
  refine ⟨?_, ?_⟩
  · rw [C01.and_exact, C01.invert_exact _ ha]; exact fun h => h.2 h.1
  · obtain ⟨r, h1, h2⟩ := C01.or_exact a a.invert ha (invert_canon _ ha)
    refine ⟨r, h1, ?_⟩
    rw [h2, C01.invert_exact _ ha]; exact Decidable.em _

end specs

end C14
end DepLogic
