import DepLogic.Properties.C02
import DepLogic.Properties.C01
import DepLogic.Proofs.CutAlgebra
/-
  C14 — Boolean-algebra laws.

  Markers: the laws hold up to equivalence (both sides are satisfied by the same environments).
  They are corollaries of C02's soundness theorems, for every fuel, all markers over good atoms.

  Specifiers: every law is proved as EQUALITY OF THE RETURNED OBJECTS (Python `==`, model
  `Spec.beq`) for canonical operands over ANY linear preorder of bounds (`obj_*` theorems), and
  also as equality of the admitted sets for arbitrary objects (`*_mem`).  Object equality comes
  from uniqueness of canonical forms, which is false over the bound type itself when it is not
  dense (PEP 440, known finding G1) but TRUE over its cut extension (Proofs/CanonUnique.lean:
  a specifier denotes a set of positions "at / just below / just above a bound"); the operators
  commute with the embedding (Proofs/CutMap.lean), so C01's exactness theorems hold over cuts
  and every law about sets of cuts is a law about objects.
-/
namespace DepLogic
namespace C14
open M

section markers
variable (env : Env) (he : EnvTotal env) (hF : FromSpecOk env) (hP : PyMergeOk env) (fuel : Nat)
include he hF hP

private theorem A (a b : M) (ha : GAll (Good env) a) (hb : GAll (Good env) b) :
    GAll (Good env) (M.and fuel a b) ∧ sem env (M.and fuel a b) = (sem env a && sem env b) :=
  C02.and_sound env he hF hP fuel a b ha hb
private theorem O (a b : M) (ha : GAll (Good env) a) (hb : GAll (Good env) b) :
    GAll (Good env) (M.or fuel a b) ∧ sem env (M.or fuel a b) = (sem env a || sem env b) :=
  C02.or_sound env he hF hP fuel a b ha hb

theorem and_comm (a b : M) (ha : GAll (Good env) a) (hb : GAll (Good env) b) :
    sem env (M.and fuel a b) = sem env (M.and fuel b a) := by
  rw [(A env he hF hP fuel a b ha hb).2, (A env he hF hP fuel b a hb ha).2, Bool.and_comm]

theorem or_comm (a b : M) (ha : GAll (Good env) a) (hb : GAll (Good env) b) :
    sem env (M.or fuel a b) = sem env (M.or fuel b a) := by
  rw [(O env he hF hP fuel a b ha hb).2, (O env he hF hP fuel b a hb ha).2, Bool.or_comm]

theorem and_assoc (a b c : M) (ha : GAll (Good env) a) (hb : GAll (Good env) b) (hc : GAll (Good env) c) :
    sem env (M.and fuel (M.and fuel a b) c) = sem env (M.and fuel a (M.and fuel b c)) := by
  have h1 := A env he hF hP fuel a b ha hb
  have h2 := A env he hF hP fuel b c hb hc
  rw [(A env he hF hP fuel _ c h1.1 hc).2, (A env he hF hP fuel a _ ha h2.1).2, h1.2, h2.2, Bool.and_assoc]

theorem or_assoc (a b c : M) (ha : GAll (Good env) a) (hb : GAll (Good env) b) (hc : GAll (Good env) c) :
    sem env (M.or fuel (M.or fuel a b) c) = sem env (M.or fuel a (M.or fuel b c)) := by
  have h1 := O env he hF hP fuel a b ha hb
  have h2 := O env he hF hP fuel b c hb hc
  rw [(O env he hF hP fuel _ c h1.1 hc).2, (O env he hF hP fuel a _ ha h2.1).2, h1.2, h2.2, Bool.or_assoc]

theorem and_idem (a : M) (ha : GAll (Good env) a) : sem env (M.and fuel a a) = sem env a := by
  rw [(A env he hF hP fuel a a ha ha).2, Bool.and_self]

theorem or_idem (a : M) (ha : GAll (Good env) a) : sem env (M.or fuel a a) = sem env a := by
  rw [(O env he hF hP fuel a a ha ha).2, Bool.or_self]

theorem absorb_and_or (a b : M) (ha : GAll (Good env) a) (hb : GAll (Good env) b) :
    sem env (M.and fuel a (M.or fuel a b)) = sem env a := by
  have h1 := O env he hF hP fuel a b ha hb
  rw [(A env he hF hP fuel a _ ha h1.1).2, h1.2]; cases sem env a <;> simp

theorem absorb_or_and (a b : M) (ha : GAll (Good env) a) (hb : GAll (Good env) b) :
    sem env (M.or fuel a (M.and fuel a b)) = sem env a := by
  have h1 := A env he hF hP fuel a b ha hb
  rw [(O env he hF hP fuel a _ ha h1.1).2, h1.2]; cases sem env a <;> simp

theorem and_or_distrib (a b c : M) (ha : GAll (Good env) a) (hb : GAll (Good env) b) (hc : GAll (Good env) c) :
    sem env (M.and fuel a (M.or fuel b c)) = sem env (M.or fuel (M.and fuel a b) (M.and fuel a c)) := by
  have h1 := O env he hF hP fuel b c hb hc
  have h2 := A env he hF hP fuel a b ha hb
  have h3 := A env he hF hP fuel a c ha hc
  rw [(A env he hF hP fuel a _ ha h1.1).2, (O env he hF hP fuel _ _ h2.1 h3.1).2, h1.2, h2.2, h3.2, Bool.and_or_distrib_left]

theorem or_and_distrib (a b c : M) (ha : GAll (Good env) a) (hb : GAll (Good env) b) (hc : GAll (Good env) c) :
    sem env (M.or fuel a (M.and fuel b c)) = sem env (M.and fuel (M.or fuel a b) (M.or fuel a c)) := by
  have h1 := A env he hF hP fuel b c hb hc
  have h2 := O env he hF hP fuel a b ha hb
  have h3 := O env he hF hP fuel a c ha hc
  rw [(O env he hF hP fuel a _ ha h1.1).2, (A env he hF hP fuel _ _ h2.1 h3.1).2, h1.2, h2.2, h3.2, Bool.or_and_distrib_left]

end markers

/-- the ten marker laws with the bridge facts proved (C02.bridge): no assumption beyond `EnvTotal`
    and good atoms -/
theorem marker_laws_final (env : Env) (he : EnvTotal env) (fuel : Nat) (a b c : M)
    (ha : GAll (Good env) a) (hb : GAll (Good env) b) (hc : GAll (Good env) c) :
    sem env (M.and fuel a b) = sem env (M.and fuel b a) ∧
    sem env (M.or fuel a b) = sem env (M.or fuel b a) ∧
    sem env (M.and fuel (M.and fuel a b) c) = sem env (M.and fuel a (M.and fuel b c)) ∧
    sem env (M.or fuel (M.or fuel a b) c) = sem env (M.or fuel a (M.or fuel b c)) ∧
    sem env (M.and fuel a a) = sem env a ∧ sem env (M.or fuel a a) = sem env a ∧
    sem env (M.and fuel a (M.or fuel a b)) = sem env a ∧ sem env (M.or fuel a (M.and fuel a b)) = sem env a ∧
    sem env (M.and fuel a (M.or fuel b c)) = sem env (M.or fuel (M.and fuel a b) (M.and fuel a c)) ∧
    sem env (M.or fuel a (M.and fuel b c)) = sem env (M.and fuel (M.or fuel a b) (M.or fuel a c)) :=
  let x := C02.bridge env he
  ⟨and_comm env he x.1 x.2 fuel a b ha hb, or_comm env he x.1 x.2 fuel a b ha hb,
   and_assoc env he x.1 x.2 fuel a b c ha hb hc, or_assoc env he x.1 x.2 fuel a b c ha hb hc,
   and_idem env he x.1 x.2 fuel a ha, or_idem env he x.1 x.2 fuel a ha,
   absorb_and_or env he x.1 x.2 fuel a b ha hb, absorb_or_and env he x.1 x.2 fuel a b ha hb,
   and_or_distrib env he x.1 x.2 fuel a b c ha hb hc, or_and_distrib env he x.1 x.2 fuel a b c ha hb hc⟩

section specs
open Spec
variable {α : Type} [LinPre α]

theorem spec_and_comm_mem (a b : Spec α) (v : α) : (a.and b).mem v ↔ (b.and a).mem v := by
  rw [C01.and_exact, C01.and_exact]; exact And.comm

theorem spec_and_assoc_mem (a b c : Spec α) (v : α) : ((a.and b).and c).mem v ↔ (a.and (b.and c)).mem v := by
  simp only [C01.and_exact]; exact _root_.and_assoc

theorem spec_and_idem_mem (a : Spec α) (v : α) : (a.and a).mem v ↔ a.mem v := by
  rw [C01.and_exact]; exact and_self_iff

/-- `|` laws, on canonical operands (every reachable specifier is canonical: `C01.reach_canon`) -/
theorem spec_or_comm_mem (a b : Spec α) (ha : Canon a) (hb : Canon b) :
    ∃ r s, a.or b = some r ∧ b.or a = some s ∧ ∀ v, r.mem v ↔ s.mem v := by
  obtain ⟨r, h1, h2⟩ := C01.or_exact a b ha hb
  obtain ⟨s, h3, h4⟩ := C01.or_exact b a hb ha
  exact ⟨r, s, h1, h3, fun v => by rw [h2, h4]; exact Or.comm⟩

theorem spec_or_idem_mem (a : Spec α) (ha : Canon a) : ∃ r, a.or a = some r ∧ ∀ v, r.mem v ↔ a.mem v := by
  obtain ⟨r, h1, h2⟩ := C01.or_exact a a ha ha
  exact ⟨r, h1, fun v => by rw [h2]; exact or_self_iff⟩

theorem spec_absorb_mem (a b : Spec α) (ha : Canon a) (hb : Canon b) :
    ∃ r, a.or b = some r ∧ ∀ v, (a.and r).mem v ↔ a.mem v := by
  obtain ⟨r, h1, h2⟩ := C01.or_exact a b ha hb
  refine ⟨r, h1, fun v => ?_⟩
  rw [C01.and_exact, h2]
  exact ⟨fun h => h.1, fun h => ⟨h, Or.inl h⟩⟩

theorem spec_distrib_mem (a b c : Spec α) (hb : Canon b) (hc : Canon c) :
    ∃ r, b.or c = some r ∧ ∀ v, (a.and r).mem v ↔ ((a.and b).mem v ∨ (a.and c).mem v) := by
  obtain ⟨r, h1, h2⟩ := C01.or_exact b c hb hc
  refine ⟨r, h1, fun v => ?_⟩
  simp only [C01.and_exact, h2]
  exact and_or_left

theorem spec_invert_involution_mem (a : Spec α) (ha : Canon a) (v : α) : (a.invert.invert).mem v ↔ a.mem v := by
  rw [C01.invert_exact _ (invert_canon _ ha), C01.invert_exact _ ha]
  exact Decidable.not_not

theorem spec_de_morgan_and_mem (a b : Spec α) (ha : Canon a) (hb : Canon b) (v : α) :
    ((a.and b).invert).mem v ↔ (a.invert.mem v ∨ b.invert.mem v) := by
  rw [C01.invert_exact _ (and_canon _ _ ha hb), C01.and_exact, C01.invert_exact _ ha, C01.invert_exact _ hb]
  exact Classical.not_and_iff_not_or_not

theorem spec_complement_mem (a : Spec α) (ha : Canon a) (v : α) :
    ¬ (a.and a.invert).mem v ∧ ∃ r, a.or a.invert = some r ∧ r.mem v := by
  refine ⟨?_, ?_⟩
  · rw [C01.and_exact, C01.invert_exact _ ha]; exact fun h => h.2 h.1
  · obtain ⟨r, h1, h2⟩ := C01.or_exact a a.invert ha (invert_canon _ ha)
    refine ⟨r, h1, ?_⟩
    rw [h2, C01.invert_exact _ ha]; exact Decidable.em _

end specs

/-! ### specifier laws as equalities of the returned objects -/
section objects
open Spec
variable {α : Type} [LinPre α] (a0 : α)
include a0

theorem obj_and_comm (a b : Spec α) (ha : Canon a) (hb : Canon b) : (a.and b).beq (b.and a) = true :=
  canon_unique a0 _ _ (and_canon _ _ ha hb) (and_canon _ _ hb ha)
    (fun x s => by rw [and_memC, and_memC]; exact And.comm)

theorem obj_and_assoc (a b c : Spec α) (ha : Canon a) (hb : Canon b) (hc : Canon c) :
    ((a.and b).and c).beq (a.and (b.and c)) = true :=
  canon_unique a0 _ _ (and_canon _ _ (and_canon _ _ ha hb) hc) (and_canon _ _ ha (and_canon _ _ hb hc))
    (fun x s => by simp only [and_memC]; exact _root_.and_assoc)

theorem obj_and_idem (a : Spec α) (ha : Canon a) : (a.and a).beq a = true :=
  canon_unique a0 _ _ (and_canon _ _ ha ha) ha (fun x s => by rw [and_memC]; exact and_self_iff)

theorem obj_or_comm (a b : Spec α) (ha : Canon a) (hb : Canon b) :
    ∃ r s, a.or b = some r ∧ b.or a = some s ∧ r.beq s = true := by
  obtain ⟨r, h1, c1, m1⟩ := or_memC a b ha hb
  obtain ⟨s, h2, c2, m2⟩ := or_memC b a hb ha
  exact ⟨r, s, h1, h2, canon_unique a0 _ _ c1 c2 (fun x n => by rw [m1, m2]; exact Or.comm)⟩

theorem obj_or_assoc (a b c : Spec α) (ha : Canon a) (hb : Canon b) (hc : Canon c) :
    ∃ ab bc l r, a.or b = some ab ∧ b.or c = some bc ∧ ab.or c = some l ∧ a.or bc = some r ∧ l.beq r = true := by
  obtain ⟨ab, h1, c1, m1⟩ := or_memC a b ha hb
  obtain ⟨bc, h2, c2, m2⟩ := or_memC b c hb hc
  obtain ⟨l, h3, c3, m3⟩ := or_memC ab c c1 hc
  obtain ⟨r, h4, c4, m4⟩ := or_memC a bc ha c2
  exact ⟨ab, bc, l, r, h1, h2, h3, h4,
    canon_unique a0 _ _ c3 c4 (fun x n => by rw [m3, m4, m1, m2]; exact _root_.or_assoc)⟩

theorem obj_or_idem (a : Spec α) (ha : Canon a) : ∃ r, a.or a = some r ∧ r.beq a = true := by
  obtain ⟨r, h1, c1, m1⟩ := or_memC a a ha ha
  exact ⟨r, h1, canon_unique a0 _ _ c1 ha (fun x n => by rw [m1]; exact or_self_iff)⟩

theorem obj_absorb_and_or (a b : Spec α) (ha : Canon a) (hb : Canon b) :
    ∃ r, a.or b = some r ∧ (a.and r).beq a = true := by
  obtain ⟨r, h1, c1, m1⟩ := or_memC a b ha hb
  refine ⟨r, h1, canon_unique a0 _ _ (and_canon _ _ ha c1) ha (fun x n => ?_)⟩
  rw [and_memC, m1]; exact ⟨fun h => h.1, fun h => ⟨h, Or.inl h⟩⟩

theorem obj_absorb_or_and (a b : Spec α) (ha : Canon a) (hb : Canon b) :
    ∃ r, a.or (a.and b) = some r ∧ r.beq a = true := by
  obtain ⟨r, h1, c1, m1⟩ := or_memC a (a.and b) ha (and_canon _ _ ha hb)
  refine ⟨r, h1, canon_unique a0 _ _ c1 ha (fun x n => ?_)⟩
  rw [m1, and_memC]; exact ⟨fun h => h.elim id (fun h => h.1), Or.inl⟩

theorem obj_and_or_distrib (a b c : Spec α) (ha : Canon a) (hb : Canon b) (hc : Canon c) :
    ∃ bc r, b.or c = some bc ∧ (a.and b).or (a.and c) = some r ∧ (a.and bc).beq r = true := by
  obtain ⟨bc, h1, c1, m1⟩ := or_memC b c hb hc
  obtain ⟨r, h2, c2, m2⟩ := or_memC (a.and b) (a.and c) (and_canon _ _ ha hb) (and_canon _ _ ha hc)
  refine ⟨bc, r, h1, h2, canon_unique a0 _ _ (and_canon _ _ ha c1) c2 (fun x n => ?_)⟩
  rw [and_memC, m1, m2, and_memC, and_memC]; exact and_or_left

theorem obj_or_and_distrib (a b c : Spec α) (ha : Canon a) (hb : Canon b) (hc : Canon c) :
    ∃ l ab ac, a.or (b.and c) = some l ∧ a.or b = some ab ∧ a.or c = some ac ∧ l.beq (ab.and ac) = true := by
  obtain ⟨l, h1, c1, m1⟩ := or_memC a (b.and c) ha (and_canon _ _ hb hc)
  obtain ⟨ab, h2, c2, m2⟩ := or_memC a b ha hb
  obtain ⟨ac, h3, c3, m3⟩ := or_memC a c ha hc
  refine ⟨l, ab, ac, h1, h2, h3, canon_unique a0 _ _ c1 (and_canon _ _ c2 c3) (fun x n => ?_)⟩
  rw [m1, and_memC, and_memC, m2, m3]; exact or_and_left

theorem obj_invert_involution (a : Spec α) (ha : Canon a) : (a.invert.invert).beq a = true :=
  canon_unique a0 _ _ (invert_canon _ (invert_canon _ ha)) ha
    (fun x n => by rw [invert_memC _ (invert_canon _ ha), invert_memC _ ha]; exact Classical.not_not)

theorem obj_de_morgan_and (a b : Spec α) (ha : Canon a) (hb : Canon b) :
    ∃ r, a.invert.or b.invert = some r ∧ ((a.and b).invert).beq r = true := by
  obtain ⟨r, h1, c1, m1⟩ := or_memC a.invert b.invert (invert_canon _ ha) (invert_canon _ hb)
  refine ⟨r, h1, canon_unique a0 _ _ (invert_canon _ (and_canon _ _ ha hb)) c1 (fun x n => ?_)⟩
  rw [invert_memC _ (and_canon _ _ ha hb), and_memC, m1, invert_memC _ ha, invert_memC _ hb]
  exact Classical.not_and_iff_not_or_not

theorem obj_de_morgan_or (a b : Spec α) (ha : Canon a) (hb : Canon b) :
    ∃ r, a.or b = some r ∧ (r.invert).beq (a.invert.and b.invert) = true := by
  obtain ⟨r, h1, c1, m1⟩ := or_memC a b ha hb
  refine ⟨r, h1, canon_unique a0 _ _ (invert_canon _ c1) (and_canon _ _ (invert_canon _ ha) (invert_canon _ hb)) (fun x n => ?_)⟩
  rw [invert_memC _ c1, m1, and_memC, invert_memC _ ha, invert_memC _ hb]
  exact not_or

/-- `a & ~a` IS `EmptySpecifier()` and `a | ~a` is universal (`is_any()`), as objects -/
theorem obj_complement (a : Spec α) (ha : Canon a) :
    a.and a.invert = .empty ∧ ∃ r, a.or a.invert = some r ∧ r.isAny = true := by
  constructor
  · have h := canon_unique a0 (a.and a.invert) .empty (and_canon _ _ ha (invert_canon _ ha)) trivial
      (fun x n => by
        rw [and_memC, invert_memC _ ha]
        exact ⟨fun h => absurd h.1 h.2, fun h => by simp [memC, mem] at h⟩)
    cases hx : a.and a.invert <;> simp [hx, Spec.beq, Spec.isAny] at h ⊢
  · obtain ⟨r, h1, c1, m1⟩ := or_memC a a.invert ha (invert_canon _ ha)
    refine ⟨r, h1, ?_⟩
    have h := canon_unique a0 .any r trivial c1 (fun x n => by
      rw [m1, invert_memC _ ha]
      exact ⟨fun _ => Classical.em _, fun _ => memC_any x n⟩)
    simpa [Spec.beq] using h

end objects

/-- at PEP 440 versions (non-vacuity of the `a0` parameter and of canonicity) -/
example : (C01.exA.and C01.exB).beq (C01.exB.and C01.exA) = true :=
  obj_and_comm ({ release := [0] } : Ver) _ _ (by decide) (by decide)

end C14
end DepLogic
