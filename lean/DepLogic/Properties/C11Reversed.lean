import DepLogic.Proofs.LexNorm
/-
  C11 / C02 — literal-on-the-left comparison atoms, closed form.

  After the `fix:` 4fb0145 the code merges a literal-on-the-left version atom through its specifier view
  only when `_has_exact_specifier` says so (`Atom.exactView`).  This file proves that the guard is
  SUFFICIENT on canonical spellings: for every ordering/equality operator, every plain release literal
  `A.B.C…` and every environment whose value for the variable is a plain release, the atom

      "A.B.C" op name

  passes the guard and its specifier view is exact (`Atom.Coherent`): the character-level hypotheses of
  `C11.coherent_reversed` (`LexRev`) are discharged here with the lexing lemmas of `Proofs/LexLemmas.lean`.
  (Necessity — `~=`, wildcard and pre-release literals are NOT coherent — is the defect D21 itself, see
  `C02.atomRevCompat_good` and the example after it.)
-/
namespace DepLogic
namespace C11
open M Lex SpecParse

theorem trimS_clean (s : String) (h : ' ' ∉ s.toList) : trimS s = s := by
  unfold trimS
  rw [Lex.trimL_none s.toList h]
  simp

theorem relString_noSpace (rel : List Nat) : ' ' ∉ (".".intercalate (rel.map toString)).toList := by
  rw [toList_relString]
  exact not_mem_relText rel ' ' (by decide) (by decide)

theorem reflect_ofCOp (cop : COp) : (MOp.ofCOp cop).reflect = MOp.ofCOp (cReflect cop) := by
  cases cop <;> rfl

theorem splitDots_relString (rel : List Nat) (h : rel ≠ []) :
    splitDots (".".intercalate (rel.map toString)) = rel.map fun n => String.ofList (digs n) := by
  unfold splitDots
  rw [toList_relString]
  have : splitOnChar '.' (relText rel) = rel.map digs := by
    apply splitOnChar_intercalate
    · simpa using h
    · intro d hd
      obtain ⟨n, _, rfl⟩ := List.mem_map.1 hd
      exact not_mem_digs n '.' (by decide)
  rw [this, List.map_map]
  rfl

/-- **the guard is sufficient**: a canonical literal-on-the-left comparison atom passes
    `_has_exact_specifier` and evaluates exactly as its specifier view says -/
theorem reversed_canonical (env : Env) (name : String) (cop : COp) (hc : cop ≠ .compat)
    (rel relEnv : List Nat) (hr : rel ≠ []) (hre : relEnv ≠ []) (spec : ASpec)
    (hn : versionLikeNames.contains name = true)
    (hw : Atom.WF ⟨name, MOp.ofCOp cop, ".".intercalate (rel.map toString), true, spec⟩)
    (ht : env name = some (.str (".".intercalate (relEnv.map toString)))) :
    Atom.exactView ⟨name, MOp.ofCOp cop, ".".intercalate (rel.map toString), true, spec⟩ = true ∧
    Atom.Coherent env ⟨name, MOp.ofCOp cop, ".".intercalate (rel.map toString), true, spec⟩ := by
  have hopn : MOp.ofCOp cop ≠ .in_ ∧ MOp.ofCOp cop ≠ .notIn := by cases cop <;> simp [MOp.ofCOp]
  constructor
  · -- the guard
    unfold Atom.exactView
    have hcomma : (".".intercalate (rel.map toString)).toList.contains ',' = false := by
      rw [toList_relString]; simpa using not_mem_relText rel ',' (by decide) (by decide)
    have hbar : (".".intercalate (rel.map toString)).toList.contains '|' = false := by
      rw [toList_relString]; simpa using not_mem_relText rel '|' (by decide) (by decide)
    have hkw : ((".".intercalate (rel.map toString)).toList == ['e', 'm', 'p', 't', 'y', '>']) = false := by
      rw [toList_relString]
      apply beq_false_of_ne
      intro e
      have : 'e' ∈ relText rel := by rw [e]; simp
      exact not_mem_relText rel 'e' (by decide) (by decide) this
    simp only [Bool.not_true, Bool.false_or, hn, Bool.not_true, Bool.false_eq_true, if_false, Bool.and_false,
      hcomma, hbar, Bool.or_self, hkw]
    have h1 : (MOp.ofCOp cop == MOp.in_ || MOp.ofCOp cop == MOp.notIn) = false := by cases cop <;> rfl
    have h2 : (MOp.ofCOp cop != MOp.compat) = true := by cases cop <;> first | rfl | exact absurd rfl hc
    simp only [h1, Bool.false_eq_true, if_false, h2, Bool.true_and]
    rw [splitDots_relString rel hr, List.all_eq_true]
    intro p hp
    obtain ⟨n, _, rfl⟩ := List.mem_map.1 hp
    simp [natOfDigits_digs]
  · -- the specifier view is exact
    let a : Atom := ⟨name, MOp.ofCOp cop, ".".intercalate (rel.map toString), true, spec⟩
    have hval : a.value.toList = relText rel := toList_relString rel
    have hclean : C11.Clean a.value.toList := by
      rw [hval]
      have := relText_clean rel [] ⟨by simp, by simp, by simp⟩
      simpa [Lex.Clean, C11.Clean] using this
    have hp : parseClauseL (a.op.str.toList ++ a.value.toList) = some ⟨cop, { release := rel }, false⟩ := by
      rw [hval]
      show parseClauseL ((MOp.ofCOp cop).str.toList ++ relText rel) = _
      rw [mop_str]
      have := parseClauseL_final cop rel hr false (by intro h; cases h)
      simpa using this
    have hview : LexOne a ⟨cop, { release := rel }, false⟩ := lexOne_of_clean a _ hopn hclean hp
    have henv : parseClauseL (a.op.reflect.str ++ trimS (".".intercalate (relEnv.map toString))).toList =
        some ⟨cReflect cop, { release := relEnv }, false⟩ := by
      rw [trimS_clean _ (relString_noSpace relEnv), String.toList_append, toList_relString]
      show parseClauseL ((MOp.ofCOp cop).reflect.str.toList ++ relText relEnv) = _
      rw [reflect_ofCOp, mop_str]
      have := parseClauseL_final (cReflect cop) relEnv hre false (by intro h; cases h)
      simpa using this
    have hlit : parseVer (trimS a.value) = some { release := rel } := by
      show parseVer (trimS (".".intercalate (rel.map toString))) = _
      rw [trimS_clean _ (relString_noSpace rel)]
      unfold parseVer
      rw [toList_relString]
      exact parseVerL_relText rel hr
    have hv : parseVer (trimS (".".intercalate (relEnv.map toString))) = some { release := relEnv } := by
      rw [trimS_clean _ (relString_noSpace relEnv)]
      unfold parseVer
      rw [toList_relString]
      exact parseVerL_relText relEnv hre
    exact coherent_reversed env a cop { release := rel } { release := relEnv } hw hn rfl _ ht
      ⟨hview, rfl, hc, henv, hlit⟩ hv rfl rfl

/-- such atoms on python_full_version / platform_release are Good atoms of the marker theorems (C02, C03, C07,
    C12, C14) — the merged branch of `GoodAtom`, not the opaque one: a closed-form family of instances -/
theorem reversed_canonical_good (env : Env) (name : String) (cop : COp) (hc : cop ≠ .compat)
    (rel relEnv : List Nat) (hr : rel ≠ []) (hre : relEnv ≠ []) (spec : ASpec)
    (hname : name = "python_full_version" ∨ name = "platform_release")
    (hw : Atom.WF ⟨name, MOp.ofCOp cop, ".".intercalate (rel.map toString), true, spec⟩)
    (ht : env name = some (.str (".".intercalate (relEnv.map toString)))) :
    GoodAtom env ⟨name, MOp.ofCOp cop, ".".intercalate (rel.map toString), true, spec⟩ := by
  have hn : versionLikeNames.contains name = true := by rcases hname with rfl | rfl <;> decide
  obtain ⟨_, hcoh⟩ := reversed_canonical env name cop hc rel relEnv hr hre spec hn hw ht
  have hopn : MOp.ofCOp cop ≠ .in_ ∧ MOp.ofCOp cop ≠ .notIn := by cases cop <;> simp [MOp.ofCOp]
  refine ⟨hw, ?_⟩
  have h1 : name ≠ "extra" := by rcases hname with rfl | rfl <;> decide
  have h2 : setNames.contains name = false := by rcases hname with rfl | rfl <;> decide
  simp only [h1, if_false, h2, Bool.false_eq_true, hn, if_true]
  right
  refine ⟨hcoh, ?_, ?_⟩
  · -- the view is what the parser builds from the clause over a plain final release
    let a : Atom := ⟨name, MOp.ofCOp cop, ".".intercalate (rel.map toString), true, spec⟩
    have hval : a.value.toList = relText rel := toList_relString rel
    have hclean : C11.Clean a.value.toList := by
      rw [hval]
      have := relText_clean rel [] ⟨by simp, by simp, by simp⟩
      simpa [Lex.Clean, C11.Clean] using this
    have hp : parseClauseL (a.op.str.toList ++ a.value.toList) = some ⟨cop, { release := rel }, false⟩ := by
      rw [hval]
      show parseClauseL ((MOp.ofCOp cop).str.toList ++ relText rel) = _
      rw [mop_str]
      have := parseClauseL_final cop rel hr false (by intro h; cases h)
      simpa using this
    obtain ⟨s0, hs0, hspec⟩ := spec_of_lex a _ hw hn hopn (lexOne_of_clean a _ hopn hclean hp)
    show ASpec.Canon spec
    have : spec = .ver ((Spec.range {}).and s0) := hspec
    rw [this]
    have hfin : Spec.FinalV (⟨cop, { release := rel }, false⟩ : Clause Ver).ver := ⟨rfl, rfl, hr⟩
    exact C06.nice_and _ _ nice_anyRange
      ⟨fromClause_canon _ _ hs0, Spec.fromClause_textInv _ _ hs0, fromClause_final _ hfin _ hs0⟩
  · intro hpv
    exfalso
    rcases hname with rfl | rfl <;> simp at hpv

/-- what the guard of `_merge_single_markers` (after the `fix:`es for D35 and D40) guarantees about the operand of a
    comparison atom on a version variable: no `,`, no `|`, and not the `<empty>` keyword — operator and operand cannot
    spell a specifier EXPRESSION -/
theorem exactView_guards (a : Atom) (hn : versionLikeNames.contains a.name = true)
    (hop : a.op ≠ .in_ ∧ a.op ≠ .notIn) (h : a.exactView = true) :
    ',' ∉ a.value.toList ∧ '|' ∉ a.value.toList ∧ ¬ (a.op = .lt ∧ a.value.toList = ['e', 'm', 'p', 't', 'y', '>']) := by
  unfold Atom.exactView at h
  have h1 : (versionEvalNames.contains a.name && !versionLikeNames.contains a.name) = false := by
    rw [hn]; simp
  have h2 : (!versionLikeNames.contains a.name) = false := by rw [hn]; rfl
  have hopb : (a.op != .in_ && a.op != .notIn) = true := by
    simp only [Bool.and_eq_true, bne_iff_ne, ne_eq]; exact hop
  rw [if_neg (by rw [h1]; simp), if_neg (by rw [h2]; simp), hopb, Bool.true_and] at h
  by_cases hc : (a.value.toList.contains ',' || a.value.toList.contains '|') = true
  · rw [if_pos hc] at h; cases h
  · rw [if_neg hc] at h
    have hc' : (a.value.toList.contains ',' || a.value.toList.contains '|') = false := by simpa using hc
    simp only [Bool.or_eq_false_iff, List.contains_eq_mem, decide_eq_false_iff_not] at hc'
    refine ⟨hc'.1, hc'.2, ?_⟩
    rintro ⟨ho, hv⟩
    have hk : (a.op == MOp.lt && a.value.toList == ['e', 'm', 'p', 't', 'y', '>']) = true := by
      rw [ho, hv]; rfl
    rw [if_pos hk] at h; cases h

/-- **the guard is sufficient for forward atoms too**: a comparison atom on a version variable that passes the guard,
    whose operand has no blank and whose text `op + operand` is a clause, lexes as exactly ONE clause (`LexOne`, the
    hypothesis of `coherent_plain` that defects D35 and D40 fell outside of) -/
theorem guard_lexOne (a : Atom) (c : Clause Ver) (hn : versionLikeNames.contains a.name = true)
    (hop : a.op ≠ .in_ ∧ a.op ≠ .notIn) (h : a.exactView = true) (hb : ' ' ∉ a.value.toList)
    (hp : SpecParse.parseClauseL (a.op.str.toList ++ a.value.toList) = some c) : LexOne a c := by
  obtain ⟨h1, h2, _⟩ := exactView_guards a hn hop h
  exact lexOne_of_clean a c hop ⟨h1, h2, hb⟩ hp

end C11
end DepLogic
