import DepLogic.Properties.C12
import DepLogic.Properties.C15
import DepLogic.Properties.C15NonEmpty

/-!
# C12, third clause without the `NoVanish` hypothesis on the shapes the library produces

`exclude_same_partial` needs `NoVanish` ("no conjunct collapses to EmptyMarker on re-normalisation, no
disjunction is left with nothing"). For markers in disjunctive shape over single markers — a single marker,
a conjunction of single markers, or a non-empty disjunction of those: what `parse_marker` and `&` return —
the hypothesis is a theorem (`noVanish_dnf`), so the clause holds outright, at every fuel:
`exclude_same_dnf`.
-/

namespace DepLogic
namespace C12
open M

/-- disjunctive shape over single markers -/
def DnfShape (m : M) : Prop :=
  C15.FlatConj m ∨ ∃ l, m = .union l ∧ l ≠ [] ∧ ∀ c ∈ l, C15.FlatConj c

theorem gallL_mem (G : M → Prop) : ∀ (l : List M), GAllL G l → ∀ c ∈ l, GAll G c
  | [], _, c, hc => by cases hc
  | x :: xs, h, c, hc => by
    simp only [GAllL] at h
    rcases List.mem_cons.1 hc with rfl | hc
    · exact h.1
    · exact gallL_mem G xs h.2 c hc

theorem noVanish_single (fuel : Nat) (c : M) (name : String) (hc : c.isSingle = true) : NoVanish fuel c name := by
  cases fuel with
  | zero => simp [NoVanish]
  | succ n => cases c <;> simp [isSingle] at hc <;> simp [NoVanish]

theorem single_name_ne (c : M) (name : String) (hc : c.isSingle = true) (hn : GAll (NameIn (· ≠ name)) c) :
    (c.singleName? == some name) = false := by
  cases c <;> simp [isSingle] at hc <;>
    (simp only [GAll, NameIn, singleName?, Option.some.injEq] at hn
     simp only [singleName?, beq_eq_false_iff_ne, ne_eq, Option.some.injEq]
     exact hn _ rfl)

theorem noVanish_flatConj (fuel : Nat) (m : M) (name : String) (hm : C15.FlatConj m)
    (hn : GAll (NameIn (· ≠ name)) m) : NoVanish fuel m name := by
  rcases hm with hs | ⟨l, rfl, hl⟩
  · exact noVanish_single fuel m name hs
  · cases fuel with
    | zero => simp [NoVanish]
    | succ n =>
      simp only [NoVanish]
      intro c hc
      have hcs := hl c hc
      have hcn := gallL_mem _ l (by simpa [GAll] using hn) c hc
      refine ⟨?_, noVanish_single n c name hcs⟩
      rw [C15.exclude_single n c name hcs (single_name_ne c name hcs hcn)]
      cases c <;> simp [isSingle] at hcs <;> rfl

/-- **`NoVanish` holds on disjunctive shapes that do not mention the variable** -/
theorem noVanish_dnf (fuel : Nat) (m : M) (name : String) (hm : DnfShape m)
    (hn : GAll (NameIn (· ≠ name)) m) : NoVanish fuel m name := by
  rcases hm with hf | ⟨l, rfl, hne, hl⟩
  · exact noVanish_flatConj fuel m name hf hn
  · cases fuel with
    | zero => simp [NoVanish]
    | succ n =>
      simp only [NoVanish]
      refine ⟨hne, fun c hc => ?_⟩
      exact noVanish_flatConj n c name (hl c hc) (gallL_mem _ l (by simpa [GAll] using hn) c hc)

/-- **C12, third clause, no side condition**: on every marker in disjunctive shape that does not mention
    `name`, `m.exclude(name)` (and `without_extras()`, which is `exclude("extra")`) means what `m` means, in
    every total environment and at every fuel -/
theorem exclude_same_dnf (env : Env) (he : EnvTotal env) (name : String) (fuel : Nat) (m : M)
    (hm : GAll (Good env) m) (hs : DnfShape m) (hn : GAll (NameIn (· ≠ name)) m) :
    sem env (exclude fuel m name) = sem env m :=
  (exclude_final env he name fuel m hm).2.2 hn (noVanish_dnf fuel m name hs hn)

/-! non-vacuity -/

example : DnfShape (.union [.multi [C15.atomA, C15.atomB], C15.atomC]) := by
  right
  refine ⟨_, rfl, by simp, ?_⟩
  intro c hc
  simp at hc
  rcases hc with rfl | rfl
  · right; exact ⟨_, rfl, by intro x hx; simp at hx; rcases hx with rfl | rfl <;> rfl⟩
  · left; rfl

example : GAll (NameIn (· ≠ "extra")) (.union [.multi [C15.atomA, C15.atomB], C15.atomC]) := by
  simp [GAll, GAllL, NameIn, singleName?, C15.atomA, C15.atomB, C15.atomC]

/-! ### conjunctive shape: a conjunction whose members are single markers or non-empty disjunctions of single
markers — the factored form `|` may choose (seed C12k lives exactly here) -/

def DisjItem (c : M) : Prop := c.isSingle = true ∨ ∃ l, c = .union l ∧ l ≠ [] ∧ C15.AllSingle l

def CnfShape (m : M) : Prop := ∃ l, m = .multi l ∧ ∀ c ∈ l, DisjItem c

theorem filterMap_exclude_singles (f : Nat) (name : String) : ∀ (l : List M), C15.AllSingle l →
    GAllL (NameIn (· ≠ name)) l →
    (l.filterMap fun c => if c.isSingle && c.singleName? == some name then none else some (exclude f c name)) = l
  | [], _, _ => rfl
  | x :: xs, hl, hn => by
    simp only [GAllL] at hn
    have hx := hl x (List.mem_cons_self ..)
    have hne := single_name_ne x name hx hn.1
    have ih := filterMap_exclude_singles f name xs (fun y hy => hl y (List.mem_cons_of_mem _ hy)) hn.2
    simp only [List.filterMap_cons, hx, hne, Bool.and_false, Bool.false_eq_true, if_false,
      C15.exclude_single f x name hx hne, ih]

theorem exclude_disjItem_not_empty (fuel : Nat) (c : M) (name : String) (hc : DisjItem c)
    (hn : GAll (NameIn (· ≠ name)) c) : (exclude fuel c name).isEmpty = false := by
  rcases hc with hs | ⟨l, rfl, hne, hl⟩
  · rw [C15.exclude_single fuel c name hs (single_name_ne c name hs hn)]
    cases c <;> simp [isSingle] at hs <;> rfl
  · cases fuel with
    | zero => rfl
    | succ f =>
      rw [C15.exclude_union_eq, filterMap_exclude_singles f name l hl (by simpa [GAll] using hn)]
      simp only
      have : l.isEmpty = false := by cases l with
        | nil => exact absurd rfl hne
        | cons _ _ => rfl
      simp only [this, Bool.false_eq_true, if_false]
      exact C15.unionOfList_not_empty f l hl hne

theorem noVanish_disjItem (fuel : Nat) (c : M) (name : String) (hc : DisjItem c) : NoVanish fuel c name := by
  rcases hc with hs | ⟨l, rfl, hne, hl⟩
  · exact noVanish_single fuel c name hs
  · cases fuel with
    | zero => simp [NoVanish]
    | succ f =>
      simp only [NoVanish]
      exact ⟨hne, fun c hc => noVanish_single f c name (hl c hc)⟩

/-- **`NoVanish` holds on conjunctive shapes that do not mention the variable** -/
theorem noVanish_cnf (fuel : Nat) (m : M) (name : String) (hm : CnfShape m)
    (hn : GAll (NameIn (· ≠ name)) m) : NoVanish fuel m name := by
  obtain ⟨l, rfl, hl⟩ := hm
  cases fuel with
  | zero => simp [NoVanish]
  | succ f =>
    simp only [NoVanish]
    intro c hc
    have hcn := gallL_mem _ l (by simpa [GAll] using hn) c hc
    exact ⟨exclude_disjItem_not_empty f c name (hl c hc) hcn, noVanish_disjItem f c name (hl c hc)⟩

/-- **C12, third clause, no side condition, conjunctive shapes** -/
theorem exclude_same_cnf (env : Env) (he : EnvTotal env) (name : String) (fuel : Nat) (m : M)
    (hm : GAll (Good env) m) (hs : CnfShape m) (hn : GAll (NameIn (· ≠ name)) m) :
    sem env (exclude fuel m name) = sem env m :=
  (exclude_final env he name fuel m hm).2.2 hn (noVanish_cnf fuel m name hs hn)

example : CnfShape (.multi [C15.atomA, .union [C15.atomB, C15.atomC]]) := by
  refine ⟨_, rfl, ?_⟩
  intro c hc
  simp at hc
  rcases hc with rfl | rfl
  · left; rfl
  · right; exact ⟨_, rfl, by simp, by intro x hx; simp at hx; rcases hx with rfl | rfl <;> rfl⟩

end C12
end DepLogic
