import DepLogic.Properties.C12
import DepLogic.Properties.C15

/-!
# C12, third clause without the `NoVanish` hypothesis on the shapes the library produces

`exclude_same_partial` needs `NoVanish` ("no conjunct collapses to EmptyMarker on re-normalisation, no
disjunction is left with nothing"). For markers in disjunctive shape over single markers — a single marker,
a conjunction of single markers, or a non-empty disjunction of those: what `parse_marker` and `&` return —
the hypothesis is a theorem (`noVanish_dnf`), so the clause holds outright, at every fuel:
`exclude_same_dnf`.
-/

namespace DepLogic
namespace C12
open M

/-- disjunctive shape over single markers -/
def DnfShape (m : M) : Prop :=
  C15.FlatConj m ∨ ∃ l, m = .union l ∧ l ≠ [] ∧ ∀ c ∈ l, C15.FlatConj c

theorem gallL_mem (G : M → Prop) : ∀ (l : List M), GAllL G l → ∀ c ∈ l, GAll G c
  | [], _, c, hc => by cases hc
  | x :: xs, h, c, hc => by
    simp only [GAllL] at h
    rcases List.mem_cons.1 hc with rfl | hc
    · exact h.1
    · exact gallL_mem G xs h.2 c hc

theorem noVanish_single (fuel : Nat) (c : M) (name : String) (hc : c.isSingle = true) : NoVanish fuel c name := by
  cases fuel with
  | zero => simp [NoVanish]
  | succ n => cases c <;> simp [isSingle] at hc <;> simp [NoVanish]

theorem single_name_ne (c : M) (name : String) (hc : c.isSingle = true) (hn : GAll (NameIn (· ≠ name)) c) :
    (c.singleName? == some name) = false := by
  cases c <;> simp [isSingle] at hc <;>
    (simp only [GAll, NameIn, singleName?, Option.some.injEq] at hn
     simp only [singleName?, beq_eq_false_iff_ne, ne_eq, Option.some.injEq]
     exact hn _ rfl)

theorem noVanish_flatConj (fuel : Nat) (m : M) (name : String) (hm : C15.FlatConj m)
    (hn : GAll (NameIn (· ≠ name)) m) : NoVanish fuel m name := by
  rcases hm with hs | ⟨l, rfl, hl⟩
  · exact noVanish_single fuel m name hs
  · cases fuel with
    | zero => simp [NoVanish]
    | succ n =>
      simp only [NoVanish]
      intro c hc
      have hcs := hl c hc
      have hcn := gallL_mem _ l (by simpa [GAll] using hn) c hc
      refine ⟨?_, noVanish_single n c name hcs⟩
      rw [C15.exclude_single n c name hcs (single_name_ne c name hcs hcn)]
      cases c <;> simp [isSingle] at hcs <;> rfl

/-- **`NoVanish` holds on disjunctive shapes that do not mention the variable** -/
theorem noVanish_dnf (fuel : Nat) (m : M) (name : String) (hm : DnfShape m)
    (hn : GAll (NameIn (· ≠ name)) m) : NoVanish fuel m name := by
  rcases hm with hf | ⟨l, rfl, hne, hl⟩
  · exact noVanish_flatConj fuel m name hf hn
  · cases fuel with
    | zero => simp [NoVanish]
    | succ n =>
      simp only [NoVanish]
      refine ⟨hne, fun c hc => ?_⟩
      exact noVanish_flatConj n c name (hl c hc) (gallL_mem _ l (by simpa [GAll] using hn) c hc)

/-- **C12, third clause, no side condition**: on every marker in disjunctive shape that does not mention
    `name`, `m.exclude(name)` (and `without_extras()`, which is `exclude("extra")`) means what `m` means, in
    every total environment and at every fuel -/
theorem exclude_same_dnf (env : Env) (he : EnvTotal env) (name : String) (fuel : Nat) (m : M)
    (hm : GAll (Good env) m) (hs : DnfShape m) (hn : GAll (NameIn (· ≠ name)) m) :
    sem env (exclude fuel m name) = sem env m :=
  (exclude_final env he name fuel m hm).2.2 hn (noVanish_dnf fuel m name hs hn)

/-! non-vacuity -/

example : DnfShape (.union [.multi [C15.atomA, C15.atomB], C15.atomC]) := by
  right
  refine ⟨_, rfl, by simp, ?_⟩
  intro c hc
  simp at hc
  rcases hc with rfl | rfl
  · right; exact ⟨_, rfl, by intro x hx; simp at hx; rcases hx with rfl | rfl <;> rfl⟩
  · left; rfl

example : GAll (NameIn (· ≠ "extra")) (.union [.multi [C15.atomA, C15.atomB], C15.atomC]) := by
  simp [GAll, GAllL, NameIn, singleName?, C15.atomA, C15.atomB, C15.atomC]

end C12
end DepLogic
