import DepLogic.Proofs.MarkerSingles
import DepLogic.Proofs.FromSpec
import DepLogic.Proofs.LexNorm
/-
  C02 — marker `&` and `|` are sound.

  `and_sound` / `or_sound`: for EVERY fuel (so whether or not the simplification loops ran to
  completion), every environment that binds the variables, and all markers whose atoms are of
  the well-defined classes, the result of `&` (`|`) is satisfied exactly when both (either)
  operand(s) are.  The proof is the engine induction (Proofs/MarkerEngine*.lean: `of` fixpoints,
  `union_simplify`/`intersect_simplify`, `cnf`/`dnf` distribution, least-complexity choice) on top
  of the single-marker layer (Proofs/MarkerSingles.lean: the string case table from C19, grouped
  `==`/`!=` atoms, multi-valued `extra`, set-valued `extras`).

  The theorems take `FromSpecOk` (from_specifier renders a specifier as an atom that means it) and
  `PyMergeOk` (python_version / python_full_version merge) as parameters; both are THEOREMS
  (Proofs/FromSpec.lean: `fromSpecOk_of_lex`, `pyMergeOk_of_fromSpec`), and so are the
  character-level facts they rest on: that the operand text from_specifier writes is read back as
  the clause it was written from (`lexPrint_final`, Proofs/LexLemmas.lean: `int(str(n)) = n`,
  `Version(".".join(...))`, operator and `.*` lexing) and that the string surgery of
  `_normalize_python_version_specifier` computes the structured normalisation (`lexNorm_final`,
  Proofs/LexNorm.lean).  So the `*_final` theorems at the end of this file state C02 with no
  assumption other than an environment that binds its variables PEP 508-style (`EnvTotal`) and
  atoms of the well-defined classes (`Good`).  The restriction to specifier views over plain final releases (`C06.Nice`, inside
  `Good`) is forced in one respect: with post-release bounds the property is false of the code
  (known finding D4a).
-/
namespace DepLogic
namespace C02
open M


theorem and_sound (env : Env) (he : EnvTotal env) (hF : FromSpecOk env) (hP : PyMergeOk env) (fuel : Nat) (a b : M) (ha : GAll (Good env) a) (hb : GAll (Good env) b) :
    GAll (Good env) (M.and fuel a b) ∧ sem env (M.and fuel a b) = (sem env a && sem env b) :=
  (sound_all (singleSound env he hF hP) fuel).and_ a b ha hb

theorem or_sound (env : Env) (he : EnvTotal env) (hF : FromSpecOk env) (hP : PyMergeOk env) (fuel : Nat) (a b : M) (ha : GAll (Good env) a) (hb : GAll (Good env) b) :
    GAll (Good env) (M.or fuel a b) ∧ sem env (M.or fuel a b) = (sem env a || sem env b) :=
  (sound_all (singleSound env he hF hP) fuel).or_ a b ha hb

/-- a result that reports `is_empty()` is satisfied by no environment -/
theorem isEmpty_sound (env : Env) (he : EnvTotal env) (hF : FromSpecOk env) (hP : PyMergeOk env) (fuel : Nat) (a b : M) (ha : GAll (Good env) a) (hb : GAll (Good env) b)
    (h : (M.and fuel a b).isEmpty = true) : (sem env a && sem env b) = false := by
  rw [← (and_sound env he hF hP fuel a b ha hb).2]
  cases hm : M.and fuel a b <;> simp [hm, isEmpty] at h
  simp [sem]

/-- a result that reports `is_any()` is satisfied by every environment -/
theorem isAny_sound (env : Env) (he : EnvTotal env) (hF : FromSpecOk env) (hP : PyMergeOk env) (fuel : Nat) (a b : M) (ha : GAll (Good env) a) (hb : GAll (Good env) b)
    (h : (M.or fuel a b).isAny = true) : (sem env a || sem env b) = true := by
  rw [← (or_sound env he hF hP fuel a b ha hb).2]
  cases hm : M.or fuel a b <;> simp [hm, isAny] at h
  simp [sem]

/-- CNF/DNF rewriting and the `of` normalisations never change which environments are selected -/
theorem rewriting_sound (env : Env) (he : EnvTotal env) (hF : FromSpecOk env) (hP : PyMergeOk env) (fuel : Nat) (m : M) (hm : GAll (Good env) m) :
    sem env (cnf fuel m) = sem env m ∧ sem env (dnf fuel m) = sem env m ∧
    (∀ ms, GAllL (Good env) ms → sem env (multiOf fuel ms) = ms.all (sem env)) ∧
    (∀ ms, GAllL (Good env) ms → sem env (unionOfList fuel ms) = ms.any (sem env)) :=
  let S := sound_all (singleSound env he hF hP) fuel
  ⟨(S.cnf_ m hm).2, (S.dnf_ m hm).2, fun ms h => (S.multiOf_ ms h).2, fun ms h => (S.unionOfList_ ms h).2⟩

/-! ### with the bridge hypotheses discharged -/

/-- `from_specifier` and the python_version / python_full_version merge are sound: no assumption
    beyond the environment binding its variables -/
theorem bridge (env : Env) (he : EnvTotal env) : FromSpecOk env ∧ PyMergeOk env :=
  let hF := fromSpecOk_of_lex env he lexNorm_final
  ⟨hF, pyMergeOk_of_fromSpec env he hF⟩

/-- **C02, `&`**: for every fuel, every PEP 508 environment and all markers over good atoms -/
theorem and_sound_final (env : Env) (he : EnvTotal env) (fuel : Nat) (a b : M)
    (ha : GAll (Good env) a) (hb : GAll (Good env) b) :
    GAll (Good env) (M.and fuel a b) ∧ sem env (M.and fuel a b) = (sem env a && sem env b) :=
  and_sound env he (bridge env he).1 (bridge env he).2 fuel a b ha hb

/-- **C02, `|`** -/
theorem or_sound_final (env : Env) (he : EnvTotal env) (fuel : Nat) (a b : M)
    (ha : GAll (Good env) a) (hb : GAll (Good env) b) :
    GAll (Good env) (M.or fuel a b) ∧ sem env (M.or fuel a b) = (sem env a || sem env b) :=
  or_sound env he (bridge env he).1 (bridge env he).2 fuel a b ha hb

/-! ### the hypotheses are satisfiable (non-vacuity) -/

/-- CPython 3.8.5 on Linux 5.10, no extras -/
def env0 : Env := fun n =>
  if n = "python_version" then some (.str "3.8")
  else if n = "python_full_version" then some (.str "3.8.5")
  else if n = "platform_release" then some (.str "5.10")
  else if n = "extra" ∨ n = "extras" ∨ n = "dependency_groups" then some (.set [])
  else some (.str "x")

theorem env0_total : EnvTotal env0 where
  str := by
    intro n h1 h2
    have h2' : n ≠ "extras" ∧ n ≠ "dependency_groups" := by
      simpa [setNames] using h2
    unfold env0
    repeat' split
    all_goals first | exact ⟨_, rfl⟩ | (rename_i h; rcases h with h | h | h <;> simp_all)
  ver := by
    intro n hn
    simp only [versionLikeNames, List.contains_cons, List.contains_nil, Bool.or_false, Bool.or_eq_true, beq_iff_eq] at hn
    rcases hn with rfl | rfl | rfl <;> decide
  verFinal := by
    intro n v hv
    by_cases h1 : n = "python_version"
    · subst h1; have : envVer env0 "python_version" = some { release := [3, 8] } := by decide
      rw [this] at hv; cases hv; rfl
    by_cases h2 : n = "python_full_version"
    · subst h2; have : envVer env0 "python_full_version" = some { release := [3, 8, 5] } := by decide
      rw [this] at hv; cases hv; rfl
    by_cases h3 : n = "platform_release"
    · subst h3; have : envVer env0 "platform_release" = some { release := [5, 10] } := by decide
      rw [this] at hv; cases hv; rfl
    exfalso
    have hx : SpecParse.parseVer (trimS "x") = none := by decide
    unfold envVer env0 at hv
    simp only [h1, h2, h3, if_false] at hv
    by_cases h4 : n = "extra" ∨ n = "extras" ∨ n = "dependency_groups"
    · simp [h4] at hv
    · simp [h4, hx] at hv
  extra := by decide
  sets := by
    intro n hn
    simp only [setNames, List.contains_cons, List.contains_nil, Bool.or_false, Bool.or_eq_true, beq_iff_eq] at hn
    rcases hn with rfl | rfl <;> exact ⟨[], by decide⟩
  py := by
    intro f hf
    have : envVer env0 "python_full_version" = some (fin [3, 8, 5]) := by decide
    rw [this] at hf; cases hf
    exact ⟨3, 8, [5], rfl, by decide⟩

/-- `python_full_version >= "3.8.1"` as the parser builds it -/
def atomFull : Atom :=
  ⟨"python_full_version", .ge, "3.8.1", false,
   .ver (.range { min := some { release := [3, 8, 1] }, incMin := true, text := some ⟨.ge, { release := [3, 8, 1] }, false⟩ })⟩

theorem atomFull_good : GoodAtom env0 atomFull := by
  refine ⟨by unfold Atom.WF; decide, ?_⟩
  have h1 : atomFull.name ≠ "extra" := by decide
  have h2 : setNames.contains atomFull.name = false := by decide
  have h3 : versionLikeNames.contains atomFull.name = true := by decide
  simp only [h1, if_false, h2, Bool.false_eq_true, h3, if_true]
  refine Or.inr ⟨by unfold Atom.Coherent; decide, ⟨by decide, ?_, ?_⟩, fun h => absurd h (by decide)⟩
  · exact Spec.fromClause_textInv ⟨.ge, { release := [3, 8, 1] }, false⟩ _ (by simp [fromClause])
  · apply Spec.boundsIn_of_allVers
    simp [Spec.AllVers, Range.AllVers, atomFull, Spec.FinalV, Ver.isFinal]

/-- `python_version > "3.8"` as the parser builds it: the strict comparison that has to be
    re-read as `python_full_version >= "3.9"` -/
def atomPvGt : Atom :=
  ⟨"python_version", .gt, "3.8", false,
   .ver (.range { min := some { release := [3, 8] }, text := some ⟨.gt, { release := [3, 8] }, false⟩ })⟩

/-- `>= 3.9` as parsed -/
def normGe39 : Spec Ver :=
  .range { min := some { release := [3, 9] }, incMin := true, text := some ⟨.ge, { release := [3, 9] }, false⟩ }

theorem nice_of_clause (c : Clause Ver) (s : Spec Ver) (h : fromClause c = some s) (hv : Spec.FinalV c.ver) : C06.Nice s :=
  ⟨fromClause_canon c s h, Spec.fromClause_textInv c s h, fromClause_final c hv s h⟩

theorem atomPvGt_good : GoodAtom env0 atomPvGt := by
  refine ⟨by unfold Atom.WF; decide, ?_⟩
  have h1 : atomPvGt.name ≠ "extra" := by decide
  have h2 : setNames.contains atomPvGt.name = false := by decide
  have h3 : versionLikeNames.contains atomPvGt.name = true := by decide
  simp only [h1, if_false, h2, Bool.false_eq_true, h3, if_true]
  refine Or.inr ⟨by unfold Atom.Coherent; decide, ?_, ?_⟩
  · exact nice_of_clause ⟨.gt, { release := [3, 8] }, false⟩ _ (by simp [fromClause]) ⟨rfl, rfl, by simp⟩
  · intro _ ns hns
    have hnorm : normalizePythonVersion atomPvGt = some (.ver ((Spec.range {}).and normGe39)) := by decide
    rw [hnorm] at hns
    cases hns
    refine ⟨by decide, ?_, (by decide : versionLikeNames.contains "python_full_version" = true)⟩
    exact C06.nice_and _ _ nice_anyRange
      (nice_of_clause ⟨.ge, { release := [3, 9] }, false⟩ normGe39 (by simp [fromClause, normGe39]) ⟨rfl, rfl, by simp⟩)

/-- `python_version >= "3.8.1"` as the parser builds it: three significant components.  Before the `fix:`
    it was normalised to the python_full_version constraint `>=3.8.1` (defect D22) and was outside the
    Good atoms (the proof forced two-component bounds on python_version views); now
    `_normalize_python_version_specifier` returns None for it, it is never merged with a
    python_full_version atom, and it is a Good atom like any other -/
def atomPv3 : Atom :=
  ⟨"python_version", .ge, "3.8.1", false,
   .ver (.range { min := some { release := [3, 8, 1] }, incMin := true, text := some ⟨.ge, { release := [3, 8, 1] }, false⟩ })⟩

theorem atomPv3_good : GoodAtom env0 atomPv3 := by
  refine ⟨by unfold Atom.WF; decide, ?_⟩
  have h1 : atomPv3.name ≠ "extra" := by decide
  have h2 : setNames.contains atomPv3.name = false := by decide
  have h3 : versionLikeNames.contains atomPv3.name = true := by decide
  simp only [h1, if_false, h2, Bool.false_eq_true, h3, if_true]
  refine Or.inr ⟨by unfold Atom.Coherent; decide, ?_, ?_⟩
  · exact nice_of_clause ⟨.ge, { release := [3, 8, 1] }, false⟩ _ (by simp [fromClause]) ⟨rfl, rfl, by simp⟩
  · intro _ ns hns
    have hnorm : normalizePythonVersion atomPv3 = none := by decide
    rw [hnorm] at hns; cases hns

/-- and it is not merged with a python_full_version atom -/
example : mergeSingle atomPv3 atomFull true = none := by decide

/-- `"3.8" ~= python_version` as the parser builds it (literal on the left, `~=` has no mirror image): its
    specifier view `~=3.8` is NOT what it evaluates to, so after the `fix:` it is never merged
    (`Atom.exactView = false`) and is a Good, opaque atom -/
def atomRevCompat : Atom :=
  ⟨"python_version", .compat, "3.8", true,
   .ver (.range { min := some { release := [3, 8] }, max := some { release := [4, 0] }, incMin := true,
                  text := some ⟨.compat, { release := [3, 8] }, false⟩ })⟩

theorem atomRevCompat_good : GoodAtom env0 atomRevCompat := by
  refine ⟨by unfold Atom.WF; decide, ?_⟩
  have h1 : atomRevCompat.name ≠ "extra" := by decide
  have h2 : setNames.contains atomRevCompat.name = false := by decide
  have h3 : versionLikeNames.contains atomRevCompat.name = true := by decide
  simp only [h1, if_false, h2, Bool.false_eq_true, h3, if_true]
  exact Or.inl (by decide)

/-- the specifier view of that atom really is inexact: in an environment with python_version 3.6 the atom
    is true (`~=3.6` contains 3.8) while `~=3.8` does not admit 3.6 — merging through the view was the defect -/
example : ¬ atomRevCompat.Coherent (fun n => if n == "python_version" then some (.str "3.6") else env0 n) := by
  unfold Atom.Coherent; decide

/-- and it is not merged: `"3.8" ~= python_version and python_version > "3.8"` stays a conjunction -/
example : mergeSingle atomRevCompat atomPvGt true = none := by decide

/-- `python_full_version >= "3.8,<3.9"`: the operand is not a version, so the atom is evaluated by the PEP 508
    string fallback, while its specifier view splices the operand into a specifier expression (`>=3.8,<3.9`).
    Before the `fix:` for D35 it was merged through that view (`... and python_full_version >= "3.8.5"` became
    `python_full_version ~= "3.8.5"`).  Now `Atom.exactView` is false for such operands: a Good, opaque atom. -/
def atomComma : Atom :=
  ⟨"python_full_version", .ge, "3.8,<3.9", false,
   .ver (.range { min := some { release := [3, 8] }, max := some { release := [3, 9] }, incMin := true })⟩

theorem atomComma_good : GoodAtom env0 atomComma := by
  refine ⟨by unfold Atom.WF; decide, ?_⟩
  have h1 : atomComma.name ≠ "extra" := by decide
  have h2 : setNames.contains atomComma.name = false := by decide
  have h3 : versionLikeNames.contains atomComma.name = true := by decide
  simp only [h1, if_false, h2, Bool.false_eq_true, h3, if_true]
  exact Or.inl (by decide)

example : mergeSingle atomComma ⟨"python_full_version", .ge, "3.8.5", false,
    .ver (.range { min := some { release := [3, 8, 5] }, incMin := true,
                   text := some ⟨.ge, { release := [3, 8, 5] }, false⟩ })⟩ true = none := by decide

/-- `python_version < "empty>"`: operator and operand spell the `<empty>` keyword, so the specifier view is the empty
    set, while the atom itself evaluates by the string fallback.  After the `fix:` for D40 it is never merged
    (`Atom.exactView = false`): a Good, opaque atom. -/
def atomKeyword : Atom := ⟨"python_version", .lt, "empty>", false, .ver .empty⟩

theorem atomKeyword_good : GoodAtom env0 atomKeyword := by
  refine ⟨by unfold Atom.WF; decide, ?_⟩
  have h1 : atomKeyword.name ≠ "extra" := by decide
  have h2 : setNames.contains atomKeyword.name = false := by decide
  have h3 : versionLikeNames.contains atomKeyword.name = true := by decide
  simp only [h1, if_false, h2, Bool.false_eq_true, h3, if_true]
  exact Or.inl (by decide)

example : mergeSingle atomKeyword ⟨"python_version", .ge, "99", false,
    .ver (.range { min := some { release := [99] }, incMin := true, text := some ⟨.ge, { release := [99] }, false⟩ })⟩ false = none := by
  decide

/-- `implementation_version == "3.8"`: `_evaluate` compares it as a version (MARKERS_REQUIRING_VERSION), its
    specifier view is a string comparison (it is not in `_VERSION_LIKE_MARKER_NAME`).  Before the `fix:` for D24
    two such atoms were merged through the string view (`== "3.8" or == "3.9"` became a group that is false on
    3.8.0).  Now `Atom.exactView` is false for the variable and the atom is a Good, opaque atom. -/
def atomImpl : Atom := ⟨"implementation_version", .eq, "3.8", false, .gen ⟨.eq, "3.8"⟩⟩

theorem atomImpl_good : GoodAtom env0 atomImpl := by
  refine ⟨by unfold Atom.WF; decide, ?_⟩
  have h1 : atomImpl.name ≠ "extra" := by decide
  have h2 : setNames.contains atomImpl.name = false := by decide
  have h3 : versionLikeNames.contains atomImpl.name = false := by decide
  simp only [h1, if_false, h2, Bool.false_eq_true, h3]
  exact Or.inr (by decide)

/-- the string view really is inexact: on implementation_version 3.8.0 the atom is true, `== "3.8"` as strings is not -/
example : ¬ atomImpl.Coherent (fun n => if n == "implementation_version" then some (.str "3.8.0") else env0 n) := by
  unfold Atom.Coherent; decide

example : mergeSingle atomImpl ⟨"implementation_version", .eq, "3.9", false, .gen ⟨.eq, "3.9"⟩⟩ false = none := by decide

/-- what the guards added by the `fix:`es D21, D24, D26 amount to in the model: an atom whose specifier view is not exact
    is merged with nothing but itself — `&` / `|` with any other atom keeps both atoms side by side -/
theorem inexact_never_merged (a b : Atom) (isAnd : Bool) (h : a.exactView = false ∨ b.exactView = false)
    (hne : a.beq b = false) : mergeSingle a b isAnd = none := by
  unfold mergeSingle
  rw [if_neg (by simp [hne])]
  rcases h with h | h <;> simp [h]

/-- instances of the character-level facts (now theorems), evaluated in the kernel -/
example : SpecParse.parseAltsText ((MOp.ofCOp .ge).str ++ fsText "python_full_version" ⟨.ge, { release := [3, 8] }, false⟩)
    = some [.clauses [fsC "python_full_version" ⟨.ge, { release := [3, 8] }, false⟩]] := by decide

example : normalizePythonVersion ⟨"python_version", .gt, "3.8", false,
      .ver (.range { min := some { release := [3, 8] }, text := some ⟨.gt, { release := [3, 8] }, false⟩ })⟩
    = (fromClause (normClause2 .gt 3 8)).map fun sn => .ver ((Spec.range {}).and sn) := by decide

end C02
end DepLogic
