import DepLogic.Proofs.MarkerSingles
/-
  C02 — marker `&` and `|` are sound.

  `and_sound` / `or_sound`: for EVERY fuel (so whether or not the simplification loops ran to
  completion), every environment that binds the variables, and all markers whose atoms are of
  the well-defined classes, the result of `&` (`|`) is satisfied exactly when both (either)
  operand(s) are.  The proof is the engine induction (Proofs/MarkerEngine*.lean: `of` fixpoints,
  `union_simplify`/`intersect_simplify`, `cnf`/`dnf` distribution, least-complexity choice) on top
  of the single-marker layer (Proofs/MarkerSingles.lean: the string case table from C19, grouped
  `==`/`!=` atoms, multi-valued `extra`, set-valued `extras`).

  Two facts about Python-version atoms are hypotheses here and are C11's business:
  `FromSpecOk` (from_specifier renders a specifier as an atom that means it) and `PyMergeOk`
  (python_version/python_full_version normalisation) – see Properties/C11.lean for what is
  proved about them and DESIGN.md for what is decided differentially.
-/
namespace DepLogic
namespace C02
open M


theorem and_sound (env : Env) (he : EnvTotal env) (hF : FromSpecOk env) (hP : PyMergeOk env) (fuel : Nat) (a b : M) (ha : GAll (Good env) a) (hb : GAll (Good env) b) :
    GAll (Good env) (M.and fuel a b) ∧ sem env (M.and fuel a b) = (sem env a && sem env b) :=
  (sound_all (singleSound env he hF hP) fuel).and_ a b ha hb

theorem or_sound (env : Env) (he : EnvTotal env) (hF : FromSpecOk env) (hP : PyMergeOk env) (fuel : Nat) (a b : M) (ha : GAll (Good env) a) (hb : GAll (Good env) b) :
    GAll (Good env) (M.or fuel a b) ∧ sem env (M.or fuel a b) = (sem env a || sem env b) :=
  (sound_all (singleSound env he hF hP) fuel).or_ a b ha hb

/-- a result that reports `is_empty()` is satisfied by no environment -/
theorem isEmpty_sound (env : Env) (he : EnvTotal env) (hF : FromSpecOk env) (hP : PyMergeOk env) (fuel : Nat) (a b : M) (ha : GAll (Good env) a) (hb : GAll (Good env) b)
    (h : (M.and fuel a b).isEmpty = true) : (sem env a && sem env b) = false := by
  rw [← (and_sound env he hF hP fuel a b ha hb).2]
  cases hm : M.and fuel a b <;> simp [hm, isEmpty] at h
  simp [sem]

/-- a result that reports `is_any()` is satisfied by every environment -/
theorem isAny_sound (env : Env) (he : EnvTotal env) (hF : FromSpecOk env) (hP : PyMergeOk env) (fuel : Nat) (a b : M) (ha : GAll (Good env) a) (hb : GAll (Good env) b)
    (h : (M.or fuel a b).isAny = true) : (sem env a || sem env b) = true := by
  rw [← (or_sound env he hF hP fuel a b ha hb).2]
  cases hm : M.or fuel a b <;> simp [hm, isAny] at h
  simp [sem]

/-- CNF/DNF rewriting and the `of` normalisations never change which environments are selected -/
theorem rewriting_sound (env : Env) (he : EnvTotal env) (hF : FromSpecOk env) (hP : PyMergeOk env) (fuel : Nat) (m : M) (hm : GAll (Good env) m) :
    sem env (cnf fuel m) = sem env m ∧ sem env (dnf fuel m) = sem env m ∧
    (∀ ms, GAllL (Good env) ms → sem env (multiOf fuel ms) = ms.all (sem env)) ∧
    (∀ ms, GAllL (Good env) ms → sem env (unionOfList fuel ms) = ms.any (sem env)) :=
  let S := sound_all (singleSound env he hF hP) fuel
  ⟨(S.cnf_ m hm).2, (S.dnf_ m hm).2, fun ms h => (S.multiOf_ ms h).2, fun ms h => (S.unionOfList_ ms h).2⟩

end C02
end DepLogic
