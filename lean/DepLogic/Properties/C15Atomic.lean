import DepLogic.Properties.C15Only

/-!
# C15, `of` over ANY list of empty / universal / single markers

`multiOf_flat` / `unionOfList_flat` need single markers only, `multiOf_son` / `unionOfList_sox` add the
universal marker. Here the list may hold the empty marker as well — the lists `MultiMarker.of` /
`MarkerUnion.of` receive from `exclude()`, `only()`, the merge tables (`Atomic` results) and from callers
passing `EmptyMarker()` / `AnyMarker()` operands, which the property's quantifier names explicitly.
One of the two constants is neutral (skipped by the loop), the other absorbing (kept in the state, answered
by the final `any(m.is_empty())` / `any(m.is_any())` test). The invariant is generic in the absorbing
constant `z`.
-/

namespace DepLogic
namespace C15
open M

/-- `z` is one of the two constants -/
def IsConst (z : M) : Prop := z = .any ∨ z = .empty
/-- single, or the constant `z` -/
def SoX (z x : M) : Prop := x.isSingle = true ∨ x = z
def AllSoX (z : M) (l : List M) : Prop := ∀ x ∈ l, SoX z x
def AllAtomic (l : List M) : Prop := ∀ x ∈ l, Atomic x

theorem allSoX_nil (z : M) : AllSoX z [] := fun x hx => by cases hx
theorem allSoX_tail (z x : M) (xs : List M) (h : AllSoX z (x :: xs)) : AllSoX z xs :=
  fun y hy => h y (List.mem_cons_of_mem _ hy)
theorem allAtomic_tail (x : M) (xs : List M) (h : AllAtomic (x :: xs)) : AllAtomic xs :=
  fun y hy => h y (List.mem_cons_of_mem _ hy)
theorem allAtomic_of_soX (z : M) (hz : IsConst z) (l : List M) (h : AllSoX z l) : AllAtomic l := by
  intro x hx
  rcases h x hx with h1 | h1
  · exact Or.inr (Or.inr h1)
  · subst h1; rcases hz with rfl | rfl
    · exact Or.inr (Or.inl rfl)
    · exact Or.inl rfl

theorem flatten_atomic (b : Bool) (fuel : Nat) (items acc : List M) (hi : AllAtomic items) :
    flattenInto b fuel items acc = items.foldl addNew acc := by
  cases fuel with
  | zero => rfl
  | succ n =>
    simp only [flattenInto]
    induction items generalizing acc with
    | nil => rfl
    | cons x xs ih =>
      have hxs := allAtomic_tail x xs hi
      rcases hi x (List.mem_cons_self ..) with hx | hx | hx
      · subst hx; cases b <;> simp only [List.foldl_cons] <;> exact ih _ hxs
      · subst hx; cases b <;> simp only [List.foldl_cons] <;> exact ih _ hxs
      · cases b <;> cases x <;> simp [isSingle] at hx <;> simp only [List.foldl_cons] <;> exact ih _ hxs

theorem addNew_atomic (acc : List M) (x : M) (h : AllAtomic acc) (hx : Atomic x) : AllAtomic (addNew acc x) := by
  unfold addNew; split
  · exact h
  · intro y hy
    rcases List.mem_append.1 hy with h1 | h1
    · exact h y h1
    · simp at h1; rw [h1]; exact hx

theorem foldl_addNew_atomic (xs acc : List M) (hx : AllAtomic xs) (ha : AllAtomic acc) :
    AllAtomic (xs.foldl addNew acc) := by
  induction xs generalizing acc with
  | nil => exact ha
  | cons x xs ih => exact ih _ (allAtomic_tail x xs hx) (addNew_atomic acc x ha (hx x (List.mem_cons_self ..)))

theorem flatten_allAtomic (b : Bool) (fuel : Nat) (items : List M) (hi : AllAtomic items) :
    AllAtomic (flattenInto b fuel items []) := by
  rw [flatten_atomic b fuel items [] hi]
  exact foldl_addNew_atomic items [] hi (fun x hx => by cases hx)

theorem addNew_soX (z : M) (acc : List M) (x : M) (h : AllSoX z acc) (hx : SoX z x) : AllSoX z (addNew acc x) := by
  unfold addNew; split
  · exact h
  · intro y hy
    rcases List.mem_append.1 hy with h1 | h1
    · exact h y h1
    · simp at h1; rw [h1]; exact hx

theorem foldl_addNew_soX (z : M) (xs acc : List M) (hx : AllSoX z xs) (ha : AllSoX z acc) :
    AllSoX z (xs.foldl addNew acc) := by
  induction xs generalizing acc with
  | nil => exact ha
  | cons x xs ih => exact ih _ (allSoX_tail z x xs hx) (addNew_soX z acc x ha (hx x (List.mem_cons_self ..)))

theorem flatten_allSoX (z : M) (hz : IsConst z) (b : Bool) (fuel : Nat) (items : List M) (hi : AllSoX z items) :
    AllSoX z (flattenInto b fuel items []) := by
  rw [flatten_atomic b fuel items [] (allAtomic_of_soX z hz items hi)]
  exact foldl_addNew_soX z items [] hi (allSoX_nil z)

theorem setAt_soX (z : M) : ∀ (l : List M) (i : Nat) (m : M), AllSoX z l → SoX z m → AllSoX z (setAt l i m)
  | [], _, _, _, _ => by simp [setAt]; exact allSoX_nil z
  | x :: xs, 0, m, hl, hm => by
    intro y hy
    simp only [setAt, List.mem_cons] at hy
    rcases hy with rfl | hy
    · exact hm
    · exact hl y (List.mem_cons_of_mem _ hy)
  | x :: xs, i + 1, m, hl, hm => by
    intro y hy
    simp only [setAt, List.mem_cons] at hy
    rcases hy with rfl | hy
    · exact hl _ (List.mem_cons_self ..)
    · exact setAt_soX z xs i m (allSoX_tail z x xs hl) hm y hy

theorem scan_soX (z : M) (f : M → Step) (hf : ∀ mark m, SoX z mark → f mark = .replace m → SoX z m) :
    ∀ (whole : List M) (i : Nat) (rest new' : List M), AllSoX z whole → AllSoX z rest →
      scan f whole i rest = some (some new') → AllSoX z new'
  | _, _, [], _, _, _, h => by simp [scan] at h
  | whole, i, mark :: rest, new', hw, hr, h => by
    simp only [scan] at h
    cases hfm : f mark with
    | next =>
      rw [hfm] at h
      exact scan_soX z f hf whole (i + 1) rest new' hw (allSoX_tail z mark rest hr) h
    | replace m =>
      rw [hfm] at h
      simp only [Option.some.injEq] at h
      subst h
      exact setAt_soX z whole i m hw (hf mark m (hr mark (List.mem_cons_self ..)) hfm)
    | abort => rw [hfm] at h; cases h

theorem decideWith_soX (z : M) (hz : IsConst z) (isAnd : Bool) (combine : M → M → M) (simplify : M → M → Option M)
    (marker mark m : M) (hm : SoX z mark) (h : decideWith isAnd combine simplify mark marker = .replace m) : SoX z m := by
  rcases hm with hm | hm
  · exact Or.inl (decideWith_single isAnd combine simplify marker mark m hm h)
  · subst hm
    rcases hz with rfl | rfl <;> cases isAnd <;> simp [decideWith, isSingle, isUnion, isMulti] at h

/-- the neutral constant of a conjunction (`isAnd`) / disjunction -/
def neutral (isAnd : Bool) : M := if isAnd then .any else .empty
/-- the absorbing constant -/
def absorbing (isAnd : Bool) : M := if isAnd then .empty else .any

theorem absorbing_const (isAnd : Bool) : IsConst (absorbing isAnd) := by
  cases isAnd
  · exact Or.inl rfl
  · exact Or.inr rfl

theorem atomic_cases (isAnd : Bool) (x : M) (h : Atomic x) : x = neutral isAnd ∨ SoX (absorbing isAnd) x := by
  rcases h with h | h | h
  · subst h; cases isAnd
    · exact Or.inl rfl
    · exact Or.inr (Or.inr rfl)
  · subst h; cases isAnd
    · exact Or.inr (Or.inr rfl)
    · exact Or.inl rfl
  · exact Or.inr (Or.inl h)

/-- one step of the `for marker in old_markers` loop, for an incoming empty / universal / single marker: the
    state stays a duplicate-free list of single markers and absorbing constants -/
theorem passStep_atomic (isAnd : Bool) (combine : M → M → M) (simplify : M → M → Option M) (fuel : Nat)
    (new : List M) (marker : M) (hn : AllSoX (absorbing isAnd) new) (hd : NoDup new) (hm : Atomic marker) :
    ∀ out, passStep isAnd (decideWith isAnd combine simplify) (fun l => flattenInto isAnd fuel l []) (some new) marker = some out →
      AllSoX (absorbing isAnd) out ∧ NoDup out := by
  intro out h
  simp only [passStep] at h
  by_cases hmem : memB marker new = true
  · rw [if_pos hmem] at h; cases h; exact ⟨hn, hd⟩
  · rw [if_neg hmem] at h
    by_cases hskip : (if isAnd = true then marker.isAny else marker.isEmpty) = true
    · rw [if_pos hskip] at h; cases h; exact ⟨hn, hd⟩
    · rw [if_neg hskip] at h
      have hmx : SoX (absorbing isAnd) marker := by
        rcases atomic_cases isAnd marker hm with h1 | h1
        · exfalso; apply hskip; subst h1; cases isAnd <;> rfl
        · exact h1
      cases hs : scan (fun mark => decideWith isAnd combine simplify mark marker) new 0 new with
      | none => rw [hs] at h; cases h
      | some r =>
        rw [hs] at h
        cases r with
        | some new' =>
          simp only [Option.some.injEq] at h
          subst h
          have h1 := scan_soX (absorbing isAnd) (fun mark => decideWith isAnd combine simplify mark marker)
            (fun mark m hmk hr => decideWith_soX _ (absorbing_const isAnd) isAnd combine simplify marker mark m hmk hr)
            new 0 new new' hn hn hs
          exact ⟨flatten_allSoX _ (absorbing_const isAnd) isAnd fuel new' h1, flatten_nodup isAnd fuel new' [] trivial⟩
        | none =>
          simp only [Option.some.injEq] at h
          subst h
          refine ⟨?_, nodup_append_one new marker hd (by simpa using hmem)⟩
          intro y hy
          rcases List.mem_append.1 hy with h1 | h1
          · exact hn y h1
          · simp at h1; rw [h1]; exact hmx

theorem pass_atomic (isAnd : Bool) (combine : M → M → M) (simplify : M → M → Option M) (fuel : Nat) :
    ∀ (old st out : List M), AllAtomic old → AllSoX (absorbing isAnd) st → NoDup st →
      old.foldl (passStep isAnd (decideWith isAnd combine simplify) (fun l => flattenInto isAnd fuel l [])) (some st) = some out →
      AllSoX (absorbing isAnd) out ∧ NoDup out
  | [], st, out, _, hs, hd, h => by simp at h; subst h; exact ⟨hs, hd⟩
  | m :: rest, st, out, ho, hs, hd, h => by
    simp only [List.foldl_cons] at h
    cases hst : passStep isAnd (decideWith isAnd combine simplify) (fun l => flattenInto isAnd fuel l []) (some st) m with
    | none =>
      rw [hst, foldl_passStep_none] at h; cases h
    | some st' =>
      rw [hst] at h
      obtain ⟨h1, h2⟩ := passStep_atomic isAnd combine simplify fuel st m hs hd (ho m (List.mem_cons_self ..)) st' hst
      exact pass_atomic isAnd combine simplify fuel rest st' out (allAtomic_tail m rest ho) h1 h2 h

/-! ### the two loops -/

theorem multiPass_atomic (fuel : Nat) (old out : List M) (ho : AllAtomic old)
    (h : multiPass (fuel + 1) old = some out) : AllSoX .empty out ∧ NoDup out := by
  simp only [multiPass] at h
  exact pass_atomic true (M.and fuel) (intersectSimplify fuel) fuel old [] out ho (allSoX_nil _) trivial h

theorem unionPass_atomic (fuel : Nat) (old out : List M) (ho : AllAtomic old)
    (h : unionPass (fuel + 1) old = some out) : AllSoX .any out ∧ NoDup out := by
  simp only [unionPass] at h
  exact pass_atomic false (M.or fuel) (unionSimplify fuel) fuel old [] out ho (allSoX_nil _) trivial h

theorem multiLoop_soX : ∀ (fuel : Nat) (old new out : List M), AllSoX .empty new → NoDup new →
    multiLoop fuel old new = some out → AllSoX .empty out ∧ NoDup out
  | 0, _, new, out, hs, hd, h => by simp [multiLoop] at h; subst h; exact ⟨hs, hd⟩
  | fuel + 1, old, new, out, hs, hd, h => by
    simp only [multiLoop] at h
    split at h
    · cases h; exact ⟨hs, hd⟩
    · cases hp : multiPass fuel new with
      | none => simp [hp] at h
      | some new' =>
        simp only [hp] at h
        have hn : AllSoX .empty new' ∧ NoDup new' := by
          cases fuel with
          | zero => simp [multiPass] at hp; subst hp; exact ⟨hs, hd⟩
          | succ n => exact multiPass_atomic n new new' (allAtomic_of_soX _ (Or.inr rfl) new hs) hp
        exact multiLoop_soX fuel new new' out hn.1 hn.2 h

theorem unionLoop_soX : ∀ (fuel : Nat) (old new out : List M), AllSoX .any new → NoDup new →
    unionLoop fuel old new = some out → AllSoX .any out ∧ NoDup out
  | 0, _, new, out, hs, hd, h => by simp [unionLoop] at h; subst h; exact ⟨hs, hd⟩
  | fuel + 1, old, new, out, hs, hd, h => by
    simp only [unionLoop] at h
    split at h
    · cases h; exact ⟨hs, hd⟩
    · cases hp : unionPass fuel new with
      | none => simp [hp] at h
      | some new' =>
        simp only [hp] at h
        have hn : AllSoX .any new' ∧ NoDup new' := by
          cases fuel with
          | zero => simp [unionPass] at hp; subst hp; exact ⟨hs, hd⟩
          | succ n => exact unionPass_atomic n new new' (allAtomic_of_soX _ (Or.inl rfl) new hs) hp
        exact unionLoop_soX fuel new new' out hn.1 hn.2 h

theorem multiLoop_atomic (fuel : Nat) (new out : List M) (hs : AllAtomic new)
    (h : multiLoop (fuel + 2) [] new = some out) : AllSoX .empty out ∧ NoDup out := by
  simp only [multiLoop] at h
  split at h
  · rename_i hb
    cases h
    have := beqList_nil_left new hb
    subst this
    exact ⟨allSoX_nil _, trivial⟩
  · cases hp : multiPass (fuel + 1) new with
    | none => simp [hp] at h
    | some new' =>
      simp only [hp] at h
      obtain ⟨h1, h2⟩ := multiPass_atomic fuel new new' hs hp
      exact multiLoop_soX (fuel + 1) new new' out h1 h2 h

theorem unionLoop_atomic (fuel : Nat) (new out : List M) (hs : AllAtomic new)
    (h : unionLoop (fuel + 2) [] new = some out) : AllSoX .any out ∧ NoDup out := by
  simp only [unionLoop] at h
  split at h
  · rename_i hb
    cases h
    have := beqList_nil_left new hb
    subst this
    exact ⟨allSoX_nil _, trivial⟩
  · cases hp : unionPass (fuel + 1) new with
    | none => simp [hp] at h
    | some new' =>
      simp only [hp] at h
      obtain ⟨h1, h2⟩ := unionPass_atomic fuel new new' hs hp
      exact unionLoop_soX (fuel + 1) new new' out h1 h2 h

/-- **`MultiMarker.of` over any list of empty / universal / single markers is in normal form**, every fuel ≥ 3,
    whether or not the loop converged -/
theorem multiOf_atomic (fuel : Nat) (ms : List M) (hs : AllAtomic ms) : FlatNF true (multiOf (fuel + 3) ms) := by
  have h0s := flatten_allAtomic true (fuel + 2) ms hs
  simp only [multiOf]
  cases hl : multiLoop (fuel + 2) [] (flattenInto true (fuel + 2) ms []) with
  | none => left; rfl
  | some new =>
    obtain ⟨h1, h2⟩ := multiLoop_atomic fuel _ new h0s hl
    simp only
    by_cases ha : new.any isEmpty = true
    · rw [if_pos ha]; left; rfl
    · rw [if_neg ha]
      have h1' : AllSingle new := by
        intro x hx
        rcases h1 x hx with h | h
        · exact h
        · subst h
          exfalso; apply ha
          exact List.any_eq_true.2 ⟨_, hx, rfl⟩
      match new, h1', h2 with
      | [], _, _ => right; left; rfl
      | [m], h1', _ => right; right; left; exact h1' m (List.mem_cons_self ..)
      | a :: b :: rest, h1', h2 =>
        right; right; right
        refine ⟨a :: b :: rest, ?_, by simp, h2, h1'⟩
        simp only [mkMulti, if_true]
        rw [mk_flat true (fuel + 2) _ h1' h2]

/-- **the same for `MarkerUnion.of`** -/
theorem unionOfList_atomic (fuel : Nat) (ms : List M) (hs : AllAtomic ms) : FlatNF false (unionOfList (fuel + 3) ms) := by
  have h0s := flatten_allAtomic false (fuel + 2) ms hs
  simp only [unionOfList]
  cases hl : unionLoop (fuel + 2) [] (flattenInto false (fuel + 2) ms []) with
  | none => right; left; rfl
  | some new =>
    obtain ⟨h1, h2⟩ := unionLoop_atomic fuel _ new h0s hl
    simp only
    by_cases ha : new.any isAny = true
    · rw [if_pos ha]; right; left; rfl
    · rw [if_neg ha]
      have h1' : AllSingle new := by
        intro x hx
        rcases h1 x hx with h | h
        · exact h
        · subst h
          exfalso; apply ha
          exact List.any_eq_true.2 ⟨_, hx, rfl⟩
      match new, h1', h2 with
      | [], _, _ => left; rfl
      | [m], h1', _ => right; right; left; exact h1' m (List.mem_cons_self ..)
      | a :: b :: rest, h1', h2 =>
        right; right; right
        refine ⟨a :: b :: rest, ?_, by simp, h2, h1'⟩
        simp only [mkUnion]
        rw [mk_flat false (fuel + 2) _ h1' h2]
        rfl


/-! ### `only()` on raw compounds holding constants -/

theorem only_atomic (f : Nat) (c : M) (names : List String) (hc : Atomic c) : Atomic (only f c names) := by
  rcases hc with rfl | rfl | hc
  · cases f <;> exact Or.inl rfl
  · cases f <;> exact Or.inr (Or.inl rfl)
  · rcases only_single_soa f c names hc with h | h
    · exact Or.inr (Or.inr h)
    · exact Or.inr (Or.inl h)

theorem map_only_atomic (f : Nat) (l : List M) (names : List String) (hl : AllAtomic l) :
    AllAtomic (l.map fun c => only f c names) := by
  intro x hx
  simp only [List.mem_map] at hx
  obtain ⟨c, hc, rfl⟩ := hx
  exact only_atomic f c names (hl c hc)

/-- `only()` on a conjunction / disjunction built by the raw constructors over empty, universal and single
    markers returns a marker in normal form -/
theorem only_atomic_multi (f : Nat) (l : List M) (names : List String) (hl : AllAtomic l) :
    FlatNF true (only (f + 4) (.multi l) names) := by
  rw [only_multi_eq]
  exact multiOf_atomic f _ (map_only_atomic (f + 3) l names hl)

theorem only_atomic_union (f : Nat) (l : List M) (names : List String) (hl : AllAtomic l) :
    FlatNF false (only (f + 4) (.union l) names) := by
  rw [only_union_eq]
  exact unionOfList_atomic f _ (map_only_atomic (f + 3) l names hl)


/-! ### `exclude()` / `without_extras()` on raw compounds holding constants -/

theorem exclude_atomic (f : Nat) (c : M) (name : String) (hc : Atomic c) : Atomic (exclude f c name) := by
  cases f with
  | zero => exact hc
  | succ n =>
    rcases hc with rfl | rfl | hc
    · exact Or.inl rfl
    · exact Or.inr (Or.inl rfl)
    · cases c <;> simp [isSingle] at hc <;> simp only [exclude] <;> split <;>
        first | exact Or.inr (Or.inl rfl) | exact Or.inr (Or.inr rfl)

theorem exclude_atomic_multi (f : Nat) (l : List M) (name : String) (hl : AllAtomic l) :
    FlatNF true (exclude (f + 4) (.multi l) name) := by
  rw [exclude_multi_eq]
  apply multiOf_atomic
  intro x hx
  simp only [List.mem_filterMap] at hx
  obtain ⟨c, hc, hcx⟩ := hx
  have hca := exclude_atomic (f + 3) c name (hl c hc)
  split at hcx
  · cases hcx
  · split at hcx
    · cases hcx
    · cases hcx; exact hca

theorem exclude_atomic_union (f : Nat) (l : List M) (name : String) (hl : AllAtomic l) :
    FlatNF false (exclude (f + 4) (.union l) name) := by
  rw [exclude_union_eq]
  simp only
  split
  · right; left; rfl
  · apply unionOfList_atomic
    intro x hx
    simp only [List.mem_filterMap] at hx
    obtain ⟨c, hc, hcx⟩ := hx
    have hca := exclude_atomic (f + 3) c name (hl c hc)
    split at hcx
    · cases hcx
    · cases hcx; exact hca

/-! non-vacuity: lists with both constants -/

example : AllAtomic [atomA, .any, atomB, .empty] := by
  intro x hx; simp at hx
  rcases hx with rfl | rfl | rfl | rfl
  · exact Or.inr (Or.inr rfl)
  · exact Or.inr (Or.inl rfl)
  · exact Or.inr (Or.inr rfl)
  · exact Or.inl rfl
example : beq (multiOf 8 [atomA, .any, atomB]) (.multi [atomA, atomB]) = true := by decide
example : beq (multiOf 8 [atomA, .any, atomB, .empty]) .empty = true := by decide
example : beq (unionOfList 8 [atomA, .any, atomB, .empty]) .any = true := by decide
example : beq (unionOfList 8 [atomA, .empty, atomB]) (.union [atomA, atomB]) = true := by decide

end C15
end DepLogic
