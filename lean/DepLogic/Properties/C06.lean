import DepLogic.Model.SpecText
import DepLogic.Proofs.SpecTheorems
/-
  C06 — specifier text round trip (token level).

  `C06_full` is the property as stated.  It is false of the current code: a range
  `[X.Y, (X+1).0.postN)` is rendered `~=X.Y` (`postrelease_counterexample`; the behaviour is pinned
  by the repository's own test-suite, so it is a recorded known finding, not repaired).
  Proved so far (`_partial`): every range rendered without the `~=` heuristic re-parses to an
  equal range.  The `~=`, `!=V`, `!=X.*` and `||` forms are covered by the differential streams
  (DESIGN.md section 6/C06).
-/
namespace DepLogic
namespace C06
open LinPre Spec

/-- the property as stated, for one specifier -/
def RoundTrips (s : Spec Ver) : Prop :=
  ∃ s', parseAlts (s.str).toAlts = some s' ∧ s'.beq s = true ∧ s.beq s' = true

theorem empty_roundtrip : RoundTrips .empty := ⟨.empty, rfl, rfl, rfl⟩
theorem any_roundtrip : RoundTrips .any := ⟨.range {}, rfl, rfl, rfl⟩

theorem and_any_range (r : Range Ver) : (Spec.range ({} : Range Ver)).and (.range r) = .range r := by
  simp [Spec.and, Range.and, Range.isSuperset]

/-- a one-clause comma list parses to the clause's own range -/
theorem fss_single (c : Clause Ver) (r : Range Ver) (h : fromClause c = some (.range r)) :
    fromSpecifierSet [c] = some (.range r) := by
  simp only [fromSpecifierSet, List.foldl, Option.bind, h, Option.map, and_any_range]

theorem fss_two (c d : Clause Ver) (r q : Range Ver) (h : fromClause c = some (.range r))
    (h' : fromClause d = some (.range q)) :
    fromSpecifierSet [c, d] = some ((Spec.range r).and (.range q)) := by
  simp only [fromSpecifierSet, List.foldl, Option.bind, h, h', Option.map, and_any_range]

theorem parse_one_alt (cs : List (Clause Ver)) :
    parseAlts (SText.toAlts (.alts [cs])) = fromSpecifierSet cs := by
  simp [SText.toAlts, parseAlts, parseAlt]

/-- a range rendered by the plain forms (`<=V`, `>V`, `==V`, `>=A,<B`, …) re-parses to an equal range -/
theorem range_roundtrip_plain_partial (r : Range Ver) (h : r.WF) (ht : r.text = none)
    (hplain : ∀ c ∈ r.strClauses, c.op ≠ .compat) : RoundTrips (.range r) := by
  have tot := @LinPre.le_total Ver _
  have rf := @LinPre.le_refl Ver _
  have tr := @LinPre.le_trans Ver _
  rcases r with ⟨mn, mx, imn, imx, t⟩
  simp only at ht; subst ht
  unfold RoundTrips
  simp only [Spec.str, parse_one_alt]
  cases mn with
  | none =>
    cases mx with
    | none =>
      simp [Range.WF, Range.ctorOk] at h
      obtain ⟨rfl, rfl⟩ := h
      refine ⟨.range {}, rfl, ?_, ?_⟩ <;> simp [Spec.beq, Range.beq]
    | some b =>
      simp [Range.WF, Range.ctorOk] at h
      subst h
      cases imx
      · refine ⟨_, fss_single _ _ (by simp [fromClause]; rfl), ?_, ?_⟩ <;>
          simp [Spec.beq, Range.beq, rf]
      · refine ⟨_, fss_single _ _ (by simp [fromClause]; rfl), ?_, ?_⟩ <;>
          simp [Spec.beq, Range.beq, rf]
  | some a =>
    cases mx with
    | none =>
      simp [Range.WF, Range.ctorOk] at h
      subst h
      cases imn
      · refine ⟨_, fss_single _ _ (by simp [fromClause]; rfl), ?_, ?_⟩ <;>
          simp [Spec.beq, Range.beq, rf]
      · refine ⟨_, fss_single _ _ (by simp [fromClause]; rfl), ?_, ?_⟩ <;>
          simp [Spec.beq, Range.beq, rf]
    | some b =>
      simp only [Range.WF, Range.ctorOk] at h
      by_cases hab : eqv a b
      · have hi : imn = true ∧ imx = true := by
          rcases h.2 with h' | h'
          · exact absurd hab.2 h'
          · exact ⟨h'.2.1, h'.2.2⟩
        obtain ⟨rfl, rfl⟩ := hi
        have hstr : Range.strClauses ⟨some a, some b, true, true, none⟩ = [{ op := .eq, ver := a }] := by
          simp only [Range.strClauses]; rw [if_pos hab]
        rw [hstr]
        refine ⟨_, fss_single _ _ (by simp [fromClause]; rfl), ?_, ?_⟩ <;>
          simp [Spec.beq, Range.beq, rf, hab.1, hab.2]
      · have hlt : lt a b := by
          rcases h.2 with h' | h'
          · exact h'
          · exact absurd h'.1 hab
        have hstr : Range.strClauses ⟨some a, some b, imn, imx, none⟩ =
            twoClauses ⟨some a, some b, imn, imx, none⟩ a b := by
          have hp := hplain
          simp only [Range.strClauses] at hp ⊢
          rw [if_neg hab] at hp ⊢
          by_cases h1 : (!imn || imx) = true
          · rw [if_pos h1]
          · rw [if_neg h1] at hp ⊢
            by_cases h2 : compatForm a b = true
            · rw [if_pos h2] at hp
              exact absurd rfl (hp { op := .compat, ver := a } (by simp))
            · rw [if_neg h2]
        rw [hstr]
        cases imn <;> cases imx <;>
        · refine ⟨_, fss_two _ _ _ _ (by simp [fromClause]; rfl) (by simp [fromClause]; rfl), ?_, ?_⟩ <;>
            simp [Spec.and, Range.and, Range.isSuperset, Range.allowsLower, Range.allowsHigher,
              Range.isStrictlyLower, Spec.beq, Range.beq] <;> grind

/-- the defect: `[1.2, 2.0.post1)` renders as `~=1.2`, which re-parses to `[1.2, 2.0)` -/
def pr : Range Ver :=
  { min := some { release := [1, 2] }, max := some { release := [2, 0], post := some 1 }, incMin := true }

theorem postrelease_counterexample : Range.WF pr ∧ ¬ RoundTrips (.range pr) := by
  refine ⟨by decide, ?_⟩
  rintro ⟨s', h1, h2, _⟩
  have : parseAlts ((Spec.range pr).str).toAlts = some (.range
      { min := some { release := [1, 2] }, max := some { release := [2, 0] }, incMin := true, incMax := false,
        text := some { op := .compat, ver := { release := [1, 2] } } }) := by decide
  rw [this] at h1
  cases h1
  revert h2
  decide

end C06
end DepLogic
