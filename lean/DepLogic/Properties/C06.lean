import DepLogic.Properties.C16
import DepLogic.Proofs.RenderLemmas
/-
  C06 — specifier text round trip (token level).

  `RoundTrips s`: the clause structure `str(s)` denotes re-parses (through `_from_pkg_specifier`,
  `from_specifierset`, the `||` fold) to an object `==` to `s`, both ways round.
  Proved: `empty_roundtrip`, `any_roundtrip`, `range_roundtrip` (every rendering of a range: cached
  clause, `<=V`/`>V`/`==V`, `>=A,<B`, and the `~=` heuristic — `compat_render`: when `~=A` is chosen
  for `[A, B)` with `B` a final release, `B` IS the next series of `A`), `union_roundtrip`
  (cached clause, `!=V`, `!=X.*` — `wild_render` —, and the `||`-joined form, by uniqueness of
  canonical forms over cuts), `roundtrips` (every canonical object).
  The property as stated is false of the code for `[X.Y, (X+1).0.postN)`, rendered `~=X.Y`
  (`postrelease_counterexample`; pinned by the repository's own test-suite: known finding D4a), so
  the theorems carry the hypothesis `NoD4a` (a `~=` rendering only with a post-free upper bound).
  `TextOk`: a cached clause text, if present, parses to the object — true of everything the parser
  and the operators build (they cache only the clause just parsed, or nothing).
  Outside the model: characters <-> clauses (packaging's `str(Version)` / `Specifier` parsing).
-/
namespace DepLogic
namespace C06
open LinPre Spec

/-- the property as stated, for one specifier -/
def RoundTrips (s : Spec Ver) : Prop :=
  ∃ s', parseAlts (s.str).toAlts = some s' ∧ s'.beq s = true ∧ s.beq s' = true

theorem empty_roundtrip : RoundTrips .empty := ⟨.empty, rfl, rfl, rfl⟩
theorem any_roundtrip : RoundTrips .any := ⟨.range {}, rfl, rfl, rfl⟩

theorem and_any_range (r : Range Ver) : (Spec.range ({} : Range Ver)).and (.range r) = .range r := by
  simp [Spec.and, Range.and, Range.isSuperset]

/-- a one-clause comma list parses to the clause's own range -/
theorem fss_single (c : Clause Ver) (r : Range Ver) (h : fromClause c = some (.range r)) :
    fromSpecifierSet [c] = some (.range r) := by
  simp only [fromSpecifierSet, List.foldl, Option.bind, h, Option.map, and_any_range]

theorem fss_two (c d : Clause Ver) (r q : Range Ver) (h : fromClause c = some (.range r))
    (h' : fromClause d = some (.range q)) :
    fromSpecifierSet [c, d] = some ((Spec.range r).and (.range q)) := by
  simp only [fromSpecifierSet, List.foldl, Option.bind, h, h', Option.map, and_any_range]

theorem parse_one_alt (cs : List (Clause Ver)) :
    parseAlts (SText.toAlts (.alts [cs])) = fromSpecifierSet cs := by
  simp [SText.toAlts, parseAlts, parseAlt]

/-- a range rendered by the plain forms (`<=V`, `>V`, `==V`, `>=A,<B`, …) re-parses to an equal range -/
theorem range_roundtrip_plain_partial (r : Range Ver) (h : r.WF) (ht : r.text = none)
    (hplain : ∀ c ∈ r.strClauses, c.op ≠ .compat) : RoundTrips (.range r) := by
  have tot := @LinPre.le_total Ver _
  have rf := @LinPre.le_refl Ver _
  have tr := @LinPre.le_trans Ver _
  rcases r with ⟨mn, mx, imn, imx, t⟩
  simp only at ht; subst ht
  unfold RoundTrips
  simp only [Spec.str, parse_one_alt]
  cases mn with
  | none =>
    cases mx with
    | none =>
      simp [Range.WF, Range.ctorOk] at h
      obtain ⟨rfl, rfl⟩ := h
      refine ⟨.range {}, rfl, ?_, ?_⟩ <;> simp [Spec.beq, Range.beq]
    | some b =>
      simp [Range.WF, Range.ctorOk] at h
      subst h
      cases imx
      · refine ⟨_, fss_single _ _ (by simp [fromClause]; rfl), ?_, ?_⟩ <;>
          simp [Spec.beq, Range.beq, rf]
      · refine ⟨_, fss_single _ _ (by simp [fromClause]; rfl), ?_, ?_⟩ <;>
          simp [Spec.beq, Range.beq, rf]
  | some a =>
    cases mx with
    | none =>
      simp [Range.WF, Range.ctorOk] at h
      subst h
      cases imn
      · refine ⟨_, fss_single _ _ (by simp [fromClause]; rfl), ?_, ?_⟩ <;>
          simp [Spec.beq, Range.beq, rf]
      · refine ⟨_, fss_single _ _ (by simp [fromClause]; rfl), ?_, ?_⟩ <;>
          simp [Spec.beq, Range.beq, rf]
    | some b =>
      simp only [Range.WF, Range.ctorOk] at h
      by_cases hab : eqv a b
      · have hi : imn = true ∧ imx = true := by
          rcases h.2 with h' | h'
          · exact absurd hab.2 h'
          · exact ⟨h'.2.1, h'.2.2⟩
        obtain ⟨rfl, rfl⟩ := hi
        have hstr : Range.strClauses ⟨some a, some b, true, true, none⟩ = [{ op := .eq, ver := a }] := by
          simp only [Range.strClauses]; rw [if_pos hab]
        rw [hstr]
        refine ⟨_, fss_single _ _ (by simp [fromClause]; rfl), ?_, ?_⟩ <;>
          simp [Spec.beq, Range.beq, rf, hab.1, hab.2]
      · have hlt : lt a b := by
          rcases h.2 with h' | h'
          · exact h'
          · exact absurd h'.1 hab
        have hstr : Range.strClauses ⟨some a, some b, imn, imx, none⟩ =
            twoClauses ⟨some a, some b, imn, imx, none⟩ a b := by
          have hp := hplain
          simp only [Range.strClauses] at hp ⊢
          rw [if_neg hab] at hp ⊢
          by_cases h1 : (!imn || imx) = true
          · rw [if_pos h1]
          · rw [if_neg h1] at hp ⊢
            by_cases h2 : compatForm a b = true
            · rw [if_pos h2] at hp
              exact absurd rfl (hp { op := .compat, ver := a } (by simp))
            · rw [if_neg h2]
        rw [hstr]
        cases imn <;> cases imx <;>
        · refine ⟨_, fss_two _ _ _ _ (by simp [fromClause]; rfl) (by simp [fromClause]; rfl), ?_, ?_⟩ <;>
            simp [Spec.and, Range.and, Range.isSuperset, Range.allowsLower, Range.allowsHigher,
              Range.isStrictlyLower, Spec.beq, Range.beq] <;> grind

/-- the defect: `[1.2, 2.0.post1)` renders as `~=1.2`, which re-parses to `[1.2, 2.0)` -/
def pr : Range Ver :=
  { min := some { release := [1, 2] }, max := some { release := [2, 0], post := some 1 }, incMin := true }

theorem postrelease_counterexample : Range.WF pr ∧ ¬ RoundTrips (.range pr) := by
  refine ⟨by decide, ?_⟩
  rintro ⟨s', h1, h2, _⟩
  have : parseAlts ((Spec.range pr).str).toAlts = some (.range
      { min := some { release := [1, 2] }, max := some { release := [2, 0] }, incMin := true, incMax := false,
        text := some { op := .compat, ver := { release := [1, 2] } } }) := by decide
  rw [this] at h1
  cases h1
  revert h2
  decide

/-! ### every rendering of a range -/

/-- a cached clause, if any, parses back to the range -/
def TextOk (r : Range Ver) : Prop :=
  ∀ c, r.text = some c → ∃ x, fromClause c = some (.range x) ∧ x.beq r = true

/-- the `~=` heuristic is only applied with a post-free upper bound (excludes known finding D4a) -/
def NoD4a (r : Range Ver) : Prop :=
  r.text = none → ∀ mn mx, r.min = some mn → r.max = some mx → compatForm mn mx = true → mx.post = none

theorem range_roundtrip (r : Range Ver) (h : r.WF) (ht : TextOk r) (hd : NoD4a r) : RoundTrips (.range r) := by
  have rf := @LinPre.le_refl Ver _
  cases htx : r.text with
  | some c =>
    obtain ⟨x, hx, hb⟩ := ht c htx
    refine ⟨.range x, ?_, hb, by rw [C16.beq_symm]; exact hb⟩
    simp only [Spec.str, Range.strClauses, htx, parse_one_alt]
    exact fss_single c x hx
  | none =>
    by_cases hc : ∃ a b, r.min = some a ∧ r.max = some b ∧ ¬ eqv a b ∧ r.incMin = true ∧ r.incMax = false ∧
        compatForm a b = true
    · obtain ⟨a, b, hmin, hmax, hab, himin, himax, hcf⟩ := hc
      obtain ⟨nx, hnx, hev⟩ := compat_render a b hcf (hd htx a b hmin hmax hcf)
      have hstr : r.strClauses = [{ op := .compat, ver := a }] := by
        simp only [Range.strClauses, htx, hmin, hmax, if_neg hab, himin, himax, hcf]; rfl
      refine ⟨.range { min := some a, max := some nx, incMin := true, incMax := false,
                       text := some { op := .compat, ver := a } }, ?_, ?_, ?_⟩
      · simp only [Spec.str, hstr, parse_one_alt]
        apply fss_single
        simp [fromClause, hnx]
      · simp [Spec.beq, Range.beq, hmin, hmax, himin, himax, rf, hev.1, hev.2]
      · simp [Spec.beq, Range.beq, hmin, hmax, himin, himax, rf, hev.1, hev.2]
    · apply range_roundtrip_plain_partial r h htx
      intro c hcm
      rcases r with ⟨mn, mx, imn, imx, t⟩
      simp only at htx; subst htx
      simp only [Range.strClauses] at hcm
      cases mn with
      | none => cases mx <;> simp at hcm <;> (try (subst hcm; cases imx <;> simp))
      | some a =>
        cases mx with
        | none => simp at hcm; subst hcm; cases imn <;> simp
        | some b =>
          simp only at hcm
          split at hcm
          · simp at hcm; subst hcm; simp
          · rename_i hab
            split at hcm
            · simp only [twoClauses, List.mem_cons, List.mem_nil_iff, or_false] at hcm
              rcases hcm with rfl | rfl <;> (cases imn <;> cases imx <;> simp)
            · rename_i hflags
              split at hcm
              · rename_i hcf
                exfalso
                apply hc
                simp only [Bool.or_eq_true, Bool.not_eq_true', not_or, Bool.not_eq_false] at hflags
                exact ⟨a, b, rfl, rfl, hab, hflags.1, by simpa using hflags.2, hcf⟩
              · simp only [twoClauses, List.mem_cons, List.mem_nil_iff, or_false] at hcm
                rcases hcm with rfl | rfl <;> (cases imn <;> cases imx <;> simp)

/-! ### every rendering of a union -/

theorem Range.WF_of_beq (x r : Range Ver) (hb : x.beq r = true) (hr : r.WF) : x.WF := by
  have tr := @LinPre.le_trans Ver _
  have tot := @LinPre.le_total Ver _
  rcases x with ⟨xm, xM, xi, xj, xt⟩; rcases r with ⟨rm, rM, ri, rj, rt⟩
  cases xm <;> cases rm <;> cases xM <;> cases rM <;>
    simp [Range.beq, Range.WF, Range.ctorOk, lt, eqv] at hb hr ⊢ <;> grind

theorem canon_of_beq_range (s : Spec Ver) (r : Range Ver) (hb : s.beq (.range r) = true) (hr : r.WF) : Canon s := by
  cases s with
  | empty => trivial
  | any => trivial
  | range x => exact Range.WF_of_beq x r (by simpa [Spec.beq] using hb) hr
  | union _ _ => simp [Spec.beq] at hb

def v0 : Ver := { release := [0] }

/-- the `||` fold of `parse_version_specifier` over alternatives that each parse to a canonical
    object: it never fails, the result is canonical and denotes the union of the cuts -/
theorem fold_or (xs : List Alt) (hx : ∀ a ∈ xs, ∃ s, parseAlt a = some s ∧ Canon s) :
    ∀ S0 : Spec Ver, Canon S0 → ∃ S,
      xs.foldl (fun acc x => acc.bind fun s => (parseAlt x).bind fun t => s.or t) (some S0) = some S ∧ Canon S ∧
      ∀ x n, S.memC x n ↔ (S0.memC x n ∨ ∃ a ∈ xs, ∃ s, parseAlt a = some s ∧ s.memC x n) := by
  induction xs with
  | nil => intro S0 h0; exact ⟨S0, rfl, h0, fun x n => by simp⟩
  | cons a rest ih =>
    intro S0 h0
    obtain ⟨s, hs, cs⟩ := hx a (by simp)
    obtain ⟨r, hr, cr, mr⟩ := or_memC S0 s h0 cs
    obtain ⟨S, hS, cS, mS⟩ := ih (fun b hb => hx b (by simp [hb])) r cr
    refine ⟨S, ?_, cS, ?_⟩
    · simp only [List.foldl_cons, Option.bind_some, hs, hr]; exact hS
    · intro x n
      rw [mS, mr]
      constructor
      · rintro ((h | h) | ⟨b, hb, t, ht, hm⟩)
        · exact Or.inl h
        · exact Or.inr ⟨a, by simp, s, hs, h⟩
        · exact Or.inr ⟨b, by simp [hb], t, ht, hm⟩
      · rintro (h | ⟨b, hb, t, ht, hm⟩)
        · exact Or.inl (Or.inl h)
        · simp only [List.mem_cons] at hb
          rcases hb with rfl | hb
          · rw [hs] at ht; cases ht; exact Or.inl (Or.inr hm)
          · exact Or.inr ⟨b, hb, t, ht, hm⟩

/-- a union rendered as `||`-joined ranges re-parses to an equal union -/
theorem alts_roundtrip (rs : List (Range Ver)) (t : Option (Clause Ver)) (hc : Canon (.union rs t))
    (hr : ∀ r ∈ rs, TextOk r ∧ NoD4a r) :
    ∃ S, parseAlts (SText.toAlts (.alts (rs.map Range.strClauses))) = some S ∧ S.beq (.union rs t) = true ∧
      (Spec.union rs t).beq S = true := by
  -- every member range round-trips on its own
  have each : ∀ r ∈ rs, ∃ s, parseAlt (.clauses r.strClauses) = some s ∧ Canon s ∧ ∀ x n, s.memC x n ↔ r.memC x n := by
    intro r hrm
    obtain ⟨s, hs, hb, _⟩ := range_roundtrip r (hc.2.1 r hrm) (hr r hrm).1 (hr r hrm).2
    simp only [Spec.str, parse_one_alt] at hs
    refine ⟨s, hs, canon_of_beq_range s r hb (hc.2.1 r hrm), fun x n => ?_⟩
    rw [← memC_range]; exact memC_of_beq s (.range r) hb x n
  match rs, hc, hr, each with
  | [], hc, _, _ => exact absurd hc.1 (by simp)
  | r0 :: rest, hc, hr, each =>
    obtain ⟨s0, hs0, c0, m0⟩ := each r0 (by simp)
    obtain ⟨S, hS, cS, mS⟩ := fold_or (rest.map fun r => Alt.clauses r.strClauses)
      (by
        intro a ha
        simp only [List.mem_map] at ha
        obtain ⟨r, hrm, rfl⟩ := ha
        obtain ⟨s, hs, cs, _⟩ := each r (by simp [hrm])
        exact ⟨s, hs, cs⟩) s0 c0
    have hparse : parseAlts (SText.toAlts (.alts ((r0 :: rest).map Range.strClauses))) = some S := by
      simp only [SText.toAlts, List.map_cons, List.map_map, parseAlts, hs0]
      exact hS
    have hm : ∀ x n, S.memC x n ↔ (Spec.union (r0 :: rest) t).memC x n := by
      intro x n
      rw [mS, memC_union, m0]
      constructor
      · rintro (h | ⟨a, ha, s, hs, hm⟩)
        · exact ⟨r0, by simp, h⟩
        · simp only [List.mem_map] at ha
          obtain ⟨r, hrm, rfl⟩ := ha
          obtain ⟨s', hs', _, ms'⟩ := each r (by simp [hrm])
          rw [hs'] at hs; cases hs
          exact ⟨r, by simp [hrm], (ms' x n).1 hm⟩
      · rintro ⟨r, hrm, hmem⟩
        simp only [List.mem_cons] at hrm
        rcases hrm with rfl | hrm
        · exact Or.inl hmem
        · obtain ⟨s', hs', _, ms'⟩ := each r (by simp [hrm])
          exact Or.inr ⟨.clauses r.strClauses, by simp only [List.mem_map]; exact ⟨r, hrm, rfl⟩, s', hs', (ms' x n).2 hmem⟩
    exact ⟨S, hparse, canon_unique v0 _ _ cS hc hm, canon_unique v0 _ _ hc cS (fun x n => (hm x n).symm)⟩

theorem fss_single_union (c : Clause Ver) (ys : List (Range Ver)) (yt : Option (Clause Ver))
    (h : fromClause c = some (.union ys yt)) : fromSpecifierSet [c] = some (.union ys yt) := by
  simp [fromSpecifierSet, h, Spec.and, Range.isAny]

/-- a cached union text, if any, parses back to the union -/
def TextOkU (rs : List (Range Ver)) (t : Option (Clause Ver)) : Prop :=
  ∀ c, t = some c → ∃ ys yt, fromClause c = some (.union ys yt) ∧ (Spec.union ys yt).beq (.union rs t) = true

theorem union_roundtrip (rs : List (Range Ver)) (t : Option (Clause Ver)) (hc : Canon (.union rs t))
    (hr : ∀ r ∈ rs, TextOk r ∧ NoD4a r) (hu : TextOkU rs t) : RoundTrips (.union rs t) := by
  have rf := @LinPre.le_refl Ver _
  have tot := @LinPre.le_total Ver _
  unfold RoundTrips
  cases hs : unionSimplified rs t with
  | none =>
    simp only [Spec.str, hs]
    exact alts_roundtrip rs t hc hr
  | some c =>
    simp only [Spec.str, hs, parse_one_alt]
    cases t with
    | some c' =>
      have : c = c' := by simp [unionSimplified] at hs; exact hs.symm
      subst this
      obtain ⟨ys, yt, hy, hb⟩ := hu c rfl
      exact ⟨.union ys yt, fss_single_union c ys yt hy, hb, by rw [C16.beq_symm]; exact hb⟩
    | none =>
      unfold unionSimplified at hs
      simp only at hs
      split at hs
      · rename_i left right
        have hwl : left.WF := hc.2.1 left (by simp)
        have hwr : right.WF := hc.2.1 right (by simp)
        have hsep : sep left right := by
          have := hc.2.2; simp only [List.pairwise_cons, List.mem_cons, List.mem_nil_iff, or_false, forall_eq] at this
          exact this.1
        split at hs
        · rename_i lm rm hlmin hrmax hlmax hrmin
          have hli : left.incMin = false := by
            have := hwl.1; simp [Range.ctorOk, hlmin] at this; exact this.1
          have hrj : right.incMax = false := by
            have := hwr.1; simp [Range.ctorOk, hrmax] at this; exact this.2
          split at hs
          · -- `!= lm`
            rename_i heq
            simp only [Option.some.injEq] at hs; subst hs
            have hex : left.incMax = false ∧ right.incMin = false := by
              simp only [sep, hlmax, hrmin] at hsep
              rcases hsep with h | h
              · exact absurd heq.2 h
              · exact h.2
            refine ⟨.union [{ max := some lm, incMax := false }, { min := some lm, incMin := false }]
                      (some { op := .ne, ver := lm }),
                    fss_single_union _ _ _ (by simp [fromClause]), ?_, ?_⟩ <;>
              simp [Spec.beq, Range.beq, hlmin, hrmax, hlmax, hrmin, hli, hrj, hex.1, hex.2, rf, heq.1, heq.2]
          · rename_i hne
            split at hs
            · rename_i hflags
              split at hs
              · cases hs
              · rename_i hsuf
                simp only [Option.map_eq_some_iff] at hs
                obtain ⟨p, hp, rfl⟩ := hs
                simp only [Bool.or_eq_true, not_or, Bool.not_eq_true] at hsuf
                have hfl : lm.isFinal = true := by
                  rcases lm with ⟨e, r, pre, post, dev⟩
                  cases pre <;> cases post <;> cases dev <;> simp_all [Ver.isFinal, Ver.isPrerelease, Ver.isPostrelease]
                have hfr : rm.isFinal = true := by
                  rcases rm with ⟨e, r, pre, post, dev⟩
                  cases pre <;> cases post <;> cases dev <;> simp_all [Ver.isFinal, Ver.isPrerelease, Ver.isPostrelease]
                obtain ⟨hleft, nx, hnx, hright⟩ := wild_render lm rm p hp hfl hfr
                simp only [Bool.and_eq_true, Bool.not_eq_true'] at hflags
                refine ⟨.union [{ max := some (Ver.releaseVersion p.epoch p.release), incMax := false },
                               { min := some nx, incMin := true }] (some { op := .ne, ver := p, wild := true }),
                        fss_single_union _ _ _ (by simp [fromClause, hnx]), ?_, ?_⟩ <;>
                  simp [Spec.beq, Range.beq, hlmin, hrmax, hlmax, hrmin, hli, hrj, hflags.1, hflags.2,
                    hleft.1, hleft.2, hright.1, hright.2]
            · cases hs
        · cases hs
      · cases hs

/-- **the property, for every canonical object** (cached texts right, no D4a rendering) -/
theorem roundtrips (s : Spec Ver) (hc : Canon s)
    (hr : ∀ r, (s = .range r ∨ ∃ rs t, s = .union rs t ∧ r ∈ rs) → TextOk r ∧ NoD4a r)
    (hu : ∀ rs t, s = .union rs t → TextOkU rs t) : RoundTrips s := by
  cases s with
  | empty => exact empty_roundtrip
  | any => exact any_roundtrip
  | range r => exact range_roundtrip r hc (hr r (Or.inl rfl)).1 (hr r (Or.inl rfl)).2
  | union rs t => exact union_roundtrip rs t hc (fun r hrm => hr r (Or.inr ⟨rs, t, rfl, hrm⟩)) (hu rs t rfl)

/-- non-vacuity: `>=1.2,<2.0` built by the operators (no cached text) renders `~=1.2` and round-trips -/
example : RoundTrips (.range { min := some { release := [1, 2] }, max := some { release := [2, 0] }, incMin := true }) :=
  range_roundtrip _ (by decide) (by intro c h; cases h) (by intro _ mn mx h1 h2 _; cases h2; rfl)

end C06
end DepLogic
