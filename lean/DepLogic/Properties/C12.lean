import DepLogic.Properties.C02
/-
  C12 — `only()` / `exclude()` / `without_extras()` eliminate variables soundly.

  * `only_implied`      : every environment satisfying `m` satisfies `m.only(names)`
  * `only_same`         : if `m` mentions only `names`, the meaning is unchanged
  * `only_mentions`     : the result mentions no variable outside `names`
  * `exclude_mentions`  : the result of `m.exclude(name)` does not mention `name`
  * `exclude_same`      : if `m` does not mention `name`, the meaning is unchanged
  (`without_extras()` is `exclude("extra")` in every marker class.)
  For every fuel; same hypotheses on atoms and environment as C02.
-/
namespace DepLogic
namespace C12
open M

/-! ### variables mentioned -/

/-- every single marker inside has a name satisfying `P` -/
def NameIn (P : String → Prop) : M → Prop := fun s => ∀ n, s.singleName? = some n → P n

theorem mkAtom_name (name : String) (op : MOp) (v : String) (r : Bool) (a : Atom) (h : mkAtom name op v r = some a) :
    a.name = name := by
  simp only [mkAtom, Option.map_eq_some_iff] at h
  obtain ⟨s, _, rfl⟩ := h
  rfl

theorem fromSpecifier_names (P : String → Prop) (name : String) (hn : P name) (s : ASpec) (m : M)
    (h : fromSpecifier name s = some m) : GAll (NameIn P) m := by
  unfold fromSpecifier at h
  split at h
  · cases h; simp [GAll]
  · split at h
    · cases h; simp [GAll]
    · cases s with
      | gen g =>
        simp only [Option.bind_eq_some_iff, Option.map_eq_some_iff] at h
        obtain ⟨op, _, a, ha, rfl⟩ := h
        simp only [GAll, NameIn, singleName?, Option.some.injEq]
        intro n hn'; rw [← hn', mkAtom_name _ _ _ _ a ha]; exact hn
      | ver sp =>
        simp only at h
        split at h
        · simp at h
        · simp only [Option.bind_eq_some_iff, Option.map_eq_some_iff] at h
          obtain ⟨c, _, a, ha, rfl⟩ := h
          simp only [GAll, NameIn, singleName?, Option.some.injEq]
          intro n hn'; rw [← hn', mkAtom_name _ _ _ _ a ha]; exact hn

theorem eqReplace_names (P : String → Prop) (n : String) (hn : P n) (l : List String) : GAll (NameIn P) (eqReplace n l) := by
  match l with
  | [] => simp [eqReplace, GAll]
  | [v] => simp [eqReplace, GAll, NameIn, singleName?]; exact hn
  | _ :: _ :: _ => simp [eqReplace, GAll, NameIn, singleName?]; exact hn

theorem neReplace_names (P : String → Prop) (n : String) (hn : P n) (l : List String) : GAll (NameIn P) (neReplace n l) := by
  match l with
  | [] => simp [neReplace, GAll]
  | [v] => simp [neReplace, GAll, NameIn, singleName?]; exact hn
  | _ :: _ :: _ => simp [neReplace, GAll, NameIn, singleName?]; exact hn

theorem mergeSingle_names (P : String → Prop) (a b : Atom) (isAnd : Bool) (ha : P a.name) (hb : P b.name) (m : M)
    (h : mergeSingle a b isAnd = some m) : GAll (NameIn P) m := by
  have hexpr : ∀ x : Atom, P x.name → GAll (NameIn P) (.expr x) := by
    intro x hx; simp only [GAll, NameIn, singleName?, Option.some.injEq]; intro n hn; rw [← hn]; exact hx
  by_cases hsame : a.beq b = true
  · unfold mergeSingle at h
    rw [if_pos hsame] at h
    cases h
    exact hexpr a ha
  replace h : mergeSingleCore a b isAnd = some m := by
    unfold mergeSingle at h; rw [if_neg hsame] at h; split at h
    · exact h
    · simp at h
  unfold mergeSingleCore at h
  split at h
  · rename_i hpair
    -- python_version / python_full_version
    unfold mergePythonVersion at h
    have hpf : P "python_full_version" := by
      simp only [Bool.or_eq_true, Bool.and_eq_true, beq_iff_eq] at hpair
      rcases hpair with ⟨_, h2⟩ | ⟨h1, _⟩
      · rw [← h2]; exact hb
      · rw [← h1]; exact ha
    simp only at h
    split at h
    · simp at h
    · split at h
      · simp at h
      · split at h
        · cases h
          split <;> first | exact hexpr _ ha | exact hexpr _ hb
        · exact fromSpecifier_names P _ hpf _ m h
  · split at h
    · simp at h
    · split at h
      · simp at h
      · split at h
        · split at h
          · cases h; simp only [GAll, NameIn, singleName?, Option.some.injEq]; intro n hn; rw [← hn]; exact ha
          · split at h
            · cases h; simp only [GAll, NameIn, singleName?, Option.some.injEq]; intro n hn; rw [← hn]; exact ha
            · simp at h
        · split at h
          · cases h; exact hexpr a ha
          · split at h
            · cases h; exact hexpr b hb
            · exact fromSpecifier_names P _ ha _ m h


theorem nameIn_single (P : String → Prop) (x : M) (hx : x.isSingle = true) : GAll (NameIn P) x ↔ NameIn P x :=
  GAll_single (NameIn P) x hx

theorem singleAnd_names (P : String → Prop) (x y : M) (hx : NameIn P x) (hy : NameIn P y) (m : M)
    (h : singleAnd x y = .done m) : GAll (NameIn P) m := by
  have hnx : ∀ n, x.singleName? = some n → P n := hx
  have hny : ∀ n, y.singleName? = some n → P n := hy
  cases x <;> cases y <;> simp only [singleAnd] at h <;> (try (cases h; done))
  all_goals (repeat' split at h)
  all_goals (try (cases h; done))
  all_goals (try simp only [SRes.done.injEq] at h)
  all_goals (try subst h)
  all_goals first
    | exact mergeSingle_names P _ _ true (hnx _ rfl) (hny _ rfl) _ (by assumption)
    | exact eqReplace_names P _ (hnx _ rfl) _
    | exact eqReplace_names P _ (hny _ rfl) _
    | exact neReplace_names P _ (hnx _ rfl) _
    | exact neReplace_names P _ (hny _ rfl) _
    | (simp only [GAll]; first | exact hx | exact hy)
    | (simp only [GAll, NameIn, singleName?, Option.some.injEq]; intro n hn; rw [← hn]; first | exact hnx _ rfl | exact hny _ rfl)
    | simp [GAll]

theorem singleOr_names (P : String → Prop) (x y : M) (hx : NameIn P x) (hy : NameIn P y) (m : M)
    (h : singleOr x y = .done m) : GAll (NameIn P) m := by
  have hnx : ∀ n, x.singleName? = some n → P n := hx
  have hny : ∀ n, y.singleName? = some n → P n := hy
  cases x <;> cases y <;> simp only [singleOr] at h <;> (try (cases h; done))
  all_goals (repeat' split at h)
  all_goals (try (cases h; done))
  all_goals (try simp only [SRes.done.injEq] at h)
  all_goals (try subst h)
  all_goals first
    | exact mergeSingle_names P _ _ false (hnx _ rfl) (hny _ rfl) _ (by assumption)
    | exact eqReplace_names P _ (hnx _ rfl) _
    | exact eqReplace_names P _ (hny _ rfl) _
    | exact neReplace_names P _ (hnx _ rfl) _
    | exact neReplace_names P _ (hny _ rfl) _
    | (simp only [GAll]; first | exact hx | exact hy)
    | (simp only [GAll, NameIn, singleName?, Option.some.injEq]; intro n hn; rw [← hn]; first | exact hnx _ rfl | exact hny _ rfl)
    | simp [GAll]

mutual
theorem GAll_and (G1 G2 : M → Prop) : ∀ (m : M), GAll G1 m → GAll G2 m → GAll (fun s => G1 s ∧ G2 s) m
  | .any, _, _ | .empty, _, _ => trivial
  | .expr _, h1, h2 | .eqU _ _, h1, h2 | .neM _ _, h1, h2 => ⟨h1, h2⟩
  | .multi ms, h1, h2 | .union ms, h1, h2 => GAllL_and G1 G2 ms h1 h2
theorem GAllL_and (G1 G2 : M → Prop) : ∀ (ms : List M), GAllL G1 ms → GAllL G2 ms → GAllL (fun s => G1 s ∧ G2 s) ms
  | [], _, _ => trivial
  | m :: ms, h1, h2 => ⟨GAll_and G1 G2 m h1.1 h2.1, GAllL_and G1 G2 ms h1.2 h2.2⟩
end

mutual
theorem GAll_mono (G1 G2 : M → Prop) (h : ∀ s, G1 s → G2 s) : ∀ (m : M), GAll G1 m → GAll G2 m
  | .any, _ | .empty, _ => trivial
  | .expr _, h1 | .eqU _ _, h1 | .neM _ _, h1 => h _ h1
  | .multi ms, h1 | .union ms, h1 => GAllL_mono G1 G2 h ms h1
theorem GAllL_mono (G1 G2 : M → Prop) (h : ∀ s, G1 s → G2 s) : ∀ (ms : List M), GAllL G1 ms → GAllL G2 ms
  | [], _ => trivial
  | m :: ms, h1 => ⟨GAll_mono G1 G2 h m h1.1, GAllL_mono G1 G2 h ms h1.2⟩
end

/-- the single-marker layer is sound also when we track which variables occur -/
theorem singleSound_names (env : Env) (he : EnvTotal env) (hF : FromSpecOk env) (hP : PyMergeOk env)
    (P : String → Prop) : SingleSound env (fun s => Good env s ∧ NameIn P s) where
  and_ok := by
    intro x y sx sy gx gy
    have h1 := singleAnd_ok env he hF hP x y sx sy gx.1 gy.1
    cases hs : singleAnd x y with
    | done m =>
      have h2 := singleAnd_names P x y gx.2 gy.2 m hs
      rw [hs] at h1; exact ⟨GAll_and _ _ m h1.1 h2, h1.2⟩
    | pair p q => rw [hs] at h1; exact h1
  or_ok := by
    intro x y sx sy gx gy
    have h1 := singleOr_ok env he hF hP x y sx sy gx.1 gy.1
    cases hs : singleOr x y with
    | done m =>
      have h2 := singleOr_names P x y gx.2 gy.2 m hs
      rw [hs] at h1; exact ⟨GAll_and _ _ m h1.1 h2, h1.2⟩
    | pair p q => rw [hs] at h1; exact h1

/-! ### nesting depth (the fuel a traversal needs) -/

mutual
def depth : M → Nat
  | .multi ms | .union ms => depthL ms + 1
  | _ => 1
def depthL : List M → Nat
  | [] => 0
  | m :: ms => max (depth m) (depthL ms)
end

theorem depthL_le (ms : List M) (n : Nat) : depthL ms ≤ n ↔ ∀ m ∈ ms, depth m ≤ n := by
  induction ms with
  | nil => simp [depthL]
  | cons m ms ih => simp [depthL, Nat.max_le, ih]

/-- the four facts about one `only` call -/
structure OnlyOk (env : Env) (names : List String) (m r : M) (fuelOk : Prop) : Prop where
  good : GAll (Good env) r
  implied : sem env m = true → sem env r = true
  same : GAll (NameIn (· ∈ names)) m → sem env r = sem env m
  mentions : fuelOk → GAll (NameIn (· ∈ names)) r

section
variable (env : Env) (he : EnvTotal env) (hF : FromSpecOk env) (hP : PyMergeOk env)
include he hF hP

theorem only_ok (names : List String) : ∀ (fuel : Nat) (m : M), GAll (Good env) m →
    OnlyOk env names m (only fuel m names) (depth m ≤ fuel) := by
  intro fuel
  induction fuel with
  | zero =>
    intro m hm
    refine ⟨by simpa [only] using hm, by simp [only], by simp [only], ?_⟩
    intro h; cases m <;> simp [depth] at h
  | succ fuel ih =>
    intro m hm
    let P : String → Prop := (· ∈ names)
    have S := sound_all (singleSound env he hF hP) fuel
    have S' := sound_all (singleSound_names env he hF hP P) fuel
    -- facts about the mapped children
    have kids : ∀ ms : List M, GAllL (Good env) ms →
        GAllL (Good env) (ms.map fun c => only fuel c names) ∧
        (ms.all (sem env) = true → (ms.map fun c => only fuel c names).all (sem env) = true) ∧
        (ms.any (sem env) = true → (ms.map fun c => only fuel c names).any (sem env) = true) ∧
        (GAllL (NameIn P) ms → (ms.map fun c => only fuel c names).all (sem env) = ms.all (sem env)) ∧
        (GAllL (NameIn P) ms → (ms.map fun c => only fuel c names).any (sem env) = ms.any (sem env)) ∧
        (depthL ms ≤ fuel → GAllL (NameIn P) (ms.map fun c => only fuel c names)) := by
      intro ms
      induction ms with
      | nil => intro _; simp [GAllL]
      | cons c cs ihc =>
        intro hG
        have hc := ih c hG.1
        obtain ⟨k1, k2, k3, k4, k5, k6⟩ := ihc hG.2
        refine ⟨⟨hc.good, k1⟩, ?_, ?_, ?_, ?_, ?_⟩
        · simp only [List.all_cons, List.map_cons, Bool.and_eq_true]
          exact fun h => ⟨hc.implied h.1, k2 h.2⟩
        · simp only [List.any_cons, List.map_cons, Bool.or_eq_true]
          exact fun h => h.elim (fun h => Or.inl (hc.implied h)) (fun h => Or.inr (k3 h))
        · intro hn
          simp only [List.all_cons, List.map_cons]
          rw [hc.same hn.1, k4 hn.2]
        · intro hn
          simp only [List.any_cons, List.map_cons]
          rw [hc.same hn.1, k5 hn.2]
        · intro hd
          simp only [depthL, Nat.max_le] at hd
          exact ⟨hc.mentions hd.1, k6 hd.2⟩
    have strip : ∀ r, GAll (fun s => Good env s ∧ NameIn P s) r → GAll (NameIn P) r :=
      fun r h => GAll_mono _ _ (fun _ hs => hs.2) r h
    cases m with
    | any => exact ⟨by simp [only, GAll], by simp [only], by simp [only], by simp [only, GAll]⟩
    | empty => exact ⟨by simp [only, GAll], by simp [only], by simp [only], by simp [only, GAll]⟩
    | multi ms =>
      obtain ⟨k1, k2, _, k4, _, k6⟩ := kids ms hm
      have R := S.multiOf_ _ k1
      simp only [only]
      refine ⟨R.1, ?_, ?_, ?_⟩
      · intro h; rw [R.2]; exact k2 (by simpa [sem, semAll_eq] using h)
      · intro hn; rw [R.2, k4 hn]; simp [sem, semAll_eq]
      · intro hd
        have hd' : depthL ms ≤ fuel := by simp only [depth] at hd; omega
        exact strip _ (S'.multiOf_ _ (GAllL_and _ _ _ k1 (k6 hd'))).1
    | union ms =>
      obtain ⟨k1, _, k3, _, k5, k6⟩ := kids ms hm
      have R := S.unionOfList_ _ k1
      simp only [only]
      refine ⟨R.1, ?_, ?_, ?_⟩
      · intro h; rw [R.2]; exact k3 (by simpa [sem, semAny_eq] using h)
      · intro hn; rw [R.2, k5 hn]; simp [sem, semAny_eq]
      · intro hd
        have hd' : depthL ms ≤ fuel := by simp only [depth] at hd; omega
        exact strip _ (S'.unionOfList_ _ (GAllL_and _ _ _ k1 (k6 hd'))).1
    | expr a =>
      simp only [only, singleName?]
      split
      · rename_i hc
        exact ⟨hm, id, fun _ => rfl, fun _ => by
          simp only [GAll, NameIn, singleName?, Option.some.injEq]; intro n hn; rw [← hn]; simpa using hc⟩
      · exact ⟨by simp [GAll], by simp [sem], by
          intro hn; simp only [GAll, NameIn, singleName?, Option.some.injEq] at hn
          have := hn _ rfl; simp_all, by simp [GAll]⟩
    | eqU n vs =>
      simp only [only, singleName?]
      split
      · rename_i hc
        exact ⟨hm, id, fun _ => rfl, fun _ => by
          simp only [GAll, NameIn, singleName?, Option.some.injEq]; intro n hn; rw [← hn]; simpa using hc⟩
      · exact ⟨by simp [GAll], by simp [sem], by
          intro hn; simp only [GAll, NameIn, singleName?, Option.some.injEq] at hn
          have := hn _ rfl; simp_all, by simp [GAll]⟩
    | neM n vs =>
      simp only [only, singleName?]
      split
      · rename_i hc
        exact ⟨hm, id, fun _ => rfl, fun _ => by
          simp only [GAll, NameIn, singleName?, Option.some.injEq]; intro n hn; rw [← hn]; simpa using hc⟩
      · exact ⟨by simp [GAll], by simp [sem], by
          intro hn; simp only [GAll, NameIn, singleName?, Option.some.injEq] at hn
          have := hn _ rfl; simp_all, by simp [GAll]⟩

end

/-! ### `exclude` -/

/-- `exclude` silently drops a conjunct whose own exclusion collapsed to `EmptyMarker`, and turns
    a union with nothing left into `AnyMarker`.  On a marker that does not mention the variable
    neither can happen if the marker is in normal form (C15); this predicate says so directly. -/
def NoVanish : Nat → M → String → Prop
  | 0, _, _ => True
  | fuel + 1, .multi ms, name =>
      ∀ c ∈ ms, (exclude fuel c name).isEmpty = false ∧ NoVanish fuel c name
  | fuel + 1, .union ms, name => ms ≠ [] ∧ ∀ c ∈ ms, NoVanish fuel c name
  | _ + 1, _, _ => True

theorem cond_false (name : String) (c : M) (h : GAll (NameIn (· ≠ name)) c) :
    (c.isSingle && c.singleName? == some name) = false := by
  cases c <;> simp [isSingle, singleName?] <;>
    (simp only [GAll, NameIn, singleName?, Option.some.injEq] at h; exact h _ rfl)

structure ExclOk (env : Env) (name : String) (m r : M) (fuelOk stable : Prop) : Prop where
  good : GAll (Good env) r
  mentions : fuelOk → GAll (NameIn (· ≠ name)) r
  implied : GAll (NameIn (· ≠ name)) m → sem env m = true → sem env r = true
  same : GAll (NameIn (· ≠ name)) m → stable → sem env r = sem env m

section
variable (env : Env) (he : EnvTotal env) (hF : FromSpecOk env) (hP : PyMergeOk env)
include he hF hP

theorem exclude_ok (name : String) : ∀ (fuel : Nat) (m : M), GAll (Good env) m →
    ExclOk env name m (exclude fuel m name) (depth m ≤ fuel) (NoVanish fuel m name) := by
  intro fuel
  induction fuel with
  | zero =>
    intro m hm
    refine ⟨by simpa [exclude] using hm, ?_, by simp [exclude], by simp [exclude]⟩
    intro h; cases m <;> simp [depth] at h
  | succ fuel ih =>
    intro m hm
    let P : String → Prop := (· ≠ name)
    have S := sound_all (singleSound env he hF hP) fuel
    have S' := sound_all (singleSound_names env he hF hP P) fuel
    have strip : ∀ r, GAll (fun s => Good env s ∧ NameIn P s) r → GAll (NameIn P) r :=
      fun r h => GAll_mono _ _ (fun _ hs => hs.2) r h
    cases m with
    | any => exact ⟨by simp [exclude, GAll], by simp [exclude, GAll], by simp [exclude], by simp [exclude]⟩
    | empty => exact ⟨by simp [exclude, GAll], by simp [exclude, GAll], by simp [exclude], by simp [exclude]⟩
    | multi ms =>
      have kids : ∀ ms : List M, GAllL (Good env) ms →
          let kept := ms.filterMap fun c =>
            if c.isSingle && c.singleName? == some name then none
            else if (exclude fuel c name).isEmpty then none else some (exclude fuel c name)
          GAllL (Good env) kept ∧
          (depthL ms ≤ fuel → GAllL (NameIn P) kept) ∧
          (GAllL (NameIn P) ms → ms.all (sem env) = true → kept.all (sem env) = true) ∧
          (GAllL (NameIn P) ms → (∀ c ∈ ms, (exclude fuel c name).isEmpty = false ∧ NoVanish fuel c name) →
            kept.all (sem env) = ms.all (sem env)) := by
        intro ms
        induction ms with
        | nil => intro _; simp [GAllL]
        | cons c cs ihc =>
          intro hG
          have hc := ih c hG.1
          obtain ⟨k1, k2, k3, k4⟩ := ihc hG.2
          simp only [List.filterMap_cons]
          refine ⟨?_, ?_, ?_, ?_⟩
          · split
            · exact k1
            · rename_i b h1
              split at h1
              · cases h1
              · split at h1
                · cases h1
                · cases h1; exact ⟨hc.good, k1⟩
          · intro hd
            simp only [depthL, Nat.max_le] at hd
            split
            · exact k2 hd.2
            · rename_i b h1
              split at h1
              · cases h1
              · split at h1
                · cases h1
                · cases h1; exact ⟨hc.mentions hd.1, k2 hd.2⟩
          · intro hn hall
            simp only [List.all_cons, Bool.and_eq_true] at hall
            split
            · exact k3 hn.2 hall.2
            · rename_i b h1
              split at h1
              · cases h1
              · split at h1
                · cases h1
                · cases h1
                  rw [List.all_cons]
                  exact Bool.and_eq_true_iff.mpr ⟨hc.implied hn.1 hall.1, k3 hn.2 hall.2⟩
          · intro hn hst
            have hst1 := hst c (by simp)
            have hst2 : ∀ c' ∈ cs, (exclude fuel c' name).isEmpty = false ∧ NoVanish fuel c' name :=
              fun c' h' => hst c' (by simp [h'])
            rw [cond_false name c hn.1]
            simp only [Bool.false_eq_true, if_false, hst1.1]
            simp only [List.all_cons]
            rw [hc.same hn.1 hst1.2, k4 hn.2 hst2]
      obtain ⟨k1, k2, k3, k4⟩ := kids ms hm
      have R := S.multiOf_ _ k1
      simp only [exclude]
      refine ⟨R.1, ?_, ?_, ?_⟩
      · intro hd
        have hd' : depthL ms ≤ fuel := by simp only [depth] at hd; omega
        exact strip _ (S'.multiOf_ _ (GAllL_and _ _ _ k1 (k2 hd'))).1
      · intro hn h; rw [R.2]; exact k3 hn (by simpa [sem, semAll_eq] using h)
      · intro hn hst
        rw [R.2, k4 hn (by simpa [NoVanish] using hst)]; simp [sem, semAll_eq]
    | union ms =>
      have kids : ∀ ms : List M, GAllL (Good env) ms →
          let kept := ms.filterMap fun c =>
            if c.isSingle && c.singleName? == some name then none else some (exclude fuel c name)
          GAllL (Good env) kept ∧
          (depthL ms ≤ fuel → GAllL (NameIn P) kept) ∧
          (GAllL (NameIn P) ms → ms.any (sem env) = true → kept.any (sem env) = true) ∧
          (GAllL (NameIn P) ms → (∀ c ∈ ms, NoVanish fuel c name) →
            kept.any (sem env) = ms.any (sem env)) ∧
          (GAllL (NameIn P) ms → kept.isEmpty = ms.isEmpty) := by
        intro ms
        induction ms with
        | nil => intro _; simp [GAllL]
        | cons c cs ihc =>
          intro hG
          have hc := ih c hG.1
          obtain ⟨k1, k2, k3, k4, _⟩ := ihc hG.2
          simp only [List.filterMap_cons]
          refine ⟨?_, ?_, ?_, ?_, ?_⟩
          · split
            · exact k1
            · rename_i b h1
              split at h1
              · cases h1
              · cases h1; exact ⟨hc.good, k1⟩
          · intro hd
            simp only [depthL, Nat.max_le] at hd
            split
            · exact k2 hd.2
            · rename_i b h1
              split at h1
              · cases h1
              · cases h1; exact ⟨hc.mentions hd.1, k2 hd.2⟩
          · intro hn hany
            rw [cond_false name c hn.1]
            simp only [Bool.false_eq_true, if_false, List.any_cons, Bool.or_eq_true] at hany ⊢
            exact hany.elim (fun h => Or.inl (hc.implied hn.1 h)) (fun h => Or.inr (k3 hn.2 h))
          · intro hn hst
            rw [cond_false name c hn.1]
            simp only [Bool.false_eq_true, if_false, List.any_cons]
            rw [hc.same hn.1 (hst c (by simp)), k4 hn.2 (fun c' h' => hst c' (by simp [h']))]
          · intro hn
            rw [cond_false name c hn.1]
            simp
      obtain ⟨k1, k2, k3, k4, k5⟩ := kids ms hm
      have R := S.unionOfList_ _ k1
      simp only [exclude]
      split
      · rename_i hemp
        refine ⟨by simp [GAll], by simp [GAll], by simp [sem], ?_⟩
        intro hn hst
        simp only [NoVanish] at hst
        rw [k5 hn] at hemp
        exact absurd (by simpa using hemp) hst.1
      · refine ⟨R.1, ?_, ?_, ?_⟩
        · intro hd
          have hd' : depthL ms ≤ fuel := by simp only [depth] at hd; omega
          exact strip _ (S'.unionOfList_ _ (GAllL_and _ _ _ k1 (k2 hd'))).1
        · intro hn h; rw [R.2]; exact k3 hn (by simpa [sem, semAny_eq] using h)
        · intro hn hst
          simp only [NoVanish] at hst
          rw [R.2, k4 hn hst.2]; simp [sem, semAny_eq]
    | expr a =>
      simp only [exclude]
      by_cases hc : ((expr a).singleName? == some name) = true
      · rw [if_pos hc]
        exact ⟨by simp [GAll], fun _ => by simp [GAll], by simp [sem], by
          intro hn; simp only [GAll, NameIn, singleName?, Option.some.injEq] at hn
          have := hn _ rfl; simp_all [singleName?]⟩
      · rw [if_neg hc]
        exact ⟨hm, fun _ => by
          simp only [GAll, NameIn, singleName?, Option.some.injEq]; intro n hn; rw [← hn]; simpa [singleName?] using hc,
          fun _ => id, fun _ _ => rfl⟩
    | eqU n vs =>
      simp only [exclude]
      by_cases hc : ((eqU n vs).singleName? == some name) = true
      · rw [if_pos hc]
        exact ⟨by simp [GAll], fun _ => by simp [GAll], by simp [sem], by
          intro hn; simp only [GAll, NameIn, singleName?, Option.some.injEq] at hn
          have := hn _ rfl; simp_all [singleName?]⟩
      · rw [if_neg hc]
        exact ⟨hm, fun _ => by
          simp only [GAll, NameIn, singleName?, Option.some.injEq]; intro n hn; rw [← hn]; simpa [singleName?] using hc,
          fun _ => id, fun _ _ => rfl⟩
    | neM n vs =>
      simp only [exclude]
      by_cases hc : ((neM n vs).singleName? == some name) = true
      · rw [if_pos hc]
        exact ⟨by simp [GAll], fun _ => by simp [GAll], by simp [sem], by
          intro hn; simp only [GAll, NameIn, singleName?, Option.some.injEq] at hn
          have := hn _ rfl; simp_all [singleName?]⟩
      · rw [if_neg hc]
        exact ⟨hm, fun _ => by
          simp only [GAll, NameIn, singleName?, Option.some.injEq]; intro n hn; rw [← hn]; simpa [singleName?] using hc,
          fun _ => id, fun _ _ => rfl⟩

end

/-! ## The property -/

section
variable (env : Env) (he : EnvTotal env) (hF : FromSpecOk env) (hP : PyMergeOk env)
include he hF hP

/-- `m.only(names)` mentions no variable outside `names` -/
theorem only_mentions (names : List String) (fuel : Nat) (m : M) (hm : GAll (Good env) m)
    (hfuel : depth m ≤ fuel) : GAll (NameIn (· ∈ names)) (only fuel m names) :=
  (only_ok env he hF hP names fuel m hm).mentions hfuel

/-- every environment satisfying `m` satisfies `m.only(names)` -/
theorem only_implied (names : List String) (fuel : Nat) (m : M) (hm : GAll (Good env) m)
    (h : sem env m = true) : sem env (only fuel m names) = true :=
  (only_ok env he hF hP names fuel m hm).implied h

/-- when `m` mentions only `names`, `m.only(names)` means what `m` means -/
theorem only_same (names : List String) (fuel : Nat) (m : M) (hm : GAll (Good env) m)
    (hn : GAll (NameIn (· ∈ names)) m) : sem env (only fuel m names) = sem env m :=
  (only_ok env he hF hP names fuel m hm).same hn

/-- `m.exclude(name)` never mentions `name` (`without_extras()` is `exclude("extra")`) -/
theorem exclude_mentions (name : String) (fuel : Nat) (m : M) (hm : GAll (Good env) m)
    (hfuel : depth m ≤ fuel) : GAll (NameIn (· ≠ name)) (exclude fuel m name) :=
  (exclude_ok env he hF hP name fuel m hm).mentions hfuel

/-- when `m` does not mention `name`, everything satisfying `m` satisfies `m.exclude(name)` -/
theorem exclude_implied (name : String) (fuel : Nat) (m : M) (hm : GAll (Good env) m)
    (hn : GAll (NameIn (· ≠ name)) m) (h : sem env m = true) : sem env (exclude fuel m name) = true :=
  (exclude_ok env he hF hP name fuel m hm).implied hn h

/-- when `m` does not mention `name` and no conjunct vanishes on re-normalisation (true of
    markers in normal form, C15), `m.exclude(name)` means what `m` means.
    PARTIAL: the `NoVanish` hypothesis is needed, see `exclude_same_needs_noVanish`. -/
theorem exclude_same_partial (name : String) (fuel : Nat) (m : M) (hm : GAll (Good env) m)
    (hn : GAll (NameIn (· ≠ name)) m) (hs : NoVanish fuel m name) :
    sem env (exclude fuel m name) = sem env m :=
  (exclude_ok env he hF hP name fuel m hm).same hn hs

end

/-! ### with the bridge facts proved (C02.bridge): no assumption beyond `EnvTotal` and good atoms -/

theorem only_final (env : Env) (he : EnvTotal env) (names : List String) (fuel : Nat) (m : M) (hm : GAll (Good env) m) :
    (depth m ≤ fuel → GAll (NameIn (· ∈ names)) (only fuel m names)) ∧
    (sem env m = true → sem env (only fuel m names) = true) ∧
    (GAll (NameIn (· ∈ names)) m → sem env (only fuel m names) = sem env m) :=
  let b := C02.bridge env he
  ⟨only_mentions env he b.1 b.2 names fuel m hm, only_implied env he b.1 b.2 names fuel m hm,
   only_same env he b.1 b.2 names fuel m hm⟩

theorem exclude_final (env : Env) (he : EnvTotal env) (name : String) (fuel : Nat) (m : M) (hm : GAll (Good env) m) :
    (depth m ≤ fuel → GAll (NameIn (· ≠ name)) (exclude fuel m name)) ∧
    (GAll (NameIn (· ≠ name)) m → sem env m = true → sem env (exclude fuel m name) = true) ∧
    (GAll (NameIn (· ≠ name)) m → NoVanish fuel m name → sem env (exclude fuel m name) = sem env m) :=
  let b := C02.bridge env he
  ⟨exclude_mentions env he b.1 b.2 name fuel m hm, exclude_implied env he b.1 b.2 name fuel m hm,
   exclude_same_partial env he b.1 b.2 name fuel m hm⟩

/-- without `NoVanish` the statement is false of the code's algorithm: on the (unreachable,
    not-in-normal-form) marker `os_name == "a" and (<empty> or <empty>)` the conjunct that
    re-normalises to `EmptyMarker` is dropped.  Replayed on the implementation by the harness
    (stream `exclude-nonnf`): same result there. -/
theorem exclude_same_needs_noVanish :
    let m : M := .multi [.eqU "os_name" ["a"], .union [.empty, .empty]]
    let env : Env := fun n => if n = "os_name" then some (.str "a") else none
    GAll (NameIn (· ≠ "extra")) m ∧ sem env m = false ∧ sem env (exclude 5 m "extra") = true := by
  refine ⟨?_, by decide, by decide⟩
  simp [GAll, GAllL, NameIn, singleName?]

/-- the hypotheses are satisfiable by a non-trivial marker -/
example : let m : M := .multi [.eqU "os_name" ["a"], .union [.neM "sys_platform" ["x"], .eqU "extra" ["t"]]]
    depth m ≤ 3 ∧ NoVanish 3 (.multi [.eqU "os_name" ["a"], .neM "sys_platform" ["x"]]) "extra" := by
  refine ⟨by decide, ?_⟩
  simp [NoVanish, exclude, isEmpty, singleName?]

end C12
end DepLogic
