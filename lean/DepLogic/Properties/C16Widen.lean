import DepLogic.Properties.C16
import DepLogic.Properties.C08Compat
import DepLogic.Proofs.FromSpec
/-
  C16, first sentence, through the public function — if requires_python of B admits every position that A's admits
  (other fields equal), every wheel `EnvSpec.compatibility` accepts for A is accepted for B, with the same platform score
  and a python score at least as good: `compatibility_widen`.  Built from `C16.widen_keeps_cuts` (the emptiness test),
  `C08.evalPyCore_iff` / `score_shape` (one python x abi pair) and `C08.compatibility_score` (the maximum).
-/
namespace DepLogic
namespace C16
open Spec C08

theorem canon_universal : Canon (Spec.range ({} : Range Ver)) := by
  simp [Canon, Range.WF, Range.ctorOk]

/-- the range a (python tag, abi tag) pair denotes is canonical -/
theorem wheelSpec_canon (t : PyAbi) (w : Spec Ver) (h : wheelSpec t = some w) : Canon w := by
  have base : ∀ c s, fromClause c = some s → Canon ((Spec.range {}).and s) := fun c s hs =>
    and_canon _ _ canon_universal (fromClause_canon c s hs)
  unfold wheelSpec at h
  split at h
  · unfold abi3Range at h
    simp only [Option.bind_eq_some_iff, Option.map_eq_some_iff] at h
    obtain ⟨rel, _, s, hs, rfl⟩ := h
    exact base _ s hs
  · unfold wheelRange at h
    split at h
    · split at h
      · simp only [Option.bind_eq_some_iff, Option.map_eq_some_iff] at h
        obtain ⟨a, ha, b, hb, rfl⟩ := h
        exact and_canon _ _ (base _ a ha) (base _ b hb)
      · cases h
    · split at h
      · simp only [Option.bind_eq_some_iff, Option.map_eq_some_iff] at h
        obtain ⟨rel, _, s, hs, rfl⟩ := h
        exact base _ s hs
      · simp only [Option.bind_eq_some_iff, Option.map_eq_some_iff] at h
        obtain ⟨M, _, s, hs, rfl⟩ := h
        exact base _ s hs

/-- **C08 as an equivalence, for the PEP 440 order itself** (no density assumed, no hypothesis on the tag pair): for a
    canonical requires_python, a (python tag, abi tag) pair is accepted EXACTLY when the gates pass and the range the
    pair denotes shares a position (at / just below / just above a bound) with requires_python -/
theorem evalPyCore_cut_iff (a0 : Ver) (rp : Spec Ver) (hrp : Canon rp) (impl : Option Impl) (t : PyAbi) :
    (evalPyCore rp impl t).isSome = true ↔
      (gate impl t = true ∧ ∃ w, wheelSpec t = some w ∧ ∃ x s, w.memC x s ∧ rp.memC x s) := by
  rw [evalPyCore_iff]
  constructor
  · rintro ⟨hg, w, hw, hne⟩
    exact ⟨hg, w, hw, exists_cut_of_compatible a0 w rp (wheelSpec_canon t w hw) hrp hne⟩
  · rintro ⟨hg, w, hw, x, s, h1, h2⟩
    refine ⟨hg, w, hw, ?_⟩
    cases he : (w.and rp).isEmpty with
    | false => rfl
    | true =>
      exfalso
      have := (C05.isEmpty_exact_cuts a0 _ (and_canon w rp (wheelSpec_canon t w hw) hrp)).1 he x s
      exact this ((Spec.and_memC w rp x s).2 ⟨h1, h2⟩)

/-- one (python tag, abi tag) pair: accepted under A, hence under every B that admits at least A's positions, with
    the same score -/
theorem evalPy_widen (a0 : Ver) (A B : Spec Ver) (hA : Canon A) (hB : Canon B)
    (hsub : ∀ x s, A.memC x s → B.memC x s) (impl : Option Impl) (t : PyAbi) (sc : Nat × Nat × Nat)
    (h : evalPyCore A impl t = some sc) : evalPyCore B impl t = some sc := by
  have hsome : (evalPyCore A impl t).isSome = true := by rw [h]; rfl
  obtain ⟨hg, w, hw, hne⟩ := (evalPyCore_iff A impl t).1 hsome
  have hne' := widen_keeps_cuts a0 w A B (wheelSpec_canon t w hw) hA hB hsub hne
  have hB' : (evalPyCore B impl t).isSome = true := (evalPyCore_iff B impl t).2 ⟨hg, w, hw, hne'⟩
  obtain ⟨sc', hsc'⟩ := Option.isSome_iff_exists.1 hB'
  have s1 := score_shape A impl t sc h
  have s2 := score_shape B impl t sc' hsc'
  have : sc' = sc := by
    obtain ⟨a1, a2, a3⟩ := sc; obtain ⟨b1, b2, b3⟩ := sc'
    simp only at s1 s2
    obtain ⟨p1, p2, p3⟩ := s1; obtain ⟨q1, q2, q3⟩ := s2
    simp [p1, p2, p3, q1, q2, q3]
  rw [hsc', this]

/-- **widening requires_python never loses a wheel**, through `EnvSpec.compatibility`: same platform score, and a
    python score that is not worse -/
theorem compatibility_widen (a0 : Ver) (eA eB : EnvSpec) (hA : Canon eA.requiresPython) (hB : Canon eB.requiresPython)
    (hsub : ∀ x s, eA.requiresPython.memC x s → eB.requiresPython.memC x s)
    (hplat : eA.platform = eB.platform) (himpl : eA.impl = eB.impl)
    (py abi plat : List String) (ps : Sc) (s : Int) (h : compatibility eA py abi plat = .score ps s) :
    ∃ ps', compatibility eB py abi plat = .score ps' s ∧ lexLt ps' ps = false := by
  obtain ⟨⟨p, hp, a, ha, hpa⟩, _, ⟨t, ht, hts⟩, hbest⟩ := compatibility_score eA py abi plat ps s h
  have hplatEq : ∀ x, evaluatePlatform eB x = evaluatePlatform eA x := by
    intro x; unfold evaluatePlatform; rw [hplat]
  have hpyB : ∀ p a sc, evaluatePython eA p a = some sc → evaluatePython eB p a = some sc := by
    intro p a sc hsc
    unfold evaluatePython at hsc ⊢
    rw [← himpl]
    exact evalPy_widen a0 _ _ hA hB hsub _ _ sc hsc
  -- B's verdict is a score
  cases hc : compatibility eB py abi plat with
  | error =>
    exfalso
    rw [compatibility_eq] at hc h
    have hno : (plat.map (evaluatePlatform eA)).any Option.isNone = false := by
      cases hm : maxScore (pyScores eA py abi) with
      | none => rw [hm] at h; cases h
      | some m =>
        rw [hm] at h; simp only at h
        by_cases he : (plat.map (evaluatePlatform eA)).any Option.isNone = true
        · rw [if_pos he] at h; cases h
        · simpa using he
    have hsame : plat.map (evaluatePlatform eB) = plat.map (evaluatePlatform eA) := by
      apply List.map_congr_left; intro x _; exact hplatEq x
    cases hm : maxScore (pyScores eB py abi) with
    | none => rw [hm] at hc; cases hc
    | some m =>
      rw [hm] at hc; simp only at hc
      rw [hsame, hno] at hc
      simp only [Bool.false_eq_true, if_false] at hc
      cases hb : bestPlat (platScores eB plat) <;> rw [hb] at hc <;> cases hc
  | none =>
    exfalso
    rcases (compatibility_none eB py abi plat).1 hc with hall | ⟨_, hall⟩
    · have := hpyB p a ps hpa
      rw [hall p hp a ha] at this; cases this
    · have := hall t ht
      rw [hplatEq t, hts] at this; cases this
  | score ps' s' =>
    obtain ⟨_, hmax', ⟨t', ht', hts'⟩, hbest'⟩ := compatibility_score eB py abi plat ps' s' hc
    refine ⟨ps', ?_, hmax' p hp a ha ps (hpyB p a ps hpa)⟩
    have e1 : s' ≤ s := hbest t' ht' s' (by rw [← hplatEq t']; exact hts')
    have e2 : s ≤ s' := hbest' t ht s (by rw [hplatEq t]; exact hts)
    have : s' = s := by omega
    rw [this]

end C16
end DepLogic
