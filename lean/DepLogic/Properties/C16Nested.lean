import DepLogic.Properties.C16
/-
  C16, last clause — whenever `compare` answers LOWER_OR_EQUAL / HIGHER for two specs with platforms, the
  platform tag sets are nested accordingly: `platCompare_nested`, `platCompare_nested_higher`, for EVERY pair of
  platforms of the model (all four documented families, every release, every architecture, and the unordered
  BSD / generic classes), under one hypothesis that names the documented release lines (`SameLine`): the two
  releases share the glibc / musl major, and an Intel macOS 10 target has a minor of at most 16 (10.16 is the
  last 10.x).  Outside it the claim is false of the code (`nested_needs_sameLine`: manylinux_2_17 -> manylinux_3_0).
-/
namespace DepLogic
namespace C16

/-- the documented release lines -/
def SameLine (p q : Platform) : Prop :=
  match p.os, q.os with
  | .manylinux a _, .manylinux b _ => a = b
  | .musllinux a _, .musllinux b _ => a = b
  | .macos a m, .macos _ _ => p.arch = .x86_64 → a = 10 → m ≤ 16
  | _, _ => True

theorem mem_macLoop (fmts : List String) (hi lo : Nat) (g : Nat → String → PTag) (t : PTag) :
    t ∈ ((rangeDown hi lo).flatMap fun M => fmts.map fun f => g M f) ↔
      ∃ M, lo < M ∧ M ≤ hi ∧ ∃ f ∈ fmts, t = g M f := by
  simp only [List.mem_flatMap, List.mem_map, C09.rangeDown_mem]
  constructor
  · rintro ⟨M, ⟨h1, h2⟩, f, hf, rfl⟩; exact ⟨M, h1, h2, f, hf, rfl⟩
  · rintro ⟨M, h1, h2, f, hf, rfl⟩; exact ⟨M, ⟨h1, h2⟩, f, hf, rfl⟩

theorem platCompare_nested (p q : Platform) (lp lq : List PTag)
    (hp : compatibleTags p = some lp) (hq : compatibleTags q = some lq) (hl : SameLine p q)
    (h : platCompare p q = .lowerOrEqual) : ∀ t ∈ lp, t ∈ lq := by
  obtain ⟨po, pa⟩ := p
  obtain ⟨qo, qa⟩ := q
  unfold platCompare at h
  have ha : pa = qa := by
    by_cases ha : pa = qa
    · exact ha
    · simp [ha] at h
  subst ha
  simp only [bne_self_eq_false, Bool.false_eq_true, if_false] at h
  have hc : po.sameClass qo = true := by
    by_cases hc : po.sameClass qo = true
    · exact hc
    · simp [hc] at h
  simp only [hc, Bool.not_true, Bool.false_eq_true, if_false] at h
  cases po <;> cases qo <;> simp only [Os.sameClass, Bool.false_eq_true] at hc
  · -- manylinux
    rename_i a m1 b m2
    have hab : a = b := hl
    subst hab
    simp only [Os.majorMinor?, Nat.lt_irrefl, decide_false, BEq.rfl, Bool.true_and, Bool.false_or] at h
    have h12 : m1 ≤ m2 := by
      by_cases hle : m1 ≤ m2
      · exact hle
      · simp [hle] at h
    simp only [compatibleTags] at hp hq
    cases hp; cases hq
    intro t ht
    simp only [List.mem_append, List.mem_cons, List.not_mem_nil, or_false] at ht ⊢
    rcases ht with ht | ht
    · left
      cases hf : pa.minManylinuxMinor with
      | none => rw [hf] at ht; simp at ht
      | some f =>
        rw [hf] at ht
        simp only at ht ⊢
        rw [C09.manylinuxLoop_mem a pa (m1 + 1 - f) m1 t (by omega)] at ht
        rw [C09.manylinuxLoop_mem a pa (m2 + 1 - f) m2 t (by omega)]
        obtain ⟨K, h1, h2, h3⟩ := ht
        exact ⟨K, by omega, by omega, h3⟩
    · exact Or.inr ht
  · -- musllinux
    rename_i a m1 b m2
    have hab : a = b := hl
    subst hab
    simp only [Os.majorMinor?, Nat.lt_irrefl, decide_false, BEq.rfl, Bool.true_and, Bool.false_or] at h
    have h12 : m1 ≤ m2 := by
      by_cases hle : m1 ≤ m2
      · exact hle
      · simp [hle] at h
    simp only [compatibleTags] at hp hq
    cases hp; cases hq
    intro t ht
    simp only [List.mem_cons, List.mem_map, List.mem_range] at ht ⊢
    rcases ht with ht | ⟨i, hi, rfl⟩
    · exact Or.inl ht
    · exact Or.inr ⟨i, by omega, rfl⟩
  · -- windows
    rw [hp] at hq; cases hq
    exact fun t ht => ht
  · -- macos
    rename_i a m b n
    simp only [Os.majorMinor?] at h
    have hord : a < b ∨ (a = b ∧ m ≤ n) := by
      by_cases h1 : a < b
      · exact Or.inl h1
      · by_cases h2 : a = b ∧ m ≤ n
        · exact Or.inr h2
        · exfalso
          have : (decide (a < b) || a == b && decide (m ≤ n)) = false := by
            simp only [Bool.or_eq_false_iff, Bool.and_eq_false_iff, decide_eq_false_iff_not, beq_eq_false_iff_ne, ne_eq]
            exact ⟨h1, by by_cases e : a = b <;> simp_all⟩
          rw [this] at h; simp at h
    have hline : pa = .x86_64 → a = 10 → m ≤ 16 := hl
    cases pa <;> simp only [compatibleTags] at hp hq <;> try (cases hp; done)
    · -- aarch64
      cases hp; cases hq
      intro t ht
      simp only [List.mem_append] at ht ⊢
      rcases ht with ht | ht
      · left
        rw [mem_macLoop] at ht ⊢
        obtain ⟨M, h1, h2, hf⟩ := ht
        exact ⟨M, h1, by omega, hf⟩
      · exact Or.inr ht
    · -- x86_64
      by_cases ha10 : a = 10
      · subst ha10
        simp only [BEq.rfl, if_true] at hp
        cases hp
        have hm16 := hline rfl rfl
        by_cases hb10 : b = 10
        · subst hb10
          simp only [BEq.rfl, if_true] at hq
          cases hq
          intro t ht
          rw [mem_macLoop] at ht ⊢
          obtain ⟨M, h1, h2, hf⟩ := ht
          exact ⟨M, h1, by omega, hf⟩
        · have hb11 : 11 ≤ b := by omega
          have e1 : (b == 10) = false := by simpa using hb10
          simp only [e1, Bool.false_eq_true, if_false, ge_iff_le, hb11, if_true] at hq
          cases hq
          intro t ht
          simp only [List.mem_append]
          right
          rw [mem_macLoop] at ht ⊢
          obtain ⟨M, h1, h2, hf⟩ := ht
          exact ⟨M, h1, by omega, hf⟩
      · have e1 : (a == 10) = false := by simpa using ha10
        simp only [e1, Bool.false_eq_true, if_false, ge_iff_le] at hp
        by_cases ha11 : 11 ≤ a
        · simp only [ha11, if_true] at hp
          cases hp
          have hb11 : 11 ≤ b := by omega
          have e2 : (b == 10) = false := by simp; omega
          simp only [e2, Bool.false_eq_true, if_false, ge_iff_le, hb11, if_true] at hq
          cases hq
          intro t ht
          simp only [List.mem_append] at ht ⊢
          rcases ht with ht | ht
          · left
            rw [mem_macLoop] at ht ⊢
            obtain ⟨M, h1, h2, hf⟩ := ht
            exact ⟨M, h1, by omega, hf⟩
          · exact Or.inr ht
        · simp [ha11] at hp
  · -- unordered
    rename_i c1 r1 c2 r2
    simp only [Os.majorMinor?] at h
    by_cases he : Os.unordered c1 r1 = Os.unordered c2 r2
    · rw [he] at hp; rw [hp] at hq; cases hq
      exact fun t ht => ht
    · simp [he] at h

/-- HIGHER one way is LOWER_OR_EQUAL the other way -/
theorem platCompare_higher_flip (p q : Platform) (h : platCompare p q = .higher) :
    platCompare q p = .lowerOrEqual := by
  unfold platCompare at h ⊢
  rw [sameClass_symm q.os p.os]
  have ha : p.arch = q.arch := by
    by_cases ha : p.arch = q.arch
    · exact ha
    · simp [ha] at h
  have ha' : q.arch = p.arch := ha.symm
  simp only [ha, bne_self_eq_false, Bool.false_eq_true, if_false] at h
  simp only [ha', bne_self_eq_false, Bool.false_eq_true, if_false]
  have hc : p.os.sameClass q.os = true := by
    by_cases hc : p.os.sameClass q.os = true
    · exact hc
    · simp [hc] at h
  simp only [hc, Bool.not_true, Bool.false_eq_true, if_false] at h ⊢
  cases hm : p.os.majorMinor? <;> cases hn : q.os.majorMinor? <;> rw [hm, hn] at h
  · simp only at h; split at h <;> cases h
  · simp only at h; split at h <;> cases h
  · simp only at h; split at h <;> cases h
  · rename_i x y
    obtain ⟨a1, a2⟩ := x
    obtain ⟨b1, b2⟩ := y
    simp only at h ⊢
    split at h
    · cases h
    · rename_i g
      have : (decide (b1 < a1) || b1 == a1 && decide (b2 ≤ a2)) = true := by
        simp only [Bool.or_eq_true, Bool.and_eq_true, decide_eq_true_eq, beq_iff_eq] at g ⊢
        omega
      rw [if_pos this]

/-- ... and when it answers HIGHER the second spec's tags are all accepted by the first -/
theorem platCompare_nested_higher (p q : Platform) (lp lq : List PTag)
    (hp : compatibleTags p = some lp) (hq : compatibleTags q = some lq) (hl : SameLine q p)
    (h : platCompare p q = .higher) : ∀ t ∈ lq, t ∈ lp :=
  platCompare_nested q p lq lp hq hp hl (platCompare_higher_flip p q h)

/-- through `compare`: two specs with platforms -/
theorem compare_nested (a b : EnvSpec) (p q : Platform) (lp lq : List PTag)
    (ha : a.platform = some p) (hb : b.platform = some q)
    (hp : compatibleTags p = some lp) (hq : compatibleTags q = some lq)
    (hne : a.beq b = false) (hl : SameLine p q) (hl' : SameLine q p) :
    (compare a b = .lowerOrEqual → ∀ t ∈ lp, t ∈ lq) ∧ (compare a b = .higher → ∀ t ∈ lq, t ∈ lp) := by
  unfold compare
  simp only [hne, Bool.false_eq_true, if_false, ha, hb]
  by_cases h1 : (a.requiresPython.and b.requiresPython).isEmpty = true
  · simp [h1]
  · simp only [h1, Bool.false_eq_true, if_false]
    by_cases h2 : implClash a.impl b.impl = true
    · simp [h2]
    · simp only [h2, Bool.false_eq_true, if_false]
      exact ⟨platCompare_nested p q lp lq hp hq hl, platCompare_nested_higher p q lp lq hp hq hl'⟩

/-- equal specs (`compare` answers LOWER_OR_EQUAL at once) have the same platform, hence the same tags -/
theorem compare_nested_eq (a b : EnvSpec) (h : a.beq b = true) : a.platform = b.platform := by
  simp only [EnvSpec.beq, Bool.and_eq_true, decide_eq_true_eq] at h
  exact h.1.2

/-- the hypothesis is needed: across a glibc major the code answers LOWER_OR_EQUAL although the tag loops only walk
    one major (hypothetical releases, outside C09's families) -/
theorem nested_needs_sameLine :
    platCompare ⟨.manylinux 2 17, .x86_64⟩ ⟨.manylinux 3 0, .x86_64⟩ = .lowerOrEqual ∧
    ∃ lp lq, compatibleTags ⟨.manylinux 2 17, .x86_64⟩ = some lp ∧ compatibleTags ⟨.manylinux 3 0, .x86_64⟩ = some lq ∧
      PTag.manylinux 2 17 .x86_64 ∈ lp ∧ PTag.manylinux 2 17 .x86_64 ∉ lq := by
  refine ⟨by decide, _, _, rfl, rfl, by decide, by decide⟩

/-- non-vacuity: the hypotheses hold for real targets -/
example : SameLine ⟨.macos 10 15, .x86_64⟩ ⟨.macos 11 0, .x86_64⟩ ∧
    platCompare ⟨.macos 10 15, .x86_64⟩ ⟨.macos 11 0, .x86_64⟩ = .lowerOrEqual := by
  refine ⟨?_, by decide⟩
  intro _ _; decide

end C16
end DepLogic
