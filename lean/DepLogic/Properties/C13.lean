import DepLogic.Proofs.MarkerSingles
import DepLogic.Properties.C16
import DepLogic.Proofs.VersionOrder
/-
  C13 — equality is an equivalence compatible with hashing, for specifiers and markers.

  Specifiers: `Spec.beq` (the model of `__eq__` with CPython's `NotImplemented` → reflected
  dispatch) is reflexive, symmetric, transitive on canonical objects, equal objects have the
  same `hashKey` (what Python feeds to `hash`, after the `fix:` for AnySpecifier), and equal
  objects admit the same versions (so they are interchangeable as operands, by C01).
  Markers: on well-formed markers (every atom's specifier is the one derived from its own
  fields – true of everything the library builds after the `fix:` for from_specifier) Python
  equality IS structural equality, hence an equivalence, hash-compatible and a congruence for
  every operation whatsoever.
-/
namespace DepLogic
namespace C13
open Spec LinPre

/-! ### specifiers -/

theorem spec_refl (s : Spec Ver) : s.beq s = true := C16.beq_refl s
theorem spec_symm (a b : Spec Ver) : a.beq b = b.beq a := C16.beq_symm a b

theorem Range.beq_trans (a b c : Range Ver) (h1 : a.beq b = true) (h2 : b.beq c = true) : a.beq c = true := by
  have tr := @LinPre.le_trans Ver _
  rcases a with ⟨mn, mx, i, j, t⟩
  rcases b with ⟨mn', mx', i', j', t'⟩
  rcases c with ⟨mn'', mx'', i'', j'', t''⟩
  cases mn <;> cases mx <;> cases mn' <;> cases mx' <;> cases mn'' <;> cases mx'' <;>
    simp [Range.beq] at h1 h2 ⊢ <;> grind

theorem zip_trans : ∀ (xs ys zs : List (Range Ver)), xs.length = ys.length → ys.length = zs.length →
    ((xs.zip ys).all fun p => p.1.beq p.2) = true → ((ys.zip zs).all fun p => p.1.beq p.2) = true →
    ((xs.zip zs).all fun p => p.1.beq p.2) = true := by
  intro xs
  induction xs with
  | nil => intro ys zs _ _ _ _; simp
  | cons x xs ih =>
    intro ys zs h1 h2 h3 h4
    cases ys with
    | nil => simp at h1
    | cons y ys =>
      cases zs with
      | nil => simp at h2
      | cons z zs =>
        simp only [List.zip_cons_cons, List.all_cons, Bool.and_eq_true] at h3 h4 ⊢
        exact ⟨Range.beq_trans x y z h3.1 h4.1, ih ys zs (by simpa using h1) (by simpa using h2) h3.2 h4.2⟩

theorem zip_forall_iff (xs ys : List (Range Ver)) :
    (∀ a b, (a, b) ∈ xs.zip ys → a.beq b = true) ↔ ((xs.zip ys).all fun p => p.1.beq p.2) = true := by
  rw [List.all_eq_true]
  constructor
  · intro h p hp; exact h p.1 p.2 hp
  · intro h a b hab; exact h (a, b) hab

/-- a canonical range without bounds has no inclusive flag, so all such ranges are `==` -/
theorem any_range_beq (r r' : Range Ver) (h : r.WF) (h' : r'.WF) (ha : r.isAny = true) (ha' : r'.isAny = true) :
    r.beq r' = true := by
  rcases r with ⟨mn, mx, i, j, t⟩
  rcases r' with ⟨mn', mx', i', j', t'⟩
  cases mn <;> cases mx <;> cases mn' <;> cases mx' <;> simp [Range.isAny] at ha ha'
  simp [Range.WF, Range.ctorOk] at h h'
  simp [Range.beq, h, h']

theorem beq_any_range (r r' : Range Ver) (h : r.beq r' = true) : r.isAny = r'.isAny := by
  rcases r with ⟨mn, mx, i, j, t⟩
  rcases r' with ⟨mn', mx', i', j', t'⟩
  cases mn <;> cases mx <;> cases mn' <;> cases mx' <;> simp [Range.beq] at h <;> simp [Range.isAny]

/-- transitivity on canonical objects, including across the two spellings of the universal specifier -/
theorem spec_trans (a b c : Spec Ver) (ha : Canon a) (hc : Canon c)
    (h1 : a.beq b = true) (h2 : b.beq c = true) : a.beq c = true := by
  cases a with
  | empty => cases b <;> cases c <;> simp_all [Spec.beq]
  | any =>
    cases b with
    | empty => simp [Spec.beq, Spec.isAny] at h1
    | any => exact h2
    | range r =>
      simp only [Spec.beq, Spec.isAny] at h1
      cases c with
      | empty => simp [Spec.beq] at h2
      | any => rfl
      | range r' => simp only [Spec.beq, Spec.isAny] at h2 ⊢; rw [← beq_any_range r r' h2]; exact h1
      | union _ _ => simp [Spec.beq] at h2
    | union _ _ => simp [Spec.beq, Spec.isAny] at h1
  | range r =>
    cases b with
    | empty => simp [Spec.beq] at h1
    | any =>
      simp only [Spec.beq] at h1
      cases c with
      | empty => simp [Spec.beq, Spec.isAny] at h2
      | any => exact h1
      | range r' =>
        simp only [Spec.beq, Spec.isAny] at h2 ⊢
        exact any_range_beq r r' ha hc h1 h2
      | union _ _ => simp [Spec.beq, Spec.isAny] at h2
    | range r' =>
      simp only [Spec.beq] at h1
      cases c with
      | empty => simp [Spec.beq] at h2
      | any => simp only [Spec.beq] at h2 ⊢; rw [beq_any_range r r' h1]; exact h2
      | range r'' => simp only [Spec.beq] at h2 ⊢; exact Range.beq_trans r r' r'' h1 h2
      | union _ _ => simp [Spec.beq] at h2
    | union _ _ => simp [Spec.beq] at h1
  | union xs xt =>
    cases b with
    | union ys yt =>
      cases c with
      | union zs zt =>
        simp only [Spec.beq, Bool.and_eq_true, beq_iff_eq] at h1 h2 ⊢
        exact ⟨h1.1.trans h2.1, zip_trans xs ys zs h1.1 h2.1 h1.2 h2.2⟩
      | empty | any | range _ => simp [Spec.beq] at h2
    | empty | any | range _ => simp [Spec.beq] at h1

/-- what Python feeds to `hash`: the dataclass field tuple with `Version.__hash__` = hash of the
    version key; `AnySpecifier` hashes as the unbounded `RangeSpecifier()` (after the `fix:`) -/
def rangeHashKey (r : Range Ver) : Option (List Nat) × Option (List Nat) × Bool × Bool :=
  (r.min.map Ver.key, r.max.map Ver.key, r.incMin, r.incMax)

inductive HashKey where
  | empty
  | range (k : Option (List Nat) × Option (List Nat) × Bool × Bool)
  | union (ks : List (Option (List Nat) × Option (List Nat) × Bool × Bool))
deriving DecidableEq

def hashKey : Spec Ver → HashKey
  | .empty => .empty
  | .any => .range (none, none, false, false)
  | .range r => .range (rangeHashKey r)
  | .union rs _ => .union (rs.map rangeHashKey)

theorem key_eq_of_eqv (a b : Ver) (h : eqv a b) : a.key = b.key :=
  List.le_antisymm h.1 h.2

theorem Range.beq_hash (a b : Range Ver) (h : a.beq b = true) : rangeHashKey a = rangeHashKey b := by
  rcases a with ⟨mn, mx, i, j, t⟩
  rcases b with ⟨mn', mx', i', j', t'⟩
  cases mn <;> cases mx <;> cases mn' <;> cases mx' <;> simp [Range.beq] at h <;>
    simp [rangeHashKey, h] <;>
    first
      | exact key_eq_of_eqv _ _ ⟨h.1.1.1, h.1.1.2⟩
      | exact ⟨key_eq_of_eqv _ _ ⟨h.1.1.1.1, h.1.1.1.2⟩, key_eq_of_eqv _ _ ⟨h.1.1.2.1, h.1.1.2.2⟩⟩
      | skip

/-- `x == y` implies `hash(x) == hash(y)` on canonical specifier objects -/
theorem spec_hash (a b : Spec Ver) (ha : Canon a) (hb : Canon b) (h : a.beq b = true) : hashKey a = hashKey b := by
  cases a with
  | empty => cases b <;> simp [Spec.beq] at h; rfl
  | any =>
    cases b with
    | any => rfl
    | range r =>
      simp only [Spec.beq, Spec.isAny] at h
      rcases r with ⟨mn, mx, i, j, t⟩
      cases mn <;> cases mx <;> simp [Range.isAny] at h
      simp [Canon, Range.WF, Range.ctorOk] at hb
      simp [hashKey, rangeHashKey, hb]
    | empty | union _ _ => simp [Spec.beq, Spec.isAny] at h
  | range r =>
    cases b with
    | any =>
      simp only [Spec.beq] at h
      rcases r with ⟨mn, mx, i, j, t⟩
      cases mn <;> cases mx <;> simp [Range.isAny] at h
      simp [Canon, Range.WF, Range.ctorOk] at ha
      simp [hashKey, rangeHashKey, ha]
    | range r' => simp only [Spec.beq] at h; simp [hashKey, Range.beq_hash r r' h]
    | empty | union _ _ => simp [Spec.beq] at h
  | union xs xt =>
    cases b with
    | union ys yt =>
      simp only [Spec.beq, Bool.and_eq_true, beq_iff_eq] at h
      simp only [hashKey, HashKey.union.injEq]
      obtain ⟨hl, hz⟩ := h
      clear ha hb
      induction xs generalizing ys with
      | nil => cases ys <;> simp_all
      | cons x xs ih =>
        cases ys with
        | nil => simp at hl
        | cons y ys =>
          simp only [List.zip_cons_cons, List.all_cons, Bool.and_eq_true] at hz
          simp only [List.map_cons, List.cons.injEq]
          exact ⟨Range.beq_hash x y hz.1, ih ys (by simpa using hl) hz.2⟩
    | empty | any | range _ => simp [Spec.beq] at h

/-- equal specifier objects are interchangeable: they admit the same versions (hence, by C01,
    `a op x` and `a op y` mean the same) -/
theorem spec_interchangeable (x y : Spec Ver) (h : x.beq y = true) (v : Ver) : x.mem v ↔ y.mem v :=
  M.Spec.beq_mem x y h v

/-! ### markers -/

mutual
/-- every atom carries the specifier derived from its own fields -/
def AllWF : M → Prop
  | .expr a => a.WF
  | .multi ms => AllWFL ms
  | .union ms => AllWFL ms
  | _ => True
def AllWFL : List M → Prop
  | [] => True
  | m :: ms => AllWF m ∧ AllWFL ms
end

theorem Atom.eq_of_beq (a b : Atom) (ha : a.WF) (hb : b.WF) (h : a.beq b = true) : a = b := by
  rcases a with ⟨n1, o1, v1, r1, s1⟩
  rcases b with ⟨n2, o2, v2, r2, s2⟩
  simp [Atom.beq] at h
  obtain ⟨⟨⟨rfl, rfl⟩, rfl⟩, rfl⟩ := h
  simp only [Atom.WF] at ha hb
  rw [ha] at hb
  cases hb
  rfl

mutual
/-- on well-formed markers Python `==` is structural equality -/
theorem eq_of_beq : ∀ (x y : M), AllWF x → AllWF y → M.beq x y = true → x = y
  | .any, .any, _, _, _ => rfl
  | .empty, .empty, _, _, _ => rfl
  | .expr a, .expr b, ha, hb, h => by
    simp only [M.beq] at h
    rw [Atom.eq_of_beq a b ha hb h]
  | .eqU n a, .eqU m b, _, _, h => by simp [M.beq, M.setEq] at h; obtain ⟨rfl, rfl⟩ := h; rfl
  | .neM n a, .neM m b, _, _, h => by simp [M.beq, M.setEq] at h; obtain ⟨rfl, rfl⟩ := h; rfl
  | .multi a, .multi b, ha, hb, h => by simp only [M.beq] at h; rw [eqList_of_beq a b ha hb h]
  | .union a, .union b, ha, hb, h => by simp only [M.beq] at h; rw [eqList_of_beq a b ha hb h]
  | .any, .empty, _, _, h | .any, .expr _, _, _, h | .any, .eqU _ _, _, _, h | .any, .neM _ _, _, _, h
  | .any, .multi _, _, _, h | .any, .union _, _, _, h
  | .empty, .any, _, _, h | .empty, .expr _, _, _, h | .empty, .eqU _ _, _, _, h | .empty, .neM _ _, _, _, h
  | .empty, .multi _, _, _, h | .empty, .union _, _, _, h
  | .expr _, .any, _, _, h | .expr _, .empty, _, _, h | .expr _, .eqU _ _, _, _, h | .expr _, .neM _ _, _, _, h
  | .expr _, .multi _, _, _, h | .expr _, .union _, _, _, h
  | .eqU _ _, .any, _, _, h | .eqU _ _, .empty, _, _, h | .eqU _ _, .expr _, _, _, h | .eqU _ _, .neM _ _, _, _, h
  | .eqU _ _, .multi _, _, _, h | .eqU _ _, .union _, _, _, h
  | .neM _ _, .any, _, _, h | .neM _ _, .empty, _, _, h | .neM _ _, .expr _, _, _, h | .neM _ _, .eqU _ _, _, _, h
  | .neM _ _, .multi _, _, _, h | .neM _ _, .union _, _, _, h
  | .multi _, .any, _, _, h | .multi _, .empty, _, _, h | .multi _, .expr _, _, _, h | .multi _, .eqU _ _, _, _, h
  | .multi _, .neM _ _, _, _, h | .multi _, .union _, _, _, h
  | .union _, .any, _, _, h | .union _, .empty, _, _, h | .union _, .expr _, _, _, h | .union _, .eqU _ _, _, _, h
  | .union _, .neM _ _, _, _, h | .union _, .multi _, _, _, h => by simp [M.beq] at h
theorem eqList_of_beq : ∀ (xs ys : List M), AllWFL xs → AllWFL ys → M.beqList xs ys = true → xs = ys
  | [], [], _, _, _ => rfl
  | x :: xs, y :: ys, hx, hy, h => by
    simp only [M.beqList, Bool.and_eq_true] at h
    rw [eq_of_beq x y hx.1 hy.1 h.1, eqList_of_beq xs ys hx.2 hy.2 h.2]
  | [], _ :: _, _, _, h | _ :: _, [], _, _, h => by simp [M.beqList] at h
end

theorem Atom.beq_refl (a : Atom) : a.beq a = true := by simp [Atom.beq]

mutual
theorem beq_refl : ∀ (x : M), M.beq x x = true
  | .any | .empty => rfl
  | .expr a => by simp [M.beq, Atom.beq_refl]
  | .eqU _ _ | .neM _ _ => by simp [M.beq, M.setEq]
  | .multi a => by simp only [M.beq]; exact beqList_refl a
  | .union a => by simp only [M.beq]; exact beqList_refl a
theorem beqList_refl : ∀ (xs : List M), M.beqList xs xs = true
  | [] => rfl
  | x :: xs => by simp [M.beqList, beq_refl x, beqList_refl xs]
end

/-- marker equality is reflexive, symmetric, and – on well-formed markers – transitive -/
theorem marker_equivalence :
    (∀ x : M, M.beq x x = true) ∧ (∀ x y : M, M.beq x y = M.beq y x) ∧
    (∀ x y z : M, AllWF x → AllWF y → AllWF z → M.beq x y = true → M.beq y z = true → M.beq x z = true) := by
  refine ⟨beq_refl, M.beq_symm, ?_⟩
  intro x y z hx hy hz h1 h2
  rw [eq_of_beq x y hx hy h1, eq_of_beq y z hy hz h2]
  exact beq_refl z

/-- equal markers are interchangeable in every context: same text, same evaluation, same result of
    any operation `f` – in particular they hash alike (hash is a function of the object) -/
theorem marker_congruence {β : Type} (f : M → β) (x y : M) (hx : AllWF x) (hy : AllWF y)
    (h : M.beq x y = true) : f x = f y := by rw [eq_of_beq x y hx hy h]

/-- even without well-formedness, equal markers evaluate alike -/
theorem marker_eval_congr (env : M.Env) (x y : M) (h : M.beq x y = true) : M.sem env x = M.sem env y :=
  M.beq_sem env x y h

end C13
end DepLogic
