import DepLogic.Properties.C15

/-!
# C15, `only()` on flat operands

`m.only(names)` maps every single marker of a compound to itself or to `AnyMarker()` and re-normalises
through `MultiMarker.of` / `MarkerUnion.of`. The lists handed to `of` therefore hold single markers AND
universal markers, which `multiOf_flat` / `unionOfList_flat` (single markers only) do not cover. Here the
loop invariant is widened:

* conjunction: a universal child is neutral, `passStep` skips it, the state stays a duplicate-free list of
  single markers (`passStep_son`, `multiOf_son`);
* disjunction: a universal child is absorbing; the state holds single or universal markers
  (`passStep_sox`) and the final `any(m.is_any())` test answers `AnyMarker()` (`unionOfList_sox`).

Hence `only_flat_multi`, `only_flat_union`: `only()` on a flat conjunction / disjunction is in normal form,
for every fuel ≥ 3 (whether or not the fixpoint loops converged), and `only_flat`: the same through the
public entry for every flat operand.
-/

namespace DepLogic
namespace C15
open M

/-- single, or universal -/
def SoA (x : M) : Prop := x.isSingle = true ∨ x = .any
def AllSoA (l : List M) : Prop := ∀ x ∈ l, SoA x

theorem allSoA_of_allSingle (l : List M) (h : AllSingle l) : AllSoA l := fun x hx => Or.inl (h x hx)

theorem allSoA_tail (x : M) (xs : List M) (h : AllSoA (x :: xs)) : AllSoA xs :=
  fun y hy => h y (List.mem_cons_of_mem _ hy)

theorem flatten_soa (b : Bool) (fuel : Nat) (items acc : List M) (hi : AllSoA items) :
    flattenInto b fuel items acc = items.foldl addNew acc := by
  cases fuel with
  | zero => rfl
  | succ n =>
    simp only [flattenInto]
    induction items generalizing acc with
    | nil => rfl
    | cons x xs ih =>
      have hxs : AllSoA xs := allSoA_tail x xs hi
      rcases hi x (List.mem_cons_self ..) with hx | hx
      · cases b <;> cases x <;> simp [isSingle] at hx <;> simp only [List.foldl_cons] <;> exact ih _ hxs
      · subst hx
        cases b <;> simp only [List.foldl_cons] <;> exact ih _ hxs

theorem addNew_soa (acc : List M) (x : M) (h : AllSoA acc) (hx : SoA x) : AllSoA (addNew acc x) := by
  unfold addNew; split
  · exact h
  · intro y hy
    rcases List.mem_append.1 hy with h1 | h1
    · exact h y h1
    · simp at h1; rw [h1]; exact hx

theorem foldl_addNew_soa (xs acc : List M) (hx : AllSoA xs) (ha : AllSoA acc) : AllSoA (xs.foldl addNew acc) := by
  induction xs generalizing acc with
  | nil => exact ha
  | cons x xs ih =>
    exact ih _ (allSoA_tail x xs hx) (addNew_soa acc x ha (hx x (List.mem_cons_self ..)))

theorem flatten_allSoA (b : Bool) (fuel : Nat) (items : List M) (hi : AllSoA items) :
    AllSoA (flattenInto b fuel items []) := by
  rw [flatten_soa b fuel items [] hi]
  exact foldl_addNew_soa items [] hi (fun x hx => by cases hx)

/-! ### conjunction: universal children are skipped -/

theorem passStep_son (combine : M → M → M) (simplify : M → M → Option M) (fuel : Nat)
    (new : List M) (marker : M) (hn : AllSingle new) (hd : NoDup new) (hm : SoA marker) :
    ∀ out, passStep true (decideWith true combine simplify) (fun l => flattenInto true fuel l []) (some new) marker = some out →
      AllSingle out ∧ NoDup out := by
  rcases hm with hm | hm
  · exact passStep_inv true combine simplify fuel new marker hn hd hm
  · subst hm
    intro out h
    simp only [passStep] at h
    by_cases hmem : memB .any new = true
    · rw [if_pos hmem] at h; cases h; exact ⟨hn, hd⟩
    · rw [if_neg hmem] at h
      simp [isAny] at h
      subst h; exact ⟨hn, hd⟩

theorem foldl_passStep_none (isAnd : Bool) (d : M → M → Step) (fl : List M → List M) :
    ∀ l : List M, l.foldl (passStep isAnd d fl) none = none := by
  intro l; induction l with
  | nil => rfl
  | cons _ _ ih => simpa [passStep] using ih

theorem pass_son (combine : M → M → M) (simplify : M → M → Option M) (fuel : Nat) :
    ∀ (old st out : List M), AllSoA old → AllSingle st → NoDup st →
      old.foldl (passStep true (decideWith true combine simplify) (fun l => flattenInto true fuel l [])) (some st) = some out →
      AllSingle out ∧ NoDup out
  | [], st, out, _, hs, hd, h => by simp at h; subst h; exact ⟨hs, hd⟩
  | m :: rest, st, out, ho, hs, hd, h => by
    simp only [List.foldl_cons] at h
    cases hst : passStep true (decideWith true combine simplify) (fun l => flattenInto true fuel l []) (some st) m with
    | none =>
      rw [hst, foldl_passStep_none] at h; cases h
    | some st' =>
      rw [hst] at h
      obtain ⟨h1, h2⟩ := passStep_son combine simplify fuel st m hs hd (ho m (List.mem_cons_self ..)) st' hst
      exact pass_son combine simplify fuel rest st' out (allSoA_tail m rest ho) h1 h2 h

theorem beqList_nil_left (l : List M) (h : beqList [] l = true) : l = [] := by
  cases l with
  | nil => rfl
  | cons x xs => simp [beqList] at h

/-- `MultiMarker.of` over single or universal markers: first pass drops the universal ones, afterwards the
    single-marker invariant of `multiLoop_inv` applies -/
theorem multiLoop_son (fuel : Nat) (new out : List M) (hs : AllSoA new) (hd : NoDup new)
    (h : multiLoop (fuel + 2) [] new = some out) : AllSingle out ∧ NoDup out := by
  simp only [multiLoop] at h
  split at h
  · rename_i hb
    cases h
    have := beqList_nil_left new hb
    subst this
    exact ⟨allSingle_nil, trivial⟩
  · cases hp : multiPass (fuel + 1) new with
    | none => simp [hp] at h
    | some new' =>
      simp only [hp] at h
      simp only [multiPass] at hp
      obtain ⟨h1, h2⟩ := pass_son (M.and fuel) (intersectSimplify fuel) fuel new [] new' hs allSingle_nil trivial hp
      exact multiLoop_inv (fuel + 1) new new' out h1 h2 h

theorem multiOf_son (fuel : Nat) (ms : List M) (hs : AllSoA ms) : FlatNF true (multiOf (fuel + 3) ms) := by
  have h0s := flatten_allSoA true (fuel + 2) ms hs
  have h0d := flatten_nodup true (fuel + 2) ms [] trivial
  simp only [multiOf]
  cases hl : multiLoop (fuel + 2) [] (flattenInto true (fuel + 2) ms []) with
  | none => left; rfl
  | some new =>
    obtain ⟨h1, h2⟩ := multiLoop_son fuel _ new h0s h0d hl
    simp only
    split
    · left; rfl
    · match new, h1, h2 with
      | [], _, _ => right; left; rfl
      | [m], h1, _ => right; right; left; exact h1 m (List.mem_cons_self ..)
      | a :: b :: rest, h1, h2 =>
        right; right; right
        refine ⟨a :: b :: rest, ?_, by simp, h2, h1⟩
        simp only [mkMulti, if_true]
        rw [mk_flat true (fuel + 2) _ h1 h2]

/-! ### `only` on single markers and flat conjunctions -/

theorem only_single_soa (f : Nat) (c : M) (names : List String) (hc : c.isSingle = true) :
    SoA (only f c names) := by
  cases f with
  | zero => exact Or.inl hc
  | succ n =>
    cases c <;> simp [isSingle] at hc <;> simp only [only] <;> split <;>
      first
        | (split <;> first | exact Or.inl rfl | exact Or.inr rfl)
        | exact Or.inl rfl

theorem only_multi_eq (f : Nat) (l : List M) (names : List String) :
    only (f + 1) (.multi l) names = multiOf f (l.map fun c => only f c names) := rfl

theorem only_union_eq (f : Nat) (l : List M) (names : List String) :
    only (f + 1) (.union l) names = unionOfList f (l.map fun c => only f c names) := rfl

theorem map_only_soa (f : Nat) (l : List M) (names : List String) (hl : AllSingle l) :
    AllSoA (l.map fun c => only f c names) := by
  intro x hx
  simp only [List.mem_map] at hx
  obtain ⟨c, hc, rfl⟩ := hx
  exact only_single_soa f c names (hl c hc)

/-- **`only()` on a flat conjunction is in normal form** (every fuel ≥ 4) -/
theorem only_flat_multi (f : Nat) (l : List M) (names : List String) (hl : AllSingle l) :
    FlatNF true (only (f + 4) (.multi l) names) := by
  rw [only_multi_eq]
  exact multiOf_son f _ (map_only_soa (f + 3) l names hl)

/-! ### disjunction: a universal child is absorbing; the state holds single or universal markers -/

theorem setAt_soa : ∀ (l : List M) (i : Nat) (m : M), AllSoA l → SoA m → AllSoA (setAt l i m)
  | [], _, _, _, _ => by simp [setAt]; intro x hx; cases hx
  | x :: xs, 0, m, hl, hm => by
    intro y hy
    simp only [setAt, List.mem_cons] at hy
    rcases hy with rfl | hy
    · exact hm
    · exact hl y (List.mem_cons_of_mem _ hy)
  | x :: xs, i + 1, m, hl, hm => by
    intro y hy
    simp only [setAt, List.mem_cons] at hy
    rcases hy with rfl | hy
    · exact hl _ (List.mem_cons_self ..)
    · exact setAt_soa xs i m (allSoA_tail x xs hl) hm y hy

theorem scan_soa (f : M → Step) (hf : ∀ mark m, SoA mark → f mark = .replace m → SoA m) :
    ∀ (whole : List M) (i : Nat) (rest new' : List M), AllSoA whole → AllSoA rest →
      scan f whole i rest = some (some new') → AllSoA new'
  | _, _, [], _, _, _, h => by simp [scan] at h
  | whole, i, mark :: rest, new', hw, hr, h => by
    simp only [scan] at h
    cases hfm : f mark with
    | next =>
      rw [hfm] at h
      exact scan_soa f hf whole (i + 1) rest new' hw (allSoA_tail mark rest hr) h
    | replace m =>
      rw [hfm] at h
      simp only [Option.some.injEq] at h
      subst h
      exact setAt_soa whole i m hw (hf mark m (hr mark (List.mem_cons_self ..)) hfm)
    | abort => rw [hfm] at h; cases h

theorem decideWith_soa (isAnd : Bool) (combine : M → M → M) (simplify : M → M → Option M) (marker mark m : M)
    (hm : SoA mark) (h : decideWith isAnd combine simplify mark marker = .replace m) : SoA m := by
  rcases hm with hm | hm
  · exact Or.inl (decideWith_single isAnd combine simplify marker mark m hm h)
  · subst hm
    cases isAnd <;> simp [decideWith, isSingle, isUnion, isMulti] at h

theorem passStep_sox (combine : M → M → M) (simplify : M → M → Option M) (fuel : Nat)
    (new : List M) (marker : M) (hn : AllSoA new) (hd : NoDup new) (hm : SoA marker) :
    ∀ out, passStep false (decideWith false combine simplify) (fun l => flattenInto false fuel l []) (some new) marker = some out →
      AllSoA out ∧ NoDup out := by
  intro out h
  simp only [passStep] at h
  by_cases hmem : memB marker new = true
  · rw [if_pos hmem] at h; cases h; exact ⟨hn, hd⟩
  · rw [if_neg hmem] at h
    by_cases hskip : (if false = true then marker.isAny else marker.isEmpty) = true
    · rw [if_pos hskip] at h; cases h; exact ⟨hn, hd⟩
    · rw [if_neg hskip] at h
      cases hs : scan (fun mark => decideWith false combine simplify mark marker) new 0 new with
      | none => rw [hs] at h; cases h
      | some r =>
        rw [hs] at h
        cases r with
        | some new' =>
          simp only [Option.some.injEq] at h
          subst h
          have h1 := scan_soa (fun mark => decideWith false combine simplify mark marker)
            (fun mark m hmk hr => decideWith_soa false combine simplify marker mark m hmk hr) new 0 new new' hn hn hs
          exact ⟨flatten_allSoA false fuel new' h1, flatten_nodup false fuel new' [] trivial⟩
        | none =>
          simp only [Option.some.injEq] at h
          subst h
          refine ⟨?_, nodup_append_one new marker hd (by simpa using hmem)⟩
          intro y hy
          rcases List.mem_append.1 hy with h1 | h1
          · exact hn y h1
          · simp at h1; rw [h1]; exact hm

theorem pass_sox (combine : M → M → M) (simplify : M → M → Option M) (fuel : Nat) :
    ∀ (old st out : List M), AllSoA old → AllSoA st → NoDup st →
      old.foldl (passStep false (decideWith false combine simplify) (fun l => flattenInto false fuel l [])) (some st) = some out →
      AllSoA out ∧ NoDup out
  | [], st, out, _, hs, hd, h => by simp at h; subst h; exact ⟨hs, hd⟩
  | m :: rest, st, out, ho, hs, hd, h => by
    simp only [List.foldl_cons] at h
    cases hst : passStep false (decideWith false combine simplify) (fun l => flattenInto false fuel l []) (some st) m with
    | none =>
      rw [hst, foldl_passStep_none] at h; cases h
    | some st' =>
      rw [hst] at h
      obtain ⟨h1, h2⟩ := passStep_sox combine simplify fuel st m hs hd (ho m (List.mem_cons_self ..)) st' hst
      exact pass_sox combine simplify fuel rest st' out (allSoA_tail m rest ho) h1 h2 h

theorem unionPass_sox (fuel : Nat) (old out : List M) (ho : AllSoA old) (hd : NoDup old)
    (h : unionPass fuel old = some out) : AllSoA out ∧ NoDup out := by
  cases fuel with
  | zero => simp [unionPass] at h; subst h; exact ⟨ho, hd⟩
  | succ n =>
    simp only [unionPass] at h
    exact pass_sox (M.or n) (unionSimplify n) n old [] out ho (fun x hx => by cases hx) trivial h

theorem unionLoop_sox : ∀ (fuel : Nat) (old new out : List M), AllSoA new → NoDup new →
    unionLoop fuel old new = some out → AllSoA out ∧ NoDup out
  | 0, _, new, out, hs, hd, h => by simp [unionLoop] at h; subst h; exact ⟨hs, hd⟩
  | fuel + 1, old, new, out, hs, hd, h => by
    simp only [unionLoop] at h
    split at h
    · cases h; exact ⟨hs, hd⟩
    · cases hp : unionPass fuel new with
      | none => simp [hp] at h
      | some new' =>
        simp only [hp] at h
        obtain ⟨h1, h2⟩ := unionPass_sox fuel new new' hs hd hp
        exact unionLoop_sox fuel new new' out h1 h2 h

/-- `MarkerUnion.of` over single or universal markers, every fuel: `AnyMarker()` as soon as a universal one
    survives, otherwise the flat normal form -/
theorem unionOfList_sox (fuel : Nat) (ms : List M) (hs : AllSoA ms) : FlatNF false (unionOfList (fuel + 1) ms) := by
  have h0s := flatten_allSoA false fuel ms hs
  have h0d := flatten_nodup false fuel ms [] trivial
  simp only [unionOfList]
  cases hl : unionLoop fuel [] (flattenInto false fuel ms []) with
  | none => right; left; rfl
  | some new =>
    obtain ⟨h1, h2⟩ := unionLoop_sox fuel [] _ new h0s h0d hl
    simp only
    by_cases ha : new.any isAny = true
    · rw [if_pos ha]; right; left; rfl
    · rw [if_neg ha]
      have h1' : AllSingle new := by
        intro x hx
        rcases h1 x hx with h | h
        · exact h
        · subst h
          exfalso; apply ha
          exact List.any_eq_true.2 ⟨_, hx, rfl⟩
      match new, h1', h2 with
      | [], _, _ => left; rfl
      | [m], h1', _ => right; right; left; exact h1' m (List.mem_cons_self ..)
      | a :: b :: rest, h1', h2 =>
        right; right; right
        refine ⟨a :: b :: rest, ?_, by simp, h2, h1'⟩
        simp only [mkUnion]
        rw [mk_flat false fuel _ h1' h2]
        rfl

/-- **`only()` on a flat disjunction is in normal form** (every fuel ≥ 2) -/
theorem only_flat_union (f : Nat) (l : List M) (names : List String) (hl : AllSingle l) :
    FlatNF false (only (f + 2) (.union l) names) := by
  rw [only_union_eq]
  exact unionOfList_sox f _ (map_only_soa (f + 1) l names hl)

/-- through the public entry: `only()` on any flat operand (a single marker, a conjunction or a disjunction
    of single markers) returns a marker in normal form -/
theorem only_flat (f : Nat) (m : M) (names : List String) (hm : FlatConj m ∨ FlatDisj m) :
    FlatNF true (only (f + 4) m names) ∨ FlatNF false (only (f + 4) m names) := by
  rcases hm with (hs | ⟨l, rfl, hl⟩) | (hs | ⟨l, rfl, hl⟩)
  · rcases only_single_soa (f + 4) m names hs with h | h
    · exact Or.inl (Or.inr (Or.inr (Or.inl h)))
    · exact Or.inl (Or.inr (Or.inl h))
  · exact Or.inl (only_flat_multi f l names hl)
  · rcases only_single_soa (f + 4) m names hs with h | h
    · exact Or.inl (Or.inr (Or.inr (Or.inl h)))
    · exact Or.inl (Or.inr (Or.inl h))
  · exact Or.inr (only_flat_union (f + 2) l names hl)

/-! non-vacuity -/

example : AllSingle [atomA, atomB, atomC] := by intro x hx; simp at hx; rcases hx with rfl | rfl | rfl <;> rfl
example : beq (only 8 (.multi [atomA, atomB, atomC]) ["os_name", "platform_machine"]) (.multi [atomA, atomC]) = true := by decide
example : beq (only 8 (.union [atomA, atomB, atomC]) ["os_name", "platform_machine"]) .any = true := by decide
example : beq (only 8 (.union [atomA, atomC]) ["os_name", "platform_machine"]) (.union [atomA, atomC]) = true := by decide
example : beq (only 8 (.multi [atomA, atomB]) ["sys_platform"]) atomB = true := by decide

end C15
end DepLogic
