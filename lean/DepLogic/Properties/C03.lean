import DepLogic.Properties.C02
/-
  C03 — marker evaluation agrees with the PEP 508 reference.

  What is proved here: `build_sound` — the tree that `parse_marker` builds (operand reflection
  for literal-on-the-left atoms, `and` folded through `&`, `or` groups through `MarkerUnion.of`,
  i.e. through ALL the parse-time rewriting and merging) is satisfied exactly when the reference
  evaluation of the parsed marker list (`packaging.markers._evaluate_markers`: `any(all(group))`
  over the `or`-separated groups, nested lists recursively) is — for every parsed list, every
  fuel and every environment, given atoms of the well-defined classes.

  What is NOT proved (decided differentially on every run, stream `C03.eval`): that one atom
  evaluates as packaging evaluates it (`Atom.eval` here vs `packaging.markers._eval_op`), and
  the text -> list parser itself (packaging's, shared by both sides).
-/
namespace DepLogic
namespace C03
open M

/-- the atom `_build_markers` makes from one `(lhs, op, rhs)` tuple -/
def atomOf (lhsIsVar : Bool) (lhs op rhs : String) : Option Atom :=
  (MOp.ofString? op).bind fun o =>
    if lhsIsVar then mkAtom lhs o rhs false else mkAtom rhs o.reflect lhs true

/-- one step of `_evaluate_markers`' loop over the list: `groups` (head = `groups[-1]`) -/
def refStep (f : PItem → Bool) (gs : List Bool) (it : PItem) : List Bool :=
  match it, gs with
  | .or_, gs => true :: gs
  | .and_, gs => gs
  | it, g :: gs => (g && f it) :: gs
  | _, [] => []

/-- reference: `_evaluate_markers` with the atoms evaluated as the model's atoms evaluate
    (an atom that raises counts as false, as in `sem`) -/
def refSem (env : Env) : Nat → PItem → Bool
  | 0, _ => false
  | fuel + 1, item =>
    match item with
    | .atom v l o r => match atomOf v l o r with | some a => sem env (.expr a) | none => false
    | .group items => (items.foldl (refStep (refSem env fuel)) [true]).any id
    | _ => false

/-- every atom in the parsed list is of the well-defined classes -/
def PGood (env : Env) : Nat → PItem → Prop
  | 0, _ => True
  | fuel + 1, .atom v l o r => ∀ a, atomOf v l o r = some a → GoodAtom env a
  | fuel + 1, .group items => ∀ it ∈ items, PGood env fuel it
  | _ + 1, _ => True

def Rel (env : Env) : List M → List Bool → Prop
  | [], [] => True
  | m :: ms, b :: bs => (GAll (Good env) m ∧ sem env m = b) ∧ Rel env ms bs
  | _, _ => False

theorem rel_any (env : Env) : ∀ (gs : List M) (bs : List Bool), Rel env gs bs →
    GAllL (Good env) gs ∧ gs.any (sem env) = bs.any id
  | [], [], _ => by simp [GAllL]
  | m :: ms, b :: bs, h => by
    obtain ⟨h1, h2⟩ := rel_any env ms bs h.2
    exact ⟨⟨h.1.1, h1⟩, by simp [List.any_cons, h.1.2, h2]⟩
  | [], _ :: _, h => by simp [Rel] at h
  | _ :: _, [], h => by simp [Rel] at h

theorem foldl_none {β : Type} (f : Option (List M) → β → Option (List M)) (hf : ∀ b, f none b = none) :
    ∀ l : List β, l.foldl f none = none
  | [] => rfl
  | b :: l => by simp [List.foldl_cons, hf, foldl_none f hf l]

section
variable (env : Env) (he : EnvTotal env) (hF : FromSpecOk env) (hP : PyMergeOk env)
include he hF hP

theorem build_sound : ∀ (fuel : Nat) (p : PItem) (m : M), PGood env fuel p → build fuel p = some m →
    GAll (Good env) m ∧ sem env m = refSem env fuel p := by
  intro fuel
  induction fuel with
  | zero => intro p m _ h; simp [build] at h
  | succ fuel ih =>
    intro p m hg hb
    have S := sound_all (singleSound env he hF hP) fuel
    cases p with
    | and_ => simp [build] at hb
    | or_ => simp [build] at hb
    | atom v l o r =>
      have hb' : (atomOf v l o r).map M.expr = some m := by
        simp only [build] at hb
        simp only [atomOf]
        cases ho : MOp.ofString? o with
        | none => simp [ho] at hb
        | some op =>
          simp only [ho, Option.bind_some] at hb ⊢
          split <;> simp_all
      simp only [Option.map_eq_some_iff] at hb'
      obtain ⟨a, ha, rfl⟩ := hb'
      refine ⟨by simpa [GAll, Good] using hg a ha, ?_⟩
      simp [refSem, ha]
    | group items =>
      simp only [build, Option.map_eq_some_iff] at hb
      obtain ⟨groups, hfold, rfl⟩ := hb
      simp only [PGood] at hg
      -- the fold invariant
      have inv : ∀ (items : List PItem) (gs : List M) (bs : List Bool), Rel env gs bs →
          (∀ it ∈ items, PGood env fuel it) → ∀ gs', items.foldl (fun (st : Option (List M)) it =>
            match st with
            | none => none
            | some groups =>
              match it, groups with
              | .or_, gs => some (.any :: gs)
              | .and_, gs => some gs
              | it, g :: gs => (build fuel it).map fun m => M.and fuel g m :: gs
              | _, [] => none) (some gs) = some gs' →
          Rel env gs' (items.foldl (refStep (refSem env fuel)) bs) := by
        intro items
        induction items with
        | nil => intro gs bs hr _ gs' h; simp at h; subst h; simpa using hr
        | cons it rest ihr =>
          intro gs bs hr hgood gs' h
          have hrest : ∀ it ∈ rest, PGood env fuel it := fun x hx => hgood x (by simp [hx])
          have hit : PGood env fuel it := hgood it (by simp)
          simp only [List.foldl_cons, refStep] at h ⊢
          cases it with
          | or_ =>
            exact ihr (.any :: gs) (true :: bs) ⟨⟨by simp [GAll], by simp [sem]⟩, hr⟩ hrest gs' h
          | and_ => exact ihr gs bs hr hrest gs' h
          | atom v l o r =>
            cases gs with
            | nil =>
              rw [foldl_none _ (by intro b; rfl)] at h; cases h
            | cons g gs =>
              cases bs with
              | nil => simp [Rel] at hr
              | cons b bs =>
                simp only at h ⊢
                cases hbm : build fuel (.atom v l o r) with
                | none => rw [hbm] at h; simp only [Option.map_none] at h; rw [foldl_none _ (by intro b; rfl)] at h; cases h
                | some x =>
                  rw [hbm] at h
                  simp only [Option.map_some] at h
                  obtain ⟨hx1, hx2⟩ := ih _ x hit hbm
                  have A := S.and_ g x hr.1.1 hx1
                  exact ihr (M.and fuel g x :: gs) ((b && refSem env fuel _) :: bs) ⟨⟨A.1, by rw [A.2, hr.1.2, hx2]⟩, hr.2⟩ hrest gs' h
          | group sub =>
            cases gs with
            | nil =>
              rw [foldl_none _ (by intro b; rfl)] at h; cases h
            | cons g gs =>
              cases bs with
              | nil => simp [Rel] at hr
              | cons b bs =>
                simp only at h ⊢
                cases hbm : build fuel (.group sub) with
                | none => rw [hbm] at h; simp only [Option.map_none] at h; rw [foldl_none _ (by intro b; rfl)] at h; cases h
                | some x =>
                  rw [hbm] at h
                  simp only [Option.map_some] at h
                  obtain ⟨hx1, hx2⟩ := ih _ x hit hbm
                  have A := S.and_ g x hr.1.1 hx1
                  exact ihr (M.and fuel g x :: gs) ((b && refSem env fuel _) :: bs) ⟨⟨A.1, by rw [A.2, hr.1.2, hx2]⟩, hr.2⟩ hrest gs' h
      have hrel := inv items [.any] [true] ⟨⟨by simp [GAll], by simp [sem]⟩, trivial⟩ hg groups hfold
      obtain ⟨r1, r2⟩ := rel_any env _ _ hrel
      have hGrev : GAllL (Good env) groups.reverse := by
        rw [GAllL_iff] at r1 ⊢
        intro x hx; exact r1 x (by simpa using hx)
      have U := S.unionOfList_ _ hGrev
      refine ⟨U.1, ?_⟩
      rw [U.2, List.any_reverse, r2]
      simp [refSem]

end

/-- `build_sound` with the bridge facts proved (C02.bridge): no assumption beyond `EnvTotal` and good atoms -/
theorem build_sound_final (env : Env) (he : EnvTotal env) (fuel : Nat) (p : PItem) (m : M)
    (hg : PGood env fuel p) (hb : build fuel p = some m) :
    GAll (Good env) m ∧ sem env m = refSem env fuel p :=
  build_sound env he (C02.bridge env he).1 (C02.bridge env he).2 fuel p m hg hb

/-- non-vacuity: `os_name == "a" or "b" == os_name and os_name != "c"` builds, its atoms are good -/
example : (build 10 (.group [.atom true "os_name" "==" "a", .or_, .atom false "b" "==" "os_name", .and_,
    .atom true "os_name" "!=" "c"])).isSome = true := by decide

end C03
end DepLogic
