import DepLogic.Model.Tags
import DepLogic.Properties.C05
import DepLogic.Properties.C04
/-
  C08 — wheel python/ABI compatibility = some Python in requires_python can load it.

  `evalPyCore_iff` : the branchy code equals the declarative rule "gates pass, the tag denotes a
  version range `w`, and `w & requires_python` is not reported empty";
  `compatible_of_exists` : if some version admitted by requires_python lies in the wheel's range
  the wheel is accepted (no false rejection), from C01/C05;
  `exists_of_compatible` : conversely an accepted wheel has a canonical, non-empty intersection
  (on a dense version line: an actual common version, C05.isEmpty_exact);
  `score_shape` : the first three score components are (major, minor or 0, native 2 / abi3 1 / none 0).
  `wheelSpec_reads` : the range the tag pair denotes admits a final interpreter version exactly
  when PEP 425's reading of the tag does (`cpXY`: release starts with X.Y; `pyXY`: same major and
  at least X.Y; `pyX`/`cpX`: release starts with X; abi3: at least X.Y) — through C04's leaf
  theorem for `>=` and `==V.*` and C01.
-/
namespace DepLogic
namespace C08
open Spec

/-- implementation / ABI gates of the statement -/
def gate (impl : Option Impl) (t : PyAbi) : Bool :=
  (match impl with | some i => t.impl == i.short || t.impl == "py" | none => true) &&
  (if t.abiImpl == "abi3" then
     t.impl == "cp" && (match impl with | none => true | some i => !i.gilDisabled)
   else
     t.abiImpl == "none" || abiGate impl t)

/-- what the ABI gate of the code means (fix for D28): the ABI tag is the python tag followed by flag characters
    that do not begin with a digit — `cp31` does not fit `cp310` — and, when the implementation is known,
    `t` occurs among the flags exactly for a free-threaded build -/
theorem abiGate_iff (impl : Option Impl) (t : PyAbi) :
    abiGate impl t = true ↔
      ∃ flags : List Char, t.abiImpl.toList = t.pyLower.toList ++ flags ∧
        (∀ c, flags.head? = some c → c.isDigit = false) ∧
        (∀ i, impl = some i → flags.contains 't' = i.gilDisabled) := by
  unfold abiGate abiFlags
  constructor
  · intro h
    simp only [Bool.and_eq_true, Bool.not_eq_true'] at h
    obtain ⟨⟨hp, hd⟩, hg⟩ := h
    have hpre := List.isPrefixOf_iff_prefix.1 hp
    obtain ⟨fl, hfl⟩ := hpre
    refine ⟨fl, hfl.symm, ?_, ?_⟩
    · intro c hc
      rw [← hfl, List.drop_left] at hd
      rw [hc] at hd; exact hd
    · intro i hi
      subst hi
      rw [← hfl, List.drop_left] at hg
      simpa using hg
  · rintro ⟨fl, hfl, hd, hg⟩
    simp only [Bool.and_eq_true, Bool.not_eq_true']
    rw [hfl, List.drop_left]
    refine ⟨⟨List.isPrefixOf_iff_prefix.2 ⟨fl, rfl⟩, ?_⟩, ?_⟩
    · cases hh : fl.head? with
      | none => rfl
      | some c => exact hd c hh
    · cases impl with
      | none => rfl
      | some i => simpa using hg i rfl

/-- the inputs of defect D28, evaluated in the kernel: `cp31` does not fit the ABI `cp310`, and the free-threaded debug
    ABI `cp313td` fits `cp313` -/
example : abiGate none { impl := "cp", major := "3", minor := "1", abiImpl := "cp310", pyLower := "cp31" } = false := by decide
example : abiGate none { impl := "cp", major := "3", minor := "13", abiImpl := "cp313td", pyLower := "cp313" } = true := by decide
example : abiGate none { impl := "pp", major := "3", minor := "2", abiImpl := "pp320", pyLower := "pp32" } = false := by decide

/-- the interpreter versions the (python tag, abi tag) pair can run on, as a specifier -/
def wheelSpec (t : PyAbi) : Option (Spec Ver) :=
  if t.abiImpl == "abi3" then abi3Range t else wheelRange t

/-- the code is the rule: compatible ⇔ gates ∧ the tag denotes a range ∧ the intersection
    with requires_python is not (reported) empty -/
theorem evalPyCore_iff (rp : Spec Ver) (impl : Option Impl) (t : PyAbi) :
    (evalPyCore rp impl t).isSome = true ↔
      (gate impl t = true ∧ ∃ w, wheelSpec t = some w ∧ (w.and rp).isEmpty = false) := by
  unfold evalPyCore gate wheelSpec
  cases impl <;> simp only [] <;> (repeat' split) <;> simp_all <;> grind

/-- no false rejection: a version admitted by requires_python inside the wheel's range makes it compatible -/
theorem compatible_of_exists (rp : Spec Ver) (impl : Option Impl) (t : PyAbi) (w : Spec Ver)
    (hg : gate impl t = true) (hw : wheelSpec t = some w) (v : Ver) (h1 : w.mem v) (h2 : rp.mem v) :
    (evalPyCore rp impl t).isSome = true := by
  rw [evalPyCore_iff]
  refine ⟨hg, w, hw, ?_⟩
  cases he : (w.and rp).isEmpty with
  | false => rfl
  | true => exact absurd ⟨v, h1, h2⟩ (C05.isEmpty_sound w rp he)

/-- no false acceptance, structurally: a compatible wheel has a non-empty intersection; on a dense
    version line that is an actual common version -/
theorem exists_of_compatible {α : Type} [LinPre α] [C05.DenseUnbounded α] (w rp : Spec α)
    (hw : Canon w) (hrp : Canon rp) (h : (w.and rp).isEmpty = false) : ∃ v, w.mem v ∧ rp.mem v := by
  obtain ⟨v, hv⟩ := C05.canon_nonempty _ (and_canon w rp hw hrp) h
  exact ⟨v, (Spec.and_mem w rp v).1 hv⟩

/-- the same without density, over cuts (PEP 440 included): an accepted wheel's range and
    requires_python share a position at / just below / just above a bound -/
theorem exists_cut_of_compatible {α : Type} [LinPre α] (a0 : α) (w rp : Spec α)
    (hw : Canon w) (hrp : Canon rp) (h : (w.and rp).isEmpty = false) : ∃ x s, w.memC x s ∧ rp.memC x s := by
  apply Classical.byContradiction
  intro hne
  have hall : ∀ x s, ¬ (w.and rp).memC x s := by
    intro x s hm
    exact hne ⟨x, s, (Spec.and_memC w rp x s).1 hm⟩
  have := (C05.isEmpty_exact_cuts a0 _ (and_canon w rp hw hrp)).2 hall
  rw [h] at this; cases this

/-- score: (major, minor or 0, native 2 > abi3 1 > none 0) -/
theorem score_shape (rp : Spec Ver) (impl : Option Impl) (t : PyAbi) (s : Nat × Nat × Nat)
    (h : evalPyCore rp impl t = some s) :
    s.1 = (digitsToNat? t.major).getD 0 ∧ s.2.1 = (digitsToNat? t.minor).getD 0 ∧
    s.2.2 = (if t.abiImpl == "abi3" then 1 else if t.abiImpl == "none" then 0 else 2) := by
  unfold evalPyCore at h
  repeat' split at h
  all_goals simp_all [pyScore]
  all_goals grind

/-- PEP 425's reading of a (python tag, abi tag) pair on a final interpreter version -/
def tagAdmits (t : PyAbi) (v : Ver) : Option Bool :=
  if t.abiImpl == "abi3" then
    (verOf t.major t.minor (some 0)).map fun rel => decide (LinPre.le ({ release := rel } : Ver) v)
  else if !t.major.isEmpty && !t.minor.isEmpty && t.impl == "py" then
    match verOf t.major t.minor none, digitsToNat? t.major with
    | some rel, some M => some (decide (LinPre.le ({ release := rel } : Ver) v) && Pep440.wildMatch { release := [M] } v)
    | _, _ => none
  else if !t.major.isEmpty && !t.minor.isEmpty then
    (verOf t.major t.minor none).map fun rel => Pep440.wildMatch { release := rel } v
  else
    (digitsToNat? t.major).map fun M => Pep440.wildMatch { release := [M] } v

theorem any_and_mem (s : Spec Ver) (v : Ver) : ((Spec.range {}).and s).mem v ↔ s.mem v := by
  rw [Spec.and_mem]; simp [Spec.mem, Range.mem]

/-- the specifier built for the tag pair admits exactly the final versions PEP 425 says it runs on -/
theorem wheelSpec_reads (t : PyAbi) (w : Spec Ver) (h : wheelSpec t = some w) (v : Ver) (hv : v.isFinal = true) :
    ∃ b, tagAdmits t v = some b ∧ (b = true ↔ w.mem v) := by
  have ge_leaf : ∀ (p : Ver) (s : Spec Ver), fromClause ⟨.ge, p, false⟩ = some s →
      (decide (LinPre.le p v) = true ↔ s.mem v) :=
    fun p s hs => C04.leaf_exact ⟨.ge, p, false⟩ v hv s _ hs rfl
  have wild_leaf : ∀ (p : Ver) (s : Spec Ver), fromClause ⟨.eq, p, true⟩ = some s →
      (Pep440.wildMatch p v = true ↔ s.mem v) :=
    fun p s hs => C04.leaf_exact ⟨.eq, p, true⟩ v hv s _ hs rfl
  unfold wheelSpec at h
  unfold tagAdmits
  split at h
  · rename_i habi
    simp only [habi, if_true]
    simp only [abi3Range, Option.bind_eq_some_iff, Option.map_eq_some_iff] at h
    obtain ⟨rel, hrel, s, hs, rfl⟩ := h
    exact ⟨decide (LinPre.le ({ release := rel } : Ver) v), by simp [hrel], by rw [any_and_mem]; exact ge_leaf _ s hs⟩
  · rename_i habi
    simp only [habi, Bool.false_eq_true, if_false]
    unfold wheelRange at h
    split at h
    · rename_i hc
      simp only [hc, if_true]
      split at h
      · rename_i rel M hrel hM
        simp only [Option.bind_eq_some_iff, Option.map_eq_some_iff] at h
        obtain ⟨a, ha, b, hb, rfl⟩ := h
        refine ⟨decide (LinPre.le ({ release := rel } : Ver) v) && Pep440.wildMatch { release := [M] } v, by simp [hrel, hM], ?_⟩
        rw [Spec.and_mem, any_and_mem, any_and_mem, Bool.and_eq_true, ge_leaf _ a ha, wild_leaf _ b hb]
      · simp at h
    · rename_i hc
      simp only [hc, Bool.false_eq_true, if_false]
      split at h
      · rename_i hc2
        simp only [hc2, if_true]
        simp only [Option.bind_eq_some_iff, Option.map_eq_some_iff] at h
        obtain ⟨rel, hrel, a, ha, rfl⟩ := h
        exact ⟨Pep440.wildMatch { release := rel } v, by simp [hrel], by rw [any_and_mem]; exact wild_leaf _ a ha⟩
      · rename_i hc2
        simp only [hc2, Bool.false_eq_true, if_false]
        simp only [Option.bind_eq_some_iff, Option.map_eq_some_iff] at h
        obtain ⟨M, hM, a, ha, rfl⟩ := h
        exact ⟨Pep440.wildMatch { release := [M] } v, by simp [hM], by rw [any_and_mem]; exact wild_leaf _ a ha⟩

/-- non-vacuity: `py36-none` under `>=3.8` is compatible (the repaired defect D16) -/
example : evalPyCore (.range { min := some { release := [3, 8] }, incMin := true }) none
    { impl := "py", major := "3", minor := "6", abiImpl := "none", pyLower := "py36" } = some (3, 6, 0) := by
  decide

end C08
end DepLogic
