import DepLogic.Model.Tags
import DepLogic.Properties.C05
/-
  C08 — wheel python/ABI compatibility = some Python in requires_python can load it.

  `evalPyCore_iff` : the branchy code equals the declarative rule "gates pass, the tag denotes a
  version range `w`, and `w & requires_python` is not reported empty";
  `compatible_of_exists` : if some version admitted by requires_python lies in the wheel's range
  the wheel is accepted (no false rejection), from C01/C05;
  `exists_of_compatible` : conversely an accepted wheel has a canonical, non-empty intersection
  (on a dense version line: an actual common version, C05.isEmpty_exact);
  `score_shape` : the first three score components are (major, minor or 0, native 2 / abi3 1 / none 0).
  The reading of the wheel range as "major.minor = X.Y" is the wildcard lemma shared with C04
  (differentially checked; proof pending, see DESIGN.md).
-/
namespace DepLogic
namespace C08
open Spec

/-- implementation / ABI gates of the statement -/
def gate (impl : Option Impl) (t : PyAbi) : Bool :=
  (match impl with | some i => t.impl == i.short || t.impl == "py" | none => true) &&
  (if t.abiImpl == "abi3" then
     t.impl == "cp" && (match impl with | none => true | some i => !i.gilDisabled)
   else
     t.abiImpl == "none" ||
       (t.abiImpl.startsWith t.pyLower &&
        (match impl with | some i => (t.abiImpl.endsWith "t") == i.gilDisabled | none => true)))

/-- the interpreter versions the (python tag, abi tag) pair can run on, as a specifier -/
def wheelSpec (t : PyAbi) : Option (Spec Ver) :=
  if t.abiImpl == "abi3" then abi3Range t else wheelRange t

/-- the code is the rule: compatible ⇔ gates ∧ the tag denotes a range ∧ the intersection
    with requires_python is not (reported) empty -/
theorem evalPyCore_iff (rp : Spec Ver) (impl : Option Impl) (t : PyAbi) :
    (evalPyCore rp impl t).isSome = true ↔
      (gate impl t = true ∧ ∃ w, wheelSpec t = some w ∧ (w.and rp).isEmpty = false) := by
  unfold evalPyCore gate wheelSpec
  cases impl <;> simp only [] <;> (repeat' split) <;> simp_all <;> grind

/-- no false rejection: a version admitted by requires_python inside the wheel's range makes it compatible -/
theorem compatible_of_exists (rp : Spec Ver) (impl : Option Impl) (t : PyAbi) (w : Spec Ver)
    (hg : gate impl t = true) (hw : wheelSpec t = some w) (v : Ver) (h1 : w.mem v) (h2 : rp.mem v) :
    (evalPyCore rp impl t).isSome = true := by
  rw [evalPyCore_iff]
  refine ⟨hg, w, hw, ?_⟩
  cases he : (w.and rp).isEmpty with
  | false => rfl
  | true => exact absurd ⟨v, h1, h2⟩ (C05.isEmpty_sound w rp he)

/-- no false acceptance, structurally: a compatible wheel has a non-empty intersection; on a dense
    version line that is an actual common version -/
theorem exists_of_compatible {α : Type} [LinPre α] [C05.DenseUnbounded α] (w rp : Spec α)
    (hw : Canon w) (hrp : Canon rp) (h : (w.and rp).isEmpty = false) : ∃ v, w.mem v ∧ rp.mem v := by
  obtain ⟨v, hv⟩ := C05.canon_nonempty _ (and_canon w rp hw hrp) h
  exact ⟨v, (Spec.and_mem w rp v).1 hv⟩

/-- score: (major, minor or 0, native 2 > abi3 1 > none 0) -/
theorem score_shape (rp : Spec Ver) (impl : Option Impl) (t : PyAbi) (s : Nat × Nat × Nat)
    (h : evalPyCore rp impl t = some s) :
    s.1 = (digitsToNat? t.major).getD 0 ∧ s.2.1 = (digitsToNat? t.minor).getD 0 ∧
    s.2.2 = (if t.abiImpl == "abi3" then 1 else if t.abiImpl == "none" then 0 else 2) := by
  unfold evalPyCore at h
  repeat' split at h
  all_goals simp_all [pyScore]
  all_goals grind

/-- non-vacuity: `py36-none` under `>=3.8` is compatible (the repaired defect D16) -/
example : evalPyCore (.range { min := some { release := [3, 8] }, incMin := true }) none
    { impl := "py", major := "3", minor := "6", abiImpl := "none", pyLower := "py36" } = some (3, 6, 0) := by
  decide

end C08
end DepLogic
