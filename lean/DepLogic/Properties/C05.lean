import DepLogic.Properties.C01
/-
  C05 — Specifier results are canonical: `==`, `is_empty()`, `is_any()` are exact.

  T1 (any linear preorder): results are in the canonical shape; `is_empty()`/`is_any()`
      are sound.
  T2 (dense linear preorder without endpoints = "membership read structurally from the
      bounds"): they are also complete.
  The PEP 440 order itself is *not* dense (`1.0` and `1.0.post0.dev0` are neighbours), so
  the completeness direction genuinely fails on gap ranges – see `gap_counterexample`.
-/
namespace DepLogic
namespace C05
open Spec LinPre
variable {α : Type} [LinPre α]

/-- shape: every reachable specifier is empty, universal, one non-degenerate range, or
    ≥ 2 ascending, pairwise separated, non-degenerate ranges -/
theorem results_canonical {Leaf : Spec α → Prop} (hleaf : ∀ s, Leaf s → Canon s) {s : Spec α}
    (h : C01.Reach Leaf s) : Canon s := C01.reach_canon hleaf h

/-- in a canonical union no member range is universal -/
theorem union_no_universal (rs : List (Range α)) (t) (h : Canon (.union rs t)) :
    ∀ r ∈ rs, r.isAny = false := by
  intro r hr
  obtain ⟨hlen, _, hp⟩ := h
  match rs, hlen, hp, hr with
  | a :: b :: rest, _, hp, hr =>
    have hp' := List.pairwise_cons.1 hp
    simp only [List.mem_cons] at hr
    rcases hr with rfl | hr
    · have := (sep_max_isSome r b (hp'.1 b (by simp))).1
      cases hm : r.max <;> simp [hm] at this
      simp [Range.isAny, hm]
    · have : (r.min).isSome := by
        have h1 : sep a r := hp'.1 r (by simpa using hr)
        exact (sep_max_isSome a r h1).2
      cases hm : r.min <;> simp [hm] at this
      simp [Range.isAny, hm]

/-- soundness of `is_empty()` on `a & b` -/
theorem isEmpty_sound (a b : Spec α) (h : (a.and b).isEmpty = true) :
    ¬ ∃ v, a.mem v ∧ b.mem v := by
  rintro ⟨v, hv⟩
  have := (Spec.and_mem a b v).2 hv
  cases hab : a.and b <;> simp [hab, isEmpty] at h
  simp [hab, mem] at this

/-- soundness of `is_any()` on `a | b` -/
theorem isAny_sound (a b r : Spec α) (ha : Canon a) (hb : Canon b) (hr : a.or b = some r)
    (h : r.isAny = true) : ∀ v, a.mem v ∨ b.mem v := by
  intro v
  obtain ⟨r', h1, _, h3⟩ := or_spec a b ha hb
  rw [hr] at h1; cases h1
  apply (h3 v).1
  cases r with
  | empty => simp [isAny] at h
  | any => simp [mem]
  | range x => exact isAny_mem x h v
  | union _ _ => simp [isAny] at h

/-! ### completeness in dense orders without endpoints -/

class DenseUnbounded (α : Type) [LinPre α] : Prop where
  dense : ∀ a b : α, lt a b → ∃ c, lt a c ∧ lt c b
  noMin : ∀ a : α, ∃ c, lt c a
  noMax : ∀ a : α, ∃ c, lt a c
  ne : Nonempty α

theorem range_nonempty [DenseUnbounded α] (r : Range α) (h : r.WF) : ∃ v, r.mem v := by
  have tot := @LinPre.le_total α _
  have rf := @LinPre.le_refl α _
  rcases r with ⟨mn, mx, i, a, t⟩
  cases mn with
  | none =>
    cases mx with
    | none =>
      obtain ⟨c⟩ := (DenseUnbounded.ne : Nonempty α)
      exact ⟨c, by simp [Range.mem]⟩
    | some b =>
      obtain ⟨c, hc⟩ := DenseUnbounded.noMin b
      exact ⟨c, by simp [Range.mem]; exact Or.inl hc⟩
  | some x =>
    cases mx with
    | none =>
      obtain ⟨c, hc⟩ := DenseUnbounded.noMax x
      exact ⟨c, by simp [Range.mem]; exact Or.inl hc⟩
    | some y =>
      simp [Range.WF, Range.ctorOk] at h
      rcases h with h | ⟨h1, h2, h3⟩
      · obtain ⟨c, hc1, hc2⟩ := DenseUnbounded.dense x y h
        exact ⟨c, by simp [Range.mem]; exact ⟨Or.inl hc1, Or.inl hc2⟩⟩
      · exact ⟨x, by simp [Range.mem, h2, h3]; exact ⟨Or.inr (rf x), Or.inr h1⟩⟩


theorem canon_nonempty [DenseUnbounded α] (s : Spec α) (h : Canon s) (hne : s.isEmpty = false) :
    ∃ v, s.mem v := by
  cases s with
  | empty => simp [isEmpty] at hne
  | any => obtain ⟨c⟩ := (DenseUnbounded.ne : Nonempty α); exact ⟨c, trivial⟩
  | range r => exact range_nonempty r h
  | union rs t =>
    match rs, h with
    | [], h => exact absurd h.1 (by simp)
    | r :: rest, h =>
      obtain ⟨v, hv⟩ := range_nonempty r (h.2.1 r (by simp))
      exact ⟨v, r, by simp, hv⟩

/-- `(a & b).is_empty()` is true exactly when no version satisfies both -/
theorem isEmpty_exact [DenseUnbounded α] (a b : Spec α) (ha : Canon a) (hb : Canon b) :
    (a.and b).isEmpty = true ↔ ¬ ∃ v, a.mem v ∧ b.mem v := by
  constructor
  · exact isEmpty_sound a b
  · intro h
    cases he : (a.and b).isEmpty with
    | true => rfl
    | false =>
      obtain ⟨v, hv⟩ := canon_nonempty _ (and_canon a b ha hb) he
      exact absurd ⟨v, (Spec.and_mem a b v).1 hv⟩ h

theorem invert_not_empty (s : Spec α) (h : Canon s) (hna : s.isAny = false) :
    (s.invert).isEmpty = false := by
  cases s with
  | empty => rfl
  | any => simp [isAny] at hna
  | range r =>
    rcases r with ⟨mn, mx, i, a, t⟩
    cases mn <;> cases mx <;> simp [isAny, Range.isAny] at hna <;> simp [invert, invertRange, isEmpty]
  | union rs t =>
    match rs, h with
    | [], h => exact absurd h.1 (by simp)
    | [_], h => exact absurd h.1 (by simp)
    | a :: b :: rest, _ =>
      simp only [invert, invertUnion, fromRanges_isEmpty]
      simp [gaps]

/-- a canonical specifier that does not report `is_any()` misses some version -/
theorem canon_not_any_misses [DenseUnbounded α] (s : Spec α) (h : Canon s) (hna : s.isAny = false) :
    ∃ v, ¬ s.mem v := by
  obtain ⟨v, hv⟩ := canon_nonempty _ (invert_canon s h) (invert_not_empty s h hna)
  exact ⟨v, (invert_mem s h v).1 hv⟩

/-- `(a | b).is_any()` is true exactly when every version satisfies one of them -/
theorem isAny_exact [DenseUnbounded α] (a b r : Spec α) (ha : Canon a) (hb : Canon b)
    (hr : a.or b = some r) : r.isAny = true ↔ ∀ v, a.mem v ∨ b.mem v := by
  constructor
  · exact isAny_sound a b r ha hb hr
  · intro h
    obtain ⟨r', h1, h2, h3⟩ := or_spec a b ha hb
    rw [hr] at h1; cases h1
    cases he : r.isAny with
    | true => rfl
    | false =>
      obtain ⟨v, hv⟩ := canon_not_any_misses r h2 he
      exact absurd ((h3 v).2 (h v)) hv

end C05
end DepLogic
