import DepLogic.Properties.C01
import DepLogic.Proofs.CutAlgebra
/-
  C05 — Specifier results are canonical: `==`, `is_empty()`, `is_any()` are exact.

  T1 (any linear preorder): results are in the canonical shape; `is_empty()`/`is_any()`
      are sound.
  T2 (dense linear preorder without endpoints = "membership read structurally from the
      bounds"): they are also complete.
  The PEP 440 order itself is *not* dense (`1.0` and `1.0.post0.dev0` are neighbours), so
  the completeness direction genuinely fails on gap ranges – known finding G1.
  T3 (ANY linear preorder, PEP 440 included): read over CUTS — the positions at, just below and
      just above a bound, which is what "membership read structurally from the bounds" means
      when the order has neighbours — `==`, `is_empty()` and `is_any()` are exact:
      `eq_exact`, `isEmpty_exact_cuts`, `isAny_exact_cuts`.  The point `v` is the cut `(v, 1)`
      (`cut_point`), so equal objects admit the same versions (`eq_sound`); the converse for
      versions alone is exactly what G1 refutes.
-/
namespace DepLogic
namespace C05
open Spec LinPre
variable {α : Type} [LinPre α]

/-- shape: every reachable specifier is empty, universal, one non-degenerate range, or
    ≥ 2 ascending, pairwise separated, non-degenerate ranges -/
theorem results_canonical {Leaf : Spec α → Prop} (hleaf : ∀ s, Leaf s → Canon s) {s : Spec α}
    (h : C01.Reach Leaf s) : Canon s := C01.reach_canon hleaf h

/-- in a canonical union no member range is universal -/
theorem union_no_universal (rs : List (Range α)) (t) (h : Canon (.union rs t)) :
    ∀ r ∈ rs, r.isAny = false := by
  intro r hr
  obtain ⟨hlen, _, hp⟩ := h
  match rs, hlen, hp, hr with
  | a :: b :: rest, _, hp, hr =>
    have hp' := List.pairwise_cons.1 hp
    simp only [List.mem_cons] at hr
    rcases hr with rfl | hr
    · have := (sep_max_isSome r b (hp'.1 b (by simp))).1
      cases hm : r.max <;> simp [hm] at this
      simp [Range.isAny, hm]
    · have : (r.min).isSome := by
        have h1 : sep a r := hp'.1 r (by simpa using hr)
        exact (sep_max_isSome a r h1).2
      cases hm : r.min <;> simp [hm] at this
      simp [Range.isAny, hm]

/-- soundness of `is_empty()` on `a & b` -/
theorem isEmpty_sound (a b : Spec α) (h : (a.and b).isEmpty = true) :
    ¬ ∃ v, a.mem v ∧ b.mem v := by
  rintro ⟨v, hv⟩
  have := (Spec.and_mem a b v).2 hv
  cases hab : a.and b <;> simp [hab, isEmpty] at h
  simp [hab, mem] at this

/-- soundness of `is_any()` on `a | b` -/
theorem isAny_sound (a b r : Spec α) (ha : Canon a) (hb : Canon b) (hr : a.or b = some r)
    (h : r.isAny = true) : ∀ v, a.mem v ∨ b.mem v := by
  intro v
  obtain ⟨r', h1, _, h3⟩ := or_spec a b ha hb
  rw [hr] at h1; cases h1
  apply (h3 v).1
  cases r with
  | empty => simp [isAny] at h
  | any => simp [mem]
  | range x => exact isAny_mem x h v
  | union _ _ => simp [isAny] at h

/-! ### completeness in dense orders without endpoints -/

class DenseUnbounded (α : Type) [LinPre α] : Prop where
  dense : ∀ a b : α, lt a b → ∃ c, lt a c ∧ lt c b
  noMin : ∀ a : α, ∃ c, lt c a
  noMax : ∀ a : α, ∃ c, lt a c
  ne : Nonempty α

theorem range_nonempty [DenseUnbounded α] (r : Range α) (h : r.WF) : ∃ v, r.mem v := by
  have tot := @LinPre.le_total α _
  have rf := @LinPre.le_refl α _
  rcases r with ⟨mn, mx, i, a, t⟩
  cases mn with
  | none =>
    cases mx with
    | none =>
      obtain ⟨c⟩ := (DenseUnbounded.ne : Nonempty α)
      exact ⟨c, by simp [Range.mem]⟩
    | some b =>
      obtain ⟨c, hc⟩ := DenseUnbounded.noMin b
      exact ⟨c, by simp [Range.mem]; exact Or.inl hc⟩
  | some x =>
    cases mx with
    | none =>
      obtain ⟨c, hc⟩ := DenseUnbounded.noMax x
      exact ⟨c, by simp [Range.mem]; exact Or.inl hc⟩
    | some y =>
      simp [Range.WF, Range.ctorOk] at h
      rcases h with h | ⟨h1, h2, h3⟩
      · obtain ⟨c, hc1, hc2⟩ := DenseUnbounded.dense x y h
        exact ⟨c, by simp [Range.mem]; exact ⟨Or.inl hc1, Or.inl hc2⟩⟩
      · exact ⟨x, by simp [Range.mem, h2, h3]; exact ⟨Or.inr (rf x), Or.inr h1⟩⟩


theorem canon_nonempty [DenseUnbounded α] (s : Spec α) (h : Canon s) (hne : s.isEmpty = false) :
    ∃ v, s.mem v := by
  cases s with
  | empty => simp [isEmpty] at hne
  | any => obtain ⟨c⟩ := (DenseUnbounded.ne : Nonempty α); exact ⟨c, trivial⟩
  | range r => exact range_nonempty r h
  | union rs t =>
    match rs, h with
    | [], h => exact absurd h.1 (by simp)
    | r :: rest, h =>
      obtain ⟨v, hv⟩ := range_nonempty r (h.2.1 r (by simp))
      exact ⟨v, r, by simp, hv⟩

/-- `(a & b).is_empty()` is true exactly when no version satisfies both -/
theorem isEmpty_exact [DenseUnbounded α] (a b : Spec α) (ha : Canon a) (hb : Canon b) :
    (a.and b).isEmpty = true ↔ ¬ ∃ v, a.mem v ∧ b.mem v := by
  constructor
  · exact isEmpty_sound a b
  · intro h
    cases he : (a.and b).isEmpty with
    | true => rfl
    | false =>
      obtain ⟨v, hv⟩ := canon_nonempty _ (and_canon a b ha hb) he
      exact absurd ⟨v, (Spec.and_mem a b v).1 hv⟩ h

theorem invert_not_empty (s : Spec α) (h : Canon s) (hna : s.isAny = false) :
    (s.invert).isEmpty = false := by
  cases s with
  | empty => rfl
  | any => simp [isAny] at hna
  | range r =>
    rcases r with ⟨mn, mx, i, a, t⟩
    cases mn <;> cases mx <;> simp [isAny, Range.isAny] at hna <;> simp [invert, invertRange, isEmpty]
  | union rs t =>
    match rs, h with
    | [], h => exact absurd h.1 (by simp)
    | [_], h => exact absurd h.1 (by simp)
    | a :: b :: rest, _ =>
      simp only [invert, invertUnion, fromRanges_isEmpty]
      simp [gaps]

/-- a canonical specifier that does not report `is_any()` misses some version -/
theorem canon_not_any_misses [DenseUnbounded α] (s : Spec α) (h : Canon s) (hna : s.isAny = false) :
    ∃ v, ¬ s.mem v := by
  obtain ⟨v, hv⟩ := canon_nonempty _ (invert_canon s h) (invert_not_empty s h hna)
  exact ⟨v, (invert_mem s h v).1 hv⟩

/-- `(a | b).is_any()` is true exactly when every version satisfies one of them -/
theorem isAny_exact [DenseUnbounded α] (a b r : Spec α) (ha : Canon a) (hb : Canon b)
    (hr : a.or b = some r) : r.isAny = true ↔ ∀ v, a.mem v ∨ b.mem v := by
  constructor
  · exact isAny_sound a b r ha hb hr
  · intro h
    obtain ⟨r', h1, h2, h3⟩ := or_spec a b ha hb
    rw [hr] at h1; cases h1
    cases he : r.isAny with
    | true => rfl
    | false =>
      obtain ⟨v, hv⟩ := canon_not_any_misses r h2 he
      exact absurd ((h3 v).2 (h v)) hv

/-! ### T3: exactness over cuts, for every linear preorder -/

/-- the version `v` is the cut at side 1 -/
theorem cut_point (a : Spec α) (v : α) : a.memC v 1 ↔ a.mem v := memC_point a v

/-- `==` between results is exactly "denote the same set of cuts" -/
theorem eq_exact (a0 : α) (a b : Spec α) (ha : Canon a) (hb : Canon b) :
    a.beq b = true ↔ ∀ x s, a.memC x s ↔ b.memC x s := beq_iff_memC a0 a b ha hb

/-- equal objects admit the same versions -/
theorem eq_sound (a b : Spec α) (h : a.beq b = true) (v : α) : a.mem v ↔ b.mem v := by
  rw [← cut_point, ← cut_point]; exact memC_of_beq a b h v 1

/-- `is_empty()` holds exactly of results that denote no cut -/
theorem isEmpty_exact_cuts (a0 : α) (a : Spec α) (ha : Canon a) :
    a.isEmpty = true ↔ ∀ x s, ¬ a.memC x s := by
  constructor
  · intro h x s; cases a <;> simp [isEmpty] at h; simp [memC, mem]
  · intro h
    have := canon_unique a0 a .empty ha trivial (fun x s => ⟨fun hm => absurd hm (h x s), fun hm => by simp [memC, mem] at hm⟩)
    cases a <;> simp [Spec.beq, isEmpty, isAny] at this ⊢

/-- `is_any()` holds exactly of results that denote every cut -/
theorem isAny_exact_cuts (a0 : α) (a : Spec α) (ha : Canon a) :
    a.isAny = true ↔ ∀ x s, a.memC x s := by
  constructor
  · intro h x s
    cases a with
    | any => exact memC_any x s
    | range r => exact memC_isAny r h x s
    | empty => simp [isAny] at h
    | union _ _ => simp [isAny] at h
  · intro h
    have := canon_unique a0 .any a trivial ha (fun x s => ⟨fun _ => h x s, fun _ => memC_any x s⟩)
    simpa [Spec.beq] using this

/-- the G1 shape at PEP 440 versions: `(1.0, 1.0.post0.dev0)` admits no version although it is a
    non-degenerate range; over cuts it is not empty (the cut just above `1.0` is in it) — which is
    why the object is not `EmptySpecifier()` -/
example : let g : Spec Ver := .range { min := some { release := [1, 0] },
                                       max := some { release := [1, 0], post := some 0, dev := some 0 } }
    Canon g ∧ g.memC { release := [1, 0] } 2 ∧ g.isEmpty = false := by
  refine ⟨by decide, ?_, rfl⟩
  rw [memC_range]; simp only [Range.memC, Range.lowOK, Range.upOK]; decide

end C05
end DepLogic
